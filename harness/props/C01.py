"""C01 — only datagrams authenticated under the session key can affect a connection.

Correspondence: the Conn.v model (unit conn_run) replays, event by event with full private
state snapshots, every history of the REAL endpoints (UdpClient + ClientServerConnection,
ServerClientConnection + ServerContext) including every injected forgery; the symbolic notion
`authentic` is compared with the real AES-GCM (unit recv_auth); the byte-level
Wire.from_bytes / decode_header are compared with Packet.from_bytes / PacketHeader.from_bytes
on the attack datagrams themselves (units sealed_slices, sealed_parse, hdr_dec, prekey_gate).

Oracle (implementation only, independent of the Coq text): a deep snapshot of the whole endpoint
object graph (every attribute of the connection, its stats, callbacks, fragment contexts, the
server context with its pools and the handler's event log, the client with its socket) taken
before and after each injected datagram must be equal except stats.dropped (+1), the call
must return False, nothing may reach the application; a session with injected forgeries must
end in the same state and with the same deliveries / callbacks as its twin without them.
Server loop (harness/srvx.py, every front door): twin worlds with forgeries next to genuine datagrams (server_loop_forgeries), and
silent-victim twin worlds (server_loop_silent_victims): a peer that stopped sending, with keyless forgeries from its address in every
tick / every other tick / in bursts / around the deadline, must be dropped by the loop's time-out scan at exactly the twin's tick
(liveness as the application sees it: EventHandler.disconnect, pool membership); both also replayed on Server.v (srv_run)."""
import struct, binascii, collections, inspect, logging, random, enum, types
from harness import lib
from harness import connsim as S
from harness import netsim as N

RULE = ("attack datagrams injected at sampled points of lossy/duplicating/reordering sessions and of real "
        "handshakes, towards both endpoints: forged plaintext (valid CRC) for every packet type x count in "
        "{0,1,2,3,255} x inner type vectors; for genuine datagrams (delivered, in flight and lost ones) every "
        "single-bit flip (quick: 160 header bits + 64 sampled), every truncation, extensions, rewrites of every "
        "header field, wrong-key re-seal, random bytes; non-trivial = (attack class, packet type, count, inner "
        "types, endpoint, endpoint has key / status, pending acks present)")
ASSUMPTIONS = [
    "AES-GCM integrity and injectivity of seal in (key, nonce, aad, plaintext) — explicit premises of the C01_bytes_* theorems; "
    "sampled here with the real library (every bit flip / wrong key rejected), not proved",
    "a genuine datagram with bytes appended still opens under the key and counts as that genuine datagram "
    "(Packet.from_bytes ignores bytes beyond 20+length+16); the theorem calls it authentic",
]
TRUSTED = ["harness/connsim.py abstract()/concrete(): translation between real bytes and symbolic datagrams using the real AESGCM",
           "harness/srvx.py ScriptedSocket: stands for the OS socket under _UdpServer.run (recvfrom returns a fresh bytes object, the *_into "
           "calls write into the caller's buffer); a real localhost socket is not used"]
LOOP_RULE = ("server-loop twin worlds (harness/srvx.py): 2 real UdpClients around the real UdpServerThread behind each front door "
             "(TwistedServer.datagramReceived with a fresh thread / with the thread TwistedServer and ThreadedServer build themselves / the socket "
             "loop _UdpServer.run on a scripted socket); in the attacked world every genuine datagram of the tick's victim may get forgeries made "
             "from it without the key (same length+count under any header, re-typed, seq/ack rewritten, bit-flipped, truncated, valid-CRC plaintext, "
             "wrong key, random body) directly before / after / around it in the SAME tick from the SAME address, the victim's datagrams being the "
             "last of the tick; the twin has the same seed and no forgeries; handlers raise in some worlds; non-trivial = twin pair with at least "
             "one same-length forgery directly before its genuine datagram")

T = S.TICKS
RING = 65535
TYPES = {0: "UNKNOWN", 1: "CLIENT_HELLO", 2: "SERVER_HELLO", 3: "CHALLENGE_RESP", 4: "KEEP_ALIVE",
         5: "DISCONNECT", 6: "APP", 7: "APP_FRAGMENT"}


STATUS = {1: "CONNECTING", 2: "CONNECTED", 3: "DISCONNECTING", 4: "DISCONNECTED", 5: "DROPPED"}


def wire(n):
    return (n - 1) % RING + 1


# ------------------------------------------------------------------ deep snapshot (oracle side)

OPAQUE = ("Logger", "PeerLogger", "LoggerAdapter", "lock", "RLock", "Condition", "EllipticCurvePrivateKey",
          "EllipticCurvePublicKey", "module", "Impl", "Keys", "Endpoint", "Clock")
SKIP_ATTR = {"log", "access_log"}


STABLE = [False]     # True: no object identities in the snapshot (comparison across two sessions)


_NUM = {int, float}


def deep(o, seen):
    t = type(o)
    if o is None or t is int or t is str or t is bool or t is bytes:
        return o
    if t is float:
        return repr(o)
    if t is list and len(o) > 16 and set(map(type, o)) <= _NUM:
        return ("nums", repr(o))          # the rolling per-second statistics
    if isinstance(o, enum.Enum):
        return ("enum", type(o).__name__, o.name)
    if isinstance(o, int):
        return int(o)
    if isinstance(o, float):
        return repr(o)
    if isinstance(o, (bytes, bytearray)):
        return bytes(o)
    if isinstance(o, (list, tuple, collections.deque)):
        return [deep(x, seen) for x in o]
    if isinstance(o, dict):
        return [(deep(k, seen), deep(v, seen)) for k, v in o.items()]
    if isinstance(o, (set, frozenset)):
        return sorted(repr(deep(x, seen)) for x in o)
    if inspect.ismethod(o):
        return ("method", o.__func__.__qualname__, deep(o.__self__, seen))
    if inspect.isfunction(o):
        cells = [deep(c.cell_contents, seen) for c in (o.__closure__ or ())]
        return ("function", o.__qualname__, getattr(o, "_verif_id", None), deep(o.__defaults__, seen), cells)
    if inspect.isbuiltin(o) or inspect.isclass(o) or isinstance(o, types.ModuleType):
        return ("builtin", getattr(o, "__qualname__", repr(o)))
    name = type(o).__name__
    if id(o) in seen:
        return ("ref", seen[id(o)])
    seen[id(o)] = len(seen)
    if name in OPAQUE or not hasattr(o, "__dict__"):
        return ("opaque", name, 0 if STABLE[0] else id(o))
    out = []
    for k, v in vars(o).items():
        if k in SKIP_ATTR:
            continue
        if name == "ConnectionStats" and k == "dropped":
            continue
        out.append((k, deep(v, seen)))
    # class-level defaults of Serializable subclasses (ConnectionStats fields live on the class
    # until assigned)
    if name == "ConnectionStats":
        for k in ("assembled", "acked", "timeouts", "sent", "received"):
            if k not in vars(o):
                out.append((k, deep(getattr(o, k, None), seen)))
    return ("obj", name, out)


def snap(impl):
    """whole endpoint: the UdpClient (with socket and connection) or the server connection (with
    its ServerContext: pools, handler and the handler's event log)"""
    root = impl.client if impl.role == "client" else impl.conn
    return deep(root, {})


def first_diff(a, b, path=""):
    if type(a) != type(b):
        return path + ": %r != %r" % (str(a)[:60], str(b)[:60])
    if isinstance(a, (list, tuple)):
        if len(a) != len(b):
            return path + ": length %d != %d" % (len(a), len(b))
        if len(a) == 2 and isinstance(a[0], str) and not isinstance(a, list):
            d = first_diff(a[1], b[1], path + "." + a[0]) if a[0] == b[0] else path + ": key %r != %r" % (a[0], b[0])
            return d
        for i, (x, y) in enumerate(zip(a, b)):
            d = first_diff(x, y, path + "[%d]" % i)
            if d:
                return d
        return None
    if a != b:
        return path + ": %r != %r" % (str(a)[:60], str(b)[:60])
    return None


# ------------------------------------------------------------------ building datagrams

def crc_frame(hb, payload):
    data = hb + payload
    return data + struct.pack(">L", binascii.crc32(data) & 0xFFFFFFFF)


def seal_frame(keybytes, hb, payload, aad=None):
    from cryptography.hazmat.primitives.ciphers.aead import AESGCM
    aad = hb if aad is None else aad
    return hb + AESGCM(keybytes).encrypt(aad[:12], payload, aad)


def enc_multi(msgs):
    return b"".join(struct.pack(">HHB", len(p) & 0xFFFF, s, t) + p for s, t, p in msgs)


_BODY_CACHE = {}


def attacker_root():
    if "root" not in _BODY_CACHE:
        from mpgameserver.crypto import EllipticCurvePrivateKey
        _BODY_CACHE["root"] = EllipticCurvePrivateKey.new()
        _BODY_CACHE["eph"] = EllipticCurvePrivateKey.new()
    return _BODY_CACHE["root"], _BODY_CACHE["eph"]


def inner_body(t, conn, rng, variant=0):
    """payload of one inner message of type t; valid serialisations for the handshake types so
    that, were the message processed, it WOULD have an effect"""
    from mpgameserver.connection import (HandshakeClientHelloMessage, HandshakeServerHelloMessage,
                                         HandshakeClientChallengeResponseMessage)
    root, eph = attacker_root()
    if t == 6:
        return b"FORGED-APP-%d" % variant
    if t == 7:
        return struct.pack(">HHH", 4000 + variant, 1, 1) + b"FORGED-FRAGMENT"
    if t == 3:
        m = HandshakeClientChallengeResponseMessage()
        m.token = 0 if variant % 2 == 0 else int(getattr(conn, "token", 0))
        return m.dumpb()
    if t == 1:
        key = ("ch",)
        if key not in _BODY_CACHE:
            m = HandshakeClientHelloMessage()
            m.client_pubkey = eph.getPublicKey()
            m.client_version = 1
            _BODY_CACHE[key] = m.dumpb()
        return _BODY_CACHE[key]
    if t == 2:
        key = ("sh",)
        if key not in _BODY_CACHE:
            m = HandshakeServerHelloMessage()
            m.token = 77
            m.server_pubkey = eph.getPublicKey()
            m.salt = b"\x01" * 16
            _BODY_CACHE[key] = m.dumpb(server_root_key=root)
        return _BODY_CACHE[key]
    if t in (4, 5):
        return b""
    return b"x"


def single_clear_hello(raw):
    """count 1, hello type, CRC-framed with a valid CRC (the only datagram a keyless endpoint opens)"""
    if len(raw) < 24:
        return False
    h = S.unpack_header(raw)
    if h[6] != 1 or h[4] not in (1, 2) or len(raw) < 24 + h[5]:
        return False
    return struct.unpack(">L", raw[20 + h[5]:24 + h[5]])[0] == (binascii.crc32(raw[:20 + h[5]]) & 0xFFFFFFFF)


class Target:
    """what the attacker knows about the endpoint it aims at (everything: it may read the wire)"""
    def __init__(self, who, conn, now):
        self.who = who
        self.conn = conn
        self.to_server = 1 if who == "server" else 0
        self.ctime = now // T
        cur = int(conn.bitfield_pkt.current_seqnum)
        self.fresh_seq = wire(cur + 1) if cur else 1
        curm = int(conn.bitfield_msg.current_seqnum)
        self.fresh_mseq = wire(curm + 1) if curm else 1
        self.ack = int(conn.seq_sending)
        self.n = 0

    def hdr(self, typ, count, length, seq=None, ack=None, bits=0xFFFFFFFF):
        self.n += 1
        return S.pack_header([self.to_server, self.ctime, wire(self.fresh_seq + self.n) if seq is None else seq,
                              self.ack if ack is None else ack, typ, length, count, bits])


INNER = [6, 7, 5, 3, 1, 2, 4]


def forged_plaintext(tg, rng, thorough, budget3):
    """every packet type x count in {0,1,2,3,255} x inner type vectors, valid CRC, fresh seq,
    ack fields that would acknowledge everything pending"""
    out = []
    conn = tg.conn
    m = tg.fresh_mseq
    for typ in range(8):
        tn = TYPES[typ]
        # count 0: empty payload, and a payload that is ignored
        out.append((("plain", tn, 0, ()), crc_frame(tg.hdr(typ, 0, 0), b"")))
        out.append((("plain", tn, 0, ("junk",)), crc_frame(tg.hdr(typ, 0, 7), b"ignored")))
        # count 1: the header type is the message type
        for v in (0, 1):
            p = struct.pack(">H", m) + inner_body(typ, conn, rng, v)
            out.append((("plain", tn, 1, (tn,)), crc_frame(tg.hdr(typ, 1, len(p)), p)))
        out.append((("plain", tn, 1, ("short",)), crc_frame(tg.hdr(typ, 1, 1), b"\x00")))
        # count 2: all 49 inner vectors
        for a in INNER:
            for b in INNER:
                p = enc_multi([(m, a, inner_body(a, conn, rng, 0)), (wire(m + 1), b, inner_body(b, conn, rng, 1))])
                out.append((("plain", tn, 2, (TYPES[a], TYPES[b])), crc_frame(tg.hdr(typ, 2, len(p)), p)))
        # count 3: all 343 (thorough) or a sample
        vecs = [(a, b, c) for a in INNER for b in INNER for c in INNER]
        if not thorough:
            vecs = rng.sample(vecs, budget3)
        for vec in vecs:
            p = enc_multi([(wire(m + i), t, inner_body(t, conn, rng, i)) for i, t in enumerate(vec)])
            out.append((("plain", tn, 3, tuple(TYPES[t] for t in vec)), crc_frame(tg.hdr(typ, 3, len(p)), p)))
        # count 255: 255 messages, and count 255 over a payload holding only two
        for vec in ([6] * 255, [rng.choice(INNER[:4]) for _ in range(255)]):
            p = enc_multi([(wire(m + i), t, b"F" if t == 6 else inner_body(t, conn, rng, i)) for i, t in enumerate(vec)])
            if len(p) < 60000:
                out.append((("plain", tn, 255, ("x255", TYPES[vec[0]])), crc_frame(tg.hdr(typ, 255, len(p)), p)))
        p = enc_multi([(m, 6, b"A"), (wire(m + 1), 6, b"B")])
        out.append((("plain", tn, 255, ("only2",)), crc_frame(tg.hdr(typ, 255, len(p)), p)))
    return out


def mutations(tg, rec, keys, own_key, rng, thorough):
    """forgeries derived from one genuine datagram `rec` (sent by the peer to this endpoint)"""
    raw = rec["raw"]
    h = list(rec["hdr"])
    out = []
    nbits = 8 * len(raw)
    bits = list(range(nbits)) if thorough else list(range(160)) + rng.sample(range(160, nbits), min(64, nbits - 160))
    for b in bits:
        m = bytearray(raw)
        m[b // 8] ^= 0x80 >> (b % 8)
        out.append((("flip", "hdr" if b < 160 else "body", b if b < 160 else 0), bytes(m)))
    lens = range(len(raw))
    if not thorough and len(raw) > 300:       # quick: long datagrams get every short length, a sample, and the tail
        lens = sorted(set(list(range(64)) + rng.sample(range(64, len(raw) - 20), 64) + list(range(len(raw) - 20, len(raw)))))
    for n in lens:
        out.append((("trunc", min(n, 21), 0), raw[:n]))
    # header-field rewrites keeping the genuine ciphertext
    body = raw[20:]
    alts = {
        1: [h[1] + 1, max(h[1] - 1, 0), 0],
        2: [wire(h[2] + 1), wire(h[2] + 40), tg.fresh_seq, 0],
        3: [wire(h[3] + 1), tg.ack, 0],
        4: [t for t in range(8) if t != h[4]],
        5: [h[5] + 1, max(h[5] - 1, 0), 0, 65535],
        6: [c for c in (0, 1, 2, 3, 255) if c != h[6]],
        7: [h[7] ^ 1, h[7] ^ 0x80000000, 0xFFFFFFFF ^ h[7]],
    }
    for f, vals in alts.items():
        for v in vals:
            if v == h[f]:
                continue
            hh = list(h)
            hh[f] = v
            out.append((("rewrite", ["", "ctime", "seq", "ack", "type", "len", "count", "ackbits"][f],
                         TYPES.get(v, v) if f == 4 else 0), S.pack_header(hh) + body))
    # the same plaintext sealed under another key (same header, fresh header)
    if rec["sealed"] is not None and rec["sealed"] >= 0:
        other = keys.fixed(own_key + 1)
        out.append((("wrongkey", "same-hdr", 0), seal_frame(other, raw[:20], bytes(rec["payload"]))))
        hb = tg.hdr(h[4], h[6], h[5])
        out.append((("wrongkey", "fresh-hdr", 0), seal_frame(other, hb, bytes(rec["payload"]))))
        # sealed under the right key for ANOTHER header (the attacker cannot do this; the endpoint
        # must still refuse it — ties Sealed k sh p with sh <> hdr to the real library)
        out.append((("aad-mismatch", "fresh-hdr", 0), hb + raw[20:]))
        # plaintext copy of the genuine content with a valid CRC
        out.append((("plain-copy", TYPES[h[4]], h[6]), crc_frame(raw[:20], bytes(rec["payload"]))))
    # random body behind the genuine header / behind a fresh header, random bytes
    out.append((("random", "body", 0), raw[:20] + bytes(rng.randrange(256) for _ in range(len(raw) - 20))))
    out.append((("random", "fresh-hdr", 0), tg.hdr(6, 1, 10) + bytes(rng.randrange(256) for _ in range(26))))
    for n in (0, 1, 19, 20, 21, 36, 64):
        out.append((("random", "all", min(n, 21)), bytes(rng.randrange(256) for _ in range(n))))
    return out


def extensions(rec, rng):
    raw = rec["raw"]
    return [(("extend", n, 0), raw + bytes(rng.randrange(256) for _ in range(n))) for n in (1, 4, 16, 100)]


# ------------------------------------------------------------------ injection + oracle

class Injector:
    def __init__(self, run):
        self.run = run
        self.byte_cases = []       # (is_server, key id, raw) sampled for the byte-level units
        self.n = 0
        self.gate = 0

    def inject(self, net_keys, ep, who, label, raw, now, own_key, expect="drop", hints=()):
        """one attack datagram straight into _recv_datagram (what both receive loops do after the
        header gate).  expect: 'drop' (key holder / keyless non-hello) | 'prekey' (keyless)"""
        from mpgameserver.connection import PacketHeader
        run = self.run
        impl = ep.impl
        conn = impl.conn
        is_server = conn.isServer
        if len(self.byte_cases) < 6000 and (self.n % 3 == 0):
            self.byte_cases.append((1 if is_server else 0, own_key, raw))
        self.n += 1
        try:
            PacketHeader.from_bytes(is_server, raw)
        except Exception:       # refused by the header gate: never reaches the connection
            self.gate += 1
            run.count("gate_refused")
            return "gate"
        had_key = conn.session_key_bytes is not None
        status0 = conn.status
        token0 = getattr(conn, "token", 0)
        pend = len(conn.pending_acks) > 0
        before = snap(impl)
        dropped0 = conn.stats.dropped
        incoming0 = list(conn.incoming_messages)
        hev0 = len(impl.handler.events) if impl.role == "server" else 0
        hint = [k for k in ([own_key] + list(hints)) if k is not None]
        outs = ep.apply(("recv", now, raw, hint))
        after = snap(impl)
        ret = [o[1] for o in outs if o[0] == 2]
        raised = [o[1] for o in outs if o[0] == 3]
        site = "ConnectionBase._recv_datagram"
        case = {"endpoint": who, "class": label[0], "detail": lib.jsonable(label[1:]), "has_key": had_key,
                "status": STATUS.get(status0.value, status0.value), "datagram": raw[:96]}
        run.evaluations += 1
        run.nt((who, label, had_key, status0.value, pend))
        run.count("inject_%s_%s" % (label[0], "key" if had_key else "nokey"))
        delivered = list(conn.incoming_messages) != incoming0 or \
            (impl.role == "server" and any(isinstance(e, tuple) for e in impl.handler.events[hev0:]))
        if impl.role == "server" and "connect" in impl.handler.events[hev0:] and not (had_key and expect == "genuine"):
            case["handler_events"] = [e if isinstance(e, str) else "msg" for e in impl.handler.events[hev0:]]
            run.oracle_violation("handler.connect caused by a datagram that is not authentic", case, site)
            return "violation"
        if delivered:
            run.oracle_violation("forged datagram delivered a message to the application", case, site)
            return "violation"
        unchanged = (before == after and conn.stats.dropped == dropped0 + 1 and ret == [0] and not raised)
        if expect == "drop" or (had_key):
            if not unchanged:
                case["diff"] = first_diff(before, after) or ("dropped %d -> %d, returned %s, raised %s" % (
                    dropped0, conn.stats.dropped, ret, raised))
                run.oracle_violation("datagram not authentic for the session key changed the endpoint", case, site)
                return "violation"
            return "dropped"
        # keyless endpoint
        h = S.unpack_header(raw)
        body = S.abstract(raw, net_keys, [])[1]
        single_hello = h[6] == 1 and h[4] in (1, 2) and body[0] == 1
        expected = 1 if is_server else 2
        if not single_hello:
            if not unchanged:
                case["diff"] = first_diff(before, after)
                run.oracle_violation("keyless endpoint processed something other than a single hello", case, site)
                return "violation"
            return "dropped"
        if h[4] != expected:
            bad = (conn.session_key_bytes is not None or conn.status != status0 or getattr(conn, "token", 0) != token0
                   or (impl.role == "server" and "connect" in impl.handler.events[hev0:]) or impl.conncb or raised)
            if bad:
                run.oracle_violation("keyless endpoint made handshake progress on a hello it does not wait for", case, site)
                return "violation"
        if impl.role == "server" and "connect" in impl.handler.events[hev0:]:
            run.oracle_violation("handler.connect from an unencrypted datagram", case, site)
            return "violation"
        return "hello"


# ------------------------------------------------------------------ sessions

class AttackNet(N.Net):
    """netsim session whose idle client ticks may carry a forged datagram through
    UdpClient.update (plan: step index -> bytes)"""
    def __init__(self, *a, **k):
        super().__init__(*a, **k)
        self.plan = {}
        self.stepno = 0

    def step(self):
        self.advance(self.cfg.get("tick", 300))
        self.stepno += 1
        for who in ("client", "server"):
            if self.pump(who) == 0:
                rx = None
                if who == "client" and self.stepno in self.plan:
                    rx = ("dg", self.plan[self.stepno], [self.key, self.key + 1])
                self.tick(who, rx)


def drive(net, rng, steps, attack_at, attack_fn, heal=10):
    """the application schedule (identical for a session and its twin: only `rng` is used)"""
    for i in range(steps):
        if i < steps - heal:
            for who in ("client", "server"):
                r = rng.random()
                if r < 0.5:
                    ln = rng.choice([0, 1, 5, 20, 60, 200]) if rng.random() < 0.9 else rng.choice([1500, 3000])
                    net.send(who, ln, rng.choice([0, 1, -1]))
        else:
            net.healed = True
        net.step()
        if attack_fn is not None and i in attack_at:
            attack_fn(i)


def session_pair(run, inj, seed, cfg, steps, n_points, thorough):
    """one lossy session with forgeries injected towards both endpoints + its twin without"""
    arng = random.Random(seed * 7919 + 13)
    attack_at = set(arng.sample(range(3, steps - 2), n_points))
    results = {}
    for variant in ("attacked", "twin"):
        rng = random.Random(seed)
        net = AttackNet(run, rng, dict(cfg), key=7)
        try:
            if variant == "attacked":
                # forged datagrams through UdpClient.update on some idle ticks
                for s in arng.sample(range(2, steps), max(2, steps // 6)):
                    tg = Target("client", net.A.impl.conn, net.t)
                    p = struct.pack(">H", 9) + b"VIA-UPDATE"
                    net.plan[s] = arng.choice([
                        crc_frame(S.pack_header([0, 100, arng.randrange(1, RING), 0, arng.choice([1, 2, 6]), len(p), 1, 0xFFFFFFFF]), p),
                        seal_frame(net.keys.fixed(8), S.pack_header([0, 100, arng.randrange(1, RING), 0, 6, len(p), 1, 0]), p)])

                def attack(i):
                    for who in ("client", "server"):
                        ep = net.ep(who)
                        conn = ep.impl.conn
                        tg = Target(who, conn, net.t)
                        todo = forged_plaintext(tg, arng, thorough, 12)
                        peer = net.other(who)
                        em = net.emitted[peer]
                        if em:
                            picks = {len(em) - 1}
                            flying = [f[2] for f in net.flight if f[1] == who]
                            if flying:
                                picks.add(arng.choice(flying))          # genuine copy still on its way
                            picks.add(arng.randrange(len(em)))          # any earlier one (delivered or lost)
                            for idx in picks:
                                todo += mutations(tg, em[idx], net.keys, 7, arng, thorough)
                            acc = [j for (_, j) in net.accepted[who]]
                            for j in acc[-2:]:
                                todo += extensions(em[j], arng)     # already received: its extension is a duplicate
                        for label, raw in todo:
                            if len(run.oracle_fail) >= 40:
                                break             # enough concrete failing inputs for the replay
                            inj.inject(net.keys, ep, who, label, raw, net.t, 7, "drop", hints=[8])
                drive(net, rng, steps, attack_at, attack)
            else:
                drive(net, rng, steps, attack_at, None)
            diffs = net.check_models()
            run.compare("conn_run", [("session", seed, variant, "client"), ("session", seed, variant, "server")],
                        [None, None],
                        [next((d for d in diffs if d["endpoint"] == "client"), None),
                         next((d for d in diffs if d["endpoint"] == "server"), None)])
            a, b = net.A.impl, net.B.impl
            STABLE[0] = True
            try:
                sa, sb = snap(a), snap(b)
            finally:
                STABLE[0] = False
            results[variant] = {
                "client": sa, "server": sb,
                "delivered": {k: [p for (_, p) in v] for k, v in net.delivered.items()},
                "callbacks": {k: [(c, ok) for (_, c, ok) in v] for k, v in net.callbacks.items()},
                "emitted": {k: [e["raw"] for e in v] for k, v in net.emitted.items()},
                "dropped": (a.conn.stats.dropped, b.conn.stats.dropped),
                "n_events": (len(net.A.events), len(net.B.events)),
            }
        finally:
            net.close()
    A, B = results["attacked"], results["twin"]
    case = {"seed": seed, "cfg": {k: v for k, v in cfg.items()}, "steps": steps}
    for k in ("delivered", "callbacks", "emitted"):
        if A[k] != B[k]:
            for who in ("client", "server"):
                if A[k][who] != B[k][who]:
                    n = next((i for i, (x, y) in enumerate(zip(A[k][who], B[k][who])) if x != y), min(len(A[k][who]), len(B[k][who])))
                    run.oracle_violation("session with injected forgeries diverged from its twin without them",
                                         dict(case, what=k, endpoint=who, index=n), "netsim twin comparison")
                    return
    for who in ("client", "server"):
        # the FakeSock / event logs hold the same data; stats.dropped is excluded by snap()
        if A[who] != B[who]:
            run.oracle_violation("final endpoint state differs from the twin session without forgeries",
                                 dict(case, endpoint=who, diff=first_diff(B[who], A[who])), "netsim twin comparison")
            return
    run.nt(("twin", seed))
    run.count("twin_sessions_equal")
    run.evaluations += 1


def handshake_session(run, inj, seed, thorough, pinned=True):
    """a real handshake (real ECDH/ECDSA) between UdpClient and a temp-pool ServerClientConnection;
    forgeries injected at every stage towards both endpoints"""
    arng = random.Random(seed * 104729 + 7)
    keys = S.Keys()
    env = S.env_for_mtu(1500)
    try:
        S.CLOCK.t = T * 100
        t = S.CLOCK.t
        A = N.Endpoint("client", keys, None, established=False, pinned=pinned)
        B = N.Endpoint("server", keys, None, established=False)
        seen = {"client": [], "server": []}     # genuine datagrams on the wire: (rec) by destination

        def rec_of(raw, kid):
            h, b = S.abstract(raw, keys, [kid])
            return {"raw": raw, "hdr": h, "sealed": (b[1] if b[0] == 0 else -1),
                    "payload": (b[3] if b[0] == 0 else (b[1] if b[0] == 1 else b""))}

        def attack(stage):
            for who, ep in (("client", A), ("server", B)):
                conn = ep.impl.conn
                if conn is None:
                    continue
                kid = keys.id_of(conn.session_key_bytes)
                own = kid if kid >= 0 else None
                tg = Target(who, conn, S.CLOCK.t)
                todo = forged_plaintext(tg, arng, thorough, 6)
                for rec in seen[who][-2:]:
                    todo += mutations(tg, rec, keys, 7, arng, False)
                # sealed under some key the endpoint does not hold
                p = struct.pack(">H", tg.fresh_mseq) + b"SEALED-FOR-NOBODY"
                todo.append((("wrongkey", "keyless" if own is None else "fresh-hdr", 0),
                             seal_frame(keys.fixed(8), tg.hdr(6, 1, len(p)), p)))
                for label, raw in todo:
                    if len([f for f in run.oracle_fail if "keyless" in f["what"] or "handler.connect" in f["what"]]) >= 10 \
                            and len(run.oracle_fail) >= 40:
                        break
                    tgt = ep
                    if own is None and single_clear_hello(raw):
                        # a keyless endpoint does look into a single hello (that is the handshake, C02):
                        # those go to a sacrificial endpoint in the same stage so that the session under
                        # observation can still complete with its genuine peer
                        tgt = sac[who]
                    k2 = keys.id_of(tgt.impl.conn.session_key_bytes)
                    o2 = k2 if k2 >= 0 else None
                    inj.inject(keys, tgt, who, (label[0] + "@" + stage,) + tuple(label[1:]), raw, S.CLOCK.t, o2,
                               "drop" if o2 is not None else "prekey", hints=[8])

        def tick_client(rx=None):
            outs = A.apply(("ctick", S.CLOCK.t, rx))
            out = list(A.impl.last_sent)
            for raw in out:
                seen["server"].append(rec_of(raw, keys.id_of(A.impl.conn.session_key_bytes)))
            return out

        def tick_server():
            B.apply(("stick", S.CLOCK.t))
            out = list(B.impl.last_sent)
            for raw in out:
                seen["client"].append(rec_of(raw, keys.id_of(B.impl.conn.session_key_bytes)))
            return out

        def adv(dt=300):
            S.CLOCK.t += dt

        sac = {"server": N.Endpoint("server", keys, None, established=False),
               "client": N.Endpoint("client", keys, None, established=False, pinned=pinned)}
        sac["client"].apply(("hello", S.CLOCK.t, True))
        sac["client"].apply(("ctick", S.CLOCK.t, None))
        attack("fresh")                                   # server temp connection without anything yet
        A.apply(("hello", S.CLOCK.t, arng.random() < 0.5))
        attack("hello-queued")
        adv()
        hello = tick_client()
        attack("hello-sent")
        adv()
        for raw in hello:
            B.apply(("recv", S.CLOCK.t, raw, []))
        attack("server-has-key")                          # server: key, CONNECTING (temp pool)
        adv()
        sh = tick_server()
        attack("server-hello-sent")
        adv()
        for raw in sh:
            A.apply(("recv", S.CLOCK.t, raw, []))      # (connsim fills the reply oracle on this path)
        adv()
        cr = tick_client()
        attack("client-connected")                        # client: key, CONNECTED; server still CONNECTING
        adv()
        kid = keys.id_of(A.impl.conn.session_key_bytes)
        for raw in cr:
            B.apply(("recv", S.CLOCK.t, raw, [kid]))
        attack("both-connected")
        ok = (A.impl.conn.status.value == 2 and B.impl.conn.status.value == 2
              and A.impl.conn.session_key_bytes == B.impl.conn.session_key_bytes and B.impl.handler.events == ["connect"])
        if not ok:
            run.notes.append("handshake session %d did not complete: %s %s %s" % (
                seed, A.impl.conn.status, B.impl.conn.status, B.impl.handler.events))
        else:
            run.count("handshakes_completed_under_attack")
        # a little traffic, then more forgeries
        A.apply(("send", b"after-handshake", 0, None))
        adv()
        for raw in tick_client():
            B.apply(("recv", S.CLOCK.t, raw, [kid]))
        if [p for (_, p) in B.impl.conn.incoming_messages] != [b"after-handshake"]:
            run.notes.append("handshake session %d: genuine message after the attack not delivered" % seed)
        attack("traffic")
        eps = [("client", A), ("server", B), ("sacrificial-client", sac["client"]), ("sacrificial-server", sac["server"])]
        run.compare("conn_run", [("handshake", seed, n) for n, _ in eps], [None] * len(eps),
                    [e.check_model(run, env) for _, e in eps])
        return ok
    finally:
        S.restore_mtu()


def corpus(run, inj):
    """the witnesses of the defects repaired by a51c847 (D1, D2 of DESIGN.md section 5), run first"""
    from mpgameserver.connection import HandshakeClientChallengeResponseMessage
    keys = S.Keys()
    S.CLOCK.t = T * 100
    rng = random.Random(1)
    try:
        # D1: CRC-only datagram typed CLIENT_HELLO, two inner messages, towards an established server connection
        B = N.Endpoint("server", keys, 7)
        tg = Target("server", B.impl.conn, S.CLOCK.t)
        m = HandshakeClientChallengeResponseMessage()
        m.token = 0
        p = enc_multi([(1, 3, m.dumpb()), (2, 6, b"D1-FORGED-APP")])
        inj.inject(keys, B, "server", ("corpus-D1", "CLIENT_HELLO", 2, ("CHALLENGE_RESP", "APP")),
                   crc_frame(tg.hdr(1, 2, len(p)), p), S.CLOCK.t, 7, "drop")
        # D1: a foreign SERVER_HELLO (valid CRC, signed by the attacker) towards a connected client: must not re-key
        A = N.Endpoint("client", keys, 7)
        tg = Target("client", A.impl.conn, S.CLOCK.t)
        p = struct.pack(">H", 1) + inner_body(2, A.impl.conn, rng)
        inj.inject(keys, A, "client", ("corpus-D1", "SERVER_HELLO", 1, ("SERVER_HELLO",)),
                   crc_frame(tg.hdr(2, 1, len(p)), p), S.CLOCK.t, 7, "drop")
        # D2: the 46-byte datagram from a new address: CLIENT_HELLO header, [CHALLENGE_RESP{token 0}, APP]
        C = N.Endpoint("server", keys, None, established=False)
        tg = Target("server", C.impl.conn, S.CLOCK.t)
        p = enc_multi([(1, 3, m.dumpb()), (2, 6, b"D2")])
        inj.inject(keys, C, "server", ("corpus-D2", "CLIENT_HELLO", 2, ("CHALLENGE_RESP", "APP")),
                   crc_frame(tg.hdr(1, 2, len(p)), p), S.CLOCK.t, None, "prekey")
        env = S.env_for_mtu(1500)
        eps = [("D1-server", B), ("D1-client", A), ("D2-server", C)]
        run.compare("conn_run", [("corpus", n) for n, _ in eps], [None] * 3, [e.check_model(run, env) for _, e in eps])
    finally:
        S.restore_mtu()


# ------------------------------------------------------------------ unit-level correspondence

def corr_symbolic(run):
    """unit recv_auth: the model's `authentic` / open_dgram vs the real AES-GCM on concrete bytes"""
    from mpgameserver.connection import Packet, PacketHeader
    from cryptography.hazmat.primitives.ciphers.aead import AESGCM
    rng = run.rng
    keys = S.Keys()
    for k in (7, 8, 9):
        keys.fixed(k)
    cases = []
    n = 3000 if run.thorough() else 300
    for i in range(n):
        to_server = rng.randrange(2)
        pl = rng.randrange(2, 40)
        payload = bytes(rng.randrange(256) for _ in range(pl))
        h = [to_server, rng.randrange(1 << 32), rng.randrange(1, RING + 1), rng.randrange(RING + 1), rng.choice([4, 5, 6, 6, 6]),
             pl, 1, rng.randrange(1 << 32)]
        key = 7
        sh = list(h)
        kind = i % 14
        body = None
        if kind == 0:
            pass                                   # authentic
        elif kind == 1:
            body = [0, rng.choice([8, 9]), sh, payload]           # another key
        elif 2 <= kind <= 9:                       # sealed for a header differing in one field
            f = kind - 2
            sh[f] = {0: 1 - h[0], 1: (h[1] + 1) % (1 << 32), 2: wire(h[2] + 1), 3: (h[3] + 1) % (RING + 1),
                     4: rng.choice([t for t in range(1, 8) if t != h[4]]), 5: h[5] + 1, 6: 2, 7: h[7] ^ (1 << rng.randrange(32))}[f]
        elif kind == 10:
            h[5] = pl + rng.choice([-1, 1])         # length field does not fit the payload
            sh = list(h)
        elif kind == 11:
            body = [1, payload]                    # CRC-only plaintext
        elif kind == 12:
            body = [2]                             # junk
        else:
            h[6] = rng.choice([0, 2, 3])            # authentic but the count does not fit the payload
            sh = list(h)
        if body is None:
            body = [0, key, sh, payload]
        cases.append([key, [h, body]])
        run.nt(("auth", kind))
    impl = []
    gap = 0
    for key, dg in cases:
        raw = S.concrete(dg, keys, rng)
        h = dg[0]
        try:
            AESGCM(keys.bytes_of(key)).decrypt(raw[:12], raw[20:20 + h[5] + 16], raw[:20])
            auth = True
        except Exception:
            auth = False
        hdr = PacketHeader.from_bytes(bool(h[0]), raw)
        r = lib.guarded(lambda: len(Packet.from_bytes(hdr, keys.bytes_of(key), raw).msgs))
        impl.append([1 if auth else 0, r])
    model = run.model.call_many("recv_auth", cases)
    keep = []
    for i, (key, dg) in enumerate(cases):
        h, b = dg
        if b[0] == 0 and h[5] != len(b[3]):
            # a datagram whose sealed header announces a length other than the payload's: only a key
            # holder could make one and Packet.to_bytes never does.  Too short: both refuse.  Too long by
            # <= 16: Packet.from_bytes slices past the end and accepts it, and so does Conn.open_dgram
            # (the model follows the slice); both are compared.  `authentic` does not mention the length.
            if h[5] > len(b[3]):
                gap += 1
            impl[i][0] = model[i][0] = -1       # symbolic 'authentic' says nothing about a too-short slice
        keep.append(i)
    run.compare("recv_auth", [cases[i] for i in keep], [impl[i] for i in keep], [model[i] for i in keep])
    run.count("recv_auth_length_field_gap_cases", gap)
    run.count("recv_auth_cases", len(cases))
    run.sample({"unit": "recv_auth", "case": lib.jsonable(cases[2]), "impl": lib.jsonable(impl[2])})


def corr_bytes(run, inj):
    """units hdr_dec / sealed_slices / sealed_parse / prekey_gate on the attack datagrams"""
    from mpgameserver.connection import Packet, PacketHeader, ConnectionBase
    from cryptography.hazmat.primitives.ciphers.aead import AESGCM
    keys = S.Keys()
    keys.fixed(7)
    sample = inj.byte_cases
    hcases = [[s, raw] for (s, k, raw) in sample]
    himpl = [lib.guarded(lambda s=s, raw=raw: _unpack_header_obj(PacketHeader.from_bytes(bool(s), raw))) for s, raw in hcases]
    hmodel = run.model.call_many("hdr_dec", hcases)
    run.compare("hdr_dec", hcases, himpl, hmodel)
    # key holder: the slices handed to AES-GCM, then the parse given the real library's answer
    kc = [(s, raw, himpl[i][1]) for i, (s, k, raw) in enumerate(sample) if himpl[i][0] == 0 and k == 7]
    slices = run.model.call_many("sealed_slices", [[h, raw] for (s, raw, h) in kc])
    pcases, pimpl = [], []
    kb = keys.bytes_of(7)
    for (s, raw, h), sl in zip(kc, slices):
        long_enough, iv, aad, ct = sl
        try:
            ans = [AESGCM(kb).decrypt(iv, ct, aad)]
        except Exception:
            ans = []
        pcases.append([h, raw, ans])
        hdr = PacketHeader.from_bytes(bool(s), raw)
        pimpl.append(lib.guarded(lambda: [[int(m.seq), m.type.value, bytes(m.payload)]
                                          for m in Packet.from_bytes(hdr, kb, raw).msgs]))
        if ans:
            run.nt(("bytes-opened", h[4], h[6]))
    pmodel = run.model.call_many("sealed_parse", pcases)
    run.compare("sealed_parse", pcases, pimpl, pmodel, describe=lambda c: lib.jsonable([c[0], c[1][:64], c[2]]))
    # keyless gate
    gcases, gimpl = [], []
    for i, (s, k, raw) in enumerate(sample):
        if himpl[i][0] != 0:
            continue
        h = himpl[i][1]
        c = ConnectionBase(bool(s), ("h", 1))
        hdr = PacketHeader.from_bytes(bool(s), raw)
        d0 = c.stats.dropped
        c.clock = S.CLOCK.time
        # the gate is the first test of _recv_datagram: a refused datagram is dropped whatever its body
        refused = (hdr.count != 1 or hdr.pkt_type.value not in (1, 2))
        gcases.append([s, [h, [2]]])
        r = c._recv_datagram(hdr, raw[:20])       # body removed: only the gate can accept/refuse on its own
        gimpl.append([1 if refused else 0, 1 if s else 2])
        if refused and not (r is False and c.stats.dropped == d0 + 1):
            run.oracle_violation("keyless gate did not drop", {"datagram": raw[:40]}, "ConnectionBase._recv_datagram")
    gmodel = run.model.call_many("prekey_gate", gcases)
    run.compare("prekey_gate", gcases, gimpl, gmodel)
    run.count("byte_level_cases", len(sample))


def _unpack_header_obj(hdr):
    return [1 if hdr.isServer else 0, hdr.ctime, int(hdr.seq), int(hdr.ack), hdr.pkt_type.value, hdr.length,
            hdr.count, hdr.ack_bits]



# ------------------------------------------------------------------ entry point

CFGS = [
    {"loss": 0.0, "dup": 0.0, "reorder": 0.0, "tick": 300},
    {"loss": 0.15, "dup": 0.15, "reorder": 0.3, "max_delay": 4 * 300, "tick": 300},
    {"loss": 0.3, "dup": 0.3, "reorder": 0.5, "max_delay": 12 * 300, "tick": 300},
]


def server_half_open(run, rng, n):
    """the server loop's pools (UdpServerThread.run / TwistedServer gate): keyless datagrams aimed at a HALF-OPEN
    connection (server holds the key, challenge response not yet processed) and at a promoted one must leave the
    connection object, its key and its token alone, and the honest handshake must still complete.
    Real UdpServerThread stepped by harness/srvsim.py, replayed on Server.v (unit srv_run)."""
    from harness import srvsim as V
    T = S.TICKS
    for i in range(n):
        policy = V.random_policy(rng, p_raise=0.0, echo=0.0, chatty=False)
        w = V.World(run, rng, cfg=(5 * T, 2 * T, 1536, T), policy=policy, full=True)
        sim = w.sim
        addr = ("10.1.0.%d" % (i + 1), 5000 + i)
        try:
            rec = w.add_client(addr)
            w.step(300)                       # client hello -> temp entry, server hello sent back
            pools = lambda: (sim.ctxt.temp_connections.get(addr), sim.ctxt.connections.get(addr))
            t0, c0 = pools()
            run.evaluations += 1
            if t0 is None or t0.session_key_bytes is None:
                raise RuntimeError("harness: no keyed half-open connection after the client hello")
            before = (id(t0), bytes(t0.session_key_bytes), int(t0.token))
            hello = w.sent_hist[0][1]
            kind = ["replayed-hello", "fresh-hello", "junk-types", "flipped-hello"][i % 4]
            if kind == "replayed-hello":
                forged = [hello]
            elif kind == "fresh-hello":
                other = V.HClient(sim, ("10.250.0.%d" % (i + 1), 6000), pinned=True)
                other.connect()
                forged = [d for d in other.tick()][:1] or [hello]
            elif kind == "flipped-hello":
                b = bytearray(hello); b[8] ^= 0x01; b[9] ^= 0x10        # another datagram sequence number, CRC redone
                body = bytes(b[:-4])
                forged = [body + struct.pack(">L", binascii.crc32(body) & 0xFFFFFFFF)]
            else:
                forged = []
                for ty in (1, 2, 4, 5, 6, 7):
                    h = S.unpack_header(hello); h[4] = ty; h[2] = rng.randrange(2, 60000); h[5] = 3; h[6] = 1
                    body = S.pack_header(h) + b"\x00\x01x"
                    forged.append(body + struct.pack(">L", binascii.crc32(body) & 0xFFFFFFFF))
            extra = [(addr, d) for d in forged]
            first = rng.random() < 0.7
            w.step(300, extra=extra, transform=(lambda b: [x for x in b if x in extra] + [x for x in b if x not in extra]) if first else None)
            for _ in range(4):
                w.step(300, extra=extra if rng.random() < 0.5 else ())
            t1, c1 = pools()
            cur = c1 if c1 is not None else t1
            case = {"scenario": "server-half-open", "kind": kind, "forged_first": first, "addr": list(addr),
                    "forged": [d[:60] for d in forged][:3]}
            if cur is None or (id(cur), bytes(cur.session_key_bytes or b""), int(cur.token)) != before:
                case["before"] = [before[1][:4], before[2]]
                case["after"] = None if cur is None else [bytes(cur.session_key_bytes or b"")[:4], int(cur.token)]
                run.oracle_violation("keyless-datagram-replaced-a-keyed-half-open-connection", case, "server.py pools / context.py")
            elif c1 is None or rec["hc"].status() != 2:
                case["client_status"] = rec["hc"].status()
                run.oracle_violation("handshake-blocked-by-keyless-datagrams", case, "server.py pools")
            diffs = sim.check_model(observe_errors=True)
            run.compare("srv_run", [case], ["agree"], ["agree" if not diffs else "differ"])
            run.count("server_half_open_worlds")
            run.nt(("half-open", kind))
        finally:
            w.close()



# ------------------------------------------------------------------ the server loop behind every front door

FORGE_CLASSES = ["same-shape", "same-shape", "same-shape", "retyped", "seq-rewrite", "ack-rewrite", "flip", "trunc",
                 "plain", "wrongkey", "random-body"]


def forge_from(arng, keys, d, cls):
    """a datagram made WITHOUT the session key out of the genuine datagram d that is on the wire in the same tick
    (the attacker reads the wire): the header of its own choice, d's length and count"""
    h = S.unpack_header(d)
    body = d[20:]
    if cls == "same-shape-typed":
        hh = [1, h[1], arng.choice([wire(h[2] + 1), 0x4000, h[2]]), arng.choice([h[3], 0x1234]), h[4], h[5], h[6], arng.choice([0xFFFFFFFF, h[7]])]
        return S.pack_header(hh) + bytes(arng.randrange(256) for _ in range(len(body)))
    if cls == "same-shape":
        # any header with d's length / count, junk of d's size behind it
        hh = [1, h[1], arng.choice([wire(h[2] + 1), wire(h[2] + 40), 0x4000, h[2]]), arng.choice([h[3], 0x1234, 0]),
              arng.choice([5, 5, 4, 6, 7, 3]), h[5], h[6], arng.choice([0xFFFFFFFF, h[7], 0])]
        return S.pack_header(hh) + bytes(arng.randrange(256) for _ in range(len(body)))
    if cls == "retyped":
        hh = list(h); hh[4] = arng.choice([t for t in (3, 4, 5, 6, 7) if t != h[4]])
        return S.pack_header(hh) + body
    if cls == "seq-rewrite":
        hh = list(h); hh[2] = wire(h[2] + arng.choice([1, 2, 33, 300]))
        return S.pack_header(hh) + body
    if cls == "ack-rewrite":
        hh = list(h); hh[3] = wire(h[3] + 1) if h[3] else 7; hh[7] = 0xFFFFFFFF
        return S.pack_header(hh) + body
    if cls == "flip":
        m = bytearray(d); b = arng.randrange(8 * len(d)); m[b // 8] ^= 0x80 >> (b % 8)
        return bytes(m)
    if cls == "trunc":
        return d[:arng.randrange(20, len(d))]
    if cls == "plain":
        pl = struct.pack(">H", arng.randrange(1, RING)) + b"FORGED-IN-THE-SAME-TICK"
        return crc_frame(S.pack_header([1, h[1], wire(h[2] + 1), h[3], arng.choice([6, 5, 4]), len(pl), 1, 0xFFFFFFFF]), pl)
    if cls == "wrongkey":
        pl = struct.pack(">H", arng.randrange(1, RING)) + b"SEALED-UNDER-ANOTHER-KEY"
        return seal_frame(keys.fixed(8), S.pack_header([1, h[1], wire(h[2] + 1), h[3], 6, len(pl), 1, 0]), pl)
    return d[:20] + bytes(arng.randrange(256) for _ in range(len(body)))


def _canon_entry(o):
    """one entry of the server's linear log without the bytes that are random per process (the server hello
    carries a fresh ephemeral key and salt)"""
    if o[0] == 2 and o[2][4] == 2:
        h = list(o[2]); h[5] = 0            # (its DER signature, hence its length, varies too)
        return [2, o[1], h, o[3], b""]
    return o


def _canon_state(st):
    out = []
    for pool in st:
        cl = []
        for c in pool:
            snap_ = [list(x) if isinstance(x, list) else x for x in c[5]]
            if snap_:
                snap_[4] = [[m[0], m[1], b"" if m[1] == 2 else m[2]] + list(m[3:]) for m in snap_[4]]
                stats = list(snap_[15]); stats[1] = 0        # stats.dropped is what a discarded datagram may change
                snap_[15] = stats
            cl.append(list(c[:5]) + [snap_])
        out.append(cl)
    return out


def server_loop_world(run, seed, front, attacked, steps, focus):
    """one world of real clients around the real server loop behind `front`; attacked: forgeries derived from the
    genuine datagrams of the SAME tick are put next to them (before / after / both).  focus: the attacked
    client's datagrams are the last of their tick.  Same seed => same application schedule."""
    from harness import srvsim as V, srvx as X
    from mpgameserver.connection import PacketHeader
    rng = random.Random(seed)
    arng = random.Random(seed * 7919 + 17)
    policy = V.random_policy(rng, p_raise=rng.choice([0.0, 0.2]), echo=1.0, chatty=False)
    w = X.WorldX(run, rng, cfg=(5 * T, 2 * T, 1536, T), policy=policy, full=True, front=front, sentinel_first=True)
    sim = w.sim
    addrs = [("10.1.0.%d" % (i + 1), 5000 + i) for i in range(2)]
    forged_log = {}        # step -> [(addr, class, position, raw)]
    expected_dropped = {}  # addr -> forged datagrams that reach its connected object
    info = {"same_tick_same_length": 0}
    try:
        recs = [w.add_client(a) for a in addrs]
        for st in range(steps):
            for i, rec in enumerate(recs):
                hc = rec["hc"]
                if hc.status() == 2:
                    for _ in range(rng.choice([0, 0, 1, 1, 2])):
                        hc.client.send(b"m%d-%d-%d-" % (i, st, rng.randrange(1000)) + bytes(rng.randrange(256) for _ in range(rng.choice([0, 3, 40]))),
                                       retry=rng.choice([0, 1, -1]))
            victim = addrs[st % 2]

            def transform(batch, st=st, victim=victim):
                if focus:
                    batch = [x for x in batch if x[0] != victim] + [x for x in batch if x[0] == victim]
                if not attacked:
                    return batch
                out = []
                for (a, d) in batch:
                    conn = sim.ctxt.connections.get(a)
                    half_open = conn is None and a in sim.ctxt.temp_connections and len(d) >= 24 and d[12] == 3
                    if a != victim or (conn is None and not half_open) or len(d) < 24 or d[12] == 1 or (d[12] == 3 and not half_open) \
                            or arng.random() < 0.25:
                        out.append((a, d))
                        continue
                    # towards a half-open slot only CHALLENGE_RESP-typed datagrams reach the connection object: forgeries that keep the type
                    cls = arng.choice(["same-shape-typed", "seq-rewrite", "ack-rewrite", "flip", "random-body"] if half_open else FORGE_CLASSES)
                    pos = arng.choice(["before", "before", "after", "both"])
                    f = [forge_from(arng, sim.keys, d, cls) for _ in range(2 if pos == "both" else 1)]
                    if half_open:
                        f = [x for x in f if len(x) > 12 and x[12] == 3] or [d[:20] + bytes(arng.randrange(256) for _ in range(len(d) - 20))]
                        pos = "before" if len(f) == 1 and pos == "both" else pos
                        info["half_open"] = info.get("half_open", 0) + len(f)
                    for x in f:
                        forged_log.setdefault(st, []).append((a, cls, pos, x))
                        try:
                            PacketHeader.from_bytes(True, x)
                            expected_dropped[a] = expected_dropped.get(a, 0) + 1
                        except Exception:
                            pass
                        if len(x) == len(d) and pos != "after":
                            info["same_tick_same_length"] += 1
                    out += ([(a, f[0])] if pos in ("before", "both") else []) + [(a, d)] + ([(a, f[-1])] if pos in ("after", "both") else [])
                return out
            rand = [0x31000000 + 16 * st + i for i in range(8)]
            if not w.step(300, [], rand, transform=transform):
                break
        w.finish()
        dropped = {}
        for a in addrs:
            for c in sim.keep:
                if getattr(c, "addr", None) == a and hasattr(c, "stats"):
                    dropped[a] = dropped.get(a, 0) + c.stats.dropped
        res = {"log": [_canon_entry(o) for o in sim.log], "states": [_canon_state(s_) for s_ in sim.states], "marks": list(sim.marks),
               "dropped": dropped, "expected_dropped": expected_dropped, "forged": forged_log, "info": info,
               "got": [sorted(r["hc"].got) for r in recs], "status": [r["hc"].status() for r in recs],
               "died": sim.died, "internal": list(sim.internal), "calls": dict(getattr(sim.sock, "calls", {}))}
        res["model_diff"] = sim.check_model(observe_errors=True) if attacked else None
        return res
    finally:
        w.close()


def server_loop_forgeries(run, rng, fronts, steps):
    """C01 at the server's front doors.  The real UdpServerThread behind TwistedServer.datagramReceived, behind the
    thread objects TwistedServer / ThreadedServer build themselves, and behind the socket loop of _UdpServer.run
    (scripted socket): a world with forgeries next to the genuine datagrams they were derived from — same tick, same
    source address, same length — and its twin without them must produce the same handler events, the same
    datagrams towards the clients and the same pool contents at every tick (stats.dropped apart, which must count
    exactly the forgeries)."""
    for nw, front in enumerate(fronts):
        seed = rng.randrange(1 << 30)
        focus = nw % 5 != 4           # mostly: the victim's datagrams are the last the front door receives in their tick
        from harness import srvx as X
        with X.logging_enabled():
            A = server_loop_world(run, seed, front, True, steps, focus)
            B = server_loop_world(run, seed, front, False, steps, focus)
        case = {"scenario": "server-loop-twin", "front": front, "seed": seed, "steps": steps}
        run.evaluations += len(A["log"])
        if A["internal"] or B["internal"]:
            raise RuntimeError("harness-internal problem: %s" % (A["internal"] + B["internal"])[:3])
        if B["died"] or not any(o[0] == 0 and o[1][0] == 4 for o in B["log"]):
            raise RuntimeError("harness: the undisturbed world behind %s delivered nothing" % front)

        def step_of(marks, idx):
            return next((k for k, m in enumerate(marks) if idx < m), len(marks))

        def forged_of(k):
            # the D phase of model step k processes the batch fed by harness step k-1 (step 0 is start())
            return [[list(a), cls, pos, x[:48]] for (a, cls, pos, x) in A["forged"].get(k - 1, [])]
        bad = None
        if A["died"]:
            bad = dict(case, what_differs="the server loop died", forged=forged_of(len(A["marks"])))
        if bad is None:
            n = next((i for i, (x, y) in enumerate(zip(A["log"], B["log"])) if x != y), None)
            if n is None and len(A["log"]) != len(B["log"]):
                n = min(len(A["log"]), len(B["log"]))
            if n is not None:
                k = step_of(A["marks"], n)
                bad = dict(case, what_differs="log", index=n, tick=k, forged_in_tick=forged_of(k),
                           with_forgeries=lib.jsonable(A["log"][n] if n < len(A["log"]) else None),
                           twin=lib.jsonable(B["log"][n] if n < len(B["log"]) else None))
        if bad is None:
            for k, (x, y) in enumerate(zip(A["states"], B["states"])):
                if x != y:
                    bad = dict(case, what_differs="pools", tick=k, forged_in_tick=forged_of(k), diff=first_diff(y, x))
                    break
        if bad is None and (A["got"] != B["got"] or A["status"] != B["status"]):
            bad = dict(case, what_differs="what the clients received", status=[A["status"], B["status"]])
        if bad is None:
            for a, n in A["expected_dropped"].items():
                if A["dropped"].get(a, 0) - B["dropped"].get(a, 0) != n:
                    bad = dict(case, what_differs="stats.dropped", addr=list(a), forged_reaching_the_connection=n,
                               dropped_with=A["dropped"].get(a, 0), dropped_twin=B["dropped"].get(a, 0))
                    break
        if bad is not None:
            run.oracle_violation("server-loop world with forgeries next to genuine datagrams diverged from its twin without them",
                                 bad, "server.py front door / UdpServerThread.run")
        run.compare("srv_run", [dict(case, first_difference=lib.jsonable(A["model_diff"]))], ["agree"],
                    ["agree" if not A["model_diff"] else "differ"])
        nf = sum(len(v) for v in A["forged"].values())
        run.count("server_loop_twin_worlds")
        run.count("server_loop_forgeries", nf)
        run.count("server_loop_forgeries_same_tick_same_length_before_genuine", A["info"]["same_tick_same_length"])
        run.count("server_loop_forgeries_towards_half_open_slot", A["info"].get("half_open", 0))
        for api, c in A["calls"].items():
            run.count("socket_loop_%s_calls" % api, c)
        if nf == 0 or A["info"]["same_tick_same_length"] == 0:
            raise RuntimeError("harness: no forgery was placed in front of a genuine datagram of the same length (%s)" % front)
        run.nt(("server-loop-twin", front, nf))


# ------------------------------------------------------------------ liveness as the server loop sees it: a peer that went silent

SILENT_RULE = ("silent-victim twin worlds (harness/srvx.py, every front door): a short configured connection / temp-connection time-out; an established "
               "victim (and a half-open one that holds a session key but never answers the challenge) stops sending; from its address keyless forgeries "
               "(made from its recorded datagrams: same-shape junk under any header, re-typed, seq/ack rewritten, bit-flipped, truncated, valid-CRC "
               "plaintext of EVERY packet type, wrong key, random body) arrive every tick / every other tick / in bursts every third tick / only in the "
               "ticks around the deadline / as the last datagrams of each tick, next to an honest talking client; the twin has the same seed and no "
               "forgeries: the victim's disconnect event and the removal of its pool entries must happen at exactly the twin's tick; non-trivial = "
               "twin pair whose victim was dropped by time-out in the twin while >= 1 forgery per pattern tick was queued for it")
SILENT_PATTERNS = ["every", "alternate", "burst", "deadline", "every-last"]


def silent_forgery(arng, keys, src, now_hdr):
    """a datagram made without the key from a recorded genuine datagram `src` of the victim (any class of forge_from, and valid-CRC plaintext
    of every packet type with 0/1/2 messages)"""
    cls = arng.choice(FORGE_CLASSES + ["same-shape-typed", "plain-any-type", "plain-any-type", "header-only"])
    if cls == "plain-any-type":
        h = S.unpack_header(src)
        t = arng.randrange(0, 8)
        cnt = arng.choice([0, 1, 1, 2])
        if cnt == 2:
            pl = enc_multi([(arng.randrange(1, RING), arng.choice([4, 5, 6, 3]), b"x"), (arng.randrange(1, RING), arng.choice([4, 5, 6]), b"")])
        elif cnt == 1:
            pl = struct.pack(">H", arng.randrange(1, RING)) + arng.choice([b"", b"FORGED-WHILE-SILENT"])
        else:
            pl = b""
        return cls + ":%d" % t, crc_frame(S.pack_header([1, h[1], wire(h[2] + arng.choice([1, 2, 50])), h[3], t, len(pl), cnt, 0xFFFFFFFF]), pl)
    if cls == "header-only":
        h = S.unpack_header(src)
        return cls, S.pack_header([1, h[1], wire(h[2] + 1), h[3], arng.choice([3, 4, 5, 6]), 0, arng.choice([0, 1]), 0])
    return cls, forge_from(arng, keys, src, cls)


def silent_victim_world(run, seed, front, attacked, pattern, cfg, talk_steps, total_steps, plan=None):
    """real clients around the real server loop behind `front`.  addrs[0] keeps talking; addrs[1] (established) and addrs[2] (half-open: it
    sent its hello and never reads the answer) go silent at step `talk_steps`.  attacked: forgeries from the silent addresses per `pattern`.
    plan (from the twin, for pattern 'deadline'): the harness steps after which the twin dropped the victims."""
    from harness import srvsim as V, srvx as X
    from mpgameserver.connection import PacketHeader
    rng = random.Random(seed)
    arng = random.Random(seed * 104729 + 5)
    policy = V.random_policy(rng, p_raise=rng.choice([0.0, 0.2]), echo=1.0, chatty=False)
    w = X.WorldX(run, rng, cfg=cfg, policy=policy, full=True, front=front, sentinel_first=(pattern == "every-last"),
                 configure=rng.choice(["before", "between"]))
    sim = w.sim
    addrs = [("10.1.0.1", 5000), ("10.1.0.2", 5001), ("10.1.0.3", 5002)]
    forged_log = {}
    queued = {a: 0 for a in addrs}
    half_hello = {}
    try:
        recs = [w.add_client(a) for a in addrs[:2]]
        half = w.add_client(addrs[2])
        half["ticking"] = True

        def half_edit(rec, d):
            half_hello.setdefault("d", d)
            return d
        half["edit"] = half_edit
        recs.append(half)
        for st in range(total_steps):
            silent = st >= talk_steps
            if st == 1:
                half["ticking"] = False           # its hello is out; it never reads the server hello, never answers the challenge
            if silent:
                recs[1]["ticking"] = False
            for i, rec in enumerate(recs[:2]):
                hc = rec["hc"]
                if rec["ticking"] and hc.status() == 2:
                    for _ in range(rng.choice([0, 1, 1, 2])):
                        hc.client.send(b"s%d-%d-%d-" % (i, st, rng.randrange(1000)) + bytes(rng.randrange(256) for _ in range(rng.choice([0, 3, 40]))),
                                       retry=rng.choice([0, 1, -1]))
            extra = []
            if attacked:
                for vi, a in ((1, addrs[1]), (2, addrs[2])):
                    since = (st - talk_steps) if vi == 1 else (st - 1)
                    if since < 0:
                        continue
                    dl = (plan or {}).get(vi)
                    phase = (st - dl) if dl is not None else since        # every other / every third tick, the twin's deadline tick being one of them
                    if pattern in ("every", "every-last"):
                        n = 1
                    elif pattern == "alternate":
                        n = 1 if phase % 2 == 0 else 0
                    elif pattern == "burst":
                        n = 5 if phase % 3 == 0 else 0
                    else:
                        n = arng.choice([1, 2]) if dl is not None and dl - 2 <= st <= dl + 3 else 0
                    srcs = [d for (x, d) in w.sent_hist if x == a and len(d) >= 24] or [half_hello.get("d")]
                    for _ in range(n):
                        src = arng.choice(srcs[-4:])
                        cls, x = silent_forgery(arng, sim.keys, src, None)
                        if len(x) > 12 and (x[12] == 1 or (vi == 2 and arng.random() < 0.6)):
                            # only CHALLENGE_RESP-typed datagrams reach a half-open slot's object; and no forgery is typed CLIENT_HELLO:
                            # once the address has left the pools such a datagram legitimately opens a NEW slot (no key exists then: not C01)
                            x = x[:12] + b"\x03" + x[13:]
                            cls += "+typed-challenge"
                        try:
                            PacketHeader.from_bytes(True, x)
                            queued[a] += 1
                            ok = 1
                        except Exception:
                            ok = 0
                        forged_log.setdefault(st, []).append((a, cls, ok, x))
                        extra.append((a, x))
            rand = [0x32000000 + 16 * st + i for i in range(8)]
            if not w.step(300, extra, rand):
                break
        w.finish()
        res = {"log": [_canon_entry(o) for o in sim.log], "states": [_canon_state(s_) for s_ in sim.states], "marks": list(sim.marks),
               "forged": forged_log, "queued": queued, "got": [sorted(r["hc"].got) for r in recs[:1]],
               "died": sim.died, "internal": list(sim.internal), "addrs": addrs, "configure": sim.configure}
        # when (harness step) did each silent address leave the pools / get its disconnect event?
        cid_of = {}
        for st_ in sim.states:
            for pool in st_:
                for c in pool:
                    cid_of.setdefault(V.va(c[1]), c[0])
        res["cid"] = {a: cid_of.get(a) for a in addrs}
        gone = {}
        for vi, a in ((1, addrs[1]), (2, addrs[2])):
            seen = False
            for k, st_ in enumerate(sim.states):
                here = any(V.va(c[1]) == a for pool in st_ for c in pool)
                seen = seen or here
                if seen and not here:
                    gone[vi] = k - 1          # states[k] is taken in U_k: the entry left in S_{k-1}, i.e. after harness step k-1 was fed
                    break
        res["gone"] = gone
        disc = {}
        for i, o in enumerate(sim.log):
            if o[0] == 0 and o[1][0] == 5:
                k = next((kk for kk, m in enumerate(sim.marks) if i < m), len(sim.marks))
                disc.setdefault(o[1][1], k - 1)
        res["disconnect_event"] = {vi: disc.get(res["cid"].get(addrs[vi])) for vi in (1, 2)}
        res["model_diff"] = sim.check_model(observe_errors=True) if attacked else None
        return res
    finally:
        w.close()


def server_loop_silent_victims(run, rng, fronts, thorough):
    """C01, liveness clause, at the server loop: 'a datagram not produced with the session key is discarded without ... changing the key, status
    or liveness clock'.  Whether and WHEN the loop reaps a silent connection is the liveness the application sees (EventHandler.disconnect,
    ServerContext.connections).  Twin worlds; the attacked world must be tick-for-tick the twin."""
    from harness import srvx as X
    offset = rng.randrange(len(SILENT_PATTERNS))
    for nw, front in enumerate(fronts):
        seed = rng.randrange(1 << 30)
        pattern = SILENT_PATTERNS[(nw + offset) % len(SILENT_PATTERNS)]
        ct = rng.choice([3000, 4500, 6000])            # connection time-out in ticks: 10 / 15 / 20 steps of 300
        tt = rng.choice([1500, 3000, 4500])
        cfg = (ct, tt, 1536, T)
        talk = rng.choice([6, 8, 10])
        total = talk + ct // 300 + 12
        case = {"scenario": "silent-victim-twin", "front": front, "seed": seed, "pattern": pattern, "connection_timeout_ticks": ct,
                "temp_connection_timeout_ticks": tt, "victim_silent_from_step": talk, "steps": total}
        with X.logging_enabled():
            B = silent_victim_world(run, seed, front, False, pattern, cfg, talk, total)
            A = silent_victim_world(run, seed, front, True, pattern, cfg, talk, total, plan=B["gone"])
        run.evaluations += len(A["log"])
        if A["internal"] or B["internal"]:
            raise RuntimeError("harness-internal problem: %s" % (A["internal"] + B["internal"])[:3])
        if B["died"] or 1 not in B["gone"] or 2 not in B["gone"] or B["disconnect_event"].get(1) is None:
            raise RuntimeError("harness: the twin world behind %s did not time its silent peers out (%r)" % (front, B["gone"]))
        if not any(o[0] == 0 and o[1][0] == 4 for o in B["log"]):
            raise RuntimeError("harness: the undisturbed silent-victim world behind %s delivered nothing" % front)

        def forged_of(k):
            return [[list(a), cls, ok, x[:40]] for (a, cls, ok, x) in A["forged"].get(k, [])][:6]
        bad = None
        if A["died"]:
            bad = dict(case, what_differs="the server loop died")
        for vi, name in ((1, "established"), (2, "half-open")):
            if bad is None and A["gone"].get(vi) != B["gone"][vi]:
                bad = dict(case, what_differs="tick at which the silent %s peer left the server's pools" % name, victim=list(A["addrs"][vi]),
                           twin_step=B["gone"][vi], with_forgeries_step=A["gone"].get(vi, "never (still in the pool at the end of the run)"),
                           forgeries_queued_for_it=A["queued"][A["addrs"][vi]], forged_in_twin_deadline_step=forged_of(B["gone"][vi]))
        if bad is None and A["disconnect_event"] != B["disconnect_event"]:
            bad = dict(case, what_differs="tick of EventHandler.disconnect for the silent peer", twin=B["disconnect_event"], with_forgeries=A["disconnect_event"])
        if bad is None:
            n = next((i for i, (x, y) in enumerate(zip(A["log"], B["log"])) if x != y), None)
            if n is None and len(A["log"]) != len(B["log"]):
                n = min(len(A["log"]), len(B["log"]))
            if n is not None:
                k = next((kk for kk, m in enumerate(A["marks"]) if n < m), len(A["marks"]))
                bad = dict(case, what_differs="log", index=n, tick=k, forged_in_tick=forged_of(k - 1),
                           with_forgeries=lib.jsonable(A["log"][n] if n < len(A["log"]) else None),
                           twin=lib.jsonable(B["log"][n] if n < len(B["log"]) else None))
        if bad is None:
            for k, (x, y) in enumerate(zip(A["states"], B["states"])):
                if x != y:
                    bad = dict(case, what_differs="pools", tick=k, forged_in_tick=forged_of(k - 1), diff=first_diff(y, x))
                    break
        if bad is None and A["got"] != B["got"]:
            bad = dict(case, what_differs="what the talking client received")
        if bad is not None:
            run.oracle_violation("keyless forgeries from a silent peer's address changed when the server loop dropped it (twin world without them differs)",
                                 bad, "server.py UdpServerThread.run time-out scan / front door")
        run.compare("srv_run", [dict(case, first_difference=lib.jsonable(A["model_diff"]))], ["agree"],
                    ["agree" if not A["model_diff"] else "differ"])
        nq = sum(A["queued"].values())
        run.count("silent_victim_twin_worlds")
        run.count("silent_victim_forgeries_queued", nq)
        run.count("silent_victim_pattern_" + pattern)
        if nq == 0:
            raise RuntimeError("harness: no forgery was queued for a silent peer (%s, %s)" % (front, pattern))
        run.nt(("silent-victim", front, pattern, ct, tt))
        if nw < 2:
            run.sample(dict(case, twin_dropped_at=B["gone"], forgeries_queued=nq))


def run(run):
    logging.disable(logging.CRITICAL)
    inj = Injector(run)
    thorough = run.thorough()
    corpus(run, inj)
    corr_symbolic(run)
    base = run.rng.randrange(1 << 30)
    n_sessions = 6 if thorough else 3
    for i in range(n_sessions):
        session_pair(run, inj, base + i, CFGS[i % len(CFGS)], steps=(40 if thorough else 30),
                     n_points=(3 if thorough else 2), thorough=thorough and i < 2)
    n_hs = 6 if thorough else 2
    done = 0
    for i in range(n_hs):
        done += 1 if handshake_session(run, inj, base + 100 + i, thorough and i < 1, pinned=(i % 2 == 0)) else 0
    if done == 0:
        raise RuntimeError("no handshake session completed: the harness is not exercising connected endpoints")
    corr_bytes(run, inj)
    server_half_open(run, run.rng, 8 if thorough else 4)
    from harness import srvx as X
    server_loop_forgeries(run, run.rng, list(X.FRONTS) * (12 if thorough else 2) + ["udpserver"] * 2, 60 if thorough else 36)
    run.rules.append(LOOP_RULE)
    server_loop_silent_victims(run, run.rng, (list(X.FRONTS) + ['udpserver']) * (8 if thorough else 2), thorough)
    run.rules.append(SILENT_RULE)
    run.count("injected_total", inj.n)
    run.sample({"oracle": "deep snapshot equality around each injected datagram; twin session comparison",
                "injected": inj.n, "refused_by_header_gate": inj.gate})
    run.exhaustive.append("forged plaintext: all 8 packet types x count {0,1,2,3,255} x all 49 two-message inner type vectors"
                          + (" x all 343 three-message vectors" if thorough else " (+ sampled three-message vectors)"))
    run.exhaustive.append("every truncation length of each mutated genuine datagram"
                          + ("; every single-bit flip of it" if thorough else "; every single-bit flip of its 20 header bytes"))
    run.rules.append(RULE)
