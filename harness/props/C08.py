"""C08 — sequence ring and receive-window bookkeeping.
Correspondence units: seq_arith, bf_ops, hdr_acks, consts (regenerated kernels AND spec side vs
the real SeqNum / BitField / ConnectionBase._handle_ack_bits / Packet.setMTU).
Oracle: the property restated over the implementation only (independent of the model).
conn_level / conn_level_messages: the header-ack clause and the message-window clause on real endpoint pairs
(every message type, retransmitted fragmented messages under lost acks); their endpoint histories are also replayed
on the Conn.v model (unit conn_run_seq, through harness/props/C04.py Stream.finish).
conn_level_gaps: the comparison clause ("right for any two numbers less than half the range apart") at connection level
— LONG ONE-WAY BLACKOUTS: between two consecutive ARRIVALS the sender's datagram counter advances by 34 .. 32766 (all
those datagrams are lost), then the next datagram arrives, then a copy of it, then a held-back one from before the
blackout.  Oracle: a genuine datagram never seen before and less than half the ring away from the newest one seen — ahead
or behind — is ACCEPTED, its new messages reach the application, and the receiver's next header names it; copies are
dropped whole (Stream.deliver's clauses); the receiver's history is replayed on the Conn.v model."""
import itertools
from harness import lib

USES_GENERATED_KERNELS = True
RULE = ("seq: all 65536 values x boundary offsets (wrap, +-1, +-HALF..HALF+1) + random; "
        "window: random and exhaustive small insertion histories of true indices (half-range) for widths 8..256; "
        "non-trivial = arithmetic that crosses the wrap / history that crosses the wrap and has a repeat")
ASSUMPTIONS = ["half-range hypothesis: every arrival is within 32767 of the newest index (stated in the theorems)"]
TRUSTED = []

RING, HALF = 65535, 32767


def wire(n):
    return (n - 1) % RING + 1


def impl_seq(a, k):
    from mpgameserver.connection import SeqNum
    A = SeqNum(a)
    out = [lib.guarded(lambda: int(A + k)), lib.guarded(lambda: int(A - k))]
    if 0 <= k <= RING:
        B = SeqNum(k)
        out += [A.diff(B), lib.guarded(lambda: bool(A.newer_than(B))), lib.guarded(lambda: bool(A < B)),
                lib.guarded(lambda: bool(A > B))]
    else:
        out += [None] * 4
    return out


def impl_bf(nb, ops):
    from mpgameserver.connection import SeqNum, BitField, DuplicationError
    bf = BitField(nb)
    res = []
    for kind, s in ops:
        if kind == 0:
            try:
                bf.insert(SeqNum(s))
                res.append(0)
            except Exception as e:   # noqa
                res.append(lib.exc_code(e))
        else:
            res.append(lib.guarded(lambda: bool(bf.contains(SeqNum(s)))))
    return [res, int(bf.bits), int(bf.current_seqnum)]


def impl_acked(ack, bits, s):
    """does the real _handle_ack_bits treat pending datagram s as acked by (ack, bits)?"""
    from mpgameserver.connection import ConnectionBase, PacketHeader, PacketType, SeqNum
    c = ConnectionBase(False, ("h", 1))
    c.clock = lambda: 100.0
    c.last_recv_time = 100.0
    c.pending_acks[SeqNum(s)] = 100.0
    h = PacketHeader.create(True, 100, PacketType.KEEP_ALIVE, SeqNum(1), SeqNum(ack), bits)
    c._handle_ack_bits(h)
    acked = SeqNum(s) not in c.pending_acks
    assert acked == (c.stats.acked == 1)
    return acked


def impl_consts(mtu, n):
    from mpgameserver.connection import Packet, PacketHeader
    names = ["MTU", "MAX_SIZE", "MAX_SIZE_CRC", "MAX_PAYLOAD_SIZE", "MAX_FRAGMENT_SIZE", "RECV_SIZE"]
    saved = [getattr(Packet, x) for x in names]
    try:
        r = lib.guarded(lambda: (Packet.setMTU(mtu), [getattr(Packet, x) for x in names])[1])
    finally:
        for x, v in zip(names, saved):
            setattr(Packet, x, v)
    return [saved, r, lib.guarded(lambda: Packet.overhead(n)), PacketHeader.SIZE, PacketHeader.TAG_SIZE,
            PacketHeader.CRC_SIZE, Packet.MAX_FRAGMENTS, Packet.UDP_HEADER_SIZE]


# ------------------------------------------------------------------ generators

def gen_seq_cases(run):
    offs = [0, 1, 2, 31, 32, 33, 255, 256, 257, HALF - 1, HALF, HALF + 1, HALF + 2, RING - 1, RING, RING + 1,
            2 * RING, 2 * RING + 1, -1, -2, -RING, -RING - 1, -RING + 1]
    cases = []
    vals = list(range(0, RING + 1)) if run.thorough() else \
        list(range(0, 300)) + list(range(HALF - 150, HALF + 150)) + list(range(RING - 300, RING + 1))
    for a in vals:
        for k in offs:
            cases.append((a, k))
    n = 400000 if run.thorough() else 30000
    for _ in range(n):
        a = run.rng.randrange(0, RING + 1)
        if run.rng.random() < 0.5:
            k = run.rng.randrange(0, RING + 1)
        else:
            k = run.rng.choice([1, -1]) * run.rng.choice([run.rng.randrange(0, 70), run.rng.randrange(HALF - 40, HALF + 40),
                                                          run.rng.randrange(RING - 40, RING + 40), run.rng.randrange(0, 140000)])
        cases.append((a, k))
    return cases


def gen_history(run, nb, length):
    """true-index history under the half-range hypothesis, aimed at the wrap and the window edges"""
    r = run.rng
    base = r.choice([1, 2, RING - nb - 3, RING - 5, RING, 2 * RING - 2, r.randrange(1, 3 * RING)])
    m = base
    h = [base]
    for _ in range(length - 1):
        c = r.random()
        if c < 0.35:
            n = m + r.choice([1, 1, 1, 2, 3, nb - 1, nb, nb + 1, nb + 2, r.randrange(1, 2 * nb + 2)])
        elif c < 0.75:
            n = m - r.choice([0, 1, 2, nb - 1, nb, nb + 1, nb + 2, r.randrange(0, nb + 3)])
        elif c < 0.9 and h:
            n = r.choice(h)
        else:
            n = m + r.randrange(-HALF, HALF + 1)
        if n < 1 or abs(n - m) > HALF:
            n = m + 1
        h.append(n)
        m = max(m, n)
    return h


def spec_window(nb, h):
    """abstract specification, independent of the Coq text: (dup flags, newest, accepted set)"""
    m = None
    acc = set()
    flags = []
    for n in h:
        if m is None:
            m = n
            acc.add(n)
            flags.append(False)
            continue
        d = n in acc and n <= m and m - n <= nb
        flags.append(d)
        if not d:
            acc.add(n)
        m = max(m, n)
    return flags, m, acc


# ------------------------------------------------------------------ the run

def run(run):
    M = run.model
    # ---- correspondence: seq_arith
    cases = gen_seq_cases(run)
    impl = [impl_seq(a, k) for a, k in cases]
    mod = M.call_many("seq_arith", [[a, k] for a, k in cases])
    # model reply: 6 gen fields then 6 spec fields; compare both against the implementation
    impl_c, mod_c = [], []
    for (a, k), i, m in zip(cases, impl, mod):
        if i[2] is None:
            impl_c.append(i[:2] * 2)
            mod_c.append(m[0:2] + m[6:8])
        else:
            i2 = i[:2] + [i[2]] + i[3:]
            # spec side returns plain bools for newer/lt/gt
            impl_c.append(i2 + i[:2] + [i[2]] + [x[1] for x in i[3:]])
            mod_c.append(m[0:6] + m[6:9] + m[9:12])
        if a + k > RING or a + k < 1 or a - k < 1:
            run.nt(("seq", a, k))
    run.compare("seq_arith", cases, impl_c, mod_c)
    run.count("seq_arith_cases", len(cases))
    run.sample({"unit": "seq_arith", "case": list(cases[5]), "impl": lib.jsonable(impl[5])})

    # ---- correspondence: bf_ops over wire values of generated histories (+ contains queries)
    bcases = []
    nh = 3000 if run.thorough() else 400
    for i in range(nh):
        nb = run.rng.choice([8, 8, 16, 32, 32, 64, 128, 256])
        h = gen_history(run, nb, run.rng.randrange(2, 60))
        ops = []
        for n in h:
            ops.append([0, wire(n)])
            if run.rng.random() < 0.4:
                q = max(1, n + run.rng.randrange(-nb - 3, 4))
                ops.append([1, wire(q)])
        # a few raw values incl. 0 (unset) to exercise the glue
        if run.rng.random() < 0.1:
            ops.insert(run.rng.randrange(len(ops)), [0, run.rng.choice([0, 1, RING])])
        bcases.append((nb, ops))
    impl = [impl_bf(nb, ops) for nb, ops in bcases]
    mod = M.call_many("bf_ops", [[nb, ops] for nb, ops in bcases])
    run.compare("bf_ops", bcases, [i + i for i in impl], mod)
    run.sample({"unit": "bf_ops", "nbits": bcases[0][0], "ops": bcases[0][1][:12], "impl": lib.jsonable(impl[0])[:1]})

    # ---- correspondence: hdr_acks
    acases = []
    for _ in range(6000 if run.thorough() else 1200):
        ack = run.rng.choice([0, 1, 2, 33, RING, RING - 1, run.rng.randrange(1, RING + 1)])
        bits = run.rng.choice([0, 0xFFFFFFFF, 0x80000000, 1, run.rng.getrandbits(32)])
        d = run.rng.choice([0, 1, 2, 31, 32, 33, 34, -1, -2, run.rng.randrange(-40, 40), run.rng.randrange(-HALF, HALF)])
        s = (ack - d - 1) % RING + 1
        acases.append((ack, bits, s))
    impl = [1 if impl_acked(*c) else 0 for c in acases]
    mod = M.call_many("hdr_acks", [list(c) for c in acases])
    run.compare("hdr_acks", acases, impl, mod)

    # ---- correspondence: constants / setMTU / overhead
    ccases = [(mtu, n) for mtu in ([512, 576, 1095, 1096, 1097, 1280, 1500, 9000, 100, 0] + [run.rng.randrange(512, 1501) for _ in range(20)])
              for n in (0, 1, 2, 3, 255)]
    if run.thorough():
        ccases += [(mtu, 4) for mtu in range(512, 1501)]
    impl = [impl_consts(*c) for c in ccases]
    mod = M.call_many("consts", [list(c) for c in ccases])
    run.compare("consts", ccases, impl, mod)

    oracle(run)
    conn_level(run)
    conn_level_messages(run)
    conn_level_gaps(run)


def conn_level(run):
    """the clause about headers, on real endpoints: "the ack number and 32-bit ack bitmap carried by every outgoing
    datagram name exactly the peer datagrams received among the newest 32".  Real UdpClient / ServerClientConnection
    pairs (harness/props/C04.py Stream over netsim), sender counters started at 0 and next to the wrap; datagrams are
    lost, duplicated, delivered late, and unauthentic (mangled) copies are injected; after every receiver update the
    header it emitted is decoded and compared with the set of true datagram indices the receiver ACCEPTED
    (authentic, first copy), kept here independently of BitField."""
    import logging, struct
    from harness.props import C04 as P4
    logging.disable(logging.CRITICAL)
    rng = run.rng
    starts = [(0, 0), (RING - 20, RING - 200), (RING - 1, RING - 1)]
    nsess = 0
    for start in starts:
        for sender in ("client", "server"):
            st = P4.Stream(run, rng, sender, start[0], start[1], "C08 header ack fields")
            accepted = set()
            try:
                held = []
                for step in range(70 if run.thorough() else 45):
                    st.advance()
                    for _ in range(rng.randrange(0, 3)):
                        st.app_send(rng.choice([9, 12, 40]), rng.choice([0, 1, -1]))
                    new = st.tick_sender()
                    for idx in new:
                        r = rng.random()
                        if r < 0.25:
                            held.append(idx)                      # lost for now (may arrive late)
                            if rng.random() < 0.5:
                                st.inject_mangled(idx, rng.choice(["tag", "body", "seq"]), rng.choice([1, 5, 40, -3]))
                            continue
                        if st.deliver(idx):
                            accepted.add(st.true_n(idx))
                        if r > 0.85:
                            st.deliver(idx, "duplicate")
                    if held and rng.random() < 0.3:
                        idx = held.pop(rng.randrange(len(held)))
                        if st.deliver(idx, "late"):
                            accepted.add(st.true_n(idx))
                    before = len(st.net.emitted[st.receiver])
                    st.tick_receiver()
                    for rec in st.net.emitted[st.receiver][before:]:
                        hdr = rec["hdr"]
                        ack, bits = hdr[3], hdr[7]
                        run.evaluations += 1
                        if not accepted:
                            named = set() if ack == 0 else {"?"}
                            expect = set()
                        else:
                            newest = max(accepted)
                            expect = {n for n in accepted if newest - n <= 32}
                            named = set()
                            if ack == wire(newest):
                                named.add(newest)
                                for d in range(1, 33):
                                    if bits & (0x80000000 >> (d - 1)):
                                        named.add(newest - d)
                            else:
                                named = {"ack=%d" % ack}
                        if named != expect:
                            run.oracle_violation("header-acks-name-a-datagram-that-was-not-accepted-or-miss-one",
                                                 {"direction": "%s->%s" % (st.sender, st.receiver), "start": list(start), "step": step,
                                                  "ack": ack, "ack_bits": bits,
                                                  "named_not_accepted": sorted(str(x) for x in named - expect)[:8],
                                                  "accepted_not_named": sorted(expect - (named if "?" not in named else set()))[:8]},
                                                 "ConnectionBase._recv_datagram / _build_packet_impl")
                        else:
                            run.nt(("hdr", sender, start, len(expect)))
                nsess += 1
            finally:
                st.finish()
    run.count("conn_level_sessions", nsess)
    logging.disable(logging.NOTSET)


def header_names_accepted(run, st, accepted, before, ctx):
    """every header the receiver emitted since `before` names exactly the accepted datagrams among the newest 32
    (same statement as in conn_level)"""
    for rec in st.net.emitted[st.receiver][before:]:
        ack, bits = rec["hdr"][3], rec["hdr"][7]
        run.evaluations += 1
        if not accepted:
            named, expect = (set() if ack == 0 else {"?"}), set()
        else:
            newest = max(accepted)
            expect = {n for n in accepted if newest - n <= 32}
            named = set()
            if ack == wire(newest):
                named.add(newest)
                for d in range(1, 33):
                    if bits & (0x80000000 >> (d - 1)):
                        named.add(newest - d)
            else:
                named = {"ack=%d" % ack}
        if named != expect:
            run.oracle_violation("header-acks-name-a-datagram-that-was-not-accepted-or-miss-one",
                                 dict(ctx, ack=ack, ack_bits=bits, named_not_accepted=sorted(str(x) for x in named - expect)[:8],
                                      accepted_not_named=sorted(expect - (named if "?" not in named else set()))[:8]),
                                 "ConnectionBase._recv_datagram / _build_packet_impl")
            return False
    return True


def conn_level_gaps(run):
    """long one-way blackouts (see the module docstring)"""
    import logging
    from harness.props import C04 as P4
    from harness import connsim as S
    logging.disable(logging.CRITICAL)
    rng = run.rng
    site = "ConnectionBase._recv_datagram"

    class GapStream(P4.Stream):
        def blackout(self, n, dt=15):
            """the sender emits n datagrams, one per update (keep-alives: its send and keep-alive intervals were set to 0),
            and every one of them is lost.  Only the sender is stepped (directly, not through the logged endpoint: its own
            history is not replayed on the model in these streams); when the sender is the client the receiver is ticked
            now and then and its keep-alives DO arrive (one-way blackout: the client would give up after 5 s of silence)."""
            ep = self.net.ep(self.sender)
            em = self.net.emitted[self.sender]
            for i in range(n):
                self.net.advance(dt)
                outs, _ = ep.impl.apply(("ctick", self.net.t, None) if self.sender == "client" else ("stick", self.net.t))
                raws = list(ep.impl.last_sent)
                if len(raws) != 1 or any(o[0] == 3 for o in outs):
                    raise RuntimeError("blackout: sender update %d emitted %d datagrams / raised: harness not exercising the surface" % (i, len(raws)))
                em.append({"hdr": S.unpack_header(raws[0]), "sealed": 7, "payload": b"", "time": self.net.t, "raw": raws[0], "lost": True})
                self.msg_of[len(em) - 1] = []
                if em[-1]["hdr"][2] != wire(self.true_n(len(em) - 1)):
                    raise RuntimeError("blackout: datagram numbering of the harness is off")
                if self.sender == "client" and i % 3000 == 2999:
                    self.tick_receiver()
            self.fwd_seen = len(em)

        def finish(self):
            try:
                e = self.net.ep(self.receiver)
                d = P4.check_model_seq(self.run, e, self.net.env, (0, 0))
                self.run.compare("conn_run_seq", [("receiver", self.label, e.role)], [None], [d])
                r = self.run.model.call_many("w_flags", [[32, self.gp.history]])
                self.run.compare("w_flags", [("datagrams", self.label, len(self.gp.history))],
                                 [[1 if x else 0 for x in self.impl_drop]], [r[0][0]])
            finally:
                self.net.close()

    def arrive(st, idx, why, accepted, ctx):
        """one copy of datagram idx reaches the receiver; a genuine datagram that was never seen and is less than half the
        ring away from the newest seen must be accepted, and the new application messages it carries handed over"""
        n = st.true_n(idx)
        gap = st.gp.gap(n)
        fresh = n not in st.gp.seen
        new_app = [p for (j, ty, p) in st.msg_of[idx] if ty == 6 and j not in st.gm.seen]
        had = {p: st.count.get(p, 0) for p in new_app}
        acc = st.deliver(idx, why)
        run.evaluations += 1
        if acc:
            accepted.add(n)
        if fresh and (gap is None or abs(gap) < HALF):
            c = dict(ctx, datagram_index=n, copy=why, newest_seen_minus_this=gap, wire_seq=wire(n))
            if not acc:
                run.oracle_violation("genuine-new-datagram-within-half-the-ring-refused", c, site)
                return False
            lost = [len(p) for p in new_app if st.count.get(p, 0) != had[p] + 1]
            if lost:
                run.oracle_violation("messages-of-accepted-datagram-not-handed-over", dict(c, lengths=lost), site)
                return False
            if gap is not None and abs(gap) > 32:
                run.nt(("gap", st.sender, st.start, gap))
        return True

    def session(sender, start, G):
        st = GapStream(run, rng, sender, start[0], start[1], "C08 blackout gap %d" % G)
        ctx = {"direction": "%s->%s" % (st.sender, st.receiver), "start": list(start), "gap": G, "scenario": "one-way blackout"}
        accepted = set()
        ok = True

        def hdrs():
            before = len(st.net.emitted[st.receiver])
            st.tick_receiver()
            return header_names_accepted(run, st, accepted, before, ctx)
        try:
            # before the blackout: some traffic; one datagram is held back
            held = None
            for step in range(rng.randrange(3, 7)):
                st.advance()
                for _ in range(rng.randrange(1, 3)):
                    st.app_send(rng.choice([9, 12, 40]), rng.choice([0, 1]))
                for idx in st.tick_sender():
                    if held is None and step >= 1:
                        held = idx
                        continue
                    ok = ok and arrive(st, idx, "first", accepted, ctx)
                ok = ok and hdrs()
            if not ok:
                return False
            newest_idx = max(i for i in range(len(st.net.emitted[sender])) if st.true_n(i) in accepted)
            emitted_now = len(st.net.emitted[sender])
            sep = st.net.ep(sender)
            sep.apply(("cfg", 3, 0))            # send interval 0, keep-alive interval 0: one datagram per update
            sep.apply(("cfg", 0, 0))
            # the datagram that arrives next is G ahead of the newest one seen: everything in between is lost
            st.blackout(G - 1 - (emitted_now - 1 - newest_idx))
            st.advance(15)
            for _ in range(2):
                st.app_send(rng.choice([9, 12, 40]), rng.choice([0, 1]))
            new = st.tick_sender()
            if len(new) != 1 or st.true_n(new[0]) - st.true_n(newest_idx) != G:
                raise RuntimeError("blackout: arrival is not %d ahead of the newest seen: harness broken" % G)
            ok = arrive(st, new[0], "first after the blackout", accepted, ctx) and hdrs()
            if ok:
                st.deliver(new[0], "duplicate")                    # (Stream.deliver: a copy inside the window is dropped whole)
                ok = hdrs()
            if ok and held is not None and G + 40 < HALF:
                # the datagram held back since before the blackout arrives now: never seen, far behind, within half the ring
                ok = arrive(st, held, "late, from before the blackout", accepted, ctx) and hdrs()
            for step in range(3):
                if not ok:
                    break
                st.advance(300)
                st.app_send(rng.choice([9, 12]), 0)
                for idx in st.tick_sender():
                    ok = ok and arrive(st, idx, "first", accepted, ctx)
                ok = ok and hdrs()
            return ok
        finally:
            st.finish()

    starts = [(0, 0), (RING - 20, RING - 200), (RING - 1, RING - 1), (40000, 100), (RING - 9000, 7)]
    gaps = [34, 301, 5001, 8192, 8193, 8194, 9001, 20001, 32001, HALF - 1]
    plan = [("client", G) for G in gaps] + [("server", G) for G in (34, 301, 4001)]
    if run.thorough():
        plan += [("client", rng.randrange(33, HALF)) for _ in range(12)] + [("server", rng.randrange(33, 4500)) for _ in range(6)]
    n = 0
    for sender, G in plan:
        # (receiver = client: the client gives up after 5 s without a datagram, so the blackout it can survive is short)
        if not session(sender, rng.choice(starts), G):
            break
        n += 1
    run.count("blackout_sessions", n)
    logging.disable(logging.NOTSET)


class RefReassembly:
    """what the application must be handed when exactly the messages NOT flagged duplicate are processed
    (written from the protocol description, independent of the code): APP messages as they are; APP_FRAGMENT
    messages collected per fragment id and handed over when all indices 1..count are present, the collection
    being forgotten then (and, as the implementation documents, when older than 1 s + 0.5 s per fragment)"""

    def __init__(self):
        self.frags = {}

    def feed(self, now, typ, payload):
        import struct
        out = []
        if typ == 6:
            out.append(bytes(payload))
        elif typ == 7 and len(payload) >= 6:
            fid, idx, cnt = struct.unpack(">HHH", payload[:6])
            r = self.frags.setdefault(fid, {"count": cnt, "ctime": now, "got": {}})
            if 1 <= idx <= r["count"] and idx not in r["got"]:
                r["got"][idx] = bytes(payload[6:])
            if len(r["got"]) == r["count"]:
                out.append(b"".join(r["got"][i] for i in range(1, r["count"] + 1)))
                del self.frags[fid]
            for k in [k for k, v in self.frags.items() if now - v["ctime"] > T_TICKS + (T_TICKS // 2) * v["count"]]:
                del self.frags[k]
        return out


T_TICKS = 15360


def conn_level_messages(run):
    """the clause about MESSAGES, on real endpoints, for every message type an established connection carries
    (APP, APP_FRAGMENT; keep-alive datagrams carry no message): "a ... message is flagged duplicate exactly when it
    was already received inside the window" (256 message numbers).  Real UdpClient / ServerClientConnection pairs
    (harness/props/C04.py Stream), message counters started at 0 and next to the wrap; single-datagram and
    FRAGMENTED messages in all retry modes; the receiver's acks are blocked for stretches, so that BEST_EFFORT /
    guaranteed messages and the fragments of fragmented ones are RETRANSMITTED in fresh datagrams (same message
    numbers, new datagram numbers); datagrams are also lost, duplicated and delivered late.  A ghost window over the
    TRUE message indices (kept here, independent of BitField) says which message copies are duplicates.  After every
    accepted datagram:
      (a) the receiver's message window (BitField.contains over the newest 256+ numbers) names exactly the message
          indices received inside the window — whatever their type;
      (b) what the application is handed equals what a reference reassembly produces from exactly the messages the
          ghost does NOT flag (a flagged copy has no effect at all; an unflagged message is processed)."""
    import logging, collections
    from harness.props import C04 as P4
    from mpgameserver.connection import SeqNum
    logging.disable(logging.CRITICAL)
    rng = run.rng
    starts = [(0, 0), (RING - 20, RING - 40), (RING - 300, RING - 3)]
    nsess = 0
    nviol = 0
    site = "ConnectionBase._recv_message / BitField.insert"

    def check(st, ref, idx, why, step):
        nonlocal nviol
        conn = st.net.ep(st.receiver).impl.conn
        n = st.true_n(idx)
        dgram_dup = st.gp.flagged(n)
        msgs = st.msg_of[idx]
        pre = [(j, ty, p, st.gm.flagged(j)) for (j, ty, p) in msgs]
        before = dict(st.count)
        now = st.net.t
        acc = st.deliver(idx, why)
        got = collections.Counter()
        for p, c in st.count.items():
            if c - before.get(p, 0):
                got[p] = c - before.get(p, 0)
        run.evaluations += 1
        base = {"direction": "%s->%s" % (st.sender, st.receiver), "start": list(st.start), "step": step, "copy": why,
                "datagram_index": n,
                "messages": [[j, ty, len(p), "flagged" if f else "new"] for (j, ty, p, f) in pre][:8]}
        want = collections.Counter()
        if acc and not dgram_dup:
            for (j, ty, p, f) in pre:
                if not f:
                    for x in ref.feed(now, ty, p):
                        want[x] += 1
                if f:
                    run.nt(("msg-dup", st.sender, st.start, ty, min(st.gm.gap(j) or 0, 300), why))
        if got != want and nviol < 6:
            nviol += 1
            extra, missing = got - want, want - got
            run.oracle_violation(
                "message-flagged-duplicate-was-processed-again" if extra else "message-not-flagged-was-not-processed",
                dict(base, handed_to_application=[[bytes(p[:12]), len(p), c] for p, c in list(got.items())[:4]],
                     expected=[[bytes(p[:12]), len(p), c] for p, c in list(want.items())[:4]],
                     fragmented=any(ty == 7 for (_, ty, _, _) in pre)), site)
        if acc and st.gm.newest is not None and not getattr(st, "window_reported", False):
            m = st.gm.newest
            for q in range(max(1, m - 260), m + 3):
                expect = st.gm.flagged(q)
                has = bool(conn.bitfield_msg.contains(SeqNum(wire(q))))
                if has != expect:
                    st.window_reported = True          # once per stream (every later datagram repeats it)
                    typ = [ty for (j, ty, p, f) in pre if j == q]
                    run.oracle_violation("message-window-does-not-name-the-messages-received",
                                         dict(base, message_index=q, newest_message_index=m, in_window=has, received_inside_window=expect,
                                              message_type=typ[0] if typ else None), site)
                    break
        return acc

    for start in starts:
        for sender in ("client", "server"):
            st = P4.Stream(run, rng, sender, start[0], start[1], "C08 message window")
            ref = RefReassembly()
            try:
                held = []
                block_until = -1
                for step in range(70 if run.thorough() else 42):
                    st.advance()
                    if step > block_until and rng.random() < 0.2:
                        block_until = step + rng.choice([6, 8, 12])     # acks lost for longer than the re-send interval
                    if step == 2:
                        block_until = 10                # every stream: a fragmented guaranteed message whose acks are lost
                    st.back_block = step <= block_until
                    r = rng.random()
                    if step == 2:
                        st.app_send(2500, -1)
                    elif r < 0.25:
                        st.app_send(rng.choice([1500, 2500, 3000]), rng.choice([1, -1, -1, 0]))     # fragmented
                    elif r < 0.7:
                        for _ in range(rng.randrange(1, 3)):
                            st.app_send(rng.choice([9, 12, 40, 700]), rng.choice([0, 1, -1]))
                    new = st.tick_sender()
                    for idx in new:
                        x = rng.random()
                        if x < 0.15:
                            held.append(idx)
                            continue
                        check(st, ref, idx, "first", step)
                        if x > 0.85:
                            check(st, ref, idx, "duplicate", step)
                    if held and rng.random() < 0.3:
                        check(st, ref, held.pop(rng.randrange(len(held))), "late", step)
                    st.tick_receiver()
                nsess += 1
            finally:
                st.finish()
            run.count("message_copies_flagged", sum(1 for f in st.gm.flags if f))
            run.count("fragment_messages_seen", sum(1 for ms in st.msg_of.values() for (_, ty, _) in ms if ty == 7))
    run.count("conn_level_message_sessions", nsess)
    if not run.dist.get("message_copies_flagged"):
        raise RuntimeError("message-window streams without a single retransmitted message: generator broken")
    logging.disable(logging.NOTSET)


def oracle(run):
    """the property on the implementation alone"""
    from mpgameserver.connection import SeqNum, BitField, DuplicationError
    # (a) ring advance, all values
    for a in range(0, RING + 1):
        r = int(SeqNum(a) + 1)
        good = 1 <= r <= RING and (r == a + 1 if a < RING else r == 1)
        run.evaluations += 1
        if not good:
            run.oracle_violation("ring-advance", {"a": a, "succ": r}, "SeqNum.__add__")
            break
    s = SeqNum()
    for n in range(1, 140001 if run.thorough() else 70001):
        s = s + 1
        if int(s) != wire(n):
            run.oracle_violation("ring-iterate", {"n": n, "value": int(s), "expected": wire(n)}, "SeqNum.__add__")
            break
    run.exhaustive.append("ring advance: all 65536 start values")
    # (b) comparisons within half the ring
    ks = [1, 2, 32, 33, 256, HALF - 1, HALF] + ([run.rng.randrange(1, HALF + 1) for _ in range(150)] if run.thorough() else
                                                 [run.rng.randrange(1, HALF + 1) for _ in range(3)])
    done = False
    for a in range(1, RING + 1):
        A = SeqNum(a)
        for k in ks:
            B = A + k
            run.evaluations += 1
            if not (B.diff(A) == k and A.diff(B) == -k and B.newer_than(A) and not A.newer_than(B)
                    and (A < B) and (B > A) and not (B < A) and not (A > B)):
                run.oracle_violation("comparison", {"a": a, "k": k, "b": int(B), "diff": B.diff(A)}, "SeqNum.diff")
                done = True
                break
            if a + k > RING:
                run.nt(("cmp", a, k))
        if done:
            break
    run.exhaustive.append("comparisons: all 65535 values x %d offsets" % len(ks))

    # (c) window histories vs the abstract spec
    def check_hist(nb, h, what):
        bf = BitField(nb)
        flags = []
        for n in h:
            try:
                bf.insert(SeqNum(wire(n)))
                flags.append(False)
            except DuplicationError:
                flags.append(True)
        sf, m, acc = spec_window(nb, h)
        run.evaluations += 1
        if flags != sf:
            run.oracle_violation(what, {"nbits": nb, "history": h, "dup_flags": flags, "expected": sf}, "BitField.insert")
            return False
        for q in range(max(1, m - nb - 2), m + 3):
            want = q in acc and q <= m and m - q <= nb
            if bool(bf.contains(SeqNum(wire(q)))) != want:
                run.oracle_violation("window-contains", {"nbits": nb, "history": h, "query": q, "expected": want},
                                     "BitField.contains")
                return False
        crosses = min(h) <= RING < max(h) or min(h) <= 2 * RING < max(h)
        if crosses and any(sf):
            run.nt(("hist", nb, tuple(h)))
        return True

    okc = True
    for i in range(6000 if run.thorough() else 1200):
        nb = run.rng.choice([8, 16, 32, 64, 128, 256])
        h = gen_history(run, nb, run.rng.randrange(2, 80))
        if not check_hist(nb, h, "window-duplicate"):
            okc = False
            break
    if okc:
        # exhaustive small histories for nbits = 8 around the wrap
        L = 5 if run.thorough() else 4
        neigh = [RING - 10, RING - 9, RING - 8, RING - 1, RING, RING + 1, RING + 2, RING + 7, RING + 8, RING + 9] + \
                ([RING - 2, RING + 10] if run.thorough() else [])
        cnt = 0
        for h in itertools.product(neigh, repeat=L):
            cnt += 1
            if not check_hist(8, list(h), "window-duplicate"):
                break
        run.exhaustive.append("window: all %d histories of length %d over %d values around the wrap, nbits=8" % (cnt, L, len(neigh)))
        run.count("exhaustive_histories", cnt)

    # (d) ack fields name exactly the received among the newest 32 (through the real _handle_ack_bits)
    for i in range(300 if run.thorough() else 60):
        h = gen_history(run, 32, run.rng.randrange(1, 70))
        bf = BitField(32)
        for n in h:
            try:
                bf.insert(SeqNum(wire(n)))
            except DuplicationError:
                pass
        sf, m, acc = spec_window(32, h)
        for q in range(max(1, m - 36), m + 3):
            want = q in acc and q <= m and m - q <= 32
            got = impl_acked(int(bf.current_seqnum), int(bf.bits), wire(q))
            run.evaluations += 1
            if got != want:
                run.oracle_violation("ack-fields", {"history": h, "query": q, "acked": got, "expected": want},
                                     "_handle_ack_bits")
                return
    run.sample({"oracle": "window history", "nbits": 8, "history": [RING - 1, RING + 1, RING - 1, RING + 9, RING - 1],
                "dup_flags": spec_window(8, [RING - 1, RING + 1, RING - 1, RING + 9, RING - 1])[0]})
    run.rules.append(RULE)
