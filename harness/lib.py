"""lib.py — shared plumbing of the verification harness.

* build():   regenerate Gen/Kernels.v from /repo, rebuild the Coq development (full .vo),
             extract the model and link the OCaml driver (serialised by a lock file)
* Model:     talk to the extracted model (line protocol, see driver/drv.ml)
* proof_status(): compile coq/Properties/<id>.v afresh, collect Print Assumptions
* Run:       bookkeeping of one check run: correspondence results, oracle failures,
             known findings, evidence and replay files, exit status
"""
import os, sys, re, json, time, subprocess, fcntl, random, hashlib, glob

VERIF = os.path.dirname(os.path.dirname(os.path.abspath(__file__)))
REPO = os.environ.get("VERIF_REPO", "/repo")
COQ = os.path.join(VERIF, "coq")
BUILD = os.path.join(VERIF, "build")
PY = "/venv/bin/python"
COQFLAGS = ["-Q", "Model", "Model", "-Q", "Gen", "Gen", "-Q", "Proofs", "Proofs",
            "-Q", "Properties", "Properties", "-Q", "Extract", "Extract"]

FORBIDDEN = re.compile(r"\b(Admitted|admit|Axiom|Axioms|Parameter|Parameters|Conjecture|Hypothesis|Variable)\b|"
                       r"Unset\s+Guard|bypass_check|type-in-type|Admit\s+Obligations|impredicative-set")

# ------------------------------------------------------------------ s-expressions

def enc(v):
    """python value -> s-expression.  int -> i<hex>, bytes -> x<hex>, bool -> i0/i1,
    list/tuple -> ( ... )"""
    if isinstance(v, bool):
        return "i1" if v else "i0"
    if isinstance(v, int):
        return ("i-%x" % -v) if v < 0 else ("i%x" % v)
    if isinstance(v, (bytes, bytearray)):
        return "x" + bytes(v).hex()
    if isinstance(v, (list, tuple)):
        return "( " + " ".join(enc(x) for x in v) + " )" if v else "( )"
    raise TypeError("enc: %r" % (v,))


def dec(s):
    toks = s.split()
    pos = 0

    def go():
        nonlocal pos
        t = toks[pos]
        pos += 1
        if t == "(":
            out = []
            while toks[pos] != ")":
                out.append(go())
            pos += 1
            return out
        if t[0] == "i":
            return -int(t[2:], 16) if t[1:2] == "-" else int(t[1:], 16)
        if t[0] == "x":
            return bytes.fromhex(t[1:])
        raise ValueError("dec: token %r" % t)
    return go()


def ok(v):
    return [0, v]


def err(code):
    return [1, code]


ERR = {"ValueError": 1, "TypeError": 2, "struct.error": 3, "DuplicationError": 4, "PacketError": 5,
       "InvalidSignature": 6, "IndexError": 7, "RecursionError": 8, "Other": 9, "KeyError": 10,
       "DispatchError": 11, "UnicodeError": 12, "OverflowError": 13, "AttributeError": 14}


def exc_code(e):
    import struct
    n = type(e).__name__
    if isinstance(e, struct.error):
        return ERR["struct.error"]
    if isinstance(e, UnicodeError):
        return ERR["UnicodeError"]
    if isinstance(e, RecursionError):
        return ERR["RecursionError"]
    if isinstance(e, OverflowError):
        return ERR["OverflowError"]
    for k in ("DuplicationError", "PacketError", "InvalidSignature", "DispatchError"):
        if n == k:
            return ERR[k]
    for cls, k in ((ValueError, "ValueError"), (TypeError, "TypeError"), (IndexError, "IndexError"),
                   (KeyError, "KeyError"), (AttributeError, "AttributeError")):
        if isinstance(e, cls):
            return ERR[k]
    return ERR["Other"]


def guarded(f, *a, wrap=lambda x: x):
    try:
        return ok(wrap(f(*a)))
    except Exception as e:       # noqa
        return err(exc_code(e))

# ------------------------------------------------------------------ build


def sh(cmd, cwd=None, timeout=1800, env=None):
    p = subprocess.run(cmd, cwd=cwd, stdout=subprocess.PIPE, stderr=subprocess.STDOUT, timeout=timeout,
                       text=True, env=env)
    return p.returncode, p.stdout


class Lock:
    def __enter__(self):
        os.makedirs(BUILD, exist_ok=True)
        self.f = open(os.path.join(BUILD, ".lock"), "w")
        fcntl.flock(self.f, fcntl.LOCK_EX)
        return self

    def __exit__(self, *a):
        fcntl.flock(self.f, fcntl.LOCK_UN)
        self.f.close()


def build(verbose=False):
    """returns dict(translator_ok, translator_log, make_ok, make_log, driver_ok)"""
    st = {}
    with Lock():
        rc, out = sh([sys.executable, os.path.join(VERIF, "tools", "py2v.py"),
                      os.path.join(REPO, "mpgameserver"), os.path.join(COQ, "Gen", "Kernels.v")])
        st["translator_ok"] = rc == 0
        st["translator_log"] = out.strip()
        rc, out = sh([sys.executable, os.path.join(VERIF, "tools", "py2v_bytes.py"),
                      os.path.join(REPO, "mpgameserver"), os.path.join(COQ, "Gen")])
        bits = (rc - 2) if rc >= 2 else (7 if rc else 0)
        st["translator_ser_ok"] = not (bits & 1)
        st["translator_ws_ok"] = not (bits & 2)
        st["translator_hdr_ok"] = not (bits & 4)
        st["translator_bytes_log"] = out.strip()
        sh([sys.executable, os.path.join(VERIF, "tools", "gen_dispatch.py")])
        if not os.path.exists(os.path.join(COQ, "Makefile")) or \
                os.path.getmtime(os.path.join(COQ, "Makefile")) < os.path.getmtime(os.path.join(COQ, "_CoqProject")):
            sh(["coq_makefile", "-f", "_CoqProject", "-o", "Makefile"], cwd=COQ)
        rc, out = sh(["make", "-k", "-j", str(os.cpu_count() or 8)], cwd=COQ, timeout=3000)
        st["make_ok"] = rc == 0
        st["make_log"] = out[-6000:]
        st["make_errors"] = re.findall(r'File "\./([^"]+)", line (\d+)', out)
        # driver
        drv = os.path.join(BUILD, "driver")
        srcs = [os.path.join(COQ, "model.ml"), os.path.join(COQ, "model.mli"), os.path.join(VERIF, "driver", "drv.ml")]
        st["driver_ok"] = True
        if all(os.path.exists(s) for s in srcs):
            if not os.path.exists(drv) or any(os.path.getmtime(s) > os.path.getmtime(drv) for s in srcs):
                for s in srcs:
                    subprocess.run(["cp", s, BUILD])
                rc, out2 = sh(["ocamlfind", "ocamlopt", "-w", "-a", "model.mli", "model.ml", "drv.ml", "-o", "driver"],
                              cwd=BUILD)
                st["driver_ok"] = rc == 0
                st["driver_log"] = out2[-2000:]
        else:
            st["driver_ok"] = os.path.exists(drv)
    if verbose:
        print("build: translator_ok=%s (bytes: ser %s, ws %s, hdr %s) make_ok=%s driver_ok=%s" % (
            st["translator_ok"], st["translator_ser_ok"], st["translator_ws_ok"], st["translator_hdr_ok"], st["make_ok"], st["driver_ok"]))
    return st


def scan_forbidden():
    """the development must contain no Admitted/admit/Axiom/Parameter/... anywhere"""
    hits = []
    for p in glob.glob(os.path.join(COQ, "*", "*.v")):
        txt = open(p).read()
        # strip comments (non-nested is enough for our files, nested handled by loop)
        prev = None
        while prev != txt:
            prev = txt
            txt = re.sub(r"\(\*[^()]*?\*\)", "", txt, flags=re.S)
        txt = re.sub(r"\(\*.*?\*\)", "", txt, flags=re.S)
        for i, line in enumerate(txt.split("\n")):
            m = FORBIDDEN.search(line)
            if m:
                # Variable/Hypothesis are allowed inside Sections only
                if m.group(1) in ("Variable", "Hypothesis") and in_section(txt, i):
                    continue
                hits.append("%s:%d: %s" % (os.path.relpath(p, COQ), i + 1, line.strip()[:100]))
    return hits


def in_section(txt, lineno):
    depth = 0
    for i, line in enumerate(txt.split("\n")):
        if i >= lineno:
            break
        if re.match(r"\s*Section\s+\w+", line):
            depth += 1
        elif re.match(r"\s*End\s+\w+", line) and depth > 0:
            depth -= 1
    return depth > 0


def proof_status(prop):
    """compile Properties/<prop>.v afresh (its dependencies were built by make).
    returns dict(theorems=[names], compiled=bool, log, assumptions={thm: text})"""
    src = os.path.join(COQ, "Properties", prop + ".v")
    txt = open(src).read()
    thms = re.findall(r"^\s*Theorem\s+(\w+)", txt, flags=re.M)
    tmpd = os.path.join(BUILD, "props_%s_%d" % (prop, os.getpid()))
    os.makedirs(tmpd, exist_ok=True)
    tmpo = os.path.join(tmpd, prop + ".vo")
    rc, out = sh(["coqc"] + COQFLAGS + ["-o", tmpo, os.path.join("Properties", prop + ".v")], cwd=COQ, timeout=1200)
    subprocess.run(["rm", "-rf", tmpd])
    ass = {}
    # Print Assumptions blocks come in theorem order
    blocks = re.split(r"(?=^Closed under the global context|^Axioms:|^Section Variables:)", out, flags=re.M)
    blocks = [b.strip() for b in blocks if b.strip().startswith(("Closed", "Axioms", "Section"))]
    printed = re.findall(r"^\s*Print Assumptions\s+(\w+)", txt, flags=re.M)
    for name, b in zip(printed, blocks):
        ass[name] = b
    return {"theorems": thms, "compiled": rc == 0, "log": out[-4000:], "assumptions": ass,
            "printed": printed}

# ------------------------------------------------------------------ model driver


def unit_table():
    tab = {}
    for p in glob.glob(os.path.join(COQ, "Extract", "U_*.v")):
        for m in re.finditer(r"\(\*\s*UNIT\s+(\d+)\s+(\w+)", open(p).read()):
            if m.group(2) in tab and tab[m.group(2)] != int(m.group(1)):
                raise RuntimeError("duplicate correspondence unit name %s (%d, %d)" % (m.group(2), tab[m.group(2)], int(m.group(1))))
            tab[m.group(2)] = int(m.group(1))
    return tab


def _big_stack():
    """the extracted model recurses over the event list: long histories (several ring wraps) need a
    deep native stack"""
    import resource
    try:
        soft, hard = resource.getrlimit(resource.RLIMIT_STACK)
        resource.setrlimit(resource.RLIMIT_STACK, (hard, hard))
    except Exception:   # noqa
        pass


def coq_term(v):
    """python value -> Gallina term of type V"""
    if isinstance(v, bool):
        return "VI 1" if v else "VI 0"
    if isinstance(v, int):
        return "VI (%d)" % v
    if isinstance(v, (bytes, bytearray)):
        return "VB [" + "; ".join("x%02x" % b for b in bytes(v)) + "]"
    return "VL [" + "; ".join(coq_term(x) for x in v) + "]"


class Model:
    SAMPLE_BYTES = 1500      # only small requests are re-evaluated inside Coq
    SAMPLE_MAX = 40

    def __init__(self):
        self.units = unit_table()
        self.exe = os.path.join(BUILD, "driver")
        self.samples = []        # (unit id, request, reply) kept for the in-Coq cross-check of the extraction
        self._per_unit = {}

    def _keep(self, uid, arg, reply, line_len):
        if len(self.samples) >= self.SAMPLE_MAX or line_len > self.SAMPLE_BYTES or self._per_unit.get(uid, 0) >= 4:
            return
        self._per_unit[uid] = self._per_unit.get(uid, 0) + 1
        self.samples.append((uid, arg, reply))

    def cross_check(self, tag):
        """re-evaluate the kept requests with vm_compute inside Coq and compare with the replies of the
        extracted OCaml model.  returns (n_cases, n_mismatch, log)"""
        if not self.samples:
            return 0, 0, ""
        d = os.path.join(BUILD, "cases_%s_%d" % (tag, os.getpid()))
        os.makedirs(d, exist_ok=True)
        src = os.path.join(d, "cases.v")
        lines = ["From Model Require Import Base.", "From Extract Require Import Dispatch VEq.", "Open Scope Z_scope.",
                 "Definition cases : list (Z * V * V) := ["]
        lines.append(";\n".join("  (%d, %s, %s)" % (u, coq_term(a), coq_term(r)) for u, a, r in self.samples))
        lines += ["].", "Eval vm_compute in map (fun c => v_eqb (dispatch (fst (fst c)) (snd (fst c))) (snd c)) cases."]
        open(src, "w").write("\n".join(lines) + "\n")
        rc, out = sh(["coqc"] + COQFLAGS + ["-o", os.path.join(d, "cases.vo"), src], cwd=COQ, timeout=600)
        subprocess.run(["rm", "-rf", d])
        n_true, n_false = len(re.findall(r"\btrue\b", out)), len(re.findall(r"\bfalse\b", out))
        if rc != 0 or n_true + n_false != len(self.samples):
            return len(self.samples), len(self.samples), out[-800:]
        return len(self.samples), n_false, out[-400:] if n_false else ""

    def call_many(self, unit, args):
        """args: list of python values; returns list of decoded replies"""
        if not args:
            return []
        uid = self.units[unit]
        inp = "".join("%d %s\n" % (uid, enc(a)) for a in args)
        p = subprocess.run([self.exe], input=inp, stdout=subprocess.PIPE, stderr=subprocess.PIPE, text=True,
                           preexec_fn=_big_stack)
        if p.returncode != 0:
            raise RuntimeError("model driver failed: %s" % p.stderr[-500:])
        lines = p.stdout.split("\n")
        if lines and lines[-1] == "":
            lines.pop()
        if len(lines) != len(args):
            raise RuntimeError("model driver: %d replies for %d requests" % (len(lines), len(args)))
        res = [dec(l) for l in lines]
        if len(self.samples) < self.SAMPLE_MAX:
            for a, l, r in zip(args[:6], lines[:6], res[:6]):
                self._keep(uid, a, r, len(l) + len(enc(a)))
        return res

    def call(self, unit, arg):
        return self.call_many(unit, [arg])[0]

# ------------------------------------------------------------------ a check run


def matches_known(prop, f):
    """does the oracle failure record f match a committed `known` finding of this property?
    (same rule as in ./check: every key of the entry's `match` equals the record's field or its case's field)"""
    for k in load_known():
        if k.get("property") != prop or k.get("status") != "known":
            continue
        cond = k.get("match", {})
        if cond and all(f.get(kk, (f.get("case") or {}).get(kk) if isinstance(f.get("case"), dict) else None) == v
                        for kk, v in cond.items()):
            return True
    return False


def load_known():
    p = os.path.join(VERIF, "known_findings.json")
    if not os.path.exists(p):
        return []
    return json.load(open(p)).get("findings", [])


class Run:
    def __init__(self, prop, tier, seed):
        self.prop, self.tier, self.seed = prop, tier, seed
        self.rng = random.Random(seed)
        self.t0 = time.time()
        self.evaluations = 0
        self.nontrivial = set()
        self.samples = []
        self.rules = []
        self.units = {}          # unit -> dict(cases, disagreements)
        self.corr_fail = []      # correspondence disagreements
        self.oracle_fail = []    # property violated on the implementation (dict with 'what', 'case', 'site')
        self.dist = {}
        self.notes = []
        self.exhaustive = []
        self.known_hit = []
        self.model = None

    def thorough(self):
        return self.tier == "thorough"

    def count(self, key, n=1):
        self.dist[key] = self.dist.get(key, 0) + n

    def nt(self, key):
        """record one distinct non-trivial case (key identifies the case)"""
        self.nontrivial.add(hashlib.blake2b(repr(key).encode(), digest_size=8).digest())

    def sample(self, s, limit=6):
        if len(self.samples) < limit:
            self.samples.append(s)

    def compare(self, unit, cases, impl_results, model_results, describe=None):
        """correspondence: cases[i] evaluated by impl and model must agree"""
        u = self.units.setdefault(unit, {"cases": 0, "disagreements": 0})
        for c, a, b in zip(cases, impl_results, model_results):
            u["cases"] += 1
            self.evaluations += 1
            if a != b:
                u["disagreements"] += 1
                if len(self.corr_fail) < 20:
                    self.corr_fail.append({"unit": unit, "case": describe(c) if describe else jsonable(c),
                                           "impl": jsonable(a), "model": jsonable(b)})

    def oracle_violation(self, what, case, site=None):
        """the implementation violates the property on a concrete case"""
        if len(self.oracle_fail) < 50:
            self.oracle_fail.append({"what": what, "case": jsonable(case), "site": site})


def jsonable(v):
    if isinstance(v, (bytes, bytearray)):
        return "hex:" + bytes(v).hex()
    if isinstance(v, (list, tuple)):
        return [jsonable(x) for x in v]
    if isinstance(v, dict):
        return {str(k): jsonable(x) for k, x in v.items()}
    if isinstance(v, (int, str, bool)) or v is None:
        return v
    if isinstance(v, float):
        return v
    return repr(v)
