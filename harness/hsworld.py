"""hsworld.py — Dolev-Yao abstraction for the handshake check (C02).

Maps the REAL cryptographic values that travel in the three handshake datagrams to the symbolic
terms of coq/Model/Handshake.v as instantiated in coq/Extract/U_Handshake.v:
  private key  -> integer id (distinct primes), public key (DER) -> the id of its private key
  signature    -> [signer id, payload]  where the signer is found by REAL ECDSA verification of the
                  signed bytes under every key the harness knows (none: signer -1)
  session key  -> a*B*2^200 + salt  where (a, B, salt) is found by REAL ECDH+HKDF over the known keys
The harness generated every private key (root, attacker keys) or can read it from the endpoint
object (session_key), which is what an abstraction function of a symbolic model needs.
"""
import io
from harness import lib
from harness import connsim as S

PRIMES = [101, 103, 107, 109, 113, 127, 131, 137, 139, 149, 151, 157, 163, 167, 173, 179, 181, 191, 193, 197,
          199, 211, 223, 227, 229, 233, 239, 241, 251, 257, 263, 269, 271, 277, 281, 283, 293, 307, 311, 313]


class Unabstractable(Exception):
    pass


def salt_id(salt):
    if not isinstance(salt, (bytes, bytearray)):
        raise Unabstractable("salt type")
    return int.from_bytes(b"\x01" + bytes(salt), "big")


class World:
    def __init__(self):
        self.privs = {}        # id -> EllipticCurvePrivateKey
        self.by_der = {}       # DER of public key -> id
        self.pubs = {}         # id -> EllipticCurvePublicKey (known or foreign)
        self.salts = {}        # salt id -> bytes
        self.nforeign = 0
        self.watched = []      # connsim.Impl objects whose ephemeral keys / salts are harvested

    def watch(self, impl):
        self.watched.append(impl)

    def harvest(self):
        for impl in self.watched:
            c = impl.conn
            if c is not None:
                self.reg(c.session_key)
                if getattr(c, "session_salt", None) is not None:
                    self.note_salt(c.session_salt)

    def reg(self, key):
        der = key.getPublicKey().getBytes()
        if der in self.by_der:
            return self.by_der[der]
        i = PRIMES[len(self.privs)]
        self.privs[i] = key
        self.by_der[der] = i
        self.pubs[i] = key.getPublicKey()
        return i

    def new_key(self):
        from mpgameserver.crypto import EllipticCurvePrivateKey
        k = EllipticCurvePrivateKey.new()
        return self.reg(k), k

    def pub_id(self, pubkey):
        der = pubkey.getBytes()
        if der not in self.by_der:
            self.nforeign += 1
            i = 9000 + self.nforeign
            self.by_der[der] = i
            self.pubs[i] = pubkey
        return self.by_der[der]

    def note_salt(self, salt):
        i = salt_id(salt)
        self.salts[i] = bytes(salt)
        return i

    @staticmethod
    def key_term(a, B, s):
        return a * B * (1 << 200) + s

    def resolve_key(self, kb):
        """real 16-byte session key -> symbolic term, by real ECDH + HKDF over the known values"""
        from mpgameserver import crypto
        self.harvest()
        for a, ka in self.privs.items():
            for B, pB in self.pubs.items():
                for s, sb in self.salts.items():
                    try:
                        if crypto.ecdh_client(ka, pB, sb) == kb:
                            return self.key_term(a, B, s)
                    except Exception:   # noqa
                        pass
        return None

    def signer(self, signature, payload):
        for i, pk in self.pubs.items():
            try:
                pk.verify(signature, payload)
                return i
            except Exception:   # noqa
                pass
        return -1

    def abstract_msg(self, data):
        """payload bytes of a handshake-typed message -> hmsg encoding of U_Handshake.v"""
        from mpgameserver.serializable import Serializable
        from mpgameserver.crypto import EllipticCurvePublicKey
        from mpgameserver import connection as C
        seen = []
        orig = EllipticCurvePublicKey.verify
        EllipticCurvePublicKey.verify = lambda self_, sig, dat: seen.append((sig, dat))
        try:
            try:
                m = Serializable.loadb(bytes(data), server_public_key=None)
            except KeyError:
                raise
            except Exception as e:   # noqa
                return [3, lib.exc_code(e)]
        finally:
            EllipticCurvePublicKey.verify = orig
        if isinstance(m, C.HandshakeClientHelloMessage):
            if not isinstance(m.client_version, int) or isinstance(m.client_version, bool):
                raise Unabstractable("version type")
            return [0, self.pub_id(m.client_pubkey), m.client_version, 1]
        if isinstance(m, C.HandshakeServerHelloMessage):
            if not isinstance(m.token, int) or isinstance(m.token, bool) or not seen:
                raise Unabstractable("token type")
            sig, payload = seen[-1]
            p = [self.pub_id(m.server_pubkey), self.note_salt(m.salt), m.token]
            return [1, self.pub_id(m.server_root_pubkey), p, [self.signer(sig, payload), p]]
        if isinstance(m, C.HandshakeClientChallengeResponseMessage):
            if not isinstance(m.token, int) or isinstance(m.token, bool):
                raise Unabstractable("token type")
            return [2, m.token]
        return [3, 14]


class DYKeys(S.Keys):
    """connsim key registry whose ids are the symbolic session-key terms"""
    def __init__(self, world):
        super().__init__()
        self.world = world

    def id_of(self, kb):
        if kb is None:
            return -1
        kb = bytes(kb)
        if kb not in self.by_bytes:
            t = self.world.resolve_key(kb)
            if t is not None:
                self.by_bytes[kb] = t
                self.by_id[t] = kb
        return super().id_of(kb)


class FakeRoot:
    """a 'root key' that signs with one key and announces the public key of another"""
    def __init__(self, signer, announced):
        self.signer, self.announced = signer, announced

    def sign(self, payload):
        return self.signer.sign(payload)

    def getPublicKey(self):
        return self.announced.getPublicKey()


def make_server_hello(root, eph_pub, salt, token, announced=None, sig_mut=None, payload_after=None):
    """bytes of a HandshakeServerHelloMessage built from chosen parts (attacker's toolbox)"""
    from mpgameserver import connection as C
    m = C.HandshakeServerHelloMessage()
    m.server_pubkey = eph_pub
    m.salt = salt
    m.token = token
    return m.dumpb(server_root_key=FakeRoot(root, announced or root))


def split_server_hello(data):
    """-> (root_pubkey_der, payload, signature) raw parts of a server hello"""
    from mpgameserver.serializable import deserialize_value
    st = io.BytesIO(bytes(data))
    st.read(SER_HDR)
    return deserialize_value(st), deserialize_value(st), deserialize_value(st)


SER_HDR = 0


def join_server_hello(template, root_der, payload, signature):
    from mpgameserver.serializable import serialize_value
    st = io.BytesIO()
    st.write(bytes(template[:SER_HDR]))
    serialize_value(st, root_der)
    serialize_value(st, payload)
    serialize_value(st, signature)
    return st.getvalue()


def init_ser_hdr():
    """length of the Serializable type header in front of a dumped message (measured, not assumed)"""
    global SER_HDR
    from mpgameserver import connection as C
    from mpgameserver.serializable import serialize_value
    m = C.HandshakeClientChallengeResponseMessage()
    m.token = 0x41424344
    d = m.dumpb()
    st = io.BytesIO()
    serialize_value(st, 0x41424344)
    body = st.getvalue()
    assert d.endswith(body)
    # the server hello has a custom serialize(): measure where its first value starts
    from mpgameserver.crypto import EllipticCurvePrivateKey
    k = EllipticCurvePrivateKey.new()
    h = make_server_hello(k, k.getPublicKey(), b"\x00" * 16, 1)
    st = io.BytesIO()
    serialize_value(st, k.getPublicKey().getBytes())
    SER_HDR = h.index(st.getvalue())
    assert 0 < SER_HDR < 8
    return SER_HDR
