"""d17.py — the known finding D17 (FragmentReceiver.expired) reproduced by ONE directed history on the real
endpoints, so that the quick tier of C05 and C07 re-observes it on every run (the random sessions only hit
it now and then).  History: a guaranteed 2500-byte message A (three fragments, one per datagram); every
datagram carrying A's middle fragment is lost for 3.5 s; at 3 s a second fragmented message B arrives — its
first fragment makes the receiver sweep A's expired context (1 s + 0.5 s x 3 after A's first fragment);
then the retransmission of A's middle fragment gets through and opens a fresh context that never
completes.  Every fragment of A arrived exactly once and was acknowledged."""
from harness import netsim, connsim as S

T = S.TICKS


def directed(run, sender="client"):
    """-> (net, mid of message A).  The caller applies its own oracle to net (and closes it)."""
    net = netsim.Net(run, run.rng, {"loss": 0, "dup": 0, "reorder": 0, "tick": 525}, mtu=1500)      # ticks are multiples of 15 (exact binary fractions of a second); 525 > the 512-tick send interval
    for _ in range(3):
        net.step()
    mid = net.send(sender, 2500, -1, with_cb=True, api=True)
    fid = int(net.ep(sender).impl.conn.seq_fragment) if hasattr(net.ep(sender).impl.conn, "seq_fragment") else 1
    t_release = net.t + 7 * T // 2

    def middle_fragment_of_a(rec):
        # a datagram carrying exactly one APP_FRAGMENT message: payload = message seq (2) + fragment id, index, count (2 each) + bytes
        p = bytes(rec["payload"])
        return rec["hdr"][4] == 7 and rec["hdr"][6] == 1 and len(p) >= 8 and p[2:4] == fid.to_bytes(2, "big") and p[4:6] == b"\x00\x02"
    net.drop_filter = lambda who, rec: who == sender and net.t < t_release and middle_fragment_of_a(rec)
    sent_b = False
    while net.t < t_release + 4 * T:
        if not sent_b and net.t >= t_release - T // 2:
            net.send(sender, 2500, 0, with_cb=False, fill=b"\x55" * 2500)      # (generated payloads are periodic: use a constant fill so that the loss filter cannot match B)
            sent_b = True
        net.step()
    net.healed = True
    for _ in range(60):
        net.step()
    return net, mid
