"""identlib.py — families of DIFFERENT inputs that some plausible canonicalisation would wrongly IDENTIFY.

Used by the side-module checks (C19 passwords, C16 router paths, C17 file names, C15 values): the properties speak of
byte strings / strings as they are ("every q different from p", "literal segments must equal the path's segments in
full"), so two inputs related by one of these transformations are two inputs.  The harness builds them with
unicodedata / codecs; the library under test is not expected to use either.

text_variants(t)   -> [(tag, t2)]   t2 != t, related to t by: Unicode NFC/NFD/NFKC/NFKD, case mappings (lower, upper,
                      casefold, swapcase, title), whitespace (strip, added leading/trailing blanks and line ends, collapsed /
                      doubled / removed inner blanks, NBSP / ideographic space for space), BOM, zero-width and default-
                      ignorable characters inserted, full-width forms, look-alike letters, other digit sets
byte_variants(p)   -> [(tag, q)]    q != p: over-long / modified / CESU UTF-8, other encodings of the same text
                      (latin-1, cp1252, UTF-16/32 with and without BOM), lossy decoding (errors=ignore/replace),
                      truncation at the habitual limits (8, 55, 56, 64, 72, 128, 255, 256 bytes) and at NUL, NUL padding,
                      the password's own digest / hex / base64 / percent-encoding, the password repeated (key cycling),
                      high bit stripped
password_pairs(rng, thorough) -> [(tag, p, q)] bytes, p != q, deduplicated, deterministic order"""
import base64, hashlib, unicodedata, urllib.parse

TEXTS = ["caf\u00e9-2024", "cafe\u0301-2024", "\ufb01shbowl", "\u212bngstrom", "\uff50\uff41\uff53\uff53", "Stra\u00dfe 7",
         "\u0130stanbul I\u0131i", "\u03a3\u03af\u03c3\u03c5\u03c6\u03bf\u03c2", "\u2126 \u212a x\u00b2 \u2163", "\ud55c\uae00",
         " pass word ", "Pass\tWord\n", "\u1e9b\u0323", "no\u00a0break", "\U0001f600 smile", "hunter2", "\u00c5\u00c9\u00ee\u00f5\u00fc",
         "Correct Horse Battery Staple", "a\u0323\u0308o", "\u01c4ungla \u2460", "p\u00e4ss\x00w\u00f6rd", "1234 5678"]

ZERO_WIDTH = ["\u200b", "\u200c", "\u200d", "\u2060", "\u00ad", "\ufe0f", "\u034f", "\u180e", "\u200e", "\u061c"]
LOOKALIKE = {"a": "\u0430", "e": "\u0435", "o": "\u043e", "c": "\u0441", "p": "\u0440", "i": "\u0456", "A": "\u0391", "H": "\u041d",
             "K": "\u212a", "S": "\u0405", "s": "\u017f"}
DIGITS = {str(i): chr(0x0660 + i) for i in range(10)}


def text_variants(t):
    out = []

    def add(tag, t2):
        if t2 != t:
            out.append((tag, t2))
    for form in ("NFC", "NFD", "NFKC", "NFKD"):
        add("unicode-" + form, unicodedata.normalize(form, t))
    add("unicode-NFKC-casefold", unicodedata.normalize("NFKC", unicodedata.normalize("NFKC", t).casefold()))
    add("case-lower", t.lower())
    add("case-upper", t.upper())
    add("case-fold", t.casefold())
    add("case-swap", t.swapcase())
    add("case-title", t.title())
    add("case-capitalize", t.capitalize())
    add("case-first-letter", t[:1].swapcase() + t[1:])
    add("space-strip", t.strip())
    add("space-lstrip", t.lstrip())
    add("space-rstrip", t.rstrip())
    for tag, a, b in (("lead-space", " ", ""), ("trail-space", "", " "), ("trail-newline", "", "\n"), ("trail-crlf", "", "\r\n"),
                      ("lead-tab", "\t", ""), ("both-space", " ", " "), ("trail-nbsp", "", "\u00a0"), ("trail-ideographic", "", "　"),
                      ("trail-nul", "", "\x00"), ("lead-nul", "\x00", "")):
        add("space-" + tag, a + t + b)
    add("space-collapse", " ".join(t.split()))
    add("space-removed", "".join(t.split()))
    add("space-doubled", t.replace(" ", "  "))
    add("space-to-nbsp", t.replace(" ", " "))
    add("space-to-ideographic", t.replace(" ", "　"))
    add("space-to-tab", t.replace(" ", "\t"))
    add("space-nbsp-to-space", t.replace(" ", " "))
    add("bom-lead", "﻿" + t)
    add("bom-trail", t + "﻿")
    for k, z in enumerate(ZERO_WIDTH):
        pos = (1, len(t) // 2, len(t))[k % 3]
        add("zero-width-U+%04X" % ord(z), t[:pos] + z + t[pos:])
    add("fullwidth", "".join(chr(ord(c) + 0xFEE0) if 0x21 <= ord(c) <= 0x7e else c for c in t))
    add("halfwidth", "".join(chr(ord(c) - 0xFEE0) if 0xFF01 <= ord(c) <= 0xFF5E else c for c in t))
    add("lookalike", "".join(LOOKALIKE.get(c, c) for c in t))
    for c in t:
        if c in LOOKALIKE:
            add("lookalike-one", t.replace(c, LOOKALIKE[c], 1))
            break
    add("digits-arabic-indic", "".join(DIGITS.get(c, c) for c in t))
    add("accents-stripped", "".join(c for c in unicodedata.normalize("NFKD", t) if not unicodedata.combining(c)))
    add("ascii-only", t.encode("ascii", "ignore").decode())
    return out


def overlong(b):
    """2- and 3-byte over-long UTF-8 forms of one ASCII byte"""
    return bytes([0xC0 | (b >> 6), 0x80 | (b & 0x3F)]), bytes([0xE0, 0x80 | (b >> 6), 0x80 | (b & 0x3F)])


def cesu8(t):
    out = b""
    for c in t:
        if ord(c) >= 0x10000:
            u = c.encode("utf-16-be")
            out += b"".join(chr(int.from_bytes(u[i:i + 2], "big")).encode("utf-8", "surrogatepass") for i in (0, 2))
        else:
            out += c.encode("utf-8")
    return out


TRUNC = (8, 55, 56, 64, 72, 128, 255, 256)


def byte_variants(p):
    out = []

    def add(tag, q):
        if q != p:
            out.append((tag, q))
    for j, b in enumerate(p):
        if b < 0x80:
            o2, o3 = overlong(b)
            add("utf8-overlong-2", p[:j] + o2 + p[j + 1:])
            add("utf8-overlong-3", p[:j] + o3 + p[j + 1:])
            break
    if b"\x00" in p:
        add("utf8-modified-nul", p.replace(b"\x00", b"\xc0\x80"))
        add("nul-truncated", p.split(b"\x00")[0])
        add("nul-removed", p.replace(b"\x00", b""))
        add("nul-other-tail", p.split(b"\x00")[0] + b"\x00" + b"other tail")
    add("nul-padded", p + b"\x00")
    add("nul-padded-8", p + b"\x00" * (-len(p) % 8 or 8))
    add("nul-tail", p + b"\x00garbage")
    try:
        t = p.decode("utf-8")
    except UnicodeError:
        t = None
        add("decode-ignore", p.decode("utf-8", "ignore").encode("utf-8"))
        add("decode-replace", p.decode("utf-8", "replace").encode("utf-8"))
        add("decode-latin1", p.decode("latin-1").encode("utf-8"))
    if t is not None:
        add("utf8-cesu", cesu8(t))
        for enc in ("latin-1", "cp1252", "utf-16-le", "utf-16-be", "utf-16", "utf-32-le", "utf-8-sig", "utf-7", "idna", "punycode"):
            try:
                add("encoding-" + enc, t.encode(enc))
            except (UnicodeError, ValueError):
                pass
        add("encoding-ascii-replace", t.encode("ascii", "replace"))
        add("encoding-xmlcharref", t.encode("ascii", "xmlcharrefreplace"))
        add("encoding-backslash", t.encode("ascii", "backslashreplace"))
    for n in TRUNC:
        if len(p) > n:
            add("truncate-%d" % n, p[:n])
            add("truncate-%d-other-tail" % n, p[:n] + bytes(x ^ 0x55 for x in p[n:]))
    add("digest-sha256", hashlib.sha256(p).digest())
    add("digest-sha256-hex", hashlib.sha256(p).hexdigest().encode())
    add("digest-sha1", hashlib.sha1(p).digest())
    add("digest-md5-hex", hashlib.md5(p).hexdigest().encode())
    add("text-hex", p.hex().encode())
    add("text-base64", base64.b64encode(p))
    add("text-percent", urllib.parse.quote_from_bytes(p, safe="").encode())
    add("text-percent-all", "".join("%%%02X" % b for b in p).encode())
    add("text-repr", repr(p).encode())
    add("repeated", p + p)
    add("repeated-to-72", (p * 73)[:72] if p else p)
    add("high-bit-stripped", bytes(b & 0x7F for b in p))
    add("reversed", p[::-1])
    return out


def password_pairs(rng, thorough=False):
    """[(tag, p, q)]: p != q as byte strings"""
    out, seen = [], set()

    def add(tag, p, q):
        if p != q and (p, q) not in seen and (q, p) not in seen:
            seen.add((p, q))
            out.append((tag, p, q))
    texts = list(TEXTS)
    # long passwords (truncation limits): a text repeated past 72 / 256 bytes, a random one
    texts += [("Tr0ub4dor&3 " * 7)[:80], "café" * 15, "ｐéx" * 60]
    for t in texts:
        p = t.encode("utf-8")
        for tag, t2 in text_variants(t):
            add(tag, p, t2.encode("utf-8"))
        for tag, q in byte_variants(p):
            add(tag, p, q)
    raw = [b"", b"\x00", b"abc\xff", b"\xff\xfeab", b"caf\xe9", b"a\x00b", bytes(range(256)), b"x" * 300,
           bytes(rng.randrange(256) for _ in range(73)), bytes(rng.randrange(1, 128) for _ in range(130))]
    for _ in range(40 if thorough else 6):
        raw.append(bytes(rng.choice([0, 32, 65, 97, 0xC3, 0xA9, 0xCC, 0x81, 0xEF, 0xBB, 0xBF, rng.randrange(256)]) for _ in range(rng.randrange(1, 90))))
    for p in raw:
        for tag, q in byte_variants(p):
            add(tag, p, q)
        try:
            t = p.decode("utf-8")
        except UnicodeError:
            continue
        for tag, t2 in text_variants(t):
            add(tag, p, t2.encode("utf-8"))
    return out


def family(tag):
    return tag.split("-")[0]
