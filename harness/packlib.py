"""packlib.py — helpers shared by props/C09.py and props/C06.py (builder F).

drive(): like connsim.run_history (one real endpoint + the Conn.v model on the same events,
full private-state snapshots compared after every event) but it also keeps, per event, the raw
bytes handed to the socket, so that the oracles can measure len() of every datagram and decode
them independently of the code under test."""
import struct, binascii
from harness import lib
from harness import connsim as S

T = S.TICKS
RETRY = {0: "NONE", 1: "BEST_EFFORT", -1: "RETRY_ON_TIMEOUT"}


def drive(run, role, events, key=7, mtu=1500, every=True, check_model=True, seq0=None, probe=None):
    """returns dict(agree, diff, itrace, raws (per event: list of bytes), errs (per event: exception
    codes raised), impl, env)
    seq0 (optional) = [datagram counter, message counter]: the connection starts with these sequence counters
    (just below the ring wrap, say); the model side then starts from the same values (unit conn_run_from).
    probe (optional) = fn(conn) -> None | dict, evaluated on the real connection object after every event;
    the non-None answers are returned as res["probe"] = [(event index, answer)..]"""
    keys = S.Keys()
    env = S.env_for_mtu(mtu)
    try:
        S.CLOCK.t = T * 100
        for ev in events:
            if ev[0] in ("ctick", "stick", "recv", "hello"):
                S.CLOCK.t = min(S.CLOCK.t, ev[1])
                break
        impl = S.Impl(role, keys, key=key, established=True)
        if seq0 is not None:
            from mpgameserver.connection import SeqNum
            impl.conn.seq_sending = SeqNum(seq0[0])
            impl.conn.seq_message = SeqNum(seq0[1])
        now0 = S.CLOCK.t
        itrace, mevs, index, raws, errs = [], [], [], [], []
        probed = []
        for n, ev in enumerate(events):
            impl.last_sent = []
            outs, mev = impl.apply(ev)
            mevs.append(mev)
            index.append(len(mevs) - 1)
            last = n == len(events) - 1
            itrace.append([S.canon(outs), S.snapshot(impl.conn, keys) if (every or last) else []])
            raws.append(list(impl.last_sent) if ev[0] in ("ctick", "stick") else [])
            errs.append([o[1] for o in outs if o[0] == 3])
            if probe is not None:
                a = probe(impl.conn)
                if a is not None:
                    probed.append((n, a))
    finally:
        S.restore_mtu()
    res = {"agree": True, "diff": None, "itrace": itrace, "raws": raws, "errs": errs, "impl": impl, "env": env,
           "keys": keys, "probe": probed}
    if check_model:
        init = [1 if role == "server" else 0, key if key is not None else -1, 2, now0]
        unit = "conn_run"
        if any(ev[0] == "setmtu" for ev in events):
            # Packet.setMTU on a live connection: the history carries [9, env'] events (unit conn_run_mtu);
            # `env` is the environment the connection was created under
            unit = "conn_run_mtu"
            init = init + (list(seq0) if seq0 is not None else [0, 0])
        elif seq0 is not None:
            unit = "conn_run_from"
            init = init + list(seq0)
        reply = run.model.call(unit, [env, init, mevs, 1 if every else 0])
        for n, i in enumerate(index):
            a = itrace[n]
            b = [S.canon(reply[i][0]), reply[i][1]]
            if a[0] != b[0]:
                res["agree"] = False
                res["diff"] = {"event": n, "ev": lib.jsonable(events[n])[:2], "what": "outputs",
                               "impl": lib.jsonable(a[0])[:4], "model": lib.jsonable(b[0])[:4]}
                break
            if a[1] != b[1] and (every or n == len(itrace) - 1):
                d = [j for j, (x, y) in enumerate(zip(a[1], b[1])) if x != y]
                res["agree"] = False
                res["diff"] = {"event": n, "ev": lib.jsonable(events[n])[:2], "what": "state fields %s" % d,
                               "impl": lib.jsonable([a[1][j] for j in d])[:3],
                               "model": lib.jsonable([b[1][j] for j in d])[:3]}
                break
    return res


def short_events(events):
    """events with payloads abbreviated to their lengths (for replay records)"""
    out = []
    for ev in events:
        if ev[0] == "send":
            out.append(["send", len(ev[1]), ev[2], ev[3]])
        else:
            out.append([x if not isinstance(x, (bytes, bytearray)) else len(x) for x in ev])
    return out


def decode_datagram(d, key_bytes):
    """independent decoding of a datagram the implementation handed to the socket.
    returns dict(hdr=[...], sealed, payload, msgs=[(seq, type, payload)], exact) or dict(error=...)"""
    from cryptography.hazmat.primitives.ciphers.aead import AESGCM
    if len(d) < 20:
        return {"error": "short"}
    ident, ctime, seq, ack, typ, ln, cnt, bits = struct.unpack(">4sLHHBHBL", d[:20])
    hdr = [1 if ident == b"FSOS" else 0, ctime, seq, ack, typ, ln, cnt, bits]
    payload = None
    sealed = False
    if key_bytes is not None and len(d) == 20 + ln + 16:
        try:
            payload = AESGCM(key_bytes).decrypt(d[:12], d[20:], d[:20])
            sealed = True
        except Exception:
            payload = None
    if payload is None and len(d) == 20 + ln + 4:
        if struct.unpack(">L", d[20 + ln:])[0] == (binascii.crc32(d[:20 + ln]) & 0xFFFFFFFF):
            payload = d[20:20 + ln]
    if payload is None:
        return {"error": "neither a valid sealed nor a valid crc datagram of the announced length", "hdr": hdr}
    msgs = []
    p = payload
    try:
        if cnt == 1:
            msgs.append((struct.unpack(">H", p[:2])[0], typ, p[2:]))
            p = b""
        elif cnt > 1:
            for _ in range(cnt):
                l, s, t = struct.unpack(">HHB", p[:5])
                if len(p) < 5 + l:
                    return {"error": "message overruns the payload", "hdr": hdr}
                msgs.append((s, t, p[5:5 + l]))
                p = p[5 + l:]
    except struct.error:
        return {"error": "payload shorter than count announces", "hdr": hdr}
    return {"hdr": hdr, "sealed": sealed, "payload": payload, "msgs": msgs, "exact": len(p) == 0 and ln == len(payload)}


def toy_tag(k, iv, aad):
    return (struct.pack(">L", k & 0xFFFFFFFF) + struct.pack(">L", binascii.crc32(iv) & 0xFFFFFFFF)
            + struct.pack(">L", binascii.crc32(aad) & 0xFFFFFFFF) + struct.pack(">HH", len(iv) & 0xFFFF, len(aad) & 0xFFFF))
