"""connsim.py — drive the REAL connection objects (ClientServerConnection through UdpClient,
ServerClientConnection) under a virtual clock, and the extracted Conn.v model with the same
events; canonical observations on both sides.

Time: integer ticks, TICKS per second; the implementation's clock returns ticks/TICKS (exact
binary fractions as long as ticks are multiples of 15 = 1/1024 s grid).
Events (python side, see U_Conn.v for the model encoding):
  ("send", payload, retry, cbid|None)      ("ctick", now, rx)   rx = None | ("bad", bytes) | ("dg", bytes)
  ("stick", now)                           ("recv", now, bytes)
  ("disc",)                                ("cfg", which, ticks)
  ("hello", now, with_cb)                  ("getmsgs",)
Optional extensions (absent = the behaviour above):
  ("send", payload, retry, cbid, raises) / ("sendg", payload, cbid, raises): the user callback records its
      invocation and then RAISES (raises: 1 always, 2 only when called with False, 3 only when called with
      True).  The implementation logs and continues, so the model event is the same as without the flag.
  ("setmtu", mtu): Packet.setMTU(mtu) while the connection exists; model event [9, env'] — only understood
      by unit conn_run_mtu (coq/Extract/U_ConnMtu.v), not by conn_run.
  ("hello", now, 2): the connect callback records its invocation and then RAISES (the exception leaves
      UdpClient.update(); Conn.v does not describe that: implementation-only scenarios).
  Impl.cb_hook = fn(cbid, ok): called from INSIDE every user send callback after it was recorded (lets a scenario
      issue API calls from inside a callback; implementation-only).
"""
import struct, hashlib, binascii, types
from harness import lib

TICKS = 15360


class Clock:
    def __init__(self, t=TICKS * 100):
        self.t = t

    def time(self):
        return self.t / TICKS

    monotonic = time
    perf_counter = time

    def sleep(self, d):
        pass


CLOCK = Clock()


def install_clock():
    import mpgameserver.connection as C
    shim = types.SimpleNamespace(time=CLOCK.time, monotonic=CLOCK.time, sleep=CLOCK.sleep, perf_counter=CLOCK.time)
    C.time = shim
    return shim


def ticks(x):
    return int(round(x * TICKS))


def key_bytes(k):
    return hashlib.sha256(b"verif-key-%d" % k).digest()[:16]


class Keys:
    """key id <-> key bytes; derived keys observed from the implementation get fresh ids"""
    def __init__(self):
        self.by_bytes = {}
        self.by_id = {}

    def id_of(self, kb):
        if kb is None:
            return -1
        kb = bytes(kb)
        if kb not in self.by_bytes:
            i = 1000 + len(self.by_bytes)
            self.by_bytes[kb] = i
            self.by_id[i] = kb
        return self.by_bytes[kb]

    def fixed(self, k):
        kb = key_bytes(k)
        self.by_bytes[kb] = k
        self.by_id[k] = kb
        return kb

    def bytes_of(self, k):
        return self.by_id[k]


# ------------------------------------------------------------------ datagrams

def pack_header(h):
    """h = [to_server, ctime, seq, ack, type, len, count, ackbits] -> 20 bytes (independent of the code)"""
    ident = b"FSOS" if h[0] else b"FSOC"
    return struct.pack(">4sLHHBHBL", ident, h[1], h[2], h[3], h[4], h[5], h[6], h[7])


def unpack_header(d):
    ident, ctime, seq, ack, typ, ln, cnt, bits = struct.unpack(">4sLHHBHBL", d[:20])
    return [1 if ident == b"FSOS" else 0, ctime, seq, ack, typ, ln, cnt, bits]


def abstract(d, keys, hint_keys=()):
    """real datagram bytes -> model dgram [hdr, body]; tries the given key ids for AES-GCM"""
    from cryptography.hazmat.primitives.ciphers.aead import AESGCM
    h = unpack_header(d)
    ln = h[5]
    for k in hint_keys:
        if k is None or k < 0:
            continue
        try:
            p = AESGCM(keys.bytes_of(k)).decrypt(d[:12], d[20:20 + ln + 16], d[:20])
            return [h, [0, k, h, p]]
        except Exception:
            pass
    if len(d) >= 20 + ln + 4:
        data = d[:20 + ln]
        if struct.unpack(">L", d[20 + ln:24 + ln])[0] == (binascii.crc32(data) & 0xFFFFFFFF):
            return [h, [1, data[20:]]]
    return [h, [2]]


def concrete(dg, keys, rng=None):
    """model dgram [hdr, body] -> real bytes"""
    from cryptography.hazmat.primitives.ciphers.aead import AESGCM
    h, b = dg
    hb = pack_header(h)
    if b[0] == 0:
        shb = pack_header(b[2])
        return hb + AESGCM(keys.bytes_of(b[1])).encrypt(shb[:12], bytes(b[3]), shb)
    if b[0] == 1:
        data = hb + bytes(b[1])
        return data + struct.pack(">L", binascii.crc32(data) & 0xFFFFFFFF)
    junk = bytes((rng.randrange(256) if rng else 0xA5) for _ in range(max(h[5], 0) + 16))
    return hb + junk

# ------------------------------------------------------------------ snapshots


def cb_desc(fn, conn):
    from mpgameserver.connection import RetrySender, FragmentSender
    if fn is None:
        return []
    if isinstance(fn, RetrySender):
        return [5, int(fn.seq_message), 1 if getattr(fn, "done", False) else 0, cb_desc(fn.callback, conn)]
    uid = getattr(fn, "_verif_id", None)
    if uid is not None:
        return [0, uid]
    name = getattr(fn, "__name__", "")
    if name == "_ClientHelloTimeout":
        return [2]
    if name == "_ChallengeResponseTimeout":
        return [3]
    if name == "onDisconnectCallback":
        return [4]
    clo = getattr(fn, "__closure__", None)
    if clo:
        for cell in clo:
            if isinstance(cell.cell_contents, FragmentSender):
                return [1, int(cell.cell_contents.frag_id), fn.__defaults__[0]]
    raise RuntimeError("unknown callback %r" % (fn,))


def snapshot(conn, keys, has_conn_cb=None):
    c = conn
    st = c.stats
    return [
        1 if c.isServer else 0, keys.id_of(c.session_key_bytes), c.status.value,
        [[int(s), bytes(p)] for s, p in c.incoming_messages],
        [[int(m.seq), m.type.value, bytes(m.payload), m.retry.value if hasattr(m.retry, "value") else int(m.retry),
          cb_desc(m.callback, c), ticks(m.assembled_time)] for m in c.outgoing_messages],
        [[int(s), ticks(t)] for s, t in c.pending_acks.items()],
        [[int(s), [cb_desc(f, c) for f in fs]] for s, fs in c.pending_callbacks.items()],
        [[int(s), [int(x) for x in ms]] for s, ms in c.pending_retry.items()],
        [[int(s), ticks(m.assembled_time)] for s, m in c.pending_retry_msg.items()],
        [[int(f), cb_desc(s.user_callback, c), [-1 if a is None else (1 if a else 0) for a in s.acks]]
         for f, s in c.pending_fragments.items()],
        [[int(f), r.frag_count, ticks(r.ctime), int(r.msgseq), [[] if x is None else [bytes(x)] for x in r.fragments]]
         for f, r in c.received_fragments.items()],
        [int(c.seq_sending), int(c.seq_message), int(c.seq_fragment)],
        [int(c.bitfield_pkt.bits), int(c.bitfield_pkt.current_seqnum), int(c.bitfield_msg.bits), int(c.bitfield_msg.current_seqnum)],
        [ticks(c.outgoing_timeout), ticks(c.temp_connection_timeout), ticks(c.send_interval), ticks(c.send_keep_alive_interval)],
        [ticks(c.last_recv_time), ticks(c.last_send_time), ticks(c.last_send_keep_alive_time)],
        [st.sent, st.dropped, st.received, st.acked, st.timeouts, st.assembled],
        ticks(getattr(c, "time_client_hello_sent", 0)),
        (1 if getattr(c, "connection_callback", None) else 0) if has_conn_cb is None else has_conn_cb,
        int(getattr(c, "token", 0)),
    ]

# ------------------------------------------------------------------ the implementation endpoint


class FakeSock:
    """optional switch (default off, existing behaviour unchanged): fail_next = k makes the next k sendto calls raise
    fail_exc (an OSError: ENOBUFS, ENETUNREACH, EAGAIN ...) the way a real socket refuses a datagram; `handed` keeps
    EVERY byte string handed to sendto, refused or not, as [bytes, accepted?] (never reset: the endpoint SEALED them)"""

    def __init__(self):
        self.inbox = []
        self.sent = []
        self.handed = []
        self.fail_next = 0
        self.fail_exc = None

    def recvfrom(self, n):
        return self.inbox.pop(0), ("peer", 1)

    def sendto(self, d, addr):
        if self.fail_next > 0:
            self.fail_next -= 1
            self.handed.append([bytes(d), False])
            raise (self.fail_exc or OSError(105, "No buffer space available"))
        self.handed.append([bytes(d), True])
        self.sent.append(bytes(d))

    def close(self):
        pass

    def fileno(self):
        return 0


class Handler:
    def __init__(self):
        self.events = []

    def connect(self, client):
        self.events.append("connect")

    def disconnect(self, client):
        self.events.append("disconnect")

    def handle_message(self, client, seqnum, msg):
        self.events.append(("msg", int(seqnum), bytes(msg)))

    def update(self, dt):
        pass

    def starting(self):
        pass

    def shutdown(self):
        pass


_ROOT = None


def root_key():
    global _ROOT
    if _ROOT is None:
        from mpgameserver.crypto import EllipticCurvePrivateKey
        _ROOT = EllipticCurvePrivateKey.new()
    return _ROOT


class Impl:
    """one real endpoint.  role 'client' = UdpClient (+ its ClientServerConnection) with a fake
    socket; role 'server' = ServerClientConnection with a real ServerContext."""

    def __init__(self, role, keys, key=None, established=True, pinned=True):
        import mpgameserver.client as CL
        from mpgameserver.connection import ConnectionStatus, ServerClientConnection, ClientServerConnection
        from mpgameserver.context import ServerContext
        install_clock()
        self.role = role
        self.keys = keys
        self.cblog = []
        self.conncb = []
        self.cb_hook = None
        self.pin = None        # the key the client was CONFIGURED with (set by the "hello" event from UdpClient's own
                               # attribute); connections built directly in the established state have none
        self.addr = ("10.0.0.%d" % (1 if role == "client" else 2), 4000)
        if role == "client":
            self.sock = FakeSock()
            self.client = CL.UdpClient(root_key().getPublicKey() if pinned else None)
            self.client._make_socket = lambda addr: self.sock
            sock = self.sock
            CL.select = types.SimpleNamespace(select=lambda r, w, x, t: ([s for s in r if s.inbox], w, []))
            self.conn = None
            if not established:
                self.pin = self.client.server_public_key
            if established:
                self.client.addr = self.addr
                self.client.sock = self.sock
                self.client.conn = ClientServerConnection(self.addr)
                self.conn = self.client.conn
        else:
            self.handler = Handler()
            self.ctxt = ServerContext(self.handler, root_key())
            self.conn = ServerClientConnection(self.ctxt, self.addr)
            if not established:
                self.ctxt.temp_connections[self.addr] = self.conn
        if established:
            self.conn.clock = CLOCK.time
            self.conn.status = ConnectionStatus.CONNECTED
            self.conn.session_key_bytes = keys.fixed(key) if key is not None else None
            self.conn.last_recv_time = CLOCK.time()

    def user_cb(self, cbid, raises=0):
        if cbid is None:
            return None

        def f(ok, _id=cbid):
            self.cblog.append([1, _id, 1 if ok else 0])
            if self.cb_hook is not None:
                self.cb_hook(_id, ok)
            if raises == 1 or (raises == 2 and not ok) or (raises == 3 and ok):
                raise RuntimeError("user send callback %d raises" % _id)
        f._verif_id = cbid
        return f

    def _emit(self, d):
        """datagram bytes -> model output [0, hdr, sealed, payload]"""
        kid = self.keys.id_of(self.conn.session_key_bytes) if self.conn is not None else -1
        h, b = abstract(d, self.keys, [kid])
        if b[0] == 0:
            return [0, h, b[1], b[3]]
        if b[0] == 1:
            return [0, h, -1, b[1]]
        return [0, h, -2, b""]

    def hs_oracles(self, d):
        """oracle answers for the handshake-typed messages of datagram d, computed from the
        bytes with the real crypto, independently of the connection object's own processing"""
        from mpgameserver.serializable import Serializable
        from mpgameserver.crypto import EllipticCurvePublicKey
        from mpgameserver import crypto
        conn = self.conn
        kid = self.keys.id_of(conn.session_key_bytes)
        h, b = abstract(d, self.keys, [kid])
        if b[0] == 2:
            return []
        payload = b[3] if b[0] == 0 else b[1]
        msgs = decode_msgs_py(h[4], h[6], payload)
        out = []
        for seq, typ, p in msgs or []:
            if typ not in (1, 2, 3):
                continue
            o = [9, 0, 0, 0, b"", -1]
            try:
                if typ == 2 and self.role == "client":
                    # verification under the key the client was CONFIGURED with (not under whatever the
                    # connection object holds at this moment)
                    m = Serializable.loadb(p, server_public_key=self.pin)
                    kb = crypto.ecdh_client(conn.session_key, m.server_pubkey, m.salt)
                    o = [0, 1, m.token, self.keys.id_of(kb), b"", -1]
                elif typ == 1 and self.role == "server":
                    m = Serializable.loadb(p)
                    o = [0, 1 if m.client_version == conn.version else 0, 0, 0, b"", -1]
                elif typ == 3 and self.role == "server":
                    m = Serializable.loadb(p)
                    other = self.ctxt.temp_connections.get(conn.addr)
                    o = [0, 1, m.token, 0, b"", (other.token if other else -1)]
            except EllipticCurvePublicKey.InvalidSignature:
                o = [6, 0, 0, 0, b"", -1]
            except Exception as e:     # noqa
                o = [lib.exc_code(e), 0, 0, 0, b"", -1]
            out.append(o)
        return out

    def apply(self, ev):
        """run one event on the implementation; returns (outputs, model_event)"""
        from mpgameserver.connection import RetryMode, PacketHeader
        kind = ev[0]
        outs = []
        self.cblog = []
        self.conncb = []
        n_handler = len(self.handler.events) if self.role == "server" else 0
        mev = None
        if kind == "send":
            _, payload, retry, cbid = ev[:4]
            try:
                self.conn.send(payload, retry=retry, callback=self.user_cb(cbid, ev[4] if len(ev) > 4 else 0))
            except Exception as e:   # noqa
                outs.append([3, lib.exc_code(e)])
            mev = [0, payload, retry, -1 if cbid is None else cbid]
        elif kind == "sendg":
            # the public guaranteed-delivery API: UdpClient.send_guaranteed / ServerClientConnection.send_guaranteed
            _, payload, cbid = ev[:3]
            rz = ev[3] if len(ev) > 3 else 0
            try:
                if self.role == "client":
                    self.client.send_guaranteed(payload, callback=self.user_cb(cbid, rz))
                else:
                    self.conn.send_guaranteed(payload, callback=self.user_cb(cbid, rz))
            except Exception as e:   # noqa
                outs.append([3, lib.exc_code(e)])
            mev = [0, payload, -1, -1 if cbid is None else cbid]
        elif kind == "ctick":
            _, now, rx = ev
            CLOCK.t = now
            mrx = [0]
            if rx is not None:
                self.sock.inbox.append(rx[1])
                if rx[0] == "bad":
                    mrx = None
                else:
                    orcs = self.hs_oracles(rx[1])
                    mrx = [2, abstract(rx[1], self.keys, rx[2] if len(rx) > 2 else [self.keys.id_of(self.conn.session_key_bytes)]), orcs]
            self.sock.sent = []
            pre_queue = len(self.conn.outgoing_messages)
            err = None
            try:
                self.client.update()
            except Exception as e:   # noqa
                err = lib.exc_code(e)
            if mrx is None:
                mrx = [1, err if err is not None else 9]
            # replies generated by the handshake (server hello -> challenge response bytes)
            self._fill_replies(mrx[2] if len(mrx) > 2 else [])
            outs += self._collect(err)
            self.last_sent = list(self.sock.sent)
            mev = [1, now, mrx]
        elif kind == "stick":
            _, now = ev
            CLOCK.t = now
            err = None
            sent = []
            try:
                r = self.conn.update()
                if r is not None:
                    pkt, key, addr = r
                    sent.append(pkt.to_bytes(key))
            except Exception as e:   # noqa
                err = lib.exc_code(e)
            outs += self.cblog
            if err is not None:
                outs.append([3, err])
            outs += [self._emit(d) for d in sent]
            self.last_sent = sent
            mev = [2, now]
        elif kind == "recv":
            _, now, d = ev[:3]
            CLOCK.t = now
            hint = ev[3] if len(ev) > 3 else [self.keys.id_of(self.conn.session_key_bytes)]
            orcs = self.hs_oracles(d)
            dg = abstract(d, self.keys, hint)
            hdr = PacketHeader.from_bytes(self.conn.isServer, d)
            err = None
            ret = None
            try:
                ret = self.conn._recv_datagram(hdr, d)
            except Exception as e:   # noqa
                err = lib.exc_code(e)
            mev = [3, now, dg, orcs]
            self._fill_replies(orcs)
            outs += self.cblog
            outs += [[4, v] for v in self.conncb]
            if self.role == "server" and len(self.handler.events) > n_handler:
                outs += [[6] for x in self.handler.events[n_handler:] if x == "connect"]
            if err is not None:
                outs.append([3, err])
            else:
                outs.append([2, 1 if ret else 0])
        elif kind == "disc":
            if self.role == "client":
                self.client.disconnect()
                mev = [4, -2]
            else:
                self.conn.disconnect()
                mev = [4, -1]
        elif kind == "cfg":
            _, which, v = ev
            attr = ["send_keep_alive_interval", "outgoing_timeout", "temp_connection_timeout", "send_interval"][which]
            setattr(self.conn, attr, v / TICKS)
            mev = [5, which, v]
        elif kind == "hello":
            _, now, with_cb = ev
            CLOCK.t = now
            cb = None
            if with_cb == 2:
                def cb(ok):
                    self.conncb.append(1 if ok else 0)
                    raise RuntimeError("connect callback raises")
            elif with_cb:
                cb = lambda ok: self.conncb.append(1 if ok else 0)   # noqa
            self.client.connect(self.addr, cb)
            self.pin = self.client.server_public_key
            self.conn = self.client.conn
            self.conn.clock = CLOCK.time
            hello = bytes(self.conn.outgoing_messages[-1].payload)
            mev = [[8, 1 if with_cb else 0], [6, now, hello]]
        elif kind == "getmsgs":
            if self.role == "client":
                self.client.getMessages()
            else:
                self.conn.incoming_messages = []
            mev = [7]
        elif kind == "setmtu":
            from mpgameserver.connection import Packet
            Packet.setMTU(ev[1])
            mev = [9, [Packet.MAX_PAYLOAD_SIZE, Packet.MAX_FRAGMENT_SIZE, Packet.MAX_FRAGMENTS]]
        else:
            raise ValueError(kind)
        return outs, mev

    def _fill_replies(self, orcs):
        """put the reply payload bytes / fresh token / derived key the implementation produced
        into the oracle answers (these are random: ephemeral keys, salt, urandom token)"""
        for o in orcs:
            if o[0] != 0:
                continue
            q = self.conn.outgoing_messages
            if self.role == "client":
                if q and q[-1].type.value == 3:
                    o[4] = bytes(q[-1].payload)
                else:
                    # the challenge response was already emitted by the same update() call:
                    # recover its payload from the datagram (single message: seq(2) + payload)
                    from cryptography.hazmat.primitives.ciphers.aead import AESGCM
                    for d in getattr(self.sock, "sent", []):
                        if len(d) > 20 and d[12] == 3 and self.conn.session_key_bytes:
                            try:
                                ln = struct.unpack(">H", d[13:15])[0]
                                pt = AESGCM(self.conn.session_key_bytes).decrypt(d[:12], d[20:20 + ln + 16], d[:20])
                                o[4] = bytes(pt[2:])
                            except Exception:   # noqa
                                pass
            else:
                if q and q[-1].type.value == 2 and o[1]:
                    o[4] = bytes(q[-1].payload)
                    o[2] = int(self.conn.token)
                    o[3] = self.keys.id_of(self.conn.session_key_bytes)

    def _collect(self, err):
        outs = []
        outs += [[4, v] for v in self.conncb]
        outs += self.cblog
        if err is not None:
            outs.append([3, err])
        outs += [self._emit(d) for d in self.sock.sent]
        return outs


def decode_msgs_py(typ, count, p):
    """independent re-statement of the payload layout (for oracle extraction only)"""
    try:
        if count == 1:
            return [(struct.unpack(">H", p[:2])[0], typ, p[2:])]
        out = []
        for _ in range(count):
            ln, seq, t = struct.unpack(">HHB", p[:5])
            out.append((seq, t, p[5:5 + ln]))
            p = p[5 + ln:]
        return out
    except Exception:
        return None


def env_for_mtu(mtu):
    from mpgameserver.connection import Packet
    Packet.setMTU(mtu)
    return [Packet.MAX_PAYLOAD_SIZE, Packet.MAX_FRAGMENT_SIZE, Packet.MAX_FRAGMENTS]


def restore_mtu():
    from mpgameserver.connection import Packet
    Packet.setMTU(1500)
    Packet.RECV_SIZE = 2048


def canon(outs):
    """order-insensitive; log lines (model output kind 5: the built-in time-out callbacks only
    write to the log) are not observed on the implementation side and are dropped"""
    return sorted([o for o in outs if o[0] != 5], key=lambda o: o[0])


def run_history(run, role, events, key=7, mtu=1500, established=True, every=True, pinned=True):
    """run events on a fresh implementation endpoint and on the model; returns
    (agree, first_difference | None, impl_trace, model_trace, impl)"""
    keys = Keys()
    env = env_for_mtu(mtu)
    try:
        CLOCK.t = TICKS * 100
        for ev in events:
            if ev[0] in ("ctick", "stick", "recv", "hello"):
                CLOCK.t = min(CLOCK.t, ev[1])
                break
        impl = Impl(role, keys, key=key, established=established, pinned=pinned)
        now0 = CLOCK.t
        itrace = []
        mevs = []
        index = []
        for ev in events:
            if callable(ev):
                ev = ev(impl)          # late-bound event (needs data observed so far)
            outs, mev = impl.apply(ev)
            if mev and isinstance(mev[0], list):
                mevs.extend(mev)
            else:
                mevs.append(mev)
            index.append(len(mevs) - 1)
            itrace.append([canon(outs), snapshot(impl.conn, keys) if (every or ev is events[-1]) else []])
    finally:
        restore_mtu()
    init = [1 if role == "server" else 0, (key if (established and key is not None) else -1),
            2 if established else 4, now0 if established else -1]
    reply = run.model.call("conn_run", [env, init, mevs, 1 if every else 0])
    mtrace = [[canon(reply[i][0]), reply[i][1]] for i in index]
    for n, (a, b) in enumerate(zip(itrace, mtrace)):
        if a[0] != b[0]:
            return False, {"event": n, "what": "outputs", "impl": a[0], "model": b[0]}, itrace, mtrace, impl
        if a[1] != b[1] and (every or n == len(itrace) - 1):
            diff = [i for i, (x, y) in enumerate(zip(a[1], b[1])) if x != y]
            return False, {"event": n, "what": "state fields %s" % diff,
                           "impl": [a[1][i] for i in diff], "model": [b[1][i] for i in diff]}, itrace, mtrace, impl
    return True, None, itrace, mtrace, impl
