"""idlesim.py — C12, the two-endpoint composition: joint timed schedules for an established idle pair
(real UdpClient + real ServerClientConnection from netsim/connsim, virtual clock), driven event by
event exactly as Model/TimedNet.v does it:
  [0, now, src]  UdpClient.update() at time now, the socket yielding src
  [1, now, src]  the server loop hands a queued datagram to the connection (_recv_datagram)
  [2, now]       the server loop's sweep reaches the connection: DISCONNECTING -> disconnect();
                 removed when DISCONNECTED or timedout(connection_timeout); update() in both branches
  src: [0] nothing, [1, n] (a copy of) the peer's n-th datagram, [2, dgram, oracles] bytes that do not open
Every schedule is replayed on the model (unit idle_pair_run) and compared observation by observation;
the admissibility of a schedule (TimedNet.tvalid) is recomputed here in Python, independently."""
from harness import netsim
from harness import connsim as S

T = S.TICKS
SI = 256          # ConnectionBase.send_interval = 1/60 s


class Pair:
    def __init__(self, run, rng, KC, KS, Tconn):
        self.net = netsim.Net(run, rng, {}, mtu=1500)
        self.A, self.B = self.net.A, self.net.B
        self.A.snap = self.B.snap = False
        self.t0 = self.net.t
        self.KC, self.KS, self.Tconn = KC, KS, Tconn
        self.A.apply(("cfg", 0, KC))
        self.B.apply(("cfg", 0, KS))
        self.em = {"client": [], "server": []}      # emitted datagrams: dict(time, raw, shown=[times])
        self.events = []                            # model events
        self.obs = []                               # implementation observations, one per event
        self.swept = False
        self.ticks = {"client": [self.t0], "server": [self.t0]}
        self.times = [self.t0]
        self.statuses = []

    # -- helpers
    def _note_emissions(self, who, ep, outs, now):
        raws = list(ep.impl.last_sent)
        k = 0
        for o in outs:
            if o[0] == 0:
                self.em[who].append({"time": now, "raw": raws[k], "shown": [], "hdr": o[1]})
                k += 1

    def _src(self, who_recv, src, now):
        """src: None | ('peer', n) | ('junk', raw)  ->  (model src, raw bytes or None)"""
        if src is None:
            return [0], None
        if src[0] == "peer":
            rec = self.em["server" if who_recv == "client" else "client"][src[1] - 1]
            rec["shown"].append(now)
            return [1, src[1]], rec["raw"]
        raw = src[1]
        return [2, S.abstract(raw, self.net.keys, [self.net.key]), []], raw

    def _observe(self):
        a, b = self.A.impl.conn, self.B.impl.conn
        self.obs.append([a.status.value, b.status.value, 1 if self.swept else 0,
                         S.ticks(a.last_recv_time), S.ticks(b.last_recv_time),
                         len(self.em["client"]), len(self.em["server"]),
                         int(a.seq_sending), int(b.seq_sending),
                         int(a.bitfield_pkt.current_seqnum), int(b.bitfield_pkt.current_seqnum)])
        self.statuses.append((a.status.value, b.status.value, self.swept))

    # -- the three events
    def client_tick(self, now, src=None):
        msrc, raw = self._src("client", src, now)
        dropped_before = self.A.impl.conn.status.value == 5
        outs = self.A.apply(("ctick", now, None if raw is None else ("dg", raw, [self.net.key])))
        if raw is not None and self.A.impl.sock.inbox:
            # a DROPPED client does not read its socket: the datagram was not shown to the connection
            self.A.impl.sock.inbox.clear()
            if src[0] == "peer":
                self.em["server"][src[1] - 1]["shown"].pop()
        self._note_emissions("client", self.A, outs, now)
        self.events.append([0, now, msrc])
        self.ticks["client"].append(now)
        self.times.append(now)
        self._observe()
        return outs

    def server_recv(self, now, src):
        msrc, raw = self._src("server", src, now)
        if not self.swept and raw is not None:
            self.B.apply(("recv", now, raw, [self.net.key]))
        elif self.swept and src is not None and src[0] == "peer":
            self.em["client"][src[1] - 1]["shown"].pop()
        self.events.append([1, now, msrc])
        self.times.append(now)
        self._observe()

    def server_sweep(self, now):
        from mpgameserver.connection import ConnectionStatus
        if not self.swept:
            conn = self.B.impl.conn
            S.CLOCK.t = now
            if conn.status == ConnectionStatus.DISCONNECTING:
                self.B.apply(("disc",))
            gone = conn.status == ConnectionStatus.DISCONNECTED or conn.timedout(self.Tconn / T)
            outs = self.B.apply(("stick", now))
            self._note_emissions("server", self.B, outs, now)
            self.swept = bool(gone)
        self.events.append([2, now])
        self.ticks["server"].append(now)
        self.times.append(now)
        self._observe()

    # -- admissibility of the schedule run so far, recomputed from the harness's own records
    def admissible(self, tau, d, life):
        """(ok, reason): clock monotone; every event at most tau after the latest update() of either side;
        every datagram first shown to the peer at most d after its emission (or the session ended before
        that), every copy shown at most `life` after the emission"""
        last = {"client": self.t0, "server": self.t0}
        prev = self.t0
        for ev in self.events:
            now = ev[1]
            if now < prev:
                return False, "clock"
            prev = now
            for who in ("client", "server"):
                if now - last[who] > tau:
                    return False, "tick gap %s" % who
            if ev[0] == 0:
                last["client"] = now
            elif ev[0] == 2:
                last["server"] = now
        end = self.times[-1]
        for who in ("client", "server"):
            for rec in self.em[who]:
                first = rec["shown"][0] if rec["shown"] else None
                if first is None:
                    # never shown: every later event must have happened no later than time + d
                    if end > rec["time"] + d:
                        return False, "lost %s" % who
                elif first > rec["time"] + d:
                    return False, "late %s" % who
                if any(t > rec["time"] + life for t in rec["shown"]):
                    return False, "stale copy %s" % who
        return True, ""

    def model_args(self, tau, d, life):
        return [self.net.env, [tau, d, self.Tconn, life], [self.net.key, self.t0, self.KC, self.KS], self.events]

    def close(self):
        self.net.close()


def params_ok(KC, KS, tau, d, Tconn, life=None):
    life = d if life is None else life
    MC, MS = max(KC, SI), max(KS, SI)
    return (0 <= d <= life and tau >= 0 and MC + tau + d < Tconn and MS + tau + d <= 5 * T
            and life <= 32766 * (MC + 1) and life <= 32766 * (MS + 1))


def tamper(raw):
    b = bytearray(raw)
    b[-1] ^= 0x5A
    return bytes(b)


def random_session(run, rng, KC, KS, tau, d, Tconn, n_events, dup=0.15, junk=0.05, regular=False, loss=0.0, life=None):
    """a random schedule, admissible by construction when loss = 0: both sides tick with gaps <= tau (the
    client also whenever a datagram becomes due for it: it reads one datagram per update()), every emitted
    datagram is planned for the peer within the delay bound (reordering falls out of the random delays),
    copies and tampered copies are mixed in; with loss > 0 some datagrams are never shown (inadmissible:
    only the correspondence and the agreement on admissibility are checked then)"""
    p = Pair(run, rng, KC, KS, Tconn)
    life = d if life is None else life
    q15 = lambda x: (x // 15) * 15
    gap = (lambda: tau) if regular else (lambda: 15 * rng.randrange(1, tau // 15 + 1))
    next_c, next_s = p.t0 + gap(), p.t0 + gap()
    to_client, to_server = [], []         # (due, index)
    seen = {"client": 0, "server": 0}

    def plan():
        for who, lst in (("client", to_server), ("server", to_client)):
            while seen[who] < len(p.em[who]):
                seen[who] += 1
                rec = p.em[who][seen[who] - 1]
                if rng.random() < loss:
                    continue
                lst.append((rec["time"] + q15(rng.randrange(0, d + 1)), seen[who]))
                while rng.random() < dup:      # further copies, up to `life` after the emission
                    lst.append((rec["time"] + q15(rng.randrange(0, life + 1)), seen[who]))

    for _ in range(n_events):
        now = p.times[-1]
        cands = [(next_c, 0), (next_s, 2)]
        if to_server:
            cands.append((max(min(to_server)[0], now), 1))
        if to_client:
            cands.append((max(min(to_client)[0], now), 0))
        tmin = min(c[0] for c in cands)
        kind = rng.choice([c[1] for c in cands if c[0] == tmin])
        if kind == 0:
            due = sorted(x for x in to_client if x[0] <= tmin)
            src = None
            if due:
                to_client.remove(due[0])
                src = ("peer", due[0][1])
            elif p.em["server"] and rng.random() < junk:
                src = ("junk", tamper(rng.choice(p.em["server"])["raw"]))
            p.client_tick(tmin, src)
            next_c = tmin + gap()
        elif kind == 2:
            p.server_sweep(tmin)
            next_s = tmin + gap()
        else:
            x = min(to_server)
            to_server.remove(x)
            p.server_recv(tmin, ("peer", x[1]))
            if p.em["client"] and rng.random() < junk:
                p.server_recv(tmin, ("junk", tamper(rng.choice(p.em["client"])["raw"])))
        plan()
    return p


def scripted_session(run, rng, KC, KS, Tconn, script):
    """script: list of ('c', now[, src]) / ('r', now, src) / ('s', now); src 'new' = the peer's newest
    datagram if it has not been shown yet (for 'r': nothing happens when there is none)"""
    p = Pair(run, rng, KC, KS, Tconn)

    def new(peer):
        if p.em[peer] and not p.em[peer][-1]["shown"]:
            return ("peer", len(p.em[peer]))
        return None

    for ev in script:
        src = ev[2] if len(ev) > 2 else None
        if ev[0] == "c":
            p.client_tick(ev[1], new("server") if src == "new" else src)
        elif ev[0] == "r":
            src = new("client") if src == "new" else src
            if src is not None:
                p.server_recv(ev[1], src)
        else:
            p.server_sweep(ev[1])
    return p
