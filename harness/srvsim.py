"""srvsim.py — step the REAL UdpServerThread (mpgameserver/server.py) deterministically, without any
source hook, and replay the same script on the extracted Server.v model.

How the real loop is stepped
  * `mpgameserver.server.time`, `mpgameserver.connection.time` are replaced by the virtual clock of
    connsim (integer ticks), `server.sleep` by a no-op, `mpgameserver.context.os` by a namespace whose
    urandom(4) serves a scripted value stream (token collisions can be forced);
  * the handler's update() (called once per loop iteration) blocks on a semaphore; while it is
    blocked the harness feeds datagrams through the REAL front gate
    (TwistedServer.datagramReceived -> UdpServerThread.append), always followed by one sentinel
    datagram from a dummy address (typed KEEP_ALIVE: ignored by the new-address branch) so that the
    loop never parks on its condition variable; then it sets the clock and releases the loop;
  * everything the loop thread does is appended to ONE linear log: handler calls (with thread id),
    sock.sendto at the mock socket, user send callbacks, and the exceptions the loop catches and
    logs (captured with a logging.Handler).  The model's outputs, concatenated over its steps, must
    be the same sequence; pool contents are compared whenever the loop is blocked in update().

Correspondence between harness calls and model steps (iteration k = D_k, U_k, S_k):
    start()                      -> starting(), D_0 (empty), U_0 blocks
    advance(t1, batch1, rand1)   -> S_0 at t1, D_1 at t1 with rand1, U_1 blocks
    ...
    finish(t)                    -> ctxt._active = False, S_n at t, shutdown sweep, thread exits
  model step k = [td = t_k, ts = t_{k+1}, batch_k, rand_k, stop = (k is the last)]
"""
import struct, threading, types, logging
from harness import lib
from harness import connsim as S

T = S.TICKS
SERVER_ADDR = ("10.0.0.1", 4000)        # what the clients believe they talk to
SENTINEL = ("203.0.113.250", 9)
SENTINEL_RAW = S.pack_header([1, 0, 1, 0, 4, 0, 0, 0]) + b"\0\0\0\0"


_OTHER_IPS = {}      # host spellings that are not dotted-quad IPv4 (IPv6, v4-mapped): ids above 2^32, by string identity
_OTHER_IDS = {}


def ipid(ip):
    parts = ip.split(".")
    if len(parts) == 4 and all(x.isdigit() for x in parts):
        a, b, c, d = (int(x) for x in parts)
        return (a << 24) | (b << 16) | (c << 8) | d
    if ip not in _OTHER_IPS:
        _OTHER_IPS[ip] = (1 << 32) + len(_OTHER_IPS)
        _OTHER_IDS[_OTHER_IPS[ip]] = ip
    return _OTHER_IPS[ip]


def idip(n):
    if n >= (1 << 32):
        return _OTHER_IDS[n]
    return "%d.%d.%d.%d" % ((n >> 24) & 255, (n >> 16) & 255, (n >> 8) & 255, n & 255)


def av(addr):
    return [ipid(addr[0]), addr[1]]


def va(v):
    return (idip(v[0]), v[1])


class MockSock:
    """what the OS does that matters here: sendto to port 0 fails with EINVAL (measured on this
    kernel by os_refuses_port0()); everything else is recorded"""

    def __init__(self, sim):
        self.sim = sim

    def sendto(self, data, addr):
        if addr[1] == 0:
            raise OSError(22, "Invalid argument")
        self.sim.on_sendto(bytes(data), addr)
        return len(data)

    def fileno(self):
        return 0

    def close(self):
        pass


def os_refuses_port0():
    """does this kernel refuse sendto(..., (ip, 0)) ?  (it does on Linux: EINVAL)"""
    import socket
    s = socket.socket(socket.AF_INET, socket.SOCK_DGRAM)
    try:
        s.sendto(b"x", ("127.0.0.1", 0))
        return False
    except OSError:
        return True
    finally:
        s.close()


class LogTap(logging.Handler):
    def __init__(self, sim):
        super().__init__(level=logging.DEBUG)
        self.sim = sim

    def emit(self, rec):
        try:
            self.sim.on_log(rec)
        except Exception as e:      # noqa
            self.sim.internal.append("logtap: %r" % (e,))


class SimHandler:
    def __init__(self, sim):
        self.sim = sim

    def starting(self):
        self.sim.on_handler([0])

    def shutdown(self):
        self.sim.on_handler([1])

    def connect(self, client):
        self.sim.on_handler([3, self.sim.cid(client), av(client.addr), int(client.token)], client)

    def disconnect(self, client):
        self.sim.on_handler([5, self.sim.cid(client)], client)

    def handle_message(self, client, seqnum, msg):
        self.sim.on_handler([4, self.sim.cid(client), int(seqnum), bytes(msg)], client)

    def update(self, dt):
        self.sim.on_handler([2])


class HandlerRaised(Exception):
    pass


class Sim:
    def __init__(self, run, cfg=(5 * T, 2 * T, 1536, T), blocklist=(), mtu=1500, policy=None, full=True,
                 gate="twisted"):
        import mpgameserver.server as SV
        import mpgameserver.context as CX
        from mpgameserver.context import ServerContext
        from mpgameserver.twisted import TwistedServer
        self.run = run
        self.cfg = list(cfg)
        self.blocklist = list(blocklist)
        self.full = full
        self.keys = S.Keys()
        self.mtu = mtu
        self.env = S.env_for_mtu(mtu)
        self.policy = policy or (lambda sim, n, ev: ([], False))
        self.SV, self.CX = SV, CX
        self._saved = (SV.time, SV.sleep, CX.os)
        shim = S.install_clock()
        SV.time = shim
        SV.sleep = lambda *a, **k: None
        CX.os = types.SimpleNamespace(urandom=self._urandom)
        self.rand = []
        self.rand_used = 0
        self.fallback = 0
        self.handler = SimHandler(self)
        self.ctxt = ServerContext(self.handler, S.root_key())
        self.ctxt.connection_timeout = cfg[0] / T
        self.ctxt.temp_connection_timeout = cfg[1] / T
        self.ctxt.keep_alive_interval = cfg[2] / T
        self.ctxt.outgoing_timeout = cfg[3] / T
        self.ctxt.blocklist = set(self.blocklist)
        self.sock = MockSock(self)
        self.tw = TwistedServer(self.ctxt, ("0.0.0.0", 1474), install_signals=False)
        self.thread = SV.UdpServerThread(self.sock, self.ctxt)
        self.tw.thread = self.thread
        self.gate_kind = gate
        self.sem_blocked = threading.Semaphore(0)
        self.sem_go = threading.Semaphore(0)
        self.log = []             # the linear log (model sout encoding)
        self.tids = []            # thread id of every handler call
        self.resps = []           # the handler's behaviour, call by call (model resp encoding)
        self.last_ev = None
        self.objs = {}            # id(ServerClientConnection) -> cid
        self.keep = []            # keep the objects alive so that id() stays unique
        self.seen_msgs = set()
        self.steps = []           # [t, batch(list of (addr, raw)), rand, replies{addr: payload}]
        self.states = []          # pool summary at every block
        self.views = []           # (cid, status, last_recv, token) of `connections` at every block
        self.tviews = []          # (cid, status, token) of `temp_connections` at every block
        self.marks = []           # len(log) at every block
        self.sends = []           # (step, addr, bytes)
        self.recv_bytes = []      # (step, addr, n)
        self.internal = []        # harness-internal problems (must stay empty)
        self.thread_exc = None
        self.died = False
        self.finished = False
        self.blocked_calls = 0
        self.logger = logging.getLogger("mpgameserver")
        self._saved_log = (self.logger.propagate, self.logger.level)
        self.logger.propagate = False
        self.logger.setLevel(logging.WARNING)
        self.tap = LogTap(self)
        self.logger.addHandler(self.tap)
        self._saved_hook = threading.excepthook
        threading.excepthook = self._excepthook
        self.t = None

    # ---------------------------------------------------------------- callbacks from the loop thread
    def _excepthook(self, args):
        if args.thread is self.thread:
            self.thread_exc = args.exc_value
        else:
            self._saved_hook(args)

    def _urandom(self, n):
        if n != 4:
            self.internal.append("urandom(%d)" % n)
        if self.rand_used < len(self.rand):
            v = self.rand[self.rand_used]
        else:
            self.internal.append("urandom stream exhausted")
            v = 0x10000000 + self.fallback
            self.fallback += 1
        self.rand_used += 1
        return struct.pack(">L", v & 0xFFFFFFFF)

    def cid(self, obj):
        k = id(obj)
        if k not in self.objs:
            self.objs[k] = len(self.objs)
            self.keep.append(obj)
        return self.objs[k]

    def scan_new(self):
        """give ids to connection objects in creation order (dict order of the temp pool)"""
        for c in list(self.ctxt.temp_connections.values()):
            self.cid(c)
        for c in list(self.ctxt.connections.values()):
            if id(c) not in self.objs:
                self.internal.append("object first seen in connections")
            self.cid(c)

    def on_sendto(self, data, addr):
        h, b = S.abstract(data, self.keys, list(self.keys.by_id))
        if b[0] == 0:
            rec = [2, av(addr), h, b[1], b[3]]
        elif b[0] == 1:
            rec = [2, av(addr), h, -1, b[1]]
        else:
            rec = [2, av(addr), h, -2, b""]
        self.log.append(rec)
        self.sends.append((len(self.steps), addr, data))

    def user_cb(self, obj, cbid):
        if cbid < 0:
            return None

        def f(ok, _id=cbid, _o=obj):
            self.log.append([3, self.cid(_o), _id, 1 if ok else 0])
        f._verif_id = cbid
        return f

    def do_action(self, a):
        from mpgameserver.connection import RetryMode
        obj = self.ctxt.connections.get(va(a[1]))
        if obj is None:
            return
        if a[0] == 0:
            obj.disconnect()
        else:
            obj.send(bytes(a[2]), retry=RetryMode(a[3]), callback=self.user_cb(obj, a[4]))

    def on_handler(self, ev, client=None):
        if ev[0] in (3, 4, 5) or ev[0] == 2:
            self.scan_new()
        n = len(self.resps)
        self.log.append([0, ev])
        self.last_ev = ev
        self.tids.append(threading.get_ident())
        acts, raises = self.policy(self, n, ev)
        self.resps.append([1 if raises else 0, acts])
        for a in acts:
            try:
                self.do_action(a)
            except Exception as e:      # noqa  (e.g. payload too large: the handler lets it escape)
                self.resps[-1][0] = 1
                raises = True
        if ev[0] == 2:
            self.states.append(self.summary())
            self.views.append([(self.cid(c), c.status.value, S.ticks(c.last_recv_time), int(c.token))
                               for c in self.ctxt.connections.values()])
            self.tviews.append([(self.cid(c), c.status.value, int(c.token)) for c in self.ctxt.temp_connections.values()])
            self.marks.append(len(self.log))
            self.sem_blocked.release()
            self.sem_go.acquire()
        if raises:
            raise HandlerRaised("scripted")

    def on_log(self, rec):
        msg = rec.msg if isinstance(rec.msg, str) else str(rec.msg)
        if not rec.exc_info:
            return
        if "error processing datagram" in msg:
            self.log.append([4, av(tuple(rec.args[:2]))])
        elif "unhandled error during client update" in msg or "unhandled error during client disconnect" in msg:
            ip, port = msg.split(" ")[0].rsplit(":", 1)
            obj = self.ctxt.connections.get((ip, int(port))) or self.ctxt.temp_connections.get((ip, int(port)))
            self.log.append([5, self.cid(obj) if obj is not None else -1])
        elif ("error processing message" in msg or "unhandled error during connect" in msg
              or "unhandled error during disconnect" in msg or "unhandled error during handler update" in msg
              or "unhandled exception during startup" in msg or "unhandled exception during shutdown" in msg):
            self.log.append([1, self.last_ev])
        elif "unable to send packet" in msg or "unable to encode packet" in msg:
            ip, port = msg.split(" ")[0].rsplit(":", 1)
            self.log.append([9, av((ip, int(port)))])
        else:
            self.log.append([10, msg[:60]])

    # ---------------------------------------------------------------- observations
    def summary(self):
        def cl(c):
            return [self.cid(c), av(c.addr), c.status.value, int(c.token), self.keys.id_of(c.session_key_bytes),
                    S.snapshot(c, self.keys) if self.full else []]
        return [[cl(c) for c in self.ctxt.temp_connections.values()],
                [cl(c) for c in self.ctxt.connections.values()]]

    def _wait_block(self, timeout=30.0):
        waited = 0.0
        while waited < timeout:
            if self.sem_blocked.acquire(timeout=0.02):
                return True
            if not self.thread.is_alive():
                return False
            waited += 0.02
        self.internal.append("loop thread neither blocked nor dead after %.0f s" % timeout)
        return False

    # ---------------------------------------------------------------- driving
    def start(self, t):
        S.CLOCK.t = t
        self.t = t
        self.steps.append([t, [], [], {}])
        self.thread.start()
        if not self._wait_block():
            self.died = True
        self._after_block()

    def feed(self, addr, raw):
        """one datagram through the real front gate"""
        self.tw.datagramReceived(raw, addr)

    def advance(self, t, batch, rand=()):
        """batch: list of (addr, raw).  Returns False when the loop thread is gone."""
        if self.died or self.finished:
            return False
        batch = list(batch) + [(SENTINEL, SENTINEL_RAW)]
        for addr, raw in batch:
            self.recv_bytes.append((len(self.steps), addr, len(raw)))
            self.feed(addr, raw)
        rand = list(rand)
        # enough fresh values behind the scripted ones: get_token always terminates
        nfresh = 8 + 2 * len(batch)
        rand += [0x20000000 + self.fallback + i for i in range(nfresh)]
        self.fallback += nfresh
        self.rand, self.rand_used = rand, 0
        S.CLOCK.t = t
        self.t = t
        self.steps.append([t, batch, rand, {}])
        self.sem_go.release()
        if not self._wait_block():
            self.died = True
            self.log.append([8, 2])
            return False
        self._after_block()
        return True

    def _after_block(self):
        """note the server hello payloads queued during this D phase (they are random)"""
        rep = self.steps[-1][3]
        for pool in (self.ctxt.temp_connections, self.ctxt.connections):
            for addr, c in pool.items():
                for m in c.outgoing_messages:
                    if id(m) not in self.seen_msgs:
                        self.seen_msgs.add(id(m))
                        self.keep.append(m)
                        if m.type.value == 2:
                            rep.setdefault(addr, []).append((bytes(m.payload), self.keys.id_of(c.session_key_bytes)))

    def finish(self, t):
        if self.died or self.finished:
            return
        self.finished = True
        self.ctxt._active = False
        S.CLOCK.t = t
        self.t_end = t
        self.rand, self.rand_used = [], 0
        self.sem_go.release()
        self.thread.join(timeout=30)
        if self.thread.is_alive():
            self.internal.append("loop thread did not exit after shutdown")
        if self.thread_exc is not None:
            self.died = True
            self.log.append([8, 2])

    def close(self):
        if self.thread.is_alive():
            # never leave a blocked thread behind
            self.ctxt._active = False
            self.policy = lambda sim, n, ev: ([], False)
            for _ in range(4):
                self.sem_go.release()
            self.thread.join(timeout=5)
        self.SV.time, self.SV.sleep, self.CX.os = self._saved
        self.logger.removeHandler(self.tap)
        self.logger.propagate, self.logger.level = self._saved_log
        threading.excepthook = self._saved_hook
        S.restore_mtu()

    # ---------------------------------------------------------------- model side
    def hs_answers(self, raw, body, addr, replies):
        """answers for the handshake-typed messages of one datagram, from the bytes and the real
        crypto, independently of what the server did with it"""
        from mpgameserver.serializable import Serializable
        from mpgameserver import crypto
        if body[0] == 2:
            return []
        h = S.unpack_header(raw)
        payload = body[3] if body[0] == 0 else body[1]
        msgs = S.decode_msgs_py(h[4], h[6], payload)
        out = []
        for seq, typ, p in msgs or []:
            if typ not in (1, 2, 3):
                continue
            o = [9, 0, 0, 0, b"", 0]
            if typ == 1:
                try:
                    m = Serializable.loadb(p)
                    ok = 1 if m.client_version == 1 else 0
                    o = [0, ok, 0, 0, b"", 0]
                    if ok:
                        try:
                            crypto.ecdh_server(crypto.EllipticCurvePrivateKey.new(), m.client_pubkey)
                        except Exception as e:      # noqa
                            o[5] = lib.exc_code(e)
                        rs = replies.get(addr)
                        if rs and not o[5]:
                            o[4], o[3] = rs[0]
                except Exception as e:      # noqa
                    o = [lib.exc_code(e), 0, 0, 0, b"", 0]
            elif typ == 3:
                try:
                    m = Serializable.loadb(p)
                    tok = m.token
                    o = [0, 1, tok if isinstance(tok, int) and not isinstance(tok, bool) else -1, 0, b"", 0]
                except Exception as e:      # noqa
                    o = [lib.exc_code(e), 0, 0, 0, b"", 0]
            out.append(o)
        return out

    def model_script(self):
        steps = []
        for k, (t, batch, rand, replies) in enumerate(self.steps):
            last = k == len(self.steps) - 1
            ts = self.steps[k + 1][0] if not last else getattr(self, "t_end", t)
            items = []
            for addr, raw in batch:
                body = S.abstract(raw, self.keys, list(self.keys.by_id))[1] if len(raw) >= 20 else [2]
                items.append([av(addr), raw, body, self.hs_answers(raw, body, addr, replies) if len(raw) >= 20 else []])
            steps.append([t, ts, items, rand, 1 if (last and self.finished) else 0])
        return [self.env, self.cfg, [ipid(x) for x in self.blocklist], self.resps, steps, 1 if self.full else 0]

    def check_model(self, observe_errors=True):
        """replay the script on the model; returns None or a description of the first difference"""
        reply = self.run.model.call("srv_run", self.model_script())
        hidden = (6, 7) if observe_errors else (1, 4, 5, 6, 7)
        mlog = []
        where = []
        for k, r in enumerate(reply):
            outs = r[0] if k == 0 else (r[0] + r[2])
            for o in outs:
                if o[0] in hidden:
                    continue
                mlog.append(o)
                where.append(k - 1)
        ilog = [o for o in self.log if o[0] not in hidden]
        if not self.finished and not self.died:
            # the S phase of the last model step did not happen on the implementation
            n_upd = sum(1 for o in ilog if o == [0, [2]])
            cut, seen = len(mlog), 0
            for i, o in enumerate(mlog):
                if o == [0, [2]]:
                    seen += 1
                    if seen == n_upd:
                        cut = i + 1
                        break
            mlog, where = mlog[:cut], where[:cut]
        for i in range(max(len(ilog), len(mlog))):
            a = ilog[i] if i < len(ilog) else None
            b = mlog[i] if i < len(mlog) else None
            if a != b:
                return {"what": "log", "index": i, "model_step": where[i] if i < len(where) else None,
                        "impl": lib.jsonable(a), "model": lib.jsonable(b),
                        "before": lib.jsonable(ilog[max(0, i - 3):i])}
        for k, st in enumerate(self.states):
            if k + 1 >= len(reply):
                break
            m = reply[k + 1][1]
            mt, mc = m[2], m[3]
            if st != [mt, mc]:
                for pi, (ip_, mp_) in enumerate(zip(st, [mt, mc])):
                    if [c[:5] for c in ip_] != [c[:5] for c in mp_]:
                        return {"what": "pools", "step": k, "pool": pi, "impl": lib.jsonable([c[:5] for c in ip_]),
                                "model": lib.jsonable([c[:5] for c in mp_])}
                    for ci, mi in zip(ip_, mp_):
                        if ci[5] != mi[5]:
                            diff = [j for j, (x, y) in enumerate(zip(ci[5], mi[5])) if x != y]
                            return {"what": "client state", "step": k, "cid": ci[0], "fields": diff,
                                    "impl": lib.jsonable([ci[5][j] for j in diff])[:4],
                                    "model": lib.jsonable([mi[5][j] for j in diff])[:4]}
        return None


# -------------------------------------------------------------------- honest clients

class HClient:
    """a real UdpClient with a fake socket; addr is the address the server sees it under"""

    def __init__(self, sim, addr, pinned=True):
        self.sim = sim
        self.addr = addr
        self.impl = S.Impl("client", sim.keys, established=False, pinned=pinned)
        self.client = self.impl.client
        self.sock = self.impl.sock
        self.connected_cb = []
        self.got = []

    def connect(self):
        self.client.connect(SERVER_ADDR, lambda ok: self.connected_cb.append(ok))
        self.client.conn.clock = S.CLOCK.time

    def tick(self):
        """one UdpClient.update(); returns the datagrams it sent"""
        self.sock.sent = []
        try:
            self.client.update()
        except Exception as e:      # noqa
            self.sim.internal.append("client update raised %r" % (e,))
        if self.client.conn is not None:
            self.sim.keys.id_of(self.client.conn.session_key_bytes)
            for s, p in self.client.getMessages():
                self.got.append(bytes(p))
        out, self.sock.sent = self.sock.sent, []
        return out

    def deliver(self, raw):
        self.sock.inbox.append(raw)

    def status(self):
        return self.client.status().value

    def key_id(self):
        c = self.client.conn
        return self.sim.keys.id_of(c.session_key_bytes) if c is not None else -1


def recraft(sim, raw, key_id, edit):
    """decrypt a sealed datagram made by a real client, let `edit(hdr, msgs)` change the header
    list / message list ([seq, type, payload]), and seal it again under the same key: what a
    peer that holds the session key but does not follow the protocol can send"""
    h, b = S.abstract(raw, sim.keys, [key_id])
    if b[0] != 0:
        return raw
    msgs = [list(m) for m in (S.decode_msgs_py(h[4], h[6], b[3]) or [])]
    h = list(h)
    h, msgs = edit(h, msgs)
    if len(msgs) == 1:
        payload = struct.pack(">H", msgs[0][0]) + bytes(msgs[0][2])
    else:
        payload = b"".join(struct.pack(">HHB", len(m[2]), m[0], m[1]) + bytes(m[2]) for m in msgs)
    h[5] = len(payload)
    h[6] = len(msgs)
    return S.concrete([h, [0, key_id, h, payload]], sim.keys)


# -------------------------------------------------------------------- a world of clients around the server

def random_policy(rng, p_raise=0.12, echo=0.6, chatty=True):
    """handler behaviour drawn from rng, call by call: raise, echo, greet, disconnect the event's
    client or another one, send to another client (all retry modes, with and without callback)"""
    state = {"cb": 0}

    def targets(sim):
        return [av(a) for a in sim.ctxt.connections.keys()]

    def own(sim, ev):
        for c in sim.ctxt.connections.values():
            if sim.cid(c) == ev[1]:
                return av(c.addr)
        return None

    def snd(a, payload):
        state["cb"] += 1
        retry = rng.choice([0, 0, 1, -1])
        cb = state["cb"] if rng.random() < 0.4 else -1
        return [1, a, payload, retry, cb]

    def policy(sim, n, ev):
        acts = []
        kind = ev[0]
        me = own(sim, ev) if kind in (3, 4, 5) else None
        if kind == 4 and me and rng.random() < echo:
            acts.append([1, me, b"echo:" + ev[3][:600], 0, -1])
        if chatty:
            r = rng.random()
            if kind == 3 and me:
                if r < 0.3:
                    acts.append(snd(me, b"welcome %d" % ev[1]))
                elif r < 0.36:
                    acts.append([0, me])
            elif kind == 4 and me:
                if r < 0.05:
                    acts.append([0, me])
                elif r < 0.09 and targets(sim):
                    acts.append([0, rng.choice(targets(sim))])
                elif r < 0.2 and targets(sim):
                    acts.append(snd(rng.choice(targets(sim)), b"relay " + ev[3][:40]))
                elif r < 0.22:
                    acts.append(snd(me, bytes(rng.randrange(256) for _ in range(rng.choice([1500, 2500, 4000])))))
            elif kind == 5 and me:
                if r < 0.1:
                    acts.append(snd(me, b"bye"))
                elif r < 0.2:
                    acts.append([0, me])
                elif r < 0.3 and targets(sim):
                    acts.append([0, rng.choice(targets(sim))])
            elif kind == 2:
                if r < 0.06 and targets(sim):
                    for a in targets(sim):
                        acts.append(snd(a, b"tick %d" % n))
                elif r < 0.09 and targets(sim):
                    acts.append([0, rng.choice(targets(sim))])
        return acts, rng.random() < p_raise
    return policy


class World:
    """the stepped server + real clients + a record of every datagram ever sent by a client
    (for duplication / replay) ; routes the server's datagrams back to the clients"""

    def __init__(self, run, rng, cfg=(5 * T, 2 * T, 1536, T), blocklist=(), mtu=1500, policy=None, full=True, t0=100 * T):
        self.rng = rng
        self.sim = Sim(run, cfg=cfg, blocklist=blocklist, mtu=mtu, policy=policy, full=full)
        self.t = t0
        self.clients = []          # dicts: hc, ticking, addr
        self.by_addr = {}
        self.sent_hist = []        # (addr, raw) of every client datagram
        self.batches = []
        self.sim.start(self.t)

    def add_client(self, addr, pinned=True):
        hc = HClient(self.sim, addr, pinned=pinned)
        saved = S.CLOCK.t
        hc.connect()
        rec = {"hc": hc, "ticking": True, "addr": addr, "edit": None}
        self.clients.append(rec)
        self.by_addr[addr] = rec
        return rec

    def step(self, dt, extra=(), rand=(), transform=None):
        """one harness step: clients tick at the new time, their datagrams + `extra` are fed,
        the server runs S_{k-1}, D_k, U_k.  Returns False when the loop thread is gone."""
        self.t += dt
        S.CLOCK.t = self.t
        batch = []
        for rec in self.clients:
            if not rec["ticking"]:
                continue
            for d in rec["hc"].tick():
                self.sent_hist.append((rec["addr"], d))
                if rec["edit"] is not None:
                    d = rec["edit"](rec, d)
                    if d is None:
                        continue
                batch.append((rec["addr"], d))
        batch += list(extra)
        if transform:
            batch = transform(batch)
        n0 = len(self.sim.sends)
        self.batches.append(batch)
        alive = self.sim.advance(self.t, batch, rand)
        for (k, addr, data) in self.sim.sends[n0:]:
            rec = self.by_addr.get(addr)
            if rec is not None and rec["ticking"]:
                rec["hc"].deliver(data)
        return alive

    def finish(self, dt=300):
        self.t += dt
        n0 = len(self.sim.sends)
        self.sim.finish(self.t)

    def close(self):
        self.sim.close()
