"""serlib.py — shared helpers of the C13/C14 harnesses (binary serializer).

* a fixed family of Serializable / SerializableEnum test classes and the registry handed both to
  the implementation (registry= keyword) and, as data, to the model
* python value <-> wire form of Ser.value (see coq/Extract/U_Ser.v)
* a counting BytesIO, frame-exact recursion-limit control, local exception codes
* structured / boundary value generators
"""
import io, os, sys, struct, ctypes
from typing import List, Dict, Set, Tuple
from harness import lib

from mpgameserver import serializable as S
from mpgameserver import connection as CN
from mpgameserver.serializable import Serializable, SerializableEnum, Default

MAXB, MAXA = 2 ** 20, 2 ** 14
assert S.MAX_BYTES_LENGTH == MAXB and S.MAX_ARRAY_LENGTH == MAXA, "size caps changed: update the model"

# ------------------------------------------------------------------ test classes
if "VfColor" not in S.SerializableType.names:
    class VfColor(SerializableEnum):
        RED = 1
        GREEN = 2
        BLUE = 3

    class VfName(SerializableEnum):
        A = "a"
        B = "bee"
        E = ""
        U = "é中\U0001f600"

    class VfMixed(SerializableEnum):
        Z = 0
        NEG = -1
        BIG = 2 ** 40
        BY = b"FS"

    class VfEmpty(Serializable):
        pass

    class VfPoint(Serializable):
        x: int = 0
        y: int = 0

    class VfMix(Serializable):
        flag: bool = False
        n: int = 7
        f: float = 1.5
        s: str = "dflt"
        b: bytes = b"\x00\x01"
        nothing: object = None

    class VfBag(Serializable):
        items: List[int] = []
        table: Dict[str, int] = {}
        tags: Set[int] = set()
        pair: Tuple[int, int] = (0, 0)
        color: VfColor = VfColor.RED
        pt: VfPoint = Default
        anyv: object = None

    class VfRaw(Serializable):
        a = 1
        b = "x"

    # (an explicit `type_id = ...` in a direct subclass of Serializable raises AttributeError in
    #  SerializableType.__new__; setRootId is the working way to choose ids)
    S.SerializableType.setRootId(__name__, 200)

    class VfLow(Serializable):
        v: int = 5

    S.SerializableType.setRootId(__name__, 65535)

    class VfHigh(Serializable):
        v: object = None
else:   # pragma: no cover  (module imported twice in one process)
    N = S.SerializableType.names
    VfColor, VfName, VfMixed, VfEmpty, VfPoint, VfMix, VfBag, VfRaw, VfLow, VfHigh = (
        N[k] for k in ("VfColor", "VfName", "VfMixed", "VfEmpty", "VfPoint", "VfMix", "VfBag", "VfRaw", "VfLow", "VfHigh"))

ENUMS = [VfColor, VfName, VfMixed]
OBJS = [VfEmpty, VfPoint, VfMix, VfBag, VfRaw, VfLow, VfHigh]
HELLO = CN.HandshakeClientHelloMessage
SHELLO = CN.HandshakeServerHelloMessage
CHAL = CN.HandshakeClientChallengeResponseMessage
HELLO_BASE = CN.Packet.MAX_PAYLOAD_SIZE - 2 - CN.PacketHeader.SIZE - 2


def is_enum_cls(c):
    return isinstance(c, S.SerializableEnumType)


def py_registry(hello=True):
    reg = {c.type_id: c for c in ENUMS + OBJS + [CHAL]}
    if hello:
        reg[HELLO.type_id] = HELLO
        reg[SHELLO.type_id] = SHELLO
    return reg


def wire_registry(reg):
    out = []
    for tid, c in reg.items():
        if c is HELLO:
            out.append([tid, 2, HELLO_BASE])
        elif c is SHELLO:
            out.append([tid, 3])
        elif is_enum_cls(c):
            out.append([tid, 1, [to_wire(k) for k in c._value2name]])
        else:
            inst = c()
            out.append([tid, 0, [to_wire(getattr(inst, f)) for f in c._fields]])
    return out

# ------------------------------------------------------------------ values <-> wire


def f2bits(x):
    return struct.unpack(">Q", struct.pack(">d", x))[0]


def bits2f(b):
    return struct.unpack(">d", struct.pack(">Q", b))[0]


def to_wire(v):
    t = type(v)
    if v is None:
        return [0]
    if t is bool:
        return [1, 1 if v else 0]
    if t is int:
        return [2, v]
    if t is float:
        return [3, f2bits(v)]
    if t is str:
        return [4, [ord(c) for c in v]]
    if t is bytes:
        return [5, v]
    if t is list:
        return [6, [to_wire(x) for x in v]]
    if t is tuple:
        return [7, [to_wire(x) for x in v]]
    if t is dict:
        return [8, [[to_wire(k), to_wire(x)] for k, x in v.items()]]
    if t is set:
        return [9, [to_wire(x) for x in v]]
    if isinstance(v, HELLO):
        k = v.client_pubkey
        return [10, v.type_id, [to_wire(getattr(k, "_vf_der", k)), to_wire(v.client_version)]]
    if isinstance(v, Serializable):
        return [10, v.type_id, [to_wire(getattr(v, f)) for f in v._fields]]
    if isinstance(v, SerializableEnum):
        return [11, v.type_id, to_wire(v.value)]
    return [12]


def canon(w):
    """order-insensitive form of sets (hash order is not modelled)"""
    tg = w[0]
    if tg in (6, 7):
        return [tg, [canon(x) for x in w[1]]]
    if tg == 9:
        return [tg, sorted((canon(x) for x in w[1]), key=repr)]
    if tg == 8:
        return [tg, [[canon(k), canon(x)] for k, x in w[1]]]
    if tg == 10:
        return [tg, w[1], [canon(x) for x in w[2]]]
    if tg == 11:
        return [tg, w[1], canon(w[2])]
    if tg == 5:
        return [5, bytes(w[1])]
    return w

# ------------------------------------------------------------------ errors

def exc_code(e):
    if isinstance(e, S.SerializableHeaderError):
        return 101
    if isinstance(e, S.SerializableError):
        return 102
    if isinstance(e, NameError):
        return 103
    return lib.exc_code(e)


def guarded(f, *a):
    try:
        return [0, f(*a)]
    except Exception as e:      # noqa
        return [1, exc_code(e)]

# ------------------------------------------------------------------ stream, frames


class CountingStream(io.BytesIO):
    """BytesIO that counts read() calls (one Python frame per read)"""

    def __init__(self, b):
        super().__init__(b)
        self.reads = 0
        self.bytes_out = 0

    def read(self, n=-1):
        self.reads += 1
        r = super().read(n)
        self.bytes_out += len(r)
        return r


def _depth():
    f = sys._getframe(0)
    d = 0
    while f:
        d += 1
        f = f.f_back
    return d


def _decode_limited(F, data, reg):
    """deserialize_value with recursionlimit = (depth of this frame) + F"""
    st = CountingStream(data)
    old = sys.getrecursionlimit()
    sys.setrecursionlimit(_depth() + F)
    exc = None
    try:
        try:
            r = [0, S.deserialize_value(st, registry=reg)]
        except Exception as e:      # noqa
            exc = e
    finally:
        sys.setrecursionlimit(old)
    if exc is not None:
        r = [1, exc_code(exc)]
    return r, st


_CAL = None


def frame_offset():
    """model frames = F + offset: calibrated on a null value, which needs exactly 2 frames
    (deserialize_value + the stream read / the leaf lambda)"""
    global _CAL
    if _CAL is None:
        null = struct.pack(">H", 15)
        fmin = None
        for F in range(0, 12):
            r, _ = _decode_limited(F, null, {})
            if r[0] == 0:
                fmin = F
                break
        if fmin is None:
            raise RuntimeError("frame calibration failed")
        _CAL = 2 - fmin
    return _CAL


def decode_with_frames(frames, data, reg):
    """run the implementation with exactly `frames` Python frames available to deserialize_value
    (the model's fuel).  returns (result, stream)"""
    return _decode_limited(frames - frame_offset(), data, reg)


BIG_FRAMES = 600


# recording wrapper around EllipticCurvePublicKey.fromBytes (the external DER parser)
class KeyOracle:
    def __init__(self):
        self.table = {}
        self.orig = CN.EllipticCurvePublicKey.fromBytes

    def __enter__(self):
        orig = self.orig
        table = self.table

        def fromBytes(der):
            try:
                k = orig(der)
            except Exception as e:   # noqa
                if isinstance(der, bytes):
                    table[der] = exc_code(e)
                raise
            if isinstance(der, bytes):
                table[der] = 0
            k._vf_der = der
            return k
        CN.EllipticCurvePublicKey.fromBytes = staticmethod(fromBytes)
        return self

    def __exit__(self, *a):
        CN.EllipticCurvePublicKey.fromBytes = staticmethod(self.orig)

    def wire(self):
        return [[k, v] for k, v in self.table.items()]


def impl_decode(data, reg, frames=BIG_FRAMES):
    """-> ([0,[canon value, bytes left]] | [1, code], reads)"""
    r, st = decode_with_frames(frames, data, reg)
    if r[0] == 0:
        r = [0, [canon(to_wire(r[1])), len(data) - st.tell()]]
    return r, st.reads


def model_dec_args(regw, pkw, frames, data):
    return [regw, pkw, frames, data]


def canon_model_dec(m):
    """model reply of ser_dec -> same shape as impl_decode"""
    r, reads, nval = m
    if r[0] == 0:
        r = [0, [canon(r[1][0]), r[1][1]]]
    return r, reads, nval


def impl_encode(v):
    def f():
        st = io.BytesIO()
        S.serialize_value(st, v)
        return st.getvalue()
    return guarded(f)

# ------------------------------------------------------------------ generators

INT_EDGES = sorted(set(
    [s * (2 ** k + d) for k in (0, 7, 8, 15, 16, 31, 32, 62, 63, 64, 65, 100) for d in (-2, -1, 0, 1, 2) for s in (1, -1)]
    + [0, 1, -1, 0x7F, 0x80, -0x7F, -0x80, -0x81, 0x7FFF, 0x8000, -0x7FFF, -0x8000, -0x8001,
       0x7FFFFFFF, 0x80000000, -0x7FFFFFFF, -0x80000000, -0x80000001, 2 ** 63 - 1, 2 ** 63, -2 ** 63, -2 ** 63 - 1]))

FLOAT_BITS_EDGES = [
    0x0000000000000000, 0x8000000000000000, 0x0000000000000001, 0x000FFFFFFFFFFFFF, 0x0010000000000000,
    0x3FF0000000000000, 0xBFF0000000000000, 0x3FB999999999999A, 0x400921FB54442D18,
    0x7FF0000000000000, 0xFFF0000000000000, 0x7FF8000000000000, 0xFFF8000000000000,
    0x7FF0000000000001, 0x7FF4000000000000, 0x7FFFFFFFFFFFFFFF, 0xFFF0000020000000, 0x7FF00000DEADBEEF,
    0x47EFFFFFE0000000, 0x47EFFFFFEFFFFFFF, 0x47EFFFFFF0000000, 0x47EFFFFFF0000001, 0x47F0000000000000,
    0xC7EFFFFFEFFFFFFF, 0xC7EFFFFFF0000000, 0x7FEFFFFFFFFFFFFF,
    0x3810000000000000, 0x380FFFFFFFFFFFFF, 0x36A0000000000000, 0x3690000000000000, 0x3690000000000001,
    0x368FFFFFFFFFFFFF, 0x36B8000000000000, 0x3FF0000010000000, 0x3FF0000030000000, 0x3FF0000010000001,
    0x3FF000000FFFFFFF, 0x3FFFFFFFF0000000, 0x3FFFFFFFEFFFFFFF,
]

CP_EDGES = [0, 1, 0x41, 0x7F, 0x80, 0xE9, 0x7FF, 0x800, 0xFFF, 0x1000, 0xCFFF, 0xD000, 0xD7FF, 0xE000, 0xFFFD,
            0xFFFF, 0x10000, 0x1F600, 0x3FFFF, 0x40000, 0xFFFFF, 0x100000, 0x10FFFF]
SURROGATES = [0xD800, 0xDBFF, 0xDC00, 0xDFFF]


def gen_str(r, allow_bad=False):
    c = r.random()
    if c < 0.15:
        return ""
    n = r.choice([1, 1, 2, 3, 5, 8, 20])
    cps = []
    for _ in range(n):
        q = r.random()
        if q < 0.4:
            cps.append(r.randrange(0x20, 0x7F))
        elif q < 0.8:
            cps.append(r.choice(CP_EDGES))
        elif q < 0.97 or not allow_bad:
            cp = r.randrange(0, 0x110000)
            if 0xD800 <= cp <= 0xDFFF:
                cp = 0xE000
            cps.append(cp)
        else:
            cps.append(r.choice(SURROGATES))
    return "".join(chr(c) for c in cps)


def gen_int(r, wide=False):
    c = r.random()
    if c < 0.45:
        return r.choice(INT_EDGES) if wide else r.choice([x for x in INT_EDGES if -2 ** 63 <= x < 2 ** 63])
    if c < 0.7:
        return r.randrange(-300, 300)
    k = r.choice([8, 16, 32, 64] + ([70] if wide else []))
    return r.randrange(-2 ** (k - 1), 2 ** (k - 1))


def gen_float(r, allow_overflow=False):
    while True:
        c = r.random()
        if c < 0.5:
            b = r.choice(FLOAT_BITS_EDGES)
        elif c < 0.7:
            b = f2bits(r.choice([0.5, -2.25, 3.0, 1e-3, 123456.789, 1e10, -1e-30, 1e-42, 3.4e38, 1e-46]))
        elif c < 0.85:
            # around float32 exponent range, random mantissa
            e = r.randrange(1023 - 152, 1023 + 129)
            b = (r.getrandbits(1) << 63) | (e << 52) | r.getrandbits(52)
        else:
            b = r.getrandbits(64)
        if allow_overflow or not f32_overflows(b):
            return bits2f(b)


def f32_overflows(b):
    x = bits2f(b)
    if x != x or x in (float("inf"), float("-inf")):
        return False
    y = ctypes.c_float(x).value
    return y in (float("inf"), float("-inf"))


def gen_scalar(r):
    c = r.random()
    if c < 0.08:
        return None
    if c < 0.18:
        return r.random() < 0.5
    if c < 0.45:
        return gen_int(r)
    if c < 0.6:
        return gen_float(r)
    if c < 0.8:
        return gen_str(r)
    return bytes(r.getrandbits(8) for _ in range(r.choice([0, 1, 2, 3, 17, 200])))


def gen_key(r, depth, plain=False):
    """hashable before and after a trip (no tuple, no float unless exactly float32)"""
    c = r.random()
    if c < 0.3:
        return gen_int(r)
    if c < 0.5:
        return gen_str(r)
    if c < 0.6:
        return bytes(r.getrandbits(8) for _ in range(r.choice([0, 1, 4])))
    if c < 0.65:
        return None
    if c < 0.7:
        return r.random() < 0.5
    if c < 0.78:
        return ctypes.c_float(gen_float(r)).value
    if c < 0.9 and not plain:
        return gen_enum(r)
    return gen_int(r)


def gen_enum(r):
    cls = r.choice(ENUMS)
    return cls(r.choice(list(cls._value2name)))


def gen_obj(r, depth):
    cls = r.choice(OBJS)
    o = cls()
    for f in cls._fields:
        if r.random() < 0.7:
            setattr(o, f, gen_value(r, depth - 1))
    return o


def gen_value(r, depth=3):
    """a value of the supported grammar whose dict keys / set elements survive a trip"""
    if depth <= 0:
        return gen_scalar(r)
    c = r.random()
    if c < 0.35:
        return gen_scalar(r)
    n = r.choice([0, 1, 1, 2, 3, 5])
    if c < 0.5:
        return [gen_value(r, depth - 1) for _ in range(n)]
    if c < 0.6:
        return tuple(gen_value(r, depth - 1) for _ in range(n))
    if c < 0.72:
        d = {}
        kinds_enum = r.random() < 0.3
        for _ in range(n):
            k = gen_enum(r) if kinds_enum else gen_key(r, depth, plain=True)
            d[k] = gen_value(r, depth - 1)
        return d
    if c < 0.8:
        kinds_enum = r.random() < 0.3
        return set((gen_enum(r) if kinds_enum else gen_key(r, depth, plain=True)) for _ in range(n))
    if c < 0.9:
        return gen_obj(r, depth)
    return gen_enum(r)


class Unsupported(object):
    pass


def gen_bad_leaf(r):
    """values outside the domain: must be refused"""
    c = r.random()
    if c < 0.3:
        return r.choice([2 ** 63, -2 ** 63 - 1, 2 ** 64, -2 ** 64, 2 ** 100, -2 ** 200, 2 ** 63 + r.randrange(1, 10 ** 6)])
    if c < 0.45:
        return r.choice([Unsupported(), 1 + 2j, bytearray(b"ab"), frozenset([1]), range(3), Ellipsis, int, b"x".__len__])
    if c < 0.6:
        return bits2f(r.choice([0x47EFFFFFF0000000, 0x47F0000000000000, 0x7FEFFFFFFFFFFFFF, 0xC7EFFFFFF0000000, 0xFFEFFFFFFFFFFFFF]))
    if c < 0.75:
        return "ab" + chr(r.choice(SURROGATES)) + "c"
    if c < 0.85:
        e = VfColor(1)
        e.value = r.choice([99, "x", None, 2.5])
        return e
    return r.choice([list(range(MAXA + 1)), tuple([None] * (MAXA + 2)), set(range(MAXA + 1)), {i: i for i in range(MAXA + 1)},
                     b"\x00" * (MAXB + 1)])


def wrap_bad(r, bad, depth=2):
    """put a refused leaf somewhere inside a supported structure"""
    v = bad
    for _ in range(r.randrange(0, depth + 1)):
        c = r.random()
        if c < 0.3:
            v = [gen_scalar(r), v, gen_scalar(r)]
        elif c < 0.5:
            v = (v,)
        elif c < 0.7:
            v = {gen_int(r): v}
        elif c < 0.85:
            o = VfHigh()
            o.v = v
            v = o
        else:
            o = VfBag()
            o.anyv = v
            v = o
    return v


def contains_tuple(v):
    if type(v) is tuple:
        return True
    if isinstance(v, SerializableEnum):
        return contains_tuple(v.value)
    return False


def key_with_tuple(v):
    """does v hold a dict key / set element that contains a tuple (hashable now, a list after a trip)?"""
    t = type(v)
    if t in (list, tuple):
        return any(key_with_tuple(x) for x in v)
    if t is dict:
        return any(contains_tuple(k) or key_with_tuple(k) or key_with_tuple(x) for k, x in v.items())
    if t is set:
        return any(contains_tuple(x) for x in v)
    if isinstance(v, Serializable):
        return any(key_with_tuple(getattr(v, f)) for f in v._fields)
    return False


def raise_stack_limit():
    """the extracted model recurses on long lists: give the driver process a large stack"""
    import resource
    soft, hard = resource.getrlimit(resource.RLIMIT_STACK)
    want = 4 * 1024 ** 3
    if hard != resource.RLIM_INFINITY:
        want = min(want, hard)
    if soft != resource.RLIM_INFINITY and soft < want:
        resource.setrlimit(resource.RLIMIT_STACK, (want, hard))


# ------------------------------------------------------------------ the class registry (unit reg_ops)

class RegistrySandbox:
    """run class statements against the REAL metaclasses with SerializableType's tables emptied, then put
    everything back (the registered test classes and the handshake messages must survive)"""

    def __enter__(self):
        T = S.SerializableType
        self.saved = (T.next_type_id, dict(T.custom_id), dict(T.registry), dict(T.names), dict(S.SerializableEnumType._enums))
        T.next_type_id = 128
        T.custom_id = {}
        T.registry = {}
        T.names = {}
        return self

    def __exit__(self, *a):
        T = S.SerializableType
        T.next_type_id, T.custom_id, T.registry, T.names = self.saved[0], self.saved[1], self.saved[2], self.saved[3]
        S.SerializableEnumType._enums = self.saved[4]
        return False


def registry_ops_impl(ops):
    """ops: [0, module, base] setRootId | [1, module, name] class(Serializable) | [2, module, name] class(SerializableEnum).
    -> ([[type_id, code] per op], registry items, names items, next_type_id, custom_id items, classes) with classes
    numbered by class statement"""
    T = S.SerializableType
    res, classes = [], []
    with RegistrySandbox():
        for op in ops:
            if op[0] == 0:
                T.setRootId("regmod%d" % op[1], op[2])
                res.append([0, 0])
                continue
            ns = {"__module__": "regmod%d" % op[1], "__qualname__": "RegCls%d" % op[2]}
            holder = {}
            try:
                if op[0] == 1:
                    ns.update({"x": 0, "__annotations__": {"x": int}})
                    orig_new = type.__new__
                    cls = T("RegCls%d" % op[2], (S.Serializable,), ns)
                else:
                    ns.update({"A": 1, "B": 2})
                    cls = S.SerializableEnumType("RegCls%d" % op[2], (S.SerializableEnum,), ns)
                classes.append(cls)
                res.append([int(cls.type_id), 0])
            except ValueError as e:
                classes.append(None)
                msg = str(e)
                code = 1 if "Serializable ID" in msg else (2 if "Serializable Name" in msg else 9)
                tid = int(msg.split()[2].split(":")[0]) if code in (1, 2) else -1
                res.append([tid, code])
        ident = {id(c): i for i, c in enumerate(classes) if c is not None}
        unknown = 10 ** 6
        reg = [[int(t), ident.get(id(c), unknown)] for t, c in T.registry.items()]
        names = [[int(n[6:]), ident.get(id(c), unknown)] for n, c in T.names.items()]
        nxt = int(T.next_type_id)
        cust = [[int(m[6:]), int(b)] for m, b in T.custom_id.items()]
        # the property on the implementation alone: every class reachable through the decode table finished its
        # definition (is one of the classes the statements returned), sits under its own type_id, no class sits
        # under two ids, and every class whose statement succeeded is what its type id decodes to
        # (the `names` table is compared with the model only: same-named enums overwrite each other there by design)
        problems = []
        seen = {}
        for t, c in T.registry.items():
            if id(c) not in ident:
                problems.append(["registry holds a class whose definition was refused", int(t)])
            elif int(c.type_id) != int(t):
                problems.append(["class registered under an id that is not its type_id", int(t), int(c.type_id)])
            if id(c) in seen:
                problems.append(["one class under two ids", seen[id(c)], int(t)])
            seen[id(c)] = int(t)
        for c in classes:
            if c is not None and T.registry.get(c.type_id) is not c:
                problems.append(["a successfully defined class is not what its type id decodes to", int(c.type_id), ident[id(c)]])
    return res, reg, names, nxt, cust, problems


def gen_registry_ops(r, n):
    ops = []
    for _ in range(n):
        k = r.random()
        if k < 0.2:
            ops.append([0, r.randrange(3), r.choice([128, 129, 130, 131, 200, 201, 1024])])
        else:
            ops.append([1 if r.random() < 0.55 else 2, r.randrange(3), r.randrange(7)])
    return ops


def registry_unit(run, n):
    """unit reg_ops + implementation-only oracle; enum definitions that would take over an id or a name in use
    (the enum metaclass does not check) are generated only when allow_overwrite"""
    r = run.rng
    reqs, impl = [], []
    for i in range(n):
        ops = gen_registry_ops(r, r.randrange(1, 12))
        if i == 0:
            ops = [[0, 1, 2048], [2, 1, 0], [2, 1, 1], [2, 1, 2], [1, 1, 3], [1, 1, 3], [1, 1, 4]]     # setRootId, enums back to back, a refused duplicate name
        res, reg, names, nxt, cust, problems = registry_ops_impl(ops)
        reqs.append([ops])
        impl.append([res, reg, names, nxt, cust])
        for pr in problems[:1]:
            run.oracle_violation("registry-not-a-bijection", {"ops": ops, "problem": pr}, "serializable.py metaclasses")
        if any(x[1] for x in res):
            run.nt(("registry-refusal", i))
    run.compare("reg_ops", reqs, impl, run.model.call_many("reg_ops", reqs))
    run.count("registry_histories", n)


# ------------------------------------------------------------------ process-level state (C13/C14: encode and decode
# consult tables that belong to the PROCESS, not to a call; none of them may change because a value was encoded or
# bytes were decoded)

_SERIAL = {}


def _safe_repr(x):
    try:
        return repr(x)[:80]
    except Exception:       # noqa
        return "<%s>" % type(x).__name__


def cls_label(c):
    """stable, address-free identity of a class object within this process (keeps the class alive: no id reuse)"""
    e = _SERIAL.get(id(c))
    if e is None or e[1] is not c:
        e = _SERIAL[id(c)] = ("%s#%d" % (getattr(c, "__name__", "?"), len(_SERIAL)), c)
    return e[0]


def _cls_state(c):
    d = c.__dict__
    tid = getattr(c, "type_id", None)
    out = [c.__name__, tid if type(tid) is int else "%s:%s" % (type(tid).__name__, _safe_repr(tid))]
    if is_enum_cls(c):
        out.append(sorted((repr(k), n) for k, n in c._value2name.items()))
        out.append(sorted((n, repr(k)) for n, k in c._name2value.items()))
        out.append(sorted((n, repr(getattr(getattr(c, n, None), "value", None))) for n in c._name2value))
    else:
        out.append(tuple(getattr(c, "_fields", ())))
        out.append(sorted(getattr(c, "__annotations__", {})))
        # the class-level default of every field (a decode that wrote through to a class attribute, or filled a shared
        # mutable default, shows up here)
        out.append([repr(canon(to_wire(d[f]))) if f in d else None for f in getattr(c, "_fields", ())])
    return out


def _k(t):
    """a table key / attribute value made safely comparable (a hostile stream may have put ANY object there, e.g. a
    SerializableEnum member whose == raises against an int)"""
    return t if type(t) in (int, str, tuple) or t is None else (type(t).__name__, id(t))


def table_fingerprint(classes=True):
    """cheap part of process_state: the id <-> class tables, the counters, the sizes of every process-level container and
    (classes=True) each class's own type_id / field list / identity of its class-level defaults"""
    T = S.SerializableType
    if not classes:
        return (tuple((_k(t), id(c)) for t, c in T.registry.items()), tuple((_k(n), id(c)) for n, c in T.names.items()),
                _k(T.next_type_id), tuple((_k(a), _k(b)) for a, b in T.custom_id.items()),
                tuple((_k(n), id(c)) for n, c in S.SerializableEnumType._enums.items()),
                _k(S.MAX_BYTES_LENGTH), _k(S.MAX_ARRAY_LENGTH), tuple(_container_sizes()))
    return (tuple((_k(t), id(c)) for t, c in T.registry.items()),
            tuple((_k(n), id(c)) for n, c in T.names.items()),
            _k(T.next_type_id), tuple((_k(a), _k(b)) for a, b in T.custom_id.items()),
            tuple((_k(n), id(c)) for n, c in S.SerializableEnumType._enums.items()),
            tuple((_k(getattr(c, "type_id", None)), _k(getattr(c, "_fields", None)),
                   tuple(id(c.__dict__.get(f)) for f in getattr(c, "_fields", None) or ())) for c in T.registry.values()),
            S.MAX_BYTES_LENGTH, S.MAX_ARRAY_LENGTH, tuple(_container_sizes()))


def _containers():
    """(label, object) of every dict / list / set held at module level of serializable.py or on its two metaclasses and two base
    classes — the known tables and anything a later version may add there (caches)"""
    for owner, ns in (("serializable", vars(S)), ("SerializableType", vars(S.SerializableType)),
                      ("SerializableEnumType", vars(S.SerializableEnumType)), ("Serializable", vars(S.Serializable)),
                      ("SerializableEnum", vars(S.SerializableEnum))):
        for k, v in list(ns.items()):
            if isinstance(v, (dict, list, set)) and not (k.startswith("__") and k.endswith("__")):
                yield "%s.%s" % (owner, k), v


_KNOWN_CONTAINERS = []


def _container_sizes():
    """sizes of the containers seen by the last full scan (process_state() rescans the namespaces)"""
    if not _KNOWN_CONTAINERS:
        _KNOWN_CONTAINERS.extend(_containers())
    return [(label, len(v)) for label, v in _KNOWN_CONTAINERS]


def process_state():
    """{component: comparable value} of everything process-wide the serializer reads"""
    T = S.SerializableType
    st = {
        "SerializableType.registry": [(_safe_repr(t), cls_label(c)) for t, c in T.registry.items()],
        "SerializableType.names": [(n, cls_label(c)) for n, c in T.names.items()],
        "SerializableType.next_type_id": _safe_repr(T.next_type_id),
        "SerializableType.custom_id": sorted((_safe_repr(a), _safe_repr(b)) for a, b in T.custom_id.items()),
        "SerializableEnumType._enums": [(n, cls_label(c)) for n, c in S.SerializableEnumType._enums.items()],
        "serialize_types": [(t.__name__, cls_label(f)) for t, f in S.serialize_types.items()],
        "deserialize_types": [(t, cls_label(f)) for t, f in S.deserialize_types.items()],
        "size caps": (S.MAX_BYTES_LENGTH, S.MAX_ARRAY_LENGTH),
        "Serializable methods": sorted((k, cls_label(v)) for k, v in S.Serializable.__dict__.items() if callable(v) or isinstance(v, (staticmethod, classmethod))),
        "SerializableEnum methods": sorted((k, cls_label(v)) for k, v in S.SerializableEnum.__dict__.items() if callable(v) or isinstance(v, (staticmethod, classmethod))),
    }
    del _KNOWN_CONTAINERS[:]
    _KNOWN_CONTAINERS.extend(_containers())
    for label, v in _KNOWN_CONTAINERS:
        if label not in st and ("container " + label) not in st:
            try:
                st["container " + label] = sorted(repr(k)[:80] for k in v) if not isinstance(v, list) else [repr(k)[:80] for k in v][:200]
            except Exception:       # noqa
                st["container " + label] = len(v)
    seen = set()
    for c in list(T.registry.values()) + list(T.names.values()):
        if id(c) not in seen:
            seen.add(id(c))
            st["class %s" % cls_label(c)] = _cls_state(c)
    return st


def state_diff(a, b):
    """components of two process_state() snapshots that differ: [[component, before, after]...] (shortened)"""
    out = []
    for k in sorted(set(a) | set(b)):
        if a.get(k) != b.get(k):
            x, y = a.get(k), b.get(k)
            if isinstance(x, list) and isinstance(y, list):
                only_a = [e for e in x if e not in y][:6]
                only_b = [e for e in y if e not in x][:6]
                if not only_a and not only_b:
                    only_a, only_b = ["(same entries, other order)"], [repr(y)[:200]]
                out.append([k, repr(only_a)[:400], repr(only_b)[:400]])
            else:
                out.append([k, repr(x)[:300], repr(y)[:300]])
    return out


class StateGuard:
    """remember the process-level tables; on exit put them back IN PLACE (same dict objects, same order), whatever the code
    under test did to them.  .diff() = what changed since entry (list of [component, before, after])."""

    def __enter__(self):
        T = S.SerializableType
        self.objs = (T.registry, T.names, T.custom_id, S.SerializableEnumType._enums, S.serialize_types, S.deserialize_types)
        self.copies = [dict(o) for o in self.objs]
        self.scalars = (T.next_type_id, S.MAX_BYTES_LENGTH, S.MAX_ARRAY_LENGTH)
        self.cls = [(c, c.__dict__.get("type_id"), c.__dict__.get("_fields")) for c in T.registry.values()]
        self.before = process_state()
        return self

    def diff(self):
        return state_diff(self.before, process_state())

    def restore(self):
        T = S.SerializableType
        T.registry, T.names, T.custom_id, S.SerializableEnumType._enums, S.serialize_types, S.deserialize_types = self.objs
        for o, c in zip(self.objs, self.copies):
            if [(_k(a), id(b)) for a, b in o.items()] != [(_k(a), id(b)) for a, b in c.items()]:
                o.clear()
                o.update(c)
        T.next_type_id, S.MAX_BYTES_LENGTH, S.MAX_ARRAY_LENGTH = self.scalars
        for c, tid, flds in self.cls:
            if tid is not None and c.__dict__.get("type_id") is not tid:
                c.type_id = tid
            if flds is not None and c.__dict__.get("_fields") is not flds:
                c._fields = flds

    def __exit__(self, *a):
        self.restore()
        return False


class IdAssignment:
    """the same classes under ANOTHER type-id assignment — what the tables look like in a process that defined / imported
    the classes in another order, or in another version of the program (the situation store_persistant / load_persistant
    exist for).  mapping: current type id -> type id there (injective on the registered ids; ids not mentioned keep
    theirs).  Inside the block every class carries its id of `there` and SerializableType.registry is the table of
    `there`; on exit the current assignment is back exactly (same dict object, same order)."""

    def __init__(self, mapping):
        self.mapping = dict(mapping)

    def __enter__(self):
        T = S.SerializableType
        self.items = list(T.registry.items())
        new = [(self.mapping.get(t, t), c) for t, c in self.items]
        if len(set(t for t, _ in new)) != len(new):
            raise ValueError("id assignment is not injective")
        self.old_ids = [(c, c.type_id) for _, c in self.items]
        T.registry.clear()
        for t, c in new:
            c.type_id = t
            T.registry[t] = c
        return self

    def __exit__(self, *a):
        T = S.SerializableType
        for c, t in self.old_ids:
            c.type_id = t
        T.registry.clear()
        T.registry.update(self.items)
        return False


def gen_id_assignment(r, used=()):
    """(kind, mapping) — another injective assignment of the ids 128..65535 to the registered classes.
    used: type ids the value at hand contains (so that the interesting classes really move)"""
    T = S.SerializableType
    ids = list(T.registry)
    used = [t for t in used if t in T.registry] or ids
    k = r.choice(["same", "swap-used", "swap-used", "swap-any", "rotate", "permute", "shift", "fresh", "swap-used-unused"])
    m = {}
    if k == "swap-used" and len(used) >= 2:
        a, b = r.sample(used, 2)
        m = {a: b, b: a}
    elif k in ("swap-used-unused", "swap-used", "swap-any"):
        a = r.choice(used if k != "swap-any" else ids)
        b = r.choice([t for t in ids if t != a])
        m = {a: b, b: a}
        k = "swap-any" if k == "swap-any" else "swap-used-unused"
    elif k == "rotate":
        s = r.randrange(1, len(ids))
        m = {t: ids[(i + s) % len(ids)] for i, t in enumerate(ids)}
    elif k == "permute":
        p = ids[:]
        r.shuffle(p)
        m = dict(zip(ids, p))
    elif k == "shift":
        off = r.choice([1, 2, 7, 1000])
        # every id moves up: ids of `there` partly coincide with OTHER classes' current ids
        m = {t: t + off for t in ids if t + off <= 65535}
    elif k == "fresh":
        pool = r.sample(range(128, 65536), len(ids))
        m = dict(zip(ids, pool))
    # make it injective over the whole table (a moved id may land on an unmoved class's id)
    new = [m.get(t, t) for t in ids]
    if len(set(new)) != len(new):
        free = iter(x for x in range(40000, 65536) if x not in set(new) and x not in ids)
        seen = set()
        for t in ids:
            n = m.get(t, t)
            if n in seen:
                n = next(free)
                m[t] = n
            seen.add(n)
    return k, m


def ids_in(v, acc=None):
    """type ids of the class instances inside a value"""
    acc = set() if acc is None else acc
    t = type(v)
    if t in (list, tuple, set):
        for x in v:
            ids_in(x, acc)
    elif t is dict:
        for k, x in v.items():
            ids_in(k, acc)
            ids_in(x, acc)
    elif isinstance(v, Serializable):
        acc.add(v.type_id)
        for f in v._fields:
            ids_in(getattr(v, f), acc)
    elif isinstance(v, SerializableEnum):
        acc.add(v.type_id)
        ids_in(v.value, acc)
    return acc


# ------------------------------------------------------------------ python-level operation count (load independent)

class WorkExceeded(BaseException):
    pass


def count_ops(fn, limit=None):
    """run fn() under sys.setprofile and count the function-call events: every Python function entered and every C
    function called from Python code — including __eq__ / __hash__ methods entered from inside a dict / set insertion.
    The count depends on the code path only, not on the machine's load.  With `limit`, the run is stopped (WorkExceeded
    raised inside the code under test) as soon as the count passes it.
    -> (count, exceeded, exception raised by fn or None)"""
    n = [0]

    if limit is None:
        def prof(frame, event, arg):
            if event == "call" or event == "c_call":
                n[0] += 1
    else:
        def prof(frame, event, arg):
            if event == "call" or event == "c_call":
                n[0] += 1
                if n[0] > limit:
                    sys.setprofile(None)
                    raise WorkExceeded()
    exc = None
    exceeded = False
    old = sys.getrecursionlimit()
    sys.setrecursionlimit(max(old, 30000))
    hook = sys.unraisablehook
    # (a generator interrupted by WorkExceeded reports it once more through the unraisable hook when it is closed)
    sys.unraisablehook = lambda u: None if isinstance(u.exc_value, WorkExceeded) else hook(u)
    sys.setprofile(prof)
    try:
        try:
            fn()
        except WorkExceeded:
            exceeded = True
        except Exception as e:      # noqa
            exc = e
    finally:
        sys.setprofile(None)
        sys.setrecursionlimit(old)
        sys.unraisablehook = hook
    # (the call of sys.setprofile(None) on the way out is itself counted: one event, the same for every run)
    return n[0], exceeded, exc
