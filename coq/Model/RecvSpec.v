(* RecvSpec.v — vocabulary for statements about the receive path of Conn.v (C01, C04):
   the symbolic notion of an authentic datagram, the effect of a refused datagram, the hello a
   keyless endpoint waits for.  Definitions only. *)
From RecordUpdate Require Import RecordUpdate.
From Model Require Import Base SeqNum Wire Conn.
Import RecordSetNotations.
Open Scope Z_scope.

(* the only effect of a refused datagram: stats.dropped += 1 *)
Definition bump (c : conn) : conn := c <| c_dropped := c_dropped c + 1 |>.

(* d is authentic for key k: its body was sealed under k together with the very header d
   carries (nonce = first 12 header bytes, AAD = all 20 — length, count and type included) *)
Definition authentic (k : Z) (d : dgram) : Prop :=
  exists p, d_body d = Sealed k (d_hdr d) p.

Definition authenticb (k : Z) (d : dgram) : bool :=
  match d_body d with
  | Sealed k' sh p => (k =? k') && header_eqb sh (d_hdr d)
  | _ => false
  end.

(* the hello an endpoint without a key is waiting for *)
Definition expected_hello (c : conn) : ptype := if c_server c then CLIENT_HELLO else SERVER_HELLO.

(* the only unencrypted datagram a keyless endpoint looks into *)
Definition single_clear_hello (d : dgram) : Prop :=
  h_count (d_hdr d) = 1 /\ is_hello (h_type (d_hdr d)) = true
  /\ exists p, d_body d = Clear p /\ h_len (d_hdr d) = len p.

(* outputs that are not handshake progress: send callbacks / log lines of the ack machinery and
   the return value *)
Definition no_handshake_output (o : list out) : Prop :=
  forall x, In x o -> match x with OCallback _ _ | OLog _ | ORet _ => True | _ => False end.

(* the part of UdpClient.update after the receive step: build / send / time-outs *)
Definition client_send_part (e : env) (c : conn) (now : Z) : conn * list out :=
  if now - c_last_send c >? c_send_interval c then
    let '(c, pk) := build_packet e c now in
    let o2 := match pk with Some p => emit c p | None => [] end in
    let '(c, o3) := check_timeout false c now in
    (c, o2 ++ o3)
  else (c, []).
