(* TimedNet.v — C12, the two-endpoint composition under one clock: a client endpoint (every
   UdpClient.update is a Conn.client_tick) and the server-side connection of that client (the
   server loop: _recv_datagram for each queued datagram, then the sweep of `connections`, i.e. the
   time-out rule followed by update()), joined by a network that delivers every datagram within a
   bounded delay.  Net.v is the untimed joint model; this file adds the clock, the server's
   time-out rule, and the bookkeeping needed to SAY "a working network": which datagrams each
   side has emitted, when, and which of them have not yet been shown to the peer.
   Definitions only.

   Time is an integer number of ticks (Conn.TICKS per second), as everywhere in Conn.v. *)
From RecordUpdate Require Import RecordUpdate.
From Model Require Import Base SeqNum Wire Conn Client Net.
Import RecordSetNotations.
Open Scope Z_scope.

(* server.py, sweep of `connections`, for one connection: DISCONNECTING -> disconnect(); then
   "status == DISCONNECTED or timedout(connection_timeout)" decides removal; update() is called in
   both branches (the removed connection gets one last update).  Third component: removed. *)
Definition server_sweep (e : env) (T : Z) (c : conn) (now : Z) : conn * list out * bool :=
  let c := if status_eqb (c_status c) DISCONNECTING then disconnect c INone else c in
  let '(c', o) := server_tick e c now in
  (c', o, sweep_drops T c now).

(* tau: longest time between two update() calls of one side; d: longest time a datagram takes to be
   shown to the peer (its first copy); life: longest time any further copy of it is still around
   (d <= life); T: the server's connection_timeout.  The client's 5 s are in the code
   (Conn.client_update). *)
Record tparams := { tp_tau : Z; tp_d : Z; tp_life : Z; tp_T : Z }.

(* what a receive opportunity yields *)
Inductive tsrc :=
  | SNone                                        (* nothing to read *)
  | SPeer (n : Z)                                (* (a copy of) the peer's datagram number n *)
  | SJunk (d : dgram) (orcs : list hs_oracle).   (* bytes the receiver cannot open under its key *)

Inductive tev :=
  | TClient (now : Z) (s : tsrc)                 (* UdpClient.update at time now; the socket yields s *)
  | TSrvRecv (now : Z) (s : tsrc)                (* the server loop hands a queued datagram to the connection *)
  | TSrvSweep (now : Z).                         (* the server loop's sweep reaches the connection *)

Definition tev_time (v : tev) : Z :=
  match v with TClient now _ => now | TSrvRecv now _ => now | TSrvSweep now => now end.

(* one direction of the wire.  wd_n: number of the newest datagram of the sender (datagrams are
   numbered 1, 2, 3 ... over the life of the connection; the 16-bit sequence field carries
   SeqNum.wire of the number); wd_v: when it was emitted (at the start: see tnet0); wd_log: every
   datagram emitted since the start as (number, time, datagram), oldest first; wd_pend: the
   (number, time) of those not yet shown to the peer. *)
Record wdir := { wd_n : Z; wd_v : Z; wd_log : list (Z * Z * dgram); wd_pend : list (Z * Z) }.

Definition wd_emit1 (now : Z) (w : wdir) (dg : dgram) : wdir :=
  {| wd_n := wd_n w + 1; wd_v := now; wd_log := wd_log w ++ [(wd_n w + 1, now, dg)];
     wd_pend := wd_pend w ++ [(wd_n w + 1, now)] |}.
Definition wd_emit (w : wdir) (now : Z) (dgs : list dgram) : wdir := fold_left (wd_emit1 now) dgs w.

Definition wd_lookup (w : wdir) (n : Z) : option (Z * dgram) :=
  match find (fun x => fst (fst x) =? n) (wd_log w) with
  | Some (_, t, dg) => Some (t, dg)
  | None => None
  end.

Definition wd_present (w : wdir) (s : tsrc) : wdir :=
  match s with
  | SPeer n => {| wd_n := wd_n w; wd_v := wd_v w; wd_log := wd_log w;
                  wd_pend := filter (fun p => negb (fst p =? n)) (wd_pend w) |}
  | _ => w
  end.

Definition rx_of (w : wdir) (s : tsrc) : rx :=
  match s with
  | SNone => RxNone
  | SPeer n => match wd_lookup w n with Some (_, dg) => RxDgram dg [] | None => RxNone end
  | SJunk d orcs => RxDgram d orcs
  end.

Record tnet := mkTnet {
  t_cli : conn;               (* the client's ClientServerConnection *)
  t_srv : conn;               (* the server's ServerClientConnection for that client *)
  t_swept : bool;             (* the server's sweep has removed the connection *)
  t_clk : Z;                  (* time of the latest event *)
  t_tickC : Z; t_tickS : Z;   (* time of the latest update() of each side *)
  t_cs : wdir;                (* client -> server *)
  t_sc : wdir                 (* server -> client *)
}.
#[export] Instance eta_tnet : Settable _ :=
  settable! mkTnet <t_cli; t_srv; t_swept; t_clk; t_tickC; t_tickS; t_cs; t_sc>.

Definition tstep (e : env) (P : tparams) (n : tnet) (v : tev) : tnet :=
  match v with
  | TClient now s =>
      let '(c', o) := client_tick e (t_cli n) now (rx_of (t_sc n) s) in
      n <| t_cli := c' |> <| t_clk := now |> <| t_tickC := now |>
        <| t_cs := wd_emit (t_cs n) now (flat_map dg_of o) |>
        (* a DROPPED client returns before it reads its socket *)
        <| t_sc := if status_eqb (c_status c') DROPPED then t_sc n else wd_present (t_sc n) s |>
  | TSrvRecv now s =>
      if t_swept n then n <| t_clk := now |>     (* the address is unknown to the server now *)
      else
        match rx_of (t_cs n) s with
        | RxDgram d orcs =>
            let '(c', o) := recv (t_srv n) now d orcs in
            n <| t_srv := c' |> <| t_clk := now |>
              <| t_sc := wd_emit (t_sc n) now (flat_map dg_of o) |> <| t_cs := wd_present (t_cs n) s |>
        | _ => n <| t_clk := now |>
        end
  | TSrvSweep now =>
      if t_swept n then n <| t_clk := now |> <| t_tickS := now |>
      else
        let '(c', o, gone) := server_sweep e (tp_T P) (t_srv n) now in
        n <| t_srv := c' |> <| t_swept := gone |> <| t_clk := now |> <| t_tickS := now |>
          <| t_sc := wd_emit (t_sc n) now (flat_map dg_of o) |>
  end.

Definition trun (e : env) (P : tparams) (n : tnet) (vs : list tev) : tnet := fold_left (tstep e P) vs n.

(* ---------- "a working network with delay at most d while both sides tick at least every tau" ----------
   Checked event by event, so every prefix of an admissible history is admissible:
   - the clock does not run backwards;
   - no event happens later than tau after the latest update() of either side (so consecutive
     update() calls of one side are at most tau apart, and the history does not run on without them);
   - no event happens later than d after the emission of a datagram that has not been shown to the
     peer yet (so every datagram is shown to the peer at most d after its emission: no loss);
   - what a receive opportunity yields is nothing, or a copy of a datagram the peer emitted at most
     `life` ago (any of them, any number of times: duplication and reordering), or bytes that the
     receiver cannot open under its session key (junk; for the cryptographic reading see Net.wf_ev).
     Bytes whose 20-byte header does not parse (Conn.RxBadHeader: the exception escapes
     UdpClient.update) are not part of a working network. *)
Definition src_ok (key : option Z) (w : wdir) (life now : Z) (s : tsrc) : Prop :=
  match s with
  | SNone => True
  | SPeer i => exists t dg, wd_lookup w i = Some (t, dg) /\ now <= t + life
  | SJunk dg _ => forall ms, open_dgram key dg <> Ok ms
  end.

Definition on_time (w : wdir) (d now : Z) : Prop := Forall (fun p => now <= snd p + d) (wd_pend w).

Definition tok (P : tparams) (n : tnet) (v : tev) : Prop :=
  let now := tev_time v in
  t_clk n <= now /\ now - t_tickC n <= tp_tau P /\ now - t_tickS n <= tp_tau P
  /\ on_time (t_cs n) (tp_d P) now /\ on_time (t_sc n) (tp_d P) now
  /\ match v with
     | TClient _ s => src_ok (c_key (t_cli n)) (t_sc n) (tp_life P) now s
     | TSrvRecv _ s => src_ok (c_key (t_srv n)) (t_cs n) (tp_life P) now s
     | TSrvSweep _ => True
     end.

Fixpoint tvalid (e : env) (P : tparams) (n : tnet) (vs : list tev) : Prop :=
  match vs with
  | [] => True
  | v :: r => tok P n v /\ tvalid e P (tstep e P n v) r
  end.

(* ---------- an established idle pair at time t0 ---------- *)
Definition plain_cb (k : cb) : bool := match k with Plain _ => true | Retry _ _ _ _ _ => false end.
Definition plain_pcbs (l : list (Z * list cb)) : bool := forallb (fun p => forallb plain_cb (snd p)) l.

(* CONNECTED under session key k, nothing queued, nothing waiting for a retry, no pending
   RetrySender callback (a pending plain callback, e.g. the handshake's, is fine), no connect
   attempt in progress *)
Definition idle_ep (k : Z) (c : conn) : Prop :=
  c_status c = CONNECTED /\ c_key c = Some k /\ c_outgoing c = [] /\ c_pretry_msg c = []
  /\ plain_pcbs (c_pcbs c) = true /\ c_hello_sent c = 0 /\ c_last_send c = c_last_ka c.

(* y has received x's newest datagram (nothing of x is in flight) *)
Definition in_sync (x y : conn) : Prop :=
  bf_nbits (c_bf_pkt y) = 32 /\ bf_cur (c_bf_pkt y) = c_seq_send x /\ 0 <= c_seq_send x <= RING
  /\ 0 <= bf_bits (c_bf_pkt y) < 2 ^ 32 /\ (c_seq_send x = 0 -> bf_bits (c_bf_pkt y) = 0).

(* the keep-alive period of an endpoint: _build_packet emits a KEEP_ALIVE when the last packet is
   older than both send_keep_alive_interval and send_interval *)
Definition kmax (c : conn) : Z := Z.max (c_ka_interval c) (c_send_interval c).

(* y's liveness clock is not older than x's last packet, nor older than one keep-alive period *)
Definition heard (x y : conn) (t0 : Z) : Prop :=
  c_last_ka x <= c_last_recv y /\ t0 - kmax x <= c_last_recv y /\ c_last_recv y <= t0 /\ c_last_ka x <= t0.

Definition established (k t0 : Z) (cli srv : conn) : Prop :=
  idle_ep k cli /\ idle_ep k srv /\ in_sync cli srv /\ in_sync srv cli /\ heard cli srv t0 /\ heard srv cli t0.

(* the moment from which an endpoint's first keep-alive is counted: its last packet, or one
   keep-alive period before the start if that packet is older *)
Definition base_time (c : conn) (t0 : Z) : Z := Z.max (c_last_ka c) (t0 - kmax c).

Definition wd0 (n v : Z) : wdir := {| wd_n := n; wd_v := v; wd_log := []; wd_pend := [] |}.

Definition tnet0 (cli srv : conn) (t0 : Z) : tnet :=
  {| t_cli := cli; t_srv := srv; t_swept := false; t_clk := t0; t_tickC := t0; t_tickS := t0;
     t_cs := wd0 (c_seq_send cli) (base_time cli t0); t_sc := wd0 (c_seq_send srv) (base_time srv t0) |}.

(* the exact inequalities the two time-out rules need, and "fewer than half the sequence ring alive"
   (consecutive keep-alives are more than kmax apart, so at most life / (kmax + 1) + 1 of them are
   emitted within `life`) *)
Definition params_ok (P : tparams) (cli srv : conn) : Prop :=
  0 <= tp_d P /\ tp_d P <= tp_life P /\ 0 <= tp_tau P /\ 0 <= kmax cli /\ 0 <= kmax srv
  /\ kmax cli + tp_tau P + tp_d P < tp_T P          (* server: removed when now - last_recv >= T *)
  /\ kmax srv + tp_tau P + tp_d P <= 5 * TICKS      (* client: DROPPED when now > last_recv + 5 s *)
  /\ tp_life P <= (HALF - 1) * (kmax cli + 1) /\ tp_life P <= (HALF - 1) * (kmax srv + 1).

(* ---------- what is claimed ---------- *)
Definition pair_up (k : Z) (n : tnet) : Prop :=
  c_status (t_cli n) = CONNECTED /\ c_status (t_srv n) = CONNECTED /\ t_swept n = false
  /\ c_key (t_cli n) = Some k /\ c_key (t_srv n) = Some k.

(* consecutive times at most G apart, the first at most G after prev *)
Fixpoint gaps_le (G prev : Z) (ts : list Z) : Prop :=
  match ts with
  | [] => True
  | t :: r => t - prev <= G /\ gaps_le G t r
  end.

Definition em_times (w : wdir) : list Z := map (fun x => snd (fst x)) (wd_log w).

(* one direction emits at least every G: first emission at most G after v0, consecutive emissions
   at most G apart, and at most G has passed since the newest one *)
Definition cadence_ok (G v0 clk : Z) (w : wdir) : Prop :=
  gaps_le G v0 (em_times w) /\ clk - last (em_times w) v0 <= G.

(* every datagram of the log is a KEEP_ALIVE without messages sealed under k *)
Definition ka_dgram (k : Z) (dg : dgram) : Prop :=
  d_body dg = Sealed k (d_hdr dg) [] /\ h_type (d_hdr dg) = KEEP_ALIVE /\ h_count (d_hdr dg) = 0
  /\ h_len (d_hdr dg) = 0.

(* ---------- executable versions of the hypotheses (Proofs/IdleP.v: each implies its Prop) ----------
   used by the non-vacuity examples and by the correspondence unit, which reports for every
   schedule the harness runs on the real endpoints whether it is inside the theorems' hypotheses *)
Definition src_okb (key : option Z) (w : wdir) (life now : Z) (s : tsrc) : bool :=
  match s with
  | SNone => true
  | SPeer i => match wd_lookup w i with Some (t, _) => now <=? t + life | None => false end
  | SJunk dg _ => match open_dgram key dg with Ok _ => false | Err _ => true end
  end.

Definition on_timeb (w : wdir) (d now : Z) : bool := forallb (fun p => now <=? snd p + d) (wd_pend w).

Definition tokb (P : tparams) (n : tnet) (v : tev) : bool :=
  let now := tev_time v in
  (t_clk n <=? now) && (now - t_tickC n <=? tp_tau P) && (now - t_tickS n <=? tp_tau P)
  && on_timeb (t_cs n) (tp_d P) now && on_timeb (t_sc n) (tp_d P) now
  && match v with
     | TClient _ s => src_okb (c_key (t_cli n)) (t_sc n) (tp_life P) now s
     | TSrvRecv _ s => src_okb (c_key (t_srv n)) (t_cs n) (tp_life P) now s
     | TSrvSweep _ => true
     end.

Fixpoint tvalidb (e : env) (P : tparams) (n : tnet) (vs : list tev) : bool :=
  match vs with
  | [] => true
  | v :: r => tokb P n v && tvalidb e P (tstep e P n v) r
  end.

Definition is_nil {A} (l : list A) : bool := match l with [] => true | _ => false end.

Definition idle_epb (k : Z) (c : conn) : bool :=
  status_eqb (c_status c) CONNECTED && match c_key c with Some k' => k' =? k | None => false end
  && is_nil (c_outgoing c) && is_nil (c_pretry_msg c) && plain_pcbs (c_pcbs c)
  && (c_hello_sent c =? 0) && (c_last_send c =? c_last_ka c).

Definition in_syncb (x y : conn) : bool :=
  (bf_nbits (c_bf_pkt y) =? 32) && (bf_cur (c_bf_pkt y) =? c_seq_send x)
  && (0 <=? c_seq_send x) && (c_seq_send x <=? RING)
  && (0 <=? bf_bits (c_bf_pkt y)) && (bf_bits (c_bf_pkt y) <? 2 ^ 32)
  && (negb (c_seq_send x =? 0) || (bf_bits (c_bf_pkt y) =? 0)).

Definition heardb (x y : conn) (t0 : Z) : bool :=
  (c_last_ka x <=? c_last_recv y) && (t0 - kmax x <=? c_last_recv y) && (c_last_recv y <=? t0) && (c_last_ka x <=? t0).

Definition establishedb (k t0 : Z) (cli srv : conn) : bool :=
  idle_epb k cli && idle_epb k srv && in_syncb cli srv && in_syncb srv cli && heardb cli srv t0 && heardb srv cli t0.

Definition params_okb (P : tparams) (cli srv : conn) : bool :=
  (0 <=? tp_d P) && (tp_d P <=? tp_life P) && (0 <=? tp_tau P) && (0 <=? kmax cli) && (0 <=? kmax srv)
  && (kmax cli + tp_tau P + tp_d P <? tp_T P) && (kmax srv + tp_tau P + tp_d P <=? 5 * TICKS)
  && (tp_life P <=? (HALF - 1) * (kmax cli + 1)) && (tp_life P <=? (HALF - 1) * (kmax srv + 1)).
