(* Frag.v — vocabulary for the fragmentation theorems (C06): the payload of a fragment message,
   the fragment messages `send` queues for a payload, and an abstract receiver for ONE fragment
   id against which ConnectionBase._recvAppFragment (Conn.recv_fragment) is compared.
   Definitions only.  (Addition to the frozen Conn.v.) *)
From Model Require Import Base SeqNum Wire Conn.
Open Scope Z_scope.

(* struct.pack(">HHH", frag_id, index, count) + fragment *)
Definition frag_payload (fid idx n : Z) (f : list byte) : list byte := be 2 fid ++ be 2 idx ++ be 2 n ++ f.

(* payloads of the messages queued by send_frags c fid n r i frags *)
Fixpoint frag_payloads (fid n i : Z) (frags : list (list byte)) : list (list byte) :=
  match frags with
  | [] => []
  | f :: r => frag_payload fid (1 + i) n f :: frag_payloads fid n (i + 1) r
  end.

(* FragmentSender.build as a function of the payload *)
Definition fragments (e : env) (p : list byte) : list (list byte) := split_frags (S (length p)) e p.

(* what arrives at the receiver: the i-th (0-based) fragment message of the payload under
   observation, or any other fragment-typed message; each with the message sequence number it
   travelled under and the time of arrival *)
Inductive fev := FMine (i : nat) (mseq now : Z) | FOther (frag : list byte) (mseq now : Z).

Definition fev_now (x : fev) : Z := match x with FMine _ _ t => t | FOther _ _ t => t end.

Definition fev_apply (fid : Z) (frags : list (list byte)) (c : conn) (x : fev) : conn * list out :=
  match x with
  | FMine i mseq now => recv_fragment c now mseq (frag_payload fid (Z.of_nat i + 1) (len frags) (nth i frags []))
  | FOther frag mseq now => recv_fragment c now mseq frag
  end.

(* entries appended to incoming_messages by a step *)
Definition delivered_by (c c' : conn) : list (Z * list byte) := skipn (length (c_incoming c)) (c_incoming c').

(* run a history; per step: what was delivered to the application *)
Fixpoint feed (fid : Z) (frags : list (list byte)) (c : conn) (xs : list fev) : conn * list (list (Z * list byte)) :=
  match xs with
  | [] => (c, [])
  | x :: r => let c1 := fst (fev_apply fid frags c x) in
              let '(c2, ds) := feed fid frags c1 r in (c2, delivered_by c c1 :: ds)
  end.

(* abstract receiver for one fragment id: which indices of the current round have arrived,
   when the round began (first arrival), the sequence number of the index-1 message *)
Record rstate := { r_have : list bool; r_t0 : Z; r_seq : Z }.

Definition any_true (l : list bool) : bool := existsb (fun b => b) l.
Definition all_true (l : list bool) : bool := forallb (fun b => b) l.

Definition rstate0 (n : nat) : rstate := {| r_have := repeat false n; r_t0 := 0; r_seq := 0 |}.

(* one arrival; Some (seq, ()) = the payload is delivered under that sequence number *)
Definition spec_step (st : rstate) (x : fev) : rstate * option Z :=
  match x with
  | FOther _ _ _ => (st, None)
  | FMine i mseq now =>
      let started := any_true (r_have st) in
      let t0 := if started then r_t0 st else now in
      let sq := if (i =? 0)%nat then mseq else if started then r_seq st else 0 in
      let have := set_nth i true (r_have st) in
      if all_true have then (rstate0 (length have), Some sq)
      else ({| r_have := have; r_t0 := t0; r_seq := sq |}, None)
  end.

Fixpoint spec_run (st : rstate) (xs : list fev) : rstate * list (option Z) :=
  match xs with
  | [] => (st, [])
  | x :: r => let '(st1, d) := spec_step st x in
              let '(st2, ds) := spec_run st1 r in (st2, d :: ds)
  end.

(* FragmentReceiver.expired, as a bound on arrival times: an arrival at `now` does not let
   the sweep remove a context created at t0 for n fragments *)
Definition in_time (n : nat) (t0 now : Z) : Prop := now - t0 <= TICKS + (TICKS / 2) * Z.of_nat n.

(* the hypothesis of reassemble_any_order: while a round is open no arrival (of this or any other
   fragment id) comes later than the expiry bound after the round's first fragment *)
Fixpoint timely (st : rstate) (xs : list fev) : Prop :=
  match xs with
  | [] => True
  | x :: r => (any_true (r_have st) = true -> in_time (length (r_have st)) (r_t0 st) (fev_now x))
              /\ timely (fst (spec_step st x)) r
  end.

(* other arrivals: too short to parse (struct.error, nothing changes) or carrying another id *)
Definition other_ok (fid : Z) (x : fev) : Prop :=
  match x with
  | FMine _ _ _ => True
  | FOther frag _ _ => (length frag < 6)%nat \/ unbe (sub frag 0 2) <> fid
  end.
