(* PackEnv.v — the size environment of the connection model derived from the kernels that are
   REGENERATED from connection.py (Packet.setMTU, the Packet/PacketHeader constants), and the
   length of what is handed to the socket.  Definitions only.  (Addition to the frozen Conn.v /
   Wire.v models: Conn.v takes the environment as a parameter; this file says which
   environments Packet.setMTU produces.) *)
From Model Require Import Base SeqNum Wire Conn.
From Gen Require Import Kernels.
Open Scope Z_scope.

(* Packet.setMTU(mtu) followed by reading MAX_PAYLOAD_SIZE / MAX_FRAGMENT_SIZE / MAX_FRAGMENTS *)
Definition env_of_mtu (mtu : Z) : res env :=
  match gen_setMTU mtu with
  | Ok (_, _, _, max_payload, max_frag, _) =>
      Ok {| e_max_payload := max_payload; e_max_frag := max_frag; e_max_frags := gen_Packet_MAX_FRAGMENTS |}
  | Err e => Err e
  end.

(* Packet.MAX_SIZE after setMTU: the largest datagram the socket may be given *)
Definition max_dgram (mtu : Z) : Z := mtu - gen_Packet_UDP_HEADER_SIZE.

(* Packet.total_size: header + payload + tag (sealed) or crc (clear) *)
Definition dgram_len (sealed : bool) (payload : list byte) : Z :=
  gen_PacketHeader_SIZE + len payload
  + (if sealed then gen_PacketHeader_TAG_SIZE else gen_PacketHeader_CRC_SIZE).

(* the datagrams among the outputs of a step *)
Fixpoint emitted (os : list out) : list (header * option Z * list byte) :=
  match os with
  | [] => []
  | OEmit h k p :: r => (h, k, p) :: emitted r
  | _ :: r => emitted r
  end.

(* a toy AEAD (tag = 16 bytes computed from key, iv and aad; no secrecy) — instance showing the
   seal/open hypotheses of the round-trip theorems are consistent, and the scheme the sealed
   framing units run with (the harness swaps it for the real AES-GCM on the Python side) *)
Definition toy_tag (k : Z) (iv aad : list byte) : list byte :=
  be 4 k ++ be 4 (crc32 iv) ++ be 4 (crc32 aad) ++ be 2 (len iv) ++ be 2 (len aad).
Definition toy_seal (k : Z) (iv aad p : list byte) : list byte := p ++ toy_tag k iv aad.
Definition toy_open (k : Z) (iv aad c : list byte) : option (list byte) :=
  let n := (length c - 16)%nat in
  if (16 <=? length c)%nat && bytes_eqb (skipn n c) (toy_tag k iv aad) then Some (firstn n c) else None.
