(* StructPack.v — what CPython's struct.pack / struct.unpack do for the fixed-size integer format
   characters the library uses (standard size, big-endian or single bytes), and Python's dict-literal /
   subscript-assignment semantics for the small dispatch tables.  This is the target vocabulary of the
   byte-kernel translator tools/py2v_bytes.py (Gen/SerKernels.v, Gen/WsKernels.v).  Definitions only. *)
From Model Require Import Base.
Open Scope Z_scope.

Inductive fch := FB | Fb | FH | Fh | FL | Fl | FQ | Fq | Fbool | Ff | Fd.

Definition fsize (c : fch) : nat :=
  match c with
  | FB | Fb | Fbool => 1 | FH | Fh => 2 | FL | Fl | Ff => 4 | FQ | Fq | Fd => 8
  end%nat.
Definition fsizeZ (c : fch) : Z := Z.of_nat (fsize c).

(* the integer range struct.pack accepts for a format character (struct.error outside);
   '?' takes the truth value of its argument; 'f'/'d' are not integer formats *)
Definition frange (c : fch) (z : Z) : bool :=
  match c with
  | FB => (0 <=? z) && (z <? 2 ^ 8)    | Fb => (- 2 ^ 7 <=? z) && (z <? 2 ^ 7)
  | FH => (0 <=? z) && (z <? 2 ^ 16)   | Fh => (- 2 ^ 15 <=? z) && (z <? 2 ^ 15)
  | FL => (0 <=? z) && (z <? 2 ^ 32)   | Fl => (- 2 ^ 31 <=? z) && (z <? 2 ^ 31)
  | FQ => (0 <=? z) && (z <? 2 ^ 64)   | Fq => (- 2 ^ 63 <=? z) && (z <? 2 ^ 63)
  | Fbool => true
  | Ff | Fd => false
  end.

(* n bytes, big endian, two's complement for negative numbers *)
Fixpoint sp_be (n : nat) (z : Z) : list byte :=
  match n with O => [] | S k => sp_be k (z / 256) ++ [byte_of_Z z] end.

Definition pack1 (c : fch) (z : Z) : res (list byte) :=
  match c with
  | Fbool => Ok [if z =? 0 then x00 else x01]
  | _ => if frange c z then Ok (sp_be (fsize c) z) else Err EStruct
  end.

(* struct.pack(fmt, *args): wrong number of arguments is struct.error too *)
Fixpoint spack (fmt : list fch) (args : list Z) : res (list byte) :=
  match fmt, args with
  | [], [] => Ok []
  | c :: fmt', z :: args' => do a <- pack1 c z; do b <- spack fmt' args'; Ok (a ++ b)
  | _, _ => Err EStruct
  end.

(* serialize_value's try/except: struct.error raised by a type writer becomes ValueError *)
Definition wrap_struct {A} (r : res A) : res A := match r with Err EStruct => Err EValue | r => r end.

(* struct.pack('<n>s', b): exactly n bytes — b cut, or padded with zero bytes; never an error for bytes *)
Definition pack_s (n : nat) (b : list byte) : res (list byte) := Ok (firstn n (b ++ repeat x00 n)).

(* struct.unpack of ONE integer format character from exactly fsize bytes *)
Definition sp_dec (l : list byte) : Z := fold_left (fun a b => a * 256 + Z_of_byte b) l 0.
Definition sp_signed (c : fch) : bool :=
  match c with Fb | Fh | Fl | Fq => true | _ => false end.
Definition unpack1 (c : fch) (l : list byte) : res Z :=
  if negb (len l =? fsizeZ c) then Err EStruct
  else let u := sp_dec l in
       match c with
       | Fbool => Ok (if u =? 0 then 0 else 1)
       | Ff | Fd => Err EOther
       | _ => if sp_signed c && (2 ^ (8 * fsizeZ c - 1) <=? u) then Ok (u - 2 ^ (8 * fsizeZ c)) else Ok u
       end.

(* a dict built from a literal and later subscript assignments: a later item with an equal key
   replaces the value and keeps the position *)
Fixpoint dict_set {A} (d : list (Z * A)) (k : Z) (v : A) : list (Z * A) :=
  match d with
  | [] => [(k, v)]
  | (k', v') :: r => if k' =? k then (k, v) :: r else (k', v') :: dict_set r k v
  end.
Definition dict_of_items {A} (items : list (Z * A)) : list (Z * A) :=
  fold_left (fun d kv => dict_set d (fst kv) (snd kv)) items [].
Fixpoint dict_get {A} (d : list (Z * A)) (k : Z) : option A :=
  match d with
  | [] => None
  | (k', v) :: r => if k' =? k then Some v else dict_get r k
  end.

(* what the scalar entries of serializable.deserialize_types are: a format character and the number of
   bytes handed to stream.read; RNull = the lambda that reads nothing and returns None *)
Inductive reader := RUnpack (c : fch) (nbytes : Z) | RNull | RFunc (name_code : Z).
