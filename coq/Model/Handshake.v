(* Handshake.v — symbolic (Dolev-Yao style) model of the three-message handshake on top of
   Conn.v.  Definitions only.

   connection.py: HandshakeClientHelloMessage / HandshakeServerHelloMessage /
   HandshakeClientChallengeResponseMessage, ClientServerConnection._sendClientHello /
   _recvServerHello, ServerClientConnection._recvClientHello / _recvChallengeResponse;
   context.py: ServerContext.get_token / _token_in_use / _validateChallengeResponse / _onConnect;
   crypto.py: ecdh_server / ecdh_client, EllipticCurvePrivateKey.sign / PublicKey.verify.

   Conn.v takes the outcome of parsing + cryptography of a handshake message as an oracle record
   (hs_oracle).  Here that answer is COMPUTED from a symbolic message and the receiver's state
   over abstract sign/verify, pub/dh, kdf; the composed step is
   Conn.recv_handshake c ty (oracle_of s ty msg), and a whole datagram is processed by
   Conn.recv c now d (dgram_oracles s now d)  (= hrecv, see Proofs/HandshakeP.v). *)
From RecordUpdate Require Import RecordUpdate.
From Model Require Import Base SeqNum Wire Conn.
Import RecordSetNotations.
Open Scope Z_scope.

(* signed part of the server hello: (server ephemeral public key, salt, token) *)
Record sh_payload := { sp_pub : Z; sp_salt : Z; sp_token : Z }.

(* ---------- ServerContext: the part the handshake uses ---------- *)
(* pools are insertion-ordered dicts addr -> token of the connection object stored there *)
Record sctx := { x_temp : list (Z * Z); x_conns : list (Z * Z) }.

Definition token_in_use (x : sctx) (t : Z) : bool :=
  existsb (fun p => snd p =? t) (x_conns x) || existsb (fun p => snd p =? t) (x_temp x).

Definition mask_token (r : Z) : Z := Z.lor (Z.land r 2147483647) 1073741824.

(* get_token: `rs` are the successive 32-bit values os.urandom delivers; the loop draws again while
   the masked value is 0 or held by a connection.  None = the supplied stream ran out (explicit). *)
Fixpoint get_token (x : sctx) (rs : list Z) : option (Z * list Z) :=
  match rs with
  | [] => None
  | r :: rest => let t := mask_token r in
                 if (t =? 0) || token_in_use x t then get_token x rest else Some (t, rest)
  end.

(* _validateChallengeResponse(client, token): other = temp_connections.get(client.addr) *)
Definition validate_challenge (x : sctx) (addr token : Z) : bool :=
  match dget addr (x_temp x) with Some t => t =? token | None => false end.

(* _onConnect(client): move from the temp pool to the pool; true = handler.connect is called *)
Definition on_connect (x : sctx) (addr token : Z) : sctx * bool :=
  match dget addr (x_temp x) with
  | Some _ => ({| x_temp := ddel addr (x_temp x); x_conns := dset addr token (x_conns x) |}, true)
  | None => (x, false)
  end.

(* what ctxt.temp_connections holds for the address of the connection under study *)
Inductive tpool := TNone | TSelf | TOther (tok : Z).

Section Handshake.
  (* ---- abstract cryptography (cryptography/OpenSSL: ECDSA P-256, ECDH, HKDF-SHA256) ---- *)
  Variable SIG : Type.
  Variable pub : Z -> Z.                          (* private key -> public key *)
  Variable sign : Z -> sh_payload -> SIG.         (* EllipticCurvePrivateKey.sign *)
  Variable verify : Z -> SIG -> sh_payload -> bool.  (* PublicKey.verify: true = no InvalidSignature *)
  Variable dh : Z -> Z -> Z.                      (* private, peer public -> shared secret *)
  Variable kdf : Z -> Z -> Z.                     (* secret, salt -> id of the 16-byte AES key *)

  (* ---- symbolic handshake messages = what Serializable.loadb makes of the payload bytes ---- *)
  Inductive hmsg :=
    | MClientHello (cpub version : Z) (pad_ok : bool)
    | MServerHello (rootpub : Z) (p : sh_payload) (sg : SIG)
    | MChallenge (token : Z)
    | MGarbage (code : Z).       (* loadb raises err code / yields an object of another class (14) *)

  Variable parse : list byte -> hmsg.             (* Serializable.loadb, minus the signature check *)
  Variable ser_shello : Z -> sh_payload -> SIG -> list byte.   (* HandshakeServerHelloMessage.dumpb *)
  Variable ser_chal : Z -> list byte.             (* HandshakeClientChallengeResponseMessage.dumpb *)

  (* endpoint state around the Conn.v record *)
  Record hstate := mkH {
    h_conn : conn;
    h_priv : Z;                 (* session_key: this endpoint's ephemeral private key *)
    h_pinned : option Z;        (* client: server_public_key (None = trust the key in the hello) *)
    h_root : Z;                 (* server: ctxt.server_root_key (private) *)
    h_version : Z;
    h_temp : tpool;             (* server: ctxt.temp_connections.get(addr) *)
    h_rand : list (Z * Z);      (* server: the (salt, token) pairs os.urandom / get_token deliver next *)
    h_adopted : option (Z * sh_payload * SIG)   (* ghost, client: the hello the key was taken from *)
  }.

  #[export] Instance eta_hstate : Settable _ :=
    settable! mkH <h_conn; h_priv; h_pinned; h_root; h_version; h_temp; h_rand; h_adopted>.

  Definition temp_token (s : hstate) : option Z :=
    match h_temp s with TNone => None | TSelf => Some (c_token (h_conn s)) | TOther t => Some t end.

  Definition fail_oracle (code : Z) : hs_oracle :=
    {| o_parse := if code =? 0 then 9 else code; o_version_ok := false; o_token := 0; o_key := 0;
       o_reply := []; o_temp_token := None |}.

  (* the key the client checks the hello with: the pinned one, else the one the hello carries *)
  Definition check_key (s : hstate) (rootpub : Z) : Z :=
    match h_pinned s with Some pk => pk | None => rootpub end.

  Definition oracle_of (s : hstate) (ty : ptype) (m : hmsg) : hs_oracle :=
    match m with
    | MGarbage code => fail_oracle code
    | _ =>
      match ty, c_server (h_conn s) with
      | SERVER_HELLO, false =>
          match m with
          | MServerHello rp p sg =>
              if verify (check_key s rp) sg p then
                {| o_parse := 0; o_version_ok := true; o_token := sp_token p;
                   o_key := kdf (dh (h_priv s) (sp_pub p)) (sp_salt p);
                   o_reply := ser_chal (sp_token p); o_temp_token := None |}
              else fail_oracle 6                       (* InvalidSignature *)
          | _ => fail_oracle 14                        (* msg.token / msg.salt: AttributeError *)
          end
      | CLIENT_HELLO, true =>
          match m with
          | MClientHello cpub ver pad_ok =>
              if negb pad_ok then fail_oracle 1        (* "unable to read packet padding" *)
              else
                let '(salt, tok) := hd (0, 0) (h_rand s) in
                let p := {| sp_pub := pub (h_priv s); sp_salt := salt; sp_token := tok |} in
                {| o_parse := 0; o_version_ok := ver =? h_version s; o_token := tok;
                   o_key := kdf (dh (h_priv s) cpub) salt;
                   o_reply := ser_shello (pub (h_root s)) p (sign (h_root s) p); o_temp_token := None |}
          | MServerHello _ _ _ => fail_oracle 10       (* kwargs['server_public_key']: KeyError *)
          | _ => fail_oracle 14
          end
      | CHALLENGE_RESP, true =>
          match m with
          | MChallenge tok =>
              {| o_parse := 0; o_version_ok := true; o_token := tok; o_key := 0; o_reply := [];
                 o_temp_token := temp_token s |}
          | MServerHello _ _ _ => fail_oracle 10
          | _ => fail_oracle 14
          end
      | _, _ => no_oracle                              (* base-class no-op: the answer is not used *)
      end
    end.

  (* the full symbolic step for one handshake message *)
  Definition hs_step (s : hstate) (ty : ptype) (m : hmsg) : conn * list out :=
    recv_handshake (h_conn s) ty (oracle_of s ty m).

  Definition has_connect (o : list out) : bool :=
    existsb (fun x => match x with OHandlerConnect => true | _ => false end) o.

  (* bookkeeping outside the Conn record after one processed handshake message *)
  Definition note (s : hstate) (ty : ptype) (m : hmsg) (o : hs_oracle) (c1 : conn) (o1 : list out) : hstate :=
    let s := s <| h_conn := c1 |> in
    let s := if has_connect o1 then s <| h_temp := TNone |> else s in       (* _onConnect *)
    let s := if c_server c1 && ptype_eqb ty CLIENT_HELLO && (o_parse o =? 0) && o_version_ok o
             then s <| h_rand := tl (h_rand s) |> else s in
    if negb (c_server c1) && ptype_eqb ty SERVER_HELLO && (o_parse o =? 0)
    then match m with MServerHello rp p sg => s <| h_adopted := Some (rp, p, sg) |> | _ => s end
    else s.

  (* _recv_message over the messages of one datagram: Conn.recv_msgs with the oracle answers
     computed on the way (the server's depend on the token as it evolves) *)
  Fixpoint hwalk (s : hstate) (now : Z) (ms : list wmsg) : hstate * list out * list hs_oracle :=
    match ms with
    | [] => (s, [], [])
    | m :: r =>
        let c := h_conn s in
        let hm := parse (w_payload m) in
        let o := oracle_of s (w_type m) hm in
        match bf_insert (c_bf_msg c) (w_seq m) with
        | Err _ => let '(s', out, orcs) := hwalk s now r in
                   (s', out, if is_hs (w_type m) then o :: orcs else orcs)
        | Ok bf =>
            let c := c <| c_bf_msg := bf |> in
            let '(c1, o1) :=
              match w_type m with
              | APP => (recv_app c (w_seq m) (w_payload m), [])
              | APP_FRAGMENT => recv_fragment c now (w_seq m) (w_payload m)
              | DISCONNECT => (c <| c_status := DISCONNECTING |>, [])
              | KEEP_ALIVE | UNKNOWN => (c, [])
              | t => recv_handshake c t o
              end in
            let s1 := if is_hs (w_type m) then note s (w_type m) hm o c1 o1 else s <| h_conn := c1 |> in
            if raised o1 then (s1, o1, if is_hs (w_type m) then [o] else [])
            else let '(s2, o2, orcs) := hwalk s1 now r in
                 (s2, o1 ++ o2, if is_hs (w_type m) then o :: orcs else orcs)
        end
    end.

  (* ConnectionBase._recv_datagram with symbolic handshake payloads *)
  Definition hrecv (s : hstate) (now : Z) (d : dgram) : hstate * list out :=
    let c := h_conn s in
    let drop := (s <| h_conn := c <| c_dropped := c_dropped c + 1 |> |>, [ORet false]) in
    if keyless_refuses c (d_hdr d) then drop else
    match open_dgram (c_key c) d with
    | Err _ => drop
    | Ok ms =>
        match bf_insert (c_bf_pkt c) (h_seq (d_hdr d)) with
        | Err _ => drop
        | Ok bf =>
            let c := c <| c_bf_pkt := bf |> <| c_received := c_received c + 1 |> <| c_last_recv := now |> in
            let '(c1, o1) := handle_ack_bits c (d_hdr d) in
            let '(s2, o2, _) := hwalk (s <| h_conn := c1 |>) now ms in
            (s2, o1 ++ o2 ++ (if raised o2 then [] else [ORet true]))
        end
    end.

  (* the oracle list that makes Conn.recv perform exactly hrecv *)
  Definition dgram_oracles (s : hstate) (now : Z) (d : dgram) : list hs_oracle :=
    let c := h_conn s in
    if keyless_refuses c (d_hdr d) then [] else
    match open_dgram (c_key c) d with
    | Err _ => []
    | Ok ms =>
        match bf_insert (c_bf_pkt c) (h_seq (d_hdr d)) with
        | Err _ => []
        | Ok bf =>
            let c := c <| c_bf_pkt := bf |> <| c_received := c_received c + 1 |> <| c_last_recv := now |> in
            let '(c1, _) := handle_ack_bits c (d_hdr d) in
            snd (hwalk (s <| h_conn := c1 |>) now ms)
        end
    end.

  (* ---------- events of one endpoint ---------- *)
  Inductive hrx := HxNone | HxBad (e : err) | HxDgram (d : dgram).

  Inductive hev :=
    | HRecv (now : Z) (d : dgram)         (* the network hands over d: honest, replayed or injected *)
    | HTick (now : Z) (r : hrx)           (* UdpClient.update *)
    | HConnect (now : Z) (hello : list byte)   (* UdpClient.connect: _sendClientHello *)
    | HOther (x : ev).                    (* send / server tick / disconnect / cfg / getMessages / callback *)

  Definition oracle_free (x : ev) : bool :=
    match x with ERecv _ _ _ | EClientTick _ _ | EClientHello _ _ => false | _ => true end.

  (* UdpClient.update, with hrecv in the place of recv *)
  Definition hclient_tick (e : env) (s : hstate) (now : Z) (r : hrx) : hstate * list out :=
    let '(c, o0) := client_update (h_conn s) now in
    let s := s <| h_conn := c |> in
    if status_eqb (c_status c) DROPPED then (s, o0)
    else
      let '(s, o1) :=
        match r with
        | HxNone => (s, [])
        | HxBad er => (s, [ORaise er])
        | HxDgram d => let '(s', o') := hrecv s now d in
                       (s', filter (fun x => match x with ORet _ => false | _ => true end) o')
        end in
      let c := h_conn s in
      if raised o1 then (s, o0 ++ o1)
      else if now - c_last_send c >? c_send_interval c then
        let '(c, pk) := build_packet e c now in
        let o2 := match pk with Some p => emit c p | None => [] end in
        let '(c, o3) := check_timeout false c now in
        (s <| h_conn := c |>, o0 ++ o1 ++ o2 ++ o3)
      else (s, o0 ++ o1).

  Definition hstep (e : env) (s : hstate) (x : hev) : hstate * list out :=
    match x with
    | HRecv now d => hrecv s now d
    | HTick now r => hclient_tick e s now r
    | HConnect now hello => (s <| h_conn := client_hello (h_conn s) now hello |>, [])
    | HOther x => if oracle_free x then let '(c, o) := step e (h_conn s) x in (s <| h_conn := c |>, o)
                  else (s, [])
    end.

  (* the Conn.v event an hev stands for in state s *)
  Definition ev_of (s : hstate) (x : hev) : ev :=
    match x with
    | HRecv now d => ERecv now d (dgram_oracles s now d)
    | HTick now r =>
        EClientTick now
          match r with
          | HxNone => RxNone | HxBad er => RxBadHeader er
          | HxDgram d => RxDgram d (dgram_oracles (s <| h_conn := fst (client_update (h_conn s) now) |>) now d)
          end
    | HConnect now hello => EClientHello now hello
    | HOther x => if oracle_free x then x else ESetCfg 0 (c_ka_interval (h_conn s))
    end.

  Fixpoint hrun (e : env) (s : hstate) (xs : list hev) : hstate * list (list out) :=
    match xs with
    | [] => (s, [])
    | x :: r => let '(s1, o) := hstep e s x in
                let '(s2, os) := hrun e s1 r in (s2, o :: os)
    end.

  (* fresh endpoints: UdpClient.connect creates the ClientServerConnection; the server loop creates
     the ServerClientConnection and stores it in temp_connections before the first datagram *)
  Definition client0 (priv : Z) (pinned : option Z) : hstate :=
    {| h_conn := conn0 false; h_priv := priv; h_pinned := pinned; h_root := 0; h_version := 1;
       h_temp := TNone; h_rand := []; h_adopted := None |}.
  Definition server0 (priv root : Z) (rand : list (Z * Z)) : hstate :=
    {| h_conn := conn0 true; h_priv := priv; h_pinned := None; h_root := root; h_version := 1;
       h_temp := TSelf; h_rand := rand; h_adopted := None |}.

  (* ---------- authenticity of datagrams and the attacker ---------- *)
  (* d opens under key k: its body was sealed under k with exactly the header it travels with *)
  Definition authentic (k : Z) (d : dgram) : Prop :=
    exists p, d_body d = Sealed k (d_hdr d) p /\ len p <= h_len (d_hdr d) <= len p + 16.

  (* Dolev-Yao attacker for the server hello: it knows everything that was sent (`seen`) and its
     own private keys `akeys`; it can replay, re-sign with its own keys, alter any field; what it
     cannot do is exhibit a signature of a payload under a key that is not its own unless that very
     signed payload was seen *)
  Definition attacker_hello (akeys : list Z) (seen : list hmsg) (m : hmsg) : Prop :=
    match m with
    | MServerHello rp p sg =>
        forall sk, sg = sign sk p -> In sk akeys \/ exists rp', In (MServerHello rp' p sg) seen
    | _ => True
    end.

  (* ... and for datagrams: a body sealed under a key it does not hold was sealed by an honest
     endpoint (it occurs in `sent`, possibly under another header) *)
  Definition attacker_dgram (akeys : list Z) (sent : list dgram) (d : dgram) : Prop :=
    forall k sh p, d_body d = Sealed k sh p -> In k akeys \/ exists d', In d' sent /\ d_body d' = d_body d.

  (* ---------- AEAD view: how Conn.v's symbolic bodies arise from seal/open ---------- *)
  Variable CT : Type.
  Variable seal : Z -> header -> list byte -> CT.            (* key, header (iv+aad), plaintext *)
  Variable open : Z -> header -> CT -> option (list byte).
  Definition body_view (k : Z) (h : header) (c : CT) : body :=
    match open k h c with Some p => Sealed k h p | None => Bad end.
End Handshake.

Arguments MClientHello {SIG}.
Arguments MServerHello {SIG}.
Arguments MChallenge {SIG}.
Arguments MGarbage {SIG}.
Arguments h_conn {SIG}.
Arguments h_priv {SIG}.
Arguments h_pinned {SIG}.
Arguments h_root {SIG}.
Arguments h_version {SIG}.
Arguments h_temp {SIG}.
Arguments h_rand {SIG}.
Arguments h_adopted {SIG}.
Arguments mkH {SIG}.
Arguments temp_token {SIG}.
Arguments check_key {SIG}.
