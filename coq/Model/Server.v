(* Server.v — executable model of the server loop: mpgameserver/server.py (UdpServerThread.run and
   helpers, the front gate of _UdpServer.run / TwistedServer.datagramReceived) and of the parts of
   mpgameserver/context.py it uses (get_token, _token_in_use, _validateChallengeResponse,
   _onConnect, onConnect, onDisconnect).  Built on top of Conn.v (one ServerClientConnection).
   Definitions only.

   One loop iteration = srv_step:
     D  dispatch of the datagrams fetched at the end of the previous iteration (per pool),
        handler.connect / handler.handle_message,
     U  handler.update,
     S  sweep of `connections` (DISCONNECTING -> disconnect(); DISCONNECTED or silent for
        connection_timeout -> handler.disconnect, one last update, removal; else update),
        sweep of `temp_connections`, then UdpServerThread.send,
     X  when ctxt._active was cleared during the iteration: the shutdown sweep + handler.shutdown.
   Every try/except of the code is a match on a `raised` flag here; every place where the code has
   NO try/except would be an explicit SDied output (the loop thread is gone, s_dead): after the
   fix of UdpServerThread.send none is left; s_dead remains for get_token drawing for ever.

   Oracles: the handler (what each call does: client.disconnect()/client.send(...) on connected
   clients, and whether it raises), os.urandom (raw 32-bit values, s_rand), handshake payload
   parsing / ECDH results (hsx, per handshake-typed message, as in Conn.hs_oracle).

   Time is in ticks (Conn.TICKS per second).  The iteration reads the clock many times; the model
   uses one reading for D (i_td) and one for S (i_ts), both arbitrary. *)
From RecordUpdate Require Import RecordUpdate.
From Model Require Import Base SeqNum Wire Conn.
Import RecordSetNotations.
Open Scope Z_scope.

(* ---------- addresses, clients, pools ---------- *)
Definition addr := (Z * Z)%type.               (* (ip id, port) ; addr[0] is what the blocklist holds *)
Definition addr_eqb (a b : addr) : bool := (fst a =? fst b) && (snd a =? snd b).

(* one ServerClientConnection object: identity, address, state *)
Record client := { cl_id : Z; cl_addr : addr; cl_conn : conn }.
Definition with_conn (cl : client) (c : conn) : client :=
  {| cl_id := cl_id cl; cl_addr := cl_addr cl; cl_conn := c |}.

(* dict addr -> client, insertion ordered *)
Definition pool := list client.
Fixpoint pget (a : addr) (p : pool) : option client :=
  match p with [] => None | cl :: r => if addr_eqb a (cl_addr cl) then Some cl else pget a r end.
Definition pdel (a : addr) (p : pool) : pool := filter (fun cl => negb (addr_eqb a (cl_addr cl))) p.
Fixpoint pset (cl : client) (p : pool) : pool :=
  match p with
  | [] => [cl]
  | x :: r => if addr_eqb (cl_addr cl) (cl_addr x) then cl :: r else x :: pset cl r
  end.
Definition pmap_id (cid : Z) (f : conn -> conn) (p : pool) : pool :=
  map (fun cl => if cl_id cl =? cid then with_conn cl (f (cl_conn cl)) else cl) p.
Fixpoint pfind (cid : Z) (p : pool) : option client :=
  match p with [] => None | cl :: r => if cl_id cl =? cid then Some cl else pfind cid r end.

(* ServerContext settings copied to / used on connections, in ticks *)
Record cfg := { g_conn_timeout : Z; g_temp_timeout : Z; g_ka_interval : Z; g_out_timeout : Z }.
Definition cfg0 : cfg :=
  {| g_conn_timeout := 5 * TICKS; g_temp_timeout := 2 * TICKS; g_ka_interval := 1536; g_out_timeout := TICKS |}.

Record srv := mkSrv {
  s_temp : pool;            (* ctxt.temp_connections *)
  s_conns : pool;           (* ctxt.connections *)
  s_block : list Z;         (* ctxt.blocklist *)
  s_cfg : cfg;
  s_active : bool;          (* the thread is inside (or before) its while loop *)
  s_dead : bool;            (* get_token never returned *)
  s_next_id : Z;            (* identity of the next ServerClientConnection object *)
  s_calls : Z;              (* number of handler calls made so far (index into the handler oracle) *)
  s_rand : list Z           (* os.urandom(4) values still available in this iteration *)
}.
#[export] Instance eta_srv : Settable _ :=
  settable! mkSrv <s_temp; s_conns; s_block; s_cfg; s_active; s_dead; s_next_id; s_calls; s_rand>.

Definition srv0 (g : cfg) (bl : list Z) : srv :=
  {| s_temp := []; s_conns := []; s_block := bl; s_cfg := g; s_active := true; s_dead := false;
     s_next_id := 0; s_calls := 0; s_rand := [] |}.

Definition sfind (cid : Z) (s : srv) : option client :=
  match pfind cid (s_conns s) with Some cl => Some cl | None => pfind cid (s_temp s) end.
Definition supd (cid : Z) (f : conn -> conn) (s : srv) : srv :=
  s <| s_conns := pmap_id cid f (s_conns s) |> <| s_temp := pmap_id cid f (s_temp s) |>.

(* ---------- handler oracle ---------- *)
Inductive hevent :=
  | HStarting | HShutdown | HUpdate
  | HConnect (cid : Z) (a : addr) (token : Z)
  | HMessage (cid : Z) (mseq : Z) (p : list byte)
  | HDisconnect (cid : Z).

(* what a handler call does to the server: client.disconnect() / client.send(payload, retry,
   callback) on the client currently in `connections` under that address (calls on objects that
   are no longer in the pool have no effect on the server and are not represented) *)
Inductive haction :=
  | ADisconnect (a : addr)
  | ASend (a : addr) (p : list byte) (r : retry) (cbid : Z).     (* cbid -1: no callback *)
Record hresp := { r_acts : list haction; r_raises : bool }.
Definition horacle := Z -> hevent -> hresp.        (* call number -> event -> behaviour *)

(* ---------- observable outputs of the loop ---------- *)
Inductive sout :=
  | SEv (e : hevent)                    (* a handler method was called *)
  | SExc (e : hevent)                   (* ... and raised: caught by the try/except around the call, logged *)
  | SSend (a : addr) (h : header) (sealed : option Z) (payload : list byte)   (* sock.sendto *)
  | SCb (cid id : Z) (ok : bool)        (* user send callback *)
  | SDgramErr (a : addr)                (* "error processing datagram": exception caught per datagram *)
  | SUpdErr (cid : Z)                   (* "unhandled error during client update/disconnect" *)
  | SHello (cid : Z) (a : addr) (token key : Z)   (* ghost: _recvClientHello accepted, token issued, key derived *)
  | SChalOk (cid : Z) (token : Z) (key : option Z) (* ghost: _validateChallengeResponse returned True *)
  | SSendErr (a : addr)                 (* "unable to send packet": exception caught in send() *)
  | SDied (cause : Z).                  (* 1: get_token never returns (the only way the loop stops serving) *)

Definition icb_of (z : Z) : icb := if z =? -1 then INone else IUser z.

Definition apply_action (e : env) (s : srv) (a : haction) : srv :=
  match a with
  | ADisconnect ad =>
      match pget ad (s_conns s) with
      | Some cl => supd (cl_id cl) (fun c => disconnect c INone) s
      | None => s
      end
  | ASend ad p r k =>
      match pget ad (s_conns s) with
      | Some cl => supd (cl_id cl) (fun c => fst (send e c p r (icb_of k))) s
      | None => s
      end
  end.

(* one handler call under its try/except *)
Definition call_handler (h : horacle) (e : env) (s : srv) (ev : hevent) : srv * list sout :=
  let r := h (s_calls s) ev in
  let s := fold_left (apply_action e) (r_acts r) (s <| s_calls := s_calls s + 1 |>) in
  (s, SEv ev :: if r_raises r then [SExc ev] else []).

(* ---------- ServerContext.get_token ---------- *)
Definition mask_token (z : Z) : Z := Z.lor (Z.land z 2147483647) 1073741824.
Definition tokens_in_use (s : srv) : list Z := map (fun cl => c_token (cl_conn cl)) (s_conns s ++ s_temp s).
Fixpoint get_token (used rand : list Z) : option (Z * list Z) :=
  match rand with
  | [] => None                     (* the code would keep drawing for ever *)
  | r :: rest => let t := mask_token r in
                 if (t =? 0) || zmem t used then get_token used rest else Some (t, rest)
  end.

(* ---------- one message of a datagram (ConnectionBase._recv_message on a server client) ---------- *)
(* answers for one handshake-typed message that do not depend on the server state *)
Record hsx := {
  x_parse : Z;             (* 0: payload parses; otherwise the err_code raised *)
  x_version_ok : bool;     (* client hello: version matches *)
  x_token : Z;             (* challenge response: the token it carries *)
  x_key : Z;               (* client hello: id of the session key derived by ECDH *)
  x_reply : list byte;     (* client hello: bytes of the signed server hello payload *)
  x_ecdh : Z               (* client hello: 0, or the err_code raised by crypto.ecdh_server (public key of
                              another kind/curve) — that is AFTER get_token() assigned self.token *)
}.
Definition no_hsx : hsx :=
  {| x_parse := 9; x_version_ok := false; x_token := 0; x_key := 0; x_reply := []; x_ecdh := 0 |}.

Definition cb_outs (cid : Z) (o : list out) : list sout :=
  flat_map (fun x => match x with OCallback id ok => [SCb cid id ok] | _ => [] end) o.
Definition has_connect (o : list out) : bool :=
  existsb (fun x => match x with OHandlerConnect => true | _ => false end) o.

(* ServerContext._onConnect + onConnect *)
Definition on_connect (h : horacle) (e : env) (s : srv) (cid : Z) : srv * list sout :=
  match sfind cid s with
  | None => (s, [])
  | Some cl =>
      match pget (cl_addr cl) (s_temp s) with
      | None => (s, [])
      | Some _ =>
          let s := s <| s_temp := pdel (cl_addr cl) (s_temp s) |> <| s_conns := pset cl (s_conns s) |> in
          call_handler h e s (HConnect cid (cl_addr cl) (c_token (cl_conn cl)))
      end
  end.

(* returns (state, outputs, an exception left _recv_message) *)
Definition srv_msg (h : horacle) (e : env) (s : srv) (cid now : Z) (m : wmsg) (x : hsx)
  : srv * list sout * bool :=
  match sfind cid s with
  | None => (s, [], false)
  | Some cl =>
      let c := cl_conn cl in
      let dup := match bf_insert (c_bf_msg c) (w_seq m) with Err _ => true | Ok _ => false end in
      let draws := ptype_eqb (w_type m) CLIENT_HELLO && negb dup && (x_parse x =? 0) && x_version_ok x in
      let tok := if draws then get_token (tokens_in_use s) (s_rand s) else Some (x_token x, s_rand s) in
      match tok with
      | None => (s <| s_dead := true |>, [SDied 1], true)
      | Some (t, rand') =>
          let ecdh_fails := draws && negb (x_ecdh x =? 0) in
          let o := {| o_parse := if ecdh_fails then x_ecdh x else x_parse x; o_version_ok := x_version_ok x; o_token := t; o_key := x_key x;
                      o_reply := x_reply x;
                      o_temp_token := match pget (cl_addr cl) (s_temp s) with
                                      | Some other => Some (c_token (cl_conn other)) | None => None end |} in
          let '(c', outs) := recv_msgs c now [m] [o] in
          let c' := if ecdh_fails then c' <| c_token := t |> else c' in
          let s := supd cid (fun _ => c') (s <| s_rand := rand' |>) in
          let g1 := if draws && negb ecdh_fails then [SHello cid (cl_addr cl) t (x_key x)] else [] in
          if has_connect outs then
            let '(s, o2) := on_connect h e s cid in
            (s, g1 ++ [SChalOk cid t (c_key c)] ++ o2, raised outs)
          else (s, g1, raised outs)
      end
  end.

Fixpoint srv_msgs (h : horacle) (e : env) (s : srv) (cid now : Z) (ms : list wmsg) (xs : list hsx)
  : srv * list sout * bool :=
  match ms with
  | [] => (s, [], false)
  | m :: r =>
      let '(s1, o1, r1) := srv_msg h e s cid now m (hd no_hsx xs) in
      if r1 then (s1, o1, true)
      else
        let '(s2, o2, r2) := srv_msgs h e s1 cid now r (if is_hs (w_type m) then tl xs else xs) in
        (s2, o1 ++ o2, r2)
  end.

(* ConnectionBase._recv_datagram for the client object cid (the part before the message loop is
   Conn.recv's; the message loop runs at server level because _recvChallengeResponse /
   _recvClientHello consult and change the pools between two messages of one datagram) *)
Definition srv_recv (h : horacle) (e : env) (s : srv) (cid now : Z) (d : dgram) (xs : list hsx)
  : srv * list sout * bool :=
  match sfind cid s with
  | None => (s, [], false)
  | Some cl =>
      let c := cl_conn cl in
      let drop := (supd cid (fun c => c <| c_dropped := c_dropped c + 1 |>) s, [], false) in
      if keyless_refuses c (d_hdr d) then drop else
      match open_dgram (c_key c) d with
      | Err _ => drop
      | Ok ms =>
          match bf_insert (c_bf_pkt c) (h_seq (d_hdr d)) with
          | Err _ => drop
          | Ok bf =>
              let c := c <| c_bf_pkt := bf |> <| c_received := c_received c + 1 |> <| c_last_recv := now |> in
              let '(c1, o1) := handle_ack_bits c (d_hdr d) in
              let s := supd cid (fun _ => c1) s in
              let '(s2, o2, r2) := srv_msgs h e s cid now ms xs in
              (s2, cb_outs cid o1 ++ o2, r2)
          end
      end
  end.

(* the for loop over client.incoming_messages (a snapshot), then incoming_messages = [] *)
Fixpoint deliver_msgs (h : horacle) (e : env) (s : srv) (cid : Z) (q : list (Z * list byte)) : srv * list sout :=
  match q with
  | [] => (s, [])
  | (ms, p) :: r =>
      let '(s1, o1) := call_handler h e s (HMessage cid ms p) in
      let '(s2, o2) := deliver_msgs h e s1 cid r in (s2, o1 ++ o2)
  end.
Definition deliver (h : horacle) (e : env) (s : srv) (cid : Z) : srv * list sout :=
  match sfind cid s with
  | None => (s, [])
  | Some cl =>
      let '(s1, o) := deliver_msgs h e s cid (c_incoming (cl_conn cl)) in
      (supd cid (fun c => c <| c_incoming := [] |>) s1, o)
  end.

(* ---------- D: one queued datagram ---------- *)
Definition new_conn (g : cfg) : conn :=
  (conn0 true) <| c_ka_interval := g_ka_interval g |> <| c_out_timeout := g_out_timeout g |>.

Definition disp_item (h : horacle) (e : env) (s : srv) (now : Z) (a : addr) (d : dgram) (xs : list hsx)
  : srv * list sout :=
  match pget a (s_conns s) with
  | Some cl =>
      let '(s1, o1, r1) := srv_recv h e s (cl_id cl) now d xs in
      if s_dead s1 then (s1, o1)
      else if r1 then (s1, o1 ++ [SDgramErr a])
      else let '(s2, o2) := deliver h e s1 (cl_id cl) in (s2, o1 ++ o2)
  | None =>
      match pget a (s_temp s) with
      | Some cl =>
          if negb (ptype_eqb (h_type (d_hdr d)) CHALLENGE_RESP) then (s, [])
          else
            let '(s1, o1, r1) := srv_recv h e s (cl_id cl) now d xs in
            if s_dead s1 then (s1, o1) else (s1, o1 ++ if r1 then [SDgramErr a] else [])
      | None =>
          if negb (ptype_eqb (h_type (d_hdr d)) CLIENT_HELLO) then (s, [])
          else
            let cid := s_next_id s in
            let cl := {| cl_id := cid; cl_addr := a; cl_conn := new_conn (s_cfg s) |} in
            let s := s <| s_next_id := cid + 1 |> <| s_temp := pset cl (s_temp s) |> in
            let '(s1, o1, r1) := srv_recv h e s cid now d xs in
            if s_dead s1 then (s1, o1) else (s1, o1 ++ if r1 then [SDgramErr a] else [])
      end
  end.

(* ---------- the front gate: _UdpServer.run / TwistedServer.datagramReceived ---------- *)
(* what arrives at the socket: source address, the bytes, and (abstract view of the same bytes)
   the body after the 20 header bytes with the handshake answers *)
Record witem := { w_addr : addr; w_raw : list byte; w_body : body; w_hs : list hsx }.

Definition gate (bl : list Z) (it : witem) : option (addr * dgram * list hsx) :=
  if zmem (fst (w_addr it)) bl then None
  else match decode_header true (w_raw it) with
       | Err _ => None                             (* logged: "dropping packet" *)
       | Ok hd => Some (w_addr it, {| d_hdr := hd; d_body := w_body it |}, w_hs it)
       end.

Fixpoint disp_all (h : horacle) (e : env) (s : srv) (now : Z) (q : list witem) : srv * list sout :=
  match q with
  | [] => (s, [])
  | it :: r =>
      if s_dead s then (s, [])
      else
        let '(s1, o1) := match gate (s_block s) it with
                         | None => (s, [])
                         | Some (a, d, xs) => disp_item h e s now a d xs
                         end in
        let '(s2, o2) := disp_all h e s1 now r in (s2, o1 ++ o2)
  end.

(* ---------- S: the two sweeps ---------- *)
Definition pending := (addr * header * option Z * list byte)%type.   (* (pkt, key, addr) handed to send() *)

Definition emits (a : addr) (o : list out) : list pending :=
  flat_map (fun x => match x with OEmit hd k p => [(a, hd, k, p)] | _ => [] end) o.

(* client.update() at server level: Conn.server_tick; an ORaise among its outputs is an exception
   leaving update() *)
Definition tick_client (e : env) (s : srv) (cl : client) (now : Z) : srv * list sout * list pending * bool :=
  let '(c', o) := server_tick e (cl_conn cl) now in
  (supd (cl_id cl) (fun _ => c') s, cb_outs (cl_id cl) o,
   if raised o then [] else emits (cl_addr cl) o, raised o).

Definition sweep_conn (h : horacle) (e : env) (s : srv) (now : Z) (cid : Z) : srv * list sout * list pending :=
  match pfind cid (s_conns s) with
  | None => (s, [], [])
  | Some cl0 =>
      let s := if status_eqb (c_status (cl_conn cl0)) DISCONNECTING
               then supd cid (fun c => disconnect c INone) s else s in
      match pfind cid (s_conns s) with
      | None => (s, [], [])
      | Some cl =>
          if status_eqb (c_status (cl_conn cl)) DISCONNECTED
             || timedout (cl_conn cl) now (g_conn_timeout (s_cfg s)) then
            let '(s1, o1) := call_handler h e s (HDisconnect cid) in
            match pfind cid (s_conns s1) with
            | None => (s1, o1, [])
            | Some cl1 =>
                let '(s2, o2, snd_, r2) := tick_client e s1 cl1 now in
                (s2 <| s_conns := pdel (cl_addr cl) (s_conns s2) |>,
                 o1 ++ o2 ++ (if r2 then [SUpdErr cid] else []), snd_)
            end
          else
            let '(s2, o2, snd_, r2) := tick_client e s cl now in
            (s2, o2 ++ (if r2 then [SUpdErr cid] else []), snd_)
      end
  end.

Definition sweep_temp (e : env) (s : srv) (now : Z) (cid : Z) : srv * list sout * list pending :=
  match pfind cid (s_temp s) with
  | None => (s, [], [])
  | Some cl =>
      if status_eqb (c_status (cl_conn cl)) DISCONNECTED
         || timedout (cl_conn cl) now (g_temp_timeout (s_cfg s)) then
        (s <| s_temp := pdel (cl_addr cl) (s_temp s) |>, [], [])
      else
        let '(s2, o2, snd_, r2) := tick_client e s cl now in
        (s2, o2 ++ (if r2 then [SUpdErr cid] else []), snd_)
  end.

Fixpoint sweep_list (f : srv -> Z -> srv * list sout * list pending) (s : srv) (ids : list Z)
  : srv * list sout * list pending :=
  match ids with
  | [] => (s, [], [])
  | cid :: r =>
      let '(s1, o1, p1) := f s cid in
      let '(s2, o2, p2) := sweep_list f s1 r in (s2, o1 ++ o2, p1 ++ p2)
  end.

(* UdpServerThread.send (after the fix): pkt.to_bytes(key) and sock.sendto under one try/except
   that logs and goes on with the next packet.  to_bytes raises when a header field does not fit
   its struct format; the OS refuses port 0 (EINVAL). *)
Definition sock_refuses (a : addr) : bool := snd a =? 0.

Fixpoint send_all (l : list pending) : list sout :=
  match l with
  | [] => []
  | (a, hd, k, p) :: r =>
      (if header_ok hd && negb (sock_refuses a) then SSend a hd k p else SSendErr a) :: send_all r
  end.

(* the shutdown sweep after the loop *)
Fixpoint shutdown_list (h : horacle) (e : env) (s : srv) (ids : list Z) : srv * list sout :=
  match ids with
  | [] => (s, [])
  | cid :: r =>
      match pfind cid (s_conns s) with
      | None => shutdown_list h e s r
      | Some cl =>
          let '(s1, o1) := call_handler h e s (HDisconnect cid) in
          let s1 := s1 <| s_conns := pdel (cl_addr cl) (s_conns s1) |> in
          let '(s2, o2) := shutdown_list h e s1 r in (s2, o1 ++ o2)
      end
  end.
Definition srv_shutdown (h : horacle) (e : env) (s : srv) : srv * list sout :=
  let '(s1, o1) := shutdown_list h e s (map cl_id (s_conns s)) in
  let '(s2, o2) := call_handler h e s1 HShutdown in
  (s2 <| s_active := false |>, o1 ++ o2).

(* ---------- one loop iteration ---------- *)
Record sin := {
  i_td : Z;                 (* clock during D *)
  i_ts : Z;                 (* clock during S *)
  i_batch : list witem;     (* datagrams that reached the socket before this iteration *)
  i_rand : list Z;          (* os.urandom(4) values, as integers *)
  i_stop : bool             (* ctxt._active is cleared during this iteration *)
}.

(* D + U: dispatch of the batch, then handler.update *)
Definition srv_du (h : horacle) (e : env) (s : srv) (i : sin) : srv * list sout :=
  let s := s <| s_rand := i_rand i |> in
  let '(s1, o1) := disp_all h e s (i_td i) (i_batch i) in
  if s_dead s1 then (s1, o1) else
  let '(s2, o2) := call_handler h e s1 HUpdate in (s2, o1 ++ o2).

(* S + send (+ X): the sweeps, UdpServerThread.send, and the shutdown sweep when asked to stop *)
Definition srv_sx (h : horacle) (e : env) (s : srv) (i : sin) : srv * list sout :=
  let '(s3, o3, p3) := sweep_list (fun s cid => sweep_conn h e s (i_ts i) cid) s (map cl_id (s_conns s)) in
  let '(s4, o4, p4) := sweep_list (fun s cid => sweep_temp e s (i_ts i) cid) s3 (map cl_id (s_temp s3)) in
  let o5 := send_all (p3 ++ p4) in
  if i_stop i then
    let '(s6, o6) := srv_shutdown h e s4 in (s6, o3 ++ o4 ++ o5 ++ o6)
  else (s4, o3 ++ o4 ++ o5).

Definition srv_step (h : horacle) (e : env) (s : srv) (i : sin) : srv * list sout :=
  if negb (s_active s) || s_dead s then (s, [])
  else
    let '(s2, o2) := srv_du h e s i in
    if s_dead s2 then (s2, o2)
    else let '(s6, o6) := srv_sx h e s2 i in (s6, o2 ++ o6).

(* thread start: handler.starting() *)
Definition srv_start (h : horacle) (e : env) (s : srv) : srv * list sout := call_handler h e s HStarting.

Fixpoint srv_run (h : horacle) (e : env) (s : srv) (is : list sin) : srv * list sout :=
  match is with
  | [] => (s, [])
  | i :: r => let '(s1, o1) := srv_step h e s i in
              let '(s2, o2) := srv_run h e s1 r in (s2, o1 ++ o2)
  end.
