(* Conn.v — executable model of connection.py's ConnectionBase (after the committed fixes) and
   of the client/server subclasses' state machines.  Definitions only.

   Abstractions: time is an integer number of ticks (TICKS per second); cryptography is
   symbolic (a datagram body is Sealed under a key id with the header it was sealed with, or
   Clear with a valid CRC, or Bad); Python closures are defunctionalised (cb); dicts are
   insertion-ordered association lists; handshake payload parsing/crypto outcomes arrive as
   oracle answers with the event (Handshake.v relates them symbolically). *)
From RecordUpdate Require Import RecordUpdate.
From Model Require Import Base SeqNum Wire.
Import RecordSetNotations.
Open Scope Z_scope.

Definition TICKS : Z := 15360.

Inductive retry := RNone | RBest | RTimeout.
Inductive status := CONNECTING | CONNECTED | DISCONNECTING | DISCONNECTED | DROPPED.

Definition status_code (s : status) : Z :=
  match s with CONNECTING => 1 | CONNECTED => 2 | DISCONNECTING => 3 | DISCONNECTED => 4 | DROPPED => 5 end.
Definition status_eqb (a b : status) : bool := status_code a =? status_code b.
Definition retry_code (r : retry) : Z := match r with RNone => 0 | RBest => 1 | RTimeout => -1 end.
Definition retry_is_none (r : retry) : bool := match r with RNone => true | _ => false end.

(* callbacks: user callback ids, fragment meta callbacks, the built-in time-out loggers;
   Retry = a RetrySender object (identity rid) wrapping an inner callback *)
Inductive icb := INone | IUser (id : Z) | IFrag (fid idx : Z) | IHello | IChallenge | IDisc.
Inductive cb := Plain (i : icb) | Retry (rid mseq : Z) (ty : ptype) (payload : list byte) (i : icb).

Record pmsg := { m_seq : Z; m_type : ptype; m_payload : list byte; m_cb : option cb;
                 m_retry : retry; m_atime : Z }.

Record fsender := { fs_ucb : icb; fs_acks : list (option bool) }.
Record freceiver := { fr_frags : list (option (list byte)); fr_ctime : Z; fr_msgseq : Z; fr_count : Z }.

(* Packet class attributes set by Packet.setMTU *)
Record env := { e_max_payload : Z; e_max_frag : Z; e_max_frags : Z }.

Record conn := mkConn {
  c_server : bool;
  c_key : option Z;
  c_status : status;
  c_incoming : list (Z * list byte);
  c_outgoing : list pmsg;
  c_packs : list (Z * Z);              (* pending_acks: datagram seq -> send time *)
  c_pcbs : list (Z * list cb);         (* pending_callbacks *)
  c_pretry : list (Z * list Z);        (* pending_retry: datagram seq -> message seqs *)
  c_pretry_msg : list (Z * pmsg);      (* pending_retry_msg: message seq -> message *)
  c_pfrags : list (Z * fsender);       (* pending_fragments *)
  c_rfrags : list (Z * freceiver);     (* received_fragments *)
  c_seq_send : Z; c_seq_msg : Z; c_seq_frag : Z;
  c_bf_pkt : bitfield; c_bf_msg : bitfield;
  c_out_timeout : Z; c_temp_timeout : Z; c_send_interval : Z; c_ka_interval : Z;
  c_last_recv : Z; c_last_send : Z; c_last_ka : Z;
  c_sent : Z; c_dropped : Z; c_received : Z; c_acked : Z; c_timeouts : Z; c_assembled : Z;
  c_done : list Z;                     (* RetrySender ids whose done flag is set *)
  c_next_rid : Z;
  c_hello_sent : Z;                    (* client: time_client_hello_sent *)
  c_conn_cb : bool;                    (* client: a connection_callback is set *)
  c_token : Z
}.

#[export] Instance eta_conn : Settable _ :=
  settable! mkConn <c_server; c_key; c_status; c_incoming; c_outgoing; c_packs; c_pcbs; c_pretry;
    c_pretry_msg; c_pfrags; c_rfrags; c_seq_send; c_seq_msg; c_seq_frag; c_bf_pkt; c_bf_msg;
    c_out_timeout; c_temp_timeout; c_send_interval; c_ka_interval; c_last_recv; c_last_send; c_last_ka;
    c_sent; c_dropped; c_received; c_acked; c_timeouts; c_assembled; c_done; c_next_rid;
    c_hello_sent; c_conn_cb; c_token>.

Definition conn0 (server : bool) : conn := {|
  c_server := server; c_key := None; c_status := DISCONNECTED;
  c_incoming := []; c_outgoing := []; c_packs := []; c_pcbs := []; c_pretry := []; c_pretry_msg := [];
  c_pfrags := []; c_rfrags := [];
  c_seq_send := 0; c_seq_msg := 0; c_seq_frag := 0;
  c_bf_pkt := bf_new 32; c_bf_msg := bf_new 256;
  c_out_timeout := TICKS; c_temp_timeout := 2 * TICKS; c_send_interval := 256; c_ka_interval := 1536;
  c_last_recv := - TICKS; c_last_send := - TICKS; c_last_ka := - TICKS;
  c_sent := 0; c_dropped := 0; c_received := 0; c_acked := 0; c_timeouts := 0; c_assembled := 0;
  c_done := []; c_next_rid := 0; c_hello_sent := 0; c_conn_cb := false; c_token := 0 |}.

(* observable effects of a step *)
Inductive out :=
  | OEmit (h : header) (sealed : option Z) (payload : list byte)
  | OCallback (id : Z) (ok : bool)
  | ORet (b : bool)
  | ORaise (e : err)
  | OConnCb (ok : bool)
  | OLog (code : Z)
  | OHandlerConnect.

(* ---------- insertion-ordered dictionaries ---------- *)
Section Dict.
  Context {A : Type}.
  Fixpoint dget (k : Z) (d : list (Z * A)) : option A :=
    match d with [] => None | (k', v) :: r => if k =? k' then Some v else dget k r end.
  Fixpoint dset (k : Z) (v : A) (d : list (Z * A)) : list (Z * A) :=
    match d with
    | [] => [(k, v)]
    | (k', v') :: r => if k =? k' then (k, v) :: r else (k', v') :: dset k v r
    end.
  Definition ddel (k : Z) (d : list (Z * A)) : list (Z * A) :=
    filter (fun p => negb (fst p =? k)) d.
End Dict.

Definition zmem (x : Z) (l : list Z) : bool := existsb (Z.eqb x) l.

(* ---------- sending ---------- *)

Definition mk_cb (r : retry) (k : icb) (rid mseq : Z) (ty : ptype) (p : list byte) : option cb :=
  match r with
  | RTimeout => Some (Retry rid mseq ty p k)
  | _ => match k with INone => None | _ => Some (Plain k) end
  end.

(* ConnectionBase._send_type *)
Definition send_type (c : conn) (ty : ptype) (p : list byte) (r : retry) (k : icb) : conn :=
  let mseq := seq_succ (c_seq_msg c) in
  let m := {| m_seq := mseq; m_type := ty; m_payload := p;
              m_cb := mk_cb r k (c_next_rid c) mseq ty p; m_retry := r; m_atime := 0 |} in
  c <| c_seq_msg := mseq |>
    <| c_next_rid := match r with RTimeout => c_next_rid c + 1 | _ => c_next_rid c end |>
    <| c_outgoing := c_outgoing c ++ [m] |>
    <| c_sent := c_sent c + 1 |>.

(* FragmentSender.build: the slices *)
Fixpoint split_frags (fuel : nat) (e : env) (p : list byte) : list (list byte) :=
  match fuel with
  | O => []
  | S f =>
      if (length p =? 0)%nat then []
      else if len p <? e_max_payload e - 6 then [p]
      else firstn (Z.to_nat (e_max_frag e)) p
           :: split_frags f e (skipn (Z.to_nat (e_max_frag e)) p)
  end.

Fixpoint send_frags (c : conn) (fid n : Z) (r : retry) (i : Z) (frags : list (list byte)) : conn :=
  match frags with
  | [] => c
  | f :: rest =>
      send_frags (send_type c APP_FRAGMENT (be 2 fid ++ be 2 (1 + i) ++ be 2 n ++ f) r (IFrag fid i))
                 fid n r (i + 1) rest
  end.

(* ConnectionBase.send *)
Definition send (e : env) (c : conn) (p : list byte) (r : retry) (k : icb) : conn * list out :=
  if negb (status_eqb (c_status c) CONNECTED) then (c, [])
  else if len p >? e_max_payload e then
    let fid := seq_succ (c_seq_frag c) in
    let c := c <| c_seq_frag := fid |> in
    if len p >? e_max_frag e * e_max_frags e then (c, [ORaise EValue])
    else
      let frags := split_frags (S (length p)) e p in
      let c := send_frags c fid (len frags) r 0 frags in
      (c <| c_pfrags := dset fid {| fs_ucb := k; fs_acks := repeat None (length frags) |} (c_pfrags c) |>, [])
  else (send_type c APP p r k, []).

(* ConnectionBase.disconnect *)
Definition disconnect (c : conn) (k : icb) : conn :=
  let c :=
    if status_eqb (c_status c) CONNECTED || status_eqb (c_status c) DISCONNECTING then
      send_type (c <| c_outgoing := [] |> <| c_incoming := [] |> <| c_pcbs := [] |>
                   <| c_pretry := [] |> <| c_packs := [] |>) DISCONNECT [] RNone k
    else c in
  c <| c_status := DISCONNECTED |>.

(* ---------- callbacks ---------- *)

Fixpoint set_nth {A} (n : nat) (x : A) (l : list A) : list A :=
  match l, n with
  | [], _ => []
  | _ :: r, O => x :: r
  | y :: r, S n' => y :: set_nth n' x r
  end.

Definition is_some {A} (o : option A) : bool := match o with Some _ => true | None => false end.
Definition is_true (o : option bool) : bool := match o with Some true => true | _ => false end.

Definition fire_icb (c : conn) (k : icb) (ok : bool) : conn * list out :=
  match k with
  | INone => (c, [])
  | IUser id => (c, [OCallback id ok])
  | IFrag fid idx =>
      match dget fid (c_pfrags c) with
      | None => (c, [])
      | Some fs =>
          let acks := set_nth (Z.to_nat idx) (Some ok) (fs_acks fs) in
          if forallb is_some acks then
            (c <| c_pfrags := ddel fid (c_pfrags c) |>,
             match fs_ucb fs with IUser id => [OCallback id (forallb is_true acks)] | _ => [] end)
          else (c <| c_pfrags := dset fid {| fs_ucb := fs_ucb fs; fs_acks := acks |} (c_pfrags c) |>, [])
      end
  | IHello => (c, if ok then [] else [OLog 1])
  | IChallenge => (c, if ok then [] else [OLog 2])
  | IDisc => (c, [OLog 3])
  end.

(* RetrySender.__call__ / plain callbacks *)
Definition fire_cb (c : conn) (k : cb) (ok : bool) : conn * list out :=
  match k with
  | Plain i => fire_icb c i ok
  | Retry rid mseq ty p i =>
      if zmem rid (c_done c) then (c, [])
      else if negb ok then
        (c <| c_outgoing := c_outgoing c ++
               [{| m_seq := mseq; m_type := ty; m_payload := p; m_cb := Some k;
                   m_retry := RTimeout; m_atime := 0 |}] |>, [])
      else fire_icb (c <| c_done := rid :: c_done c |>) i true
  end.

Fixpoint fire_all (c : conn) (ks : list cb) (ok : bool) : conn * list out :=
  match ks with
  | [] => (c, [])
  | k :: r => let '(c1, o1) := fire_cb c k ok in
              let '(c2, o2) := fire_all c1 r ok in (c2, o1 ++ o2)
  end.

(* _handle_ack (ok = true) / _handle_timeout (ok = false) for datagram seq s *)
Definition resolve (ok : bool) (c : conn) (s : Z) : conn * list out :=
  let c := if ok then c <| c_acked := c_acked c + 1 |> else c <| c_timeouts := c_timeouts c + 1 |> in
  let '(c, o) :=
    match dget s (c_pcbs c) with
    | Some ks => let '(c', o) := fire_all c ks ok in (c' <| c_pcbs := ddel s (c_pcbs c') |>, o)
    | None => (c, [])
    end in
  let c :=
    match dget s (c_pretry c) with
    | Some mseqs => c <| c_pretry_msg := fold_left (fun d m => ddel m d) mseqs (c_pretry_msg c) |>
                      <| c_pretry := ddel s (c_pretry c) |>
    | None => c
    end in
  (c <| c_packs := ddel s (c_packs c) |>, o).

(* _handle_ack_bits: iterate over a snapshot of pending_acks *)
Fixpoint ack_loop (c : conn) (h : header) (snap : list (Z * Z)) : conn * list out :=
  match snap with
  | [] => (c, [])
  | (s, t) :: r =>
      let '(c1, o1) :=
        if hdr_acks (h_ack h) (h_ackbits h) s then resolve true c s
        else if c_last_recv c - t >? c_out_timeout c then resolve false c s
        else (c, []) in
      let '(c2, o2) := ack_loop c1 h r in (c2, o1 ++ o2)
  end.
Definition handle_ack_bits (c : conn) (h : header) : conn * list out := ack_loop c h (c_packs c).

(* _check_timeout (client, >=) and the loop inside ServerClientConnection.update (>) *)
Fixpoint timeout_loop (strict : bool) (c : conn) (now : Z) (snap : list (Z * Z)) : conn * list out :=
  match snap with
  | [] => (c, [])
  | (s, t) :: r =>
      let '(c1, o1) :=
        if (if strict then now - t >? c_out_timeout c else now - t >=? c_out_timeout c)
        then resolve false c s else (c, []) in
      let '(c2, o2) := timeout_loop strict c1 now r in (c2, o1 ++ o2)
  end.
Definition check_timeout (strict : bool) (c : conn) (now : Z) : conn * list out :=
  timeout_loop strict c now (c_packs c).

(* ---------- packet assembly ---------- *)

Definition overhead (n : Z) : Z := if n =? 0 then 0 else if n =? 1 then 2 else 5 * n.

(* the (fixed) fit test of _build_packet_impl *)
Definition fits (e : env) (plen nmsgs cur : Z) : bool :=
  (plen + overhead (1 + nmsgs) + cur <=? e_max_payload e + 2) && (nmsgs <? 255).

(* sorted(self.pending_retry_msg.items()): insertion sort under the ring order of the keys
   (a total order on keys less than half the ring apart) *)
Fixpoint ins_item (x : Z * pmsg) (l : list (Z * pmsg)) : list (Z * pmsg) :=
  match l with
  | [] => [x]
  | y :: r => if seq_lt (fst x) (fst y) then x :: l else y :: ins_item x r
  end.
Definition sort_items (l : list (Z * pmsg)) : list (Z * pmsg) := fold_right ins_item [] l.

Fixpoint retry_pass (e : env) (now delay : Z) (items : list (Z * pmsg))
         (prm : list (Z * pmsg)) (msgs : list pmsg) (cur : Z) : list (Z * pmsg) * list pmsg * Z :=
  match items with
  | [] => (prm, msgs, cur)
  | (ms, m) :: r =>
      if now - m_atime m <? delay then retry_pass e now delay r prm msgs cur
      else if fits e (len (m_payload m)) (len msgs) cur
      then retry_pass e now delay r (ddel ms prm) (msgs ++ [m]) (cur + len (m_payload m))
      else retry_pass e now delay r prm msgs cur
  end.

Fixpoint out_pass (e : env) (q : list pmsg) (msgs : list pmsg) (cur : Z) : list pmsg * list pmsg * Z :=
  match q with
  | [] => ([], msgs, cur)
  | m :: r =>
      if fits e (len (m_payload m)) (len msgs) cur
      then out_pass e r (msgs ++ [m]) (cur + len (m_payload m))
      else let '(rem, ms, cu) := out_pass e r msgs cur in (m :: rem, ms, cu)
  end.

Definition wmsg_of (m : pmsg) : wmsg := {| w_seq := m_seq m; w_type := m_type m; w_payload := m_payload m |}.
Definition stamp (now : Z) (m : pmsg) : pmsg :=
  {| m_seq := m_seq m; m_type := m_type m; m_payload := m_payload m; m_cb := m_cb m;
     m_retry := m_retry m; m_atime := now |}.

Fixpoint opt_list {A} (l : list (option A)) : list A :=
  match l with [] => [] | Some x :: r => x :: opt_list r | None :: r => opt_list r end.

(* _build_packet_impl *)
Definition build_impl (e : env) (c : conn) (now : Z) (send_ka : bool) (delay : Z)
  : conn * option (header * list pmsg) :=
  let '(prm, msgs0, cur0) :=
    match c_pretry_msg c with
    | [] => ([], [], 0)
    | _ => retry_pass e now delay (sort_items (c_pretry_msg c)) (c_pretry_msg c) [] 0
    end in
  let '(rem, msgs, _) := out_pass e (c_outgoing c) msgs0 cur0 in
  let c := c <| c_pretry_msg := prm |> <| c_outgoing := rem |> in
  let ty := match msgs with
            | [] => if send_ka && status_eqb (c_status c) CONNECTED then KEEP_ALIVE else UNKNOWN
            | m :: _ => m_type m
            end in
  if ptype_eqb ty UNKNOWN then (c, None)
  else
    let s := seq_succ (c_seq_send c) in
    let msgs' := map (stamp now) msgs in
    let cbs := opt_list (map m_cb msgs) in
    let retr := filter (fun m => negb (retry_is_none (m_retry m))) msgs' in
    let c := c <| c_seq_send := s |>
               <| c_packs := dset s now (c_packs c) |>
               <| c_pretry_msg := fold_left (fun d m => dset (m_seq m) m d) retr (c_pretry_msg c) |> in
    let c := match cbs with [] => c | _ => c <| c_pcbs := dset s cbs (c_pcbs c) |> end in
    let c := match retr with [] => c | _ => c <| c_pretry := dset s (map m_seq retr) (c_pretry c) |> end in
    let h := {| h_to_server := negb (c_server c); h_ctime := now / TICKS; h_seq := s;
                h_ack := bf_cur (c_bf_pkt c); h_type := ty; h_len := 0; h_count := len msgs;
                h_ackbits := bf_bits (c_bf_pkt c) |} in
    (c, Some (h, msgs')).

(* _build_packet: rate cap + keep-alive decision *)
Definition build_packet (e : env) (c : conn) (now : Z) : conn * option (header * list pmsg) :=
  if now - c_last_send c <? c_send_interval c then (c, None)
  else
    let ka := now - c_last_ka c >? c_ka_interval c in
    let '(c, r) := build_impl e c now ka (c_ka_interval c) in
    match r with
    | Some _ => (c <| c_last_send := now |> <| c_last_ka := now |> <| c_assembled := c_assembled c + 1 |>, r)
    | None => (c, None)
    end.

(* Packet.create + Packet.to_bytes(key) seen abstractly: what is handed to the socket *)
Definition emit (c : conn) (pk : header * list pmsg) : list out :=
  let '(h, ms) := pk in
  match encode_msgs (map wmsg_of ms) with
  | Err e => [ORaise e]
  | Ok payload =>
      let h := {| h_to_server := h_to_server h; h_ctime := h_ctime h; h_seq := h_seq h; h_ack := h_ack h;
                  h_type := h_type h; h_len := len payload; h_count := h_count h; h_ackbits := h_ackbits h |} in
      match c_key c with
      | Some k => if negb (ptype_eqb (h_type h) SERVER_HELLO) then [OEmit h (Some k) payload]
                  else [OEmit h None payload]
      | None => [OEmit h None payload]
      end
  end.

(* ---------- receiving ---------- *)

Inductive body := Sealed (k : Z) (shdr : header) (p : list byte) | Clear (p : list byte) | Bad.
Record dgram := { d_hdr : header; d_body : body }.

Definition header_eqb (a b : header) : bool :=
  Bool.eqb (h_to_server a) (h_to_server b) && (h_ctime a =? h_ctime b) && (h_seq a =? h_seq b)
  && (h_ack a =? h_ack b) && ptype_eqb (h_type a) (h_type b) && (h_len a =? h_len b)
  && (h_count a =? h_count b) && (h_ackbits a =? h_ackbits b).

(* Packet.from_bytes over the symbolic body *)
Definition open_dgram (key : option Z) (d : dgram) : res (list wmsg) :=
  let h := d_hdr d in
  do p <-
    match key with
    | Some k =>
        match d_body d with
        | Sealed k' sh p =>
            (* datagram[20 : 20+length+16] is handed to AES-GCM: the slice is the whole ciphertext as
               soon as the announced length is at least the payload's; from_bytes refuses when
               20+length exceeds the datagram, i.e. when length > |payload| + 16 *)
            if (k =? k') && header_eqb sh h && (len p <=? h_len h) && (h_len h <=? len p + 16) then Ok p else Err EOther
        | _ => Err EOther
        end
    | None =>
        match d_body d with
        | Clear p => if h_len h =? len p then Ok p else Err EPacket
        | _ => Err EPacket
        end
    end;
  decode_msgs (h_type h) (h_count h) p.

Definition recv_app (c : conn) (mseq : Z) (p : list byte) : conn :=
  c <| c_incoming := c_incoming c ++ [(mseq, p)] |>.

Definition fr_receive (fr : freceiver) (idx mseq : Z) (msg : list byte) : freceiver :=
  let frags :=
    if (1 <=? idx) && (idx <=? len (fr_frags fr)) then
      match nth_error (fr_frags fr) (Z.to_nat (idx - 1)) with
      | Some None => set_nth (Z.to_nat (idx - 1)) (Some msg) (fr_frags fr)
      | _ => fr_frags fr
      end
    else fr_frags fr in
  {| fr_frags := frags; fr_ctime := fr_ctime fr;
     fr_msgseq := if idx =? 1 then mseq else fr_msgseq fr; fr_count := fr_count fr |}.

Definition truthy (o : option (list byte)) : bool :=
  match o with Some (_ :: _) => true | _ => false end.
Definition fr_complete (fr : freceiver) : bool := forallb truthy (fr_frags fr).
Definition fr_payload (fr : freceiver) : list byte :=
  concat (map (fun o => match o with Some b => b | None => [] end) (fr_frags fr)).
Definition fr_expired (now : Z) (fr : freceiver) : bool :=
  now - fr_ctime fr >? TICKS + (TICKS / 2) * fr_count fr.

(* _recvAppFragment *)
Definition recv_fragment (c : conn) (now mseq : Z) (frag : list byte) : conn * list out :=
  if (length frag <? 6)%nat then (c, [ORaise EStruct])
  else
    let fid := unbe (sub frag 0 2) in
    let idx := unbe (sub frag 2 2) in
    let count := unbe (sub frag 4 2) in
    let msg := skipn 6 frag in
    let fr0 := match dget fid (c_rfrags c) with
               | Some fr => fr
               | None => {| fr_frags := repeat None (Z.to_nat count); fr_ctime := now; fr_msgseq := 0;
                            fr_count := count |}
               end in
    let fr := fr_receive fr0 idx mseq msg in
    let c := c <| c_rfrags := dset fid fr (c_rfrags c) |> in
    let c := if fr_complete fr
             then (recv_app c (fr_msgseq fr) (fr_payload fr)) <| c_rfrags := ddel fid (c_rfrags c) |>
             else c in
    (c <| c_rfrags := filter (fun p => negb (fr_expired now (snd p))) (c_rfrags c) |>, []).

(* oracle answers for one handshake-typed message (see Handshake.v) *)
Record hs_oracle := {
  o_parse : Z;            (* 0: payload parses and verifies; otherwise the err_code raised *)
  o_version_ok : bool;    (* client hello: version matches *)
  o_token : Z;            (* token carried (server hello, challenge) / fresh token (client hello) *)
  o_key : Z;              (* id of the derived session key *)
  o_reply : list byte;    (* bytes of the reply payload *)
  o_temp_token : option Z (* server: token of the temp-pool entry for this address, if any *)
}.
Definition no_oracle : hs_oracle :=
  {| o_parse := 9; o_version_ok := false; o_token := 0; o_key := 0; o_reply := []; o_temp_token := None |}.

Definition err_of_code (z : Z) : err :=
  match z with 1 => EValue | 2 => EType | 3 => EStruct | 5 => EPacket | 6 => ESig | 7 => EIndex | 10 => EKey
             | 12 => EUnicode | 14 => EAttr | _ => EOther end.

(* ServerClientConnection._recvClientHello / _recvChallengeResponse,
   ClientServerConnection._recvServerHello, and the base-class no-ops *)
Definition recv_handshake (c : conn) (ty : ptype) (o : hs_oracle) : conn * list out :=
  match ty, c_server c with
  | CLIENT_HELLO, true =>
      if negb (o_parse o =? 0) then (c, [ORaise (err_of_code (o_parse o))])
      else if negb (o_version_ok o) then (c, [])
      else
        let c := c <| c_token := o_token o |> <| c_key := Some (o_key o) |> <| c_status := CONNECTING |> in
        (send_type c SERVER_HELLO (o_reply o) RNone INone, [])
  | CHALLENGE_RESP, true =>
      if negb (o_parse o =? 0) then (c, [ORaise (err_of_code (o_parse o))])
      else match o_temp_token o with
           | Some t => if t =? o_token o then (c <| c_status := CONNECTED |>, [OHandlerConnect])
                       else (c, [ORaise EOther])      (* NameError in the failure branch *)
           | None => (c, [ORaise EOther])
           end
  | SERVER_HELLO, false =>
      if o_parse o =? 6 then (c <| c_status := DISCONNECTED |>, [ORaise ESig])
      else if negb (o_parse o =? 0) then (c, [ORaise (err_of_code (o_parse o))])
      else
        let c := c <| c_token := o_token o |> <| c_key := Some (o_key o) |> in
        let c := send_type c CHALLENGE_RESP (o_reply o) RNone IChallenge in
        (c <| c_status := CONNECTED |> <| c_hello_sent := 0 |>,
         if c_conn_cb c then [OConnCb true] else [])
  | _, _ => (c, [])       (* base class: log a warning *)
  end.

Definition is_hs (t : ptype) : bool :=
  match t with CLIENT_HELLO | SERVER_HELLO | CHALLENGE_RESP => true | _ => false end.

Definition raised (o : list out) : bool :=
  existsb (fun x => match x with ORaise _ => true | _ => false end) o.

(* _recv_message for every message of the datagram, stopping at the first exception *)
Fixpoint recv_msgs (c : conn) (now : Z) (ms : list wmsg) (orcs : list hs_oracle) : conn * list out :=
  match ms with
  | [] => (c, [])
  | m :: r =>
      match bf_insert (c_bf_msg c) (w_seq m) with
      | Err _ => recv_msgs c now r (if is_hs (w_type m) then tl orcs else orcs)
      | Ok bf =>
          let c := c <| c_bf_msg := bf |> in
          let '(c1, o1, orcs') :=
            match w_type m with
            | APP => (recv_app c (w_seq m) (w_payload m), [], orcs)
            | APP_FRAGMENT => let '(c', o') := recv_fragment c now (w_seq m) (w_payload m) in (c', o', orcs)
            | DISCONNECT => (c <| c_status := DISCONNECTING |>, [], orcs)
            | KEEP_ALIVE | UNKNOWN => (c, [], orcs)
            | t => let '(c', o') := recv_handshake c t (hd no_oracle orcs) in (c', o', tl orcs)
            end in
          if raised o1 then (c1, o1)
          else let '(c2, o2) := recv_msgs c1 now r orcs' in (c2, o1 ++ o2)
      end
  end.

(* ConnectionBase._recv_datagram *)
Definition keyless_refuses (c : conn) (h : header) : bool :=
  negb (is_some (c_key c)) && (negb (h_count h =? 1) || negb (is_hello (h_type h))).

Definition recv (c : conn) (now : Z) (d : dgram) (orcs : list hs_oracle) : conn * list out :=
  if keyless_refuses c (d_hdr d) then (c <| c_dropped := c_dropped c + 1 |>, [ORet false]) else
  match open_dgram (c_key c) d with
  | Err _ => (c <| c_dropped := c_dropped c + 1 |>, [ORet false])
  | Ok ms =>
      match bf_insert (c_bf_pkt c) (h_seq (d_hdr d)) with
      | Err _ => (c <| c_dropped := c_dropped c + 1 |>, [ORet false])
      | Ok bf =>
          let c := c <| c_bf_pkt := bf |> <| c_received := c_received c + 1 |> <| c_last_recv := now |> in
          let '(c1, o1) := handle_ack_bits c (d_hdr d) in
          let '(c2, o2) := recv_msgs c1 now ms orcs in
          (c2, o1 ++ o2 ++ (if raised o2 then [] else [ORet true]))
      end
  end.

(* ---------- periodic work ---------- *)

Definition timedout (c : conn) (now timeout : Z) : bool := now - c_last_recv c >=? timeout.

(* ClientServerConnection.update (after the fix) *)
Definition client_update (c : conn) (now : Z) : conn * list out :=
  let c := if (c_last_recv c >? 0) && (now >? c_last_recv c + 5 * TICKS) then c <| c_status := DROPPED |> else c in
  if negb (c_hello_sent c =? 0) && (now - c_hello_sent c >? c_temp_timeout c) then
    (c <| c_status := DISCONNECTED |> <| c_hello_sent := 0 |>, if c_conn_cb c then [OConnCb false] else [])
  else (c, []).

(* what the socket hands to UdpClient.update: nothing, bytes whose header does not parse
   (PacketHeader.from_bytes raises; update() lets it escape), or a datagram *)
Inductive rx := RxNone | RxBadHeader (e : err) | RxDgram (d : dgram) (orcs : list hs_oracle).

(* UdpClient.update *)
Definition client_tick (e : env) (c : conn) (now : Z) (r : rx) : conn * list out :=
  let '(c, o0) := client_update c now in
  if status_eqb (c_status c) DROPPED then (c, o0)
  else
    let '(c, o1) :=
      match r with
      | RxNone => (c, [])
      | RxBadHeader er => (c, [ORaise er])
      | RxDgram d orcs => let '(c', o') := recv c now d orcs in
                          (c', filter (fun x => match x with ORet _ => false | _ => true end) o')
      end in
    if raised o1 then (c, o0 ++ o1)
    else if now - c_last_send c >? c_send_interval c then
      let '(c, pk) := build_packet e c now in
      let o2 := match pk with Some p => emit c p | None => [] end in
      let '(c, o3) := check_timeout false c now in
      (c, o0 ++ o1 ++ o2 ++ o3)
    else (c, o0 ++ o1).

(* ServerClientConnection.update *)
Definition server_tick (e : env) (c : conn) (now : Z) : conn * list out :=
  if now - c_last_send c >? c_send_interval c then
    let '(c, pk) := build_packet e c now in
    let '(c, o2) := check_timeout true c now in
    (c, o2 ++ match pk with Some p => emit c p | None => [] end)
  else (c, []).

(* ClientServerConnection._sendClientHello *)
Definition client_hello (c : conn) (now : Z) (hello : list byte) : conn :=
  (send_type c CLIENT_HELLO hello RNone IHello) <| c_status := CONNECTING |> <| c_hello_sent := now |>.

(* ---------- events ---------- *)
Inductive ev :=
  | ESend (p : list byte) (r : retry) (k : icb)
  | EClientTick (now : Z) (r : rx)
  | EServerTick (now : Z)
  | ERecv (now : Z) (d : dgram) (orcs : list hs_oracle)
  | EDisconnect (k : icb)
  | ESetCfg (which v : Z)          (* 0 keep-alive, 1 outgoing timeout, 2 temp timeout, 3 send interval *)
  | EClientHello (now : Z) (hello : list byte)
  | EGetMessages                   (* UdpClient.getMessages / the server loop's delivery *)
  | ESetConnCb (b : bool).

Definition step (e : env) (c : conn) (x : ev) : conn * list out :=
  match x with
  | ESend p r k => send e c p r k
  | EClientTick now r => client_tick e c now r
  | EServerTick now => server_tick e c now
  | ERecv now d orcs => recv c now d orcs
  | EDisconnect k => (disconnect c k, [])
  | ESetCfg w v =>
      (match w with
       | 0 => c <| c_ka_interval := v |>
       | 1 => c <| c_out_timeout := v |>
       | 2 => c <| c_temp_timeout := v |>
       | _ => c <| c_send_interval := v |>
       end, [])
  | EClientHello now hello => (client_hello c now hello, [])
  | EGetMessages => (c <| c_incoming := [] |>, [])
  | ESetConnCb b => (c <| c_conn_cb := b |>, [])
  end.

Fixpoint run (e : env) (c : conn) (xs : list ev) : conn * list (list out) :=
  match xs with
  | [] => (c, [])
  | x :: r => let '(c1, o) := step e c x in
              let '(c2, os) := run e c1 r in (c2, o :: os)
  end.
