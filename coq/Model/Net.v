(* Net.v — two endpoints and the datagrams they have put on the wire (L2).  A joint history is a
   list of endpoint events; the network and the attacker are the choice of which datagram each
   receive event carries.  Definitions only. *)
From Model Require Import Base SeqNum Wire Conn.
Open Scope Z_scope.

(* the datagram an emission puts on the wire *)
Definition dg_of (o : out) : list dgram :=
  match o with
  | OEmit h (Some k) p => [{| d_hdr := h; d_body := Sealed k h p |}]
  | OEmit h None p => [{| d_hdr := h; d_body := Clear p |}]
  | _ => []
  end.

Record net := {
  nA : conn; nB : conn;
  wAB : list dgram;            (* everything A has ever emitted *)
  wBA : list dgram;            (* everything B has ever emitted *)
  sentA : list (list byte);    (* every payload A's application has passed to send() *)
  dlvB : list (list byte)      (* every payload handed to B's application (incoming_messages) *)
}.

Inductive nev := NA (x : ev) | NB (x : ev).

Definition dgram_in (x : ev) : option dgram :=
  match x with ERecv _ d _ => Some d | EClientTick _ (RxDgram d _) => Some d | _ => None end.

(* payloads newly appended to incoming_messages by a step (EGetMessages / disconnect only remove) *)
Definition new_incoming (old new : list (Z * list byte)) : list (list byte) :=
  map snd (skipn (length old) new).

Definition nstep (e : env) (n : net) (v : nev) : net :=
  match v with
  | NA x =>
      let '(a', o) := step e (nA n) x in
      {| nA := a'; nB := nB n; wAB := wAB n ++ flat_map dg_of o; wBA := wBA n;
         sentA := match x with ESend p _ _ => p :: sentA n | _ => sentA n end; dlvB := dlvB n |}
  | NB x =>
      let '(b', o) := step e (nB n) x in
      {| nA := nA n; nB := b'; wAB := wAB n; wBA := wBA n ++ flat_map dg_of o; sentA := sentA n;
         dlvB := dlvB n ++ (match x with EGetMessages | EDisconnect _ => [] | _ => new_incoming (c_incoming (nB n)) (c_incoming b') end) |}
  end.

Definition nrun (e : env) (n : net) (vs : list nev) : net := fold_left (nstep e) vs n.

Definition net0 : net :=
  {| nA := conn0 false; nB := conn0 true; wAB := []; wBA := []; sentA := []; dlvB := [] |}.

(* the schedule hypothesis (what cryptography gives): a datagram that B can open under the session
   key it holds was emitted by A.  Loss, duplication, reordering, delay and replay are all allowed
   (any element of wAB, any number of times, at any later point); datagrams B cannot open, and
   anything at all while B holds no key, are unconstrained (attacker). *)
Definition wf_ev (n : net) (v : nev) : Prop :=
  match v with
  | NB x => forall d ms, dgram_in x = Some d -> c_key (nB n) <> None ->
                         open_dgram (c_key (nB n)) d = Ok ms -> In d (wAB n)
  | NA _ => True
  end.

(* A's application only sends payloads that fit one datagram (unfragmented traffic) *)
Definition small_ev (e : env) (v : nev) : Prop :=
  match v with NA (ESend p _ _) => len p <= e_max_payload e | _ => True end.

Fixpoint wf_run (e : env) (n : net) (vs : list nev) : Prop :=
  match vs with
  | [] => True
  | v :: r => wf_ev n v /\ small_ev e v /\ wf_run e (nstep e n v) r
  end.
