(* HsNet.v — the two symbolic handshake endpoints of Handshake.v joined in ONE history (C02 at
   run level).  Definitions only.

   A is the client (client0), B the server-side connection object (server0).  A joint history is a
   list of endpoint events (jev); the network and the active attacker are the choice of the
   datagram each receive event carries (any datagram at all: lost, duplicated, reordered, replayed,
   altered, injected).  Every step is Handshake.hstep, i.e. Conn.step with the oracle answers
   computed symbolically (C02_hstep_is_step); the wires are Net.v's (everything an endpoint has
   ever emitted).

   Ghost state: gA / gB log EVERY handshake-typed message the endpoint has handed to
   _recvClientHello / _recvServerHello / _recvChallengeResponse, in order: the datagram that
   carried it, the key the endpoint held when the datagram arrived, the endpoint state in which
   the message is processed, its type and its parsed content.  Everything the theorems speak
   about is read off that log:
     signed_of   the hello B builds and signs with the root key for a logged client hello,
     adopts      the log entry is a server hello the client verifies and adopts,
     connects    the log entry makes B report handler.connect. *)
From RecordUpdate Require Import RecordUpdate.
From Model Require Import Base SeqNum Wire Conn Handshake Net.
Import RecordSetNotations.
Open Scope Z_scope.

Section HsNet.
  Variable SIG : Type.
  Variable pub : Z -> Z.
  Variable sign : Z -> sh_payload -> SIG.
  Variable verify : Z -> SIG -> sh_payload -> bool.
  Variable dh : Z -> Z -> Z.
  Variable kdf : Z -> Z -> Z.
  Variable parse : list byte -> hmsg SIG.
  Variable ser_shello : Z -> sh_payload -> SIG -> list byte.
  Variable ser_chal : Z -> list byte.

  Notation hstate := (hstate SIG).
  Notation hmsg := (hmsg SIG).
  Notation oracle_of := (oracle_of SIG pub sign verify dh kdf ser_shello ser_chal).
  Notation hs_step := (hs_step SIG pub sign verify dh kdf ser_shello ser_chal).
  Notation hstep := (hstep SIG pub sign verify dh kdf parse ser_shello ser_chal).

  (* one logged handshake message: the state it is processed in, its type, its content *)
  Definition hentry : Type := hstate * ptype * hmsg.

  (* the state in which message number w_seq m is dispatched: the message bitfield is updated first *)
  Definition with_bf (s : hstate) (bf : bitfield) : hstate := s <| h_conn := (h_conn s) <| c_bf_msg := bf |> |>.

  (* one message of Handshake.hwalk (bf = the updated message bitfield) *)
  Definition hmsg1 (s : hstate) (now : Z) (m : wmsg) (bf : bitfield) : hstate * list out :=
    let c := (h_conn s) <| c_bf_msg := bf |> in
    let hm := parse (w_payload m) in
    let o := oracle_of s (w_type m) hm in
    let '(c1, o1) :=
      match w_type m with
      | APP => (recv_app c (w_seq m) (w_payload m), [])
      | APP_FRAGMENT => recv_fragment c now (w_seq m) (w_payload m)
      | DISCONNECT => (c <| c_status := DISCONNECTING |>, [])
      | KEEP_ALIVE | UNKNOWN => (c, [])
      | t => recv_handshake c t o
      end in
    (if is_hs (w_type m) then note SIG s (w_type m) hm o c1 o1 else s <| h_conn := c1 |>, o1).

  (* the log of Handshake.hwalk *)
  Fixpoint lwalk (s : hstate) (now : Z) (ms : list wmsg) : list hentry :=
    match ms with
    | [] => []
    | m :: r =>
        match bf_insert (c_bf_msg (h_conn s)) (w_seq m) with
        | Err _ => lwalk s now r
        | Ok bf =>
            let '(s1, o1) := hmsg1 s now m bf in
            let en := if is_hs (w_type m) then [(with_bf s bf, w_type m, parse (w_payload m))] else [] in
            if raised o1 then en else en ++ lwalk s1 now r
        end
    end.

  (* ... of Handshake.hrecv *)
  Definition recv_log (s : hstate) (now : Z) (d : dgram) : list hentry :=
    let c := h_conn s in
    if keyless_refuses c (d_hdr d) then [] else
    match open_dgram (c_key c) d with
    | Err _ => []
    | Ok ms =>
        match bf_insert (c_bf_pkt c) (h_seq (d_hdr d)) with
        | Err _ => []
        | Ok bf =>
            let c := c <| c_bf_pkt := bf |> <| c_received := c_received c + 1 |> <| c_last_recv := now |> in
            let '(c1, _) := handle_ack_bits c (d_hdr d) in
            lwalk (s <| h_conn := c1 |>) now ms
        end
    end.

  (* ... of Handshake.hstep *)
  Definition ev_log (s : hstate) (x : hev) : list hentry :=
    match x with
    | HRecv now d => recv_log s now d
    | HTick now (HxDgram d) =>
        let c0 := fst (client_update (h_conn s) now) in
        if status_eqb (c_status c0) DROPPED then [] else recv_log (s <| h_conn := c0 |>) now d
    | _ => []
    end.

  Definition hev_dgram (x : hev) : option dgram :=
    match x with HRecv _ d => Some d | HTick _ (HxDgram d) => Some d | _ => None end.

  (* a ghost log entry: carrying datagram, key held when it arrived, the handshake message *)
  Definition jentry : Type := dgram * option Z * hentry.

  Definition tag_log (s : hstate) (x : hev) : list jentry :=
    match hev_dgram x with
    | Some d => map (fun en => (d, c_key (h_conn s), en)) (ev_log s x)
    | None => []
    end.

  Record hnet := {
    jA : hstate; jB : hstate;
    jAB : list dgram;            (* everything A has ever emitted *)
    jBA : list dgram;            (* everything B has ever emitted *)
    gA : list jentry;            (* ghost: every handshake message A has processed *)
    gB : list jentry             (* ghost: every handshake message B has processed *)
  }.

  Inductive jev := JA (x : hev) | JB (x : hev).

  Definition jstep (e : env) (n : hnet) (v : jev) : hnet :=
    match v with
    | JA x =>
        let '(a', o) := hstep e (jA n) x in
        {| jA := a'; jB := jB n; jAB := jAB n ++ flat_map dg_of o; jBA := jBA n;
           gA := gA n ++ tag_log (jA n) x; gB := gB n |}
    | JB x =>
        let '(b', o) := hstep e (jB n) x in
        {| jA := jA n; jB := b'; jAB := jAB n; jBA := jBA n ++ flat_map dg_of o;
           gA := gA n; gB := gB n ++ tag_log (jB n) x |}
    end.

  Definition jrun (e : env) (n : hnet) (vs : list jev) : hnet := fold_left (jstep e) vs n.

  Definition hnet0 (a : Z) (pinned : option Z) (b root : Z) (rand : list (Z * Z)) : hnet :=
    {| jA := client0 SIG a pinned; jB := server0 SIG b root rand; jAB := []; jBA := []; gA := []; gB := [] |}.

  (* the Net.v joint state and event this is (sentA / dlvB are not tracked here) *)
  Definition net_of (n : hnet) : net :=
    {| nA := h_conn (jA n); nB := h_conn (jB n); wAB := jAB n; wBA := jBA n; sentA := []; dlvB := [] |}.
  Definition nev_of (n : hnet) (v : jev) : nev :=
    match v with
    | JA x => NA (ev_of SIG pub sign verify dh kdf parse ser_shello ser_chal (jA n) x)
    | JB x => NB (ev_of SIG pub sign verify dh kdf parse ser_shello ser_chal (jB n) x)
    end.

  (* ---------- what the log entries mean ---------- *)

  (* the (client public key answered, payload signed with the root key) of a logged client hello:
     _recvClientHello past the version check builds and signs exactly this HandshakeServerHelloMessage *)
  Definition signed_of (en : hentry) : list (Z * sh_payload) :=
    let '(s, ty, m) := en in
    match ty, m with
    | CLIENT_HELLO, MClientHello cpub ver true =>
        if c_server (h_conn s) && (ver =? h_version s) then
          [(cpub, {| sp_pub := pub (h_priv s); sp_salt := fst (hd (0, 0) (h_rand s));
                     sp_token := snd (hd (0, 0) (h_rand s)) |})]
        else []
    | _, _ => []
    end.

  Definition signed_log (g : list jentry) : list (Z * sh_payload) := flat_map (fun j => signed_of (snd j)) g.

  (* the entry is a server hello the client verifies (under the key it is configured with) and adopts *)
  Definition adopts (en : hentry) (rp : Z) (p : sh_payload) (sg : SIG) : Prop :=
    let '(s, ty, m) := en in
    ty = SERVER_HELLO /\ m = MServerHello rp p sg /\ c_server (h_conn s) = false /\
    verify (check_key s rp) sg p = true.

  (* the entry makes the endpoint report handler.connect *)
  Definition connects (en : hentry) : bool :=
    let '(s, ty, m) := en in has_connect (snd (hs_step s ty m)).

  (* the message travelled in the datagram, which opens under the key held at arrival *)
  Definition carried (j : jentry) : Prop :=
    let '(d, k0, (s, ty, m)) := j in
    exists ms w, open_dgram k0 d = Ok ms /\ In w ms /\ w_type w = ty /\ parse (w_payload w) = m.

  (* ---------- the attacker / schedule hypotheses ---------- *)

  (* m is a message of datagram d (whatever key d is opened with) *)
  Definition msg_in (d : dgram) (m : hmsg) : Prop :=
    exists ko ms w, open_dgram ko d = Ok ms /\ In w ms /\ parse (w_payload w) = m.

  (* the hellos the genuine server (the holder of the root private key) has built and signed: by B in
     this history (ghost log), and `other`, those of its other sessions, which the attacker may have
     recorded and may replay *)
  Definition genuine_payloads (other : list sh_payload) (n : hnet) : list sh_payload :=
    other ++ map snd (signed_log (gB n)).
  Definition genuine (root : Z) (other : list sh_payload) (n : hnet) : list hmsg :=
    map (fun p => MServerHello (pub root) p (sign root p)) (genuine_payloads other n).

  (* Dolev-Yao for one event: a server hello in a datagram presented to the client satisfies
     Handshake.attacker_hello with `seen` = the genuine hellos built so far — a signature under a key
     the attacker does not hold occurs only on a payload the key holder signed.  B's events are
     unconstrained. *)
  Definition dy_ev (root : Z) (akeys : list Z) (other : list sh_payload) (n : hnet) (v : jev) : Prop :=
    match v with
    | JA x => forall d m, hev_dgram x = Some d -> msg_in d m ->
                          attacker_hello SIG sign akeys (genuine root other n) m
    | JB _ => True
    end.

  Fixpoint dy_run (e : env) (root : Z) (akeys : list Z) (other : list sh_payload) (n : hnet) (vs : list jev) : Prop :=
    match vs with
    | [] => True
    | v :: r => dy_ev root akeys other n v /\ dy_run e root akeys other (jstep e n v) r
    end.

  (* what AES-GCM gives for B (Net.wf_ev): a datagram B can open under the key it holds was
     emitted by A.  Nothing is assumed while B holds no key, nor for A. *)
  Definition sealed_ev (n : hnet) (v : jev) : Prop :=
    match v with
    | JB x => forall d ms, hev_dgram x = Some d -> c_key (h_conn (jB n)) <> None ->
                           open_dgram (c_key (h_conn (jB n))) d = Ok ms -> In d (jAB n)
    | JA _ => True
    end.

  Fixpoint sealed_run (e : env) (n : hnet) (vs : list jev) : Prop :=
    match vs with
    | [] => True
    | v :: r => sealed_ev n v /\ sealed_run e (jstep e n v) r
    end.

  (* the session key a client with ephemeral private key a derives from a hello payload *)
  Definition client_key (a : Z) (p : sh_payload) : Z := kdf (dh a (sp_pub p)) (sp_salt p).
  (* ... a server-side connection with ephemeral private key b for client public key cpub *)
  Definition server_key (b cpub : Z) (p : sh_payload) : Z := kdf (dh b cpub) (sp_salt p).
End HsNet.

Arguments jA {SIG}.
Arguments jB {SIG}.
Arguments jAB {SIG}.
Arguments jBA {SIG}.
Arguments gA {SIG}.
Arguments gB {SIG}.
