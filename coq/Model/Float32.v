(* Float32.v — struct.pack('>f', x) / struct.unpack('>f', b) on IEEE bit patterns.
   binary64 -> binary32 is round-to-nearest-even (Flocq binary_normalize); a finite value that
   rounds to infinity is CPython's OverflowError; NaNs go through the hardware conversion
   (sign kept, quiet bit set, top payload bits kept).  binary32 -> binary64 is exact.
   Definitions only. *)
From Coq Require Import ZArith.
From Flocq Require Import Core.Zaux IEEE754.BinarySingleNaN IEEE754.Binary IEEE754.Bits.
From Model Require Import Base Ser.
Open Scope Z_scope.

Definition flocq_to32 (b : Z) : sres Z :=
  if f_is_nan b then
    SOk ((if f_neg b then 2 ^ 31 else 0) + 0x7FC00000 + (f_man b / 2 ^ 29) mod 2 ^ 22)
  else
    match b64_of_bits (b mod 2 ^ 64) with
    | B754_finite _ _ s m e _ =>
        let r := binary_normalize 24 128 eq_refl eq_refl mode_NE (cond_Zopp s (Zpos m)) e s in
        match r with
        | B754_infinity _ _ _ => SErr (SE EOverflow)
        | _ => SOk (bits_of_b32 r)
        end
    | B754_zero _ _ s => SOk (bits_of_b32 (B754_zero 24 128 s))
    | B754_infinity _ _ s => SOk (bits_of_b32 (B754_infinity 24 128 s))
    | B754_nan _ _ _ _ _ => SOk (bits_of_b32 (B754_zero 24 128 false))    (* NaN: handled above *)
    end.

Definition flocq_of32 (w : Z) : Z :=
  let e := (w / 2 ^ 23) mod 256 in
  let m := w mod 2 ^ 23 in
  if (e =? 255) && negb (m =? 0) then
    (if (w / 2 ^ 31) mod 2 =? 0 then 0 else 2 ^ 63) + 0x7FF8000000000000 + (m mod 2 ^ 22) * 2 ^ 29
  else
    match b32_of_bits (w mod 2 ^ 32) with
    | B754_finite _ _ s m e _ =>
        bits_of_b64 (binary_normalize 53 1024 eq_refl eq_refl mode_NE (cond_Zopp s (Zpos m)) e s)
    | B754_zero _ _ s => bits_of_b64 (B754_zero 53 1024 s)
    | B754_infinity _ _ s => bits_of_b64 (B754_infinity 53 1024 s)
    | B754_nan _ _ _ _ _ => 0x7FF8000000000000      (* handled above *)
    end.

Definition flocq_fc : fconv := {| to32 := flocq_to32; of32 := flocq_of32 |}.
