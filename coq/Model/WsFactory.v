(* WsFactory.v — the public constructors of WebSocketFrame (mpgameserver/http_server.py:
   WebSocketFrame.Ping / Pong / Close / Text / Binary) and the send path of the handler
   (WebSocketTemporaryHandler.send / close), on top of Model/WsFrame.v.   Definitions only.
   A Python str is a list of code points (Model/Utf8.v: str.encode("utf-8"), UnicodeEncodeError for a
   lone surrogate).  Every factory sets fin = 1, leaves rsv / mask / masking_key at the defaults of
   WebSocketFrame.__init__ and sets payload_length = len(payload) IN BYTES. *)
From Model Require Import Base Utf8 WsFrame.
Open Scope Z_scope.

Definition factory_frame (op : opcode) (payload : list byte) : frame :=
  {| f_fin := 1; f_rsv1 := 0; f_rsv2 := 0; f_rsv3 := 0; f_opcode := op; f_mask := 0; f_key := zero_key;
     f_plen := len payload; f_payload := payload |}.

Definition ws_ping (m : list byte) : frame := factory_frame OpPing m.
Definition ws_pong (m : list byte) : frame := factory_frame OpPong m.
Definition ws_binary (m : list byte) : frame := factory_frame OpBinary m.
(* Close(status, message): struct.pack("!H", status) + message *)
Definition ws_close (status : Z) (m : list byte) : res frame :=
  do h <- pack_H status; Ok (factory_frame OpClose (h ++ m)).
(* Text(message): message.encode("utf-8") *)
Definition ws_text (s : list Z) : res frame :=
  match utf8_encode s with
  | Some b => Ok (factory_frame OpText b)
  | None => Err EUnicode
  end.

(* the default arguments: Ping() / Pong() carry b"hello", Close() is (200, b"OK"), Text() / Binary() are empty *)
Definition hello : list byte := ["h"; "e"; "l"; "l"; "o"]%byte.

(* WebSocketTemporaryHandler.send(message) for a str: the bytes written to the socket *)
Definition ws_send (s : list Z) : res (list byte) :=
  do f <- ws_text s; encode_frame f.

(* a sequence of handler calls: send(str) / close(); the bytes written, the closed flag, and the error
   that ended the sequence (an exception leaves what was written before it on the socket) *)
Inductive hop := HSend (s : list Z) | HClose.

Fixpoint ws_out (closed : bool) (ops : list hop) : list byte * bool * option err :=
  match ops with
  | [] => ([], closed, None)
  | HSend s :: r =>
      match ws_send s with
      | Ok b => let '(w, c, e) := ws_out closed r in (b ++ w, c, e)
      | Err e => ([], closed, Some e)
      end
  | HClose :: r =>
      let '(w, c, e) := ws_out true r in ((if closed then [] else close_bytes) ++ w, c, e)
  end.

(* ---------- specification side ---------- *)
(* a frame one of the public constructors returned *)
Definition built_by_factory (f : frame) : Prop :=
  (exists m, f = ws_ping m) \/ (exists m, f = ws_pong m) \/ (exists m, f = ws_binary m) \/
  (exists st m, ws_close st m = Ok f) \/ (exists s, ws_text s = Ok f).
