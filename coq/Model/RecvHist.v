(* RecvHist.v — vocabulary for C04 (at-most-once delivery): receive histories annotated with the
   sender's true (unbounded) datagram / message indices, the in-window hypothesis, and the
   instrumented receive functions that report which message indices were processed.
   Definitions only. *)
From RecordUpdate Require Import RecordUpdate.
From Model Require Import Base SeqNum Wire Conn RecvSpec.
Import RecordSetNotations.
Open Scope Z_scope.

(* ---------- the abstract window over true indices, started empty ---------- *)

(* None: nothing received yet; Some (m, acc): newest index m, set of accepted indices acc.
   (Same specification as SeqNum.spec_hist, which starts after the first insertion.) *)
Definition wstate := option (Z * list Z).

Definition w_dup (nb : Z) (st : wstate) (n : Z) : bool :=
  match st with None => false | Some (m, acc) => spec_dup nb m acc n end.

Definition w_next (nb : Z) (st : wstate) (n : Z) : wstate :=
  match st with
  | None => Some (n, [n])
  | Some (m, acc) => Some (Z.max m n, if spec_dup nb m acc n then acc else n :: acc)
  end.

(* duplicate flags of a history: flagged = received before and within nb of the newest *)
Fixpoint w_hist (nb : Z) (st : wstate) (h : list Z) : list bool :=
  match h with [] => [] | n :: h' => w_dup nb st n :: w_hist nb (w_next nb st n) h' end.

Fixpoint w_final (nb : Z) (st : wstate) (h : list Z) : wstate :=
  match h with [] => st | n :: h' => w_final nb (w_next nb st n) h' end.

(* the half-range hypothesis: every arrival is within HALF of the newest index so far *)
Definition w_ok (st : wstate) (n : Z) : Prop :=
  1 <= n /\ match st with None => True | Some (m, _) => Z.abs (n - m) <= HALF end.
Fixpoint w_half (nb : Z) (st : wstate) (h : list Z) : Prop :=
  match h with [] => True | n :: h' => w_ok st n /\ w_half nb (w_next nb st n) h' end.

(* the in-window hypothesis: whenever an index arrives that was accepted before, the newest
   index is at most nb ahead of it (the copy is still inside the window) *)
Fixpoint w_inwin (nb : Z) (st : wstate) (h : list Z) : Prop :=
  match h with
  | [] => True
  | n :: h' =>
      match st with None => True | Some (m, acc) => In n acc -> m - n <= nb end
      /\ w_inwin nb (w_next nb st n) h'
  end.

(* the indices of a history that were NOT flagged *)
Fixpoint fresh_of (flags : list bool) (h : list Z) : list Z :=
  match flags, h with
  | f :: fs, n :: h' => if f then fresh_of fs h' else n :: fresh_of fs h'
  | _, _ => []
  end.

(* ---------- annotated arrivals ---------- *)

(* one call of _recv_datagram, with the sender's true datagram index and the true indices of
   the messages it carries *)
Record arrival := { a_now : Z; a_d : dgram; a_orcs : list hs_oracle; a_n : Z; a_js : list Z }.

(* message types of an established connection's traffic *)
Definition data_type (t : ptype) : bool :=
  match t with APP | APP_FRAGMENT | KEEP_ALIVE | DISCONNECT | UNKNOWN => true | _ => false end.

Definition data_msg (m : wmsg) : bool :=
  data_type (w_type m) && (negb (ptype_eqb (w_type m) APP_FRAGMENT) || (6 <=? len (w_payload m))).

(* a well-formed authentic arrival for key k: sealed under k with its own header, decodable,
   header / message sequence numbers are the wire images of the true indices, data messages only *)
Definition good (k : Z) (a : arrival) : Prop :=
  1 <= a_n a /\ h_seq (d_hdr (a_d a)) = wire (a_n a)
  /\ exists ms, open_dgram (Some k) (a_d a) = Ok ms
       /\ map w_seq ms = map wire (a_js a) /\ Forall (fun j => 1 <= j) (a_js a)
       /\ forallb data_msg ms = true.

(* ---------- instrumented receive: which message indices got past the message window ---------- *)

Fixpoint recv_msgs_g (c : conn) (now : Z) (ms : list (wmsg * Z)) (orcs : list hs_oracle)
  : conn * list out * list Z :=
  match ms with
  | [] => (c, [], [])
  | (m, j) :: r =>
      match bf_insert (c_bf_msg c) (w_seq m) with
      | Err _ => recv_msgs_g c now r (if is_hs (w_type m) then tl orcs else orcs)
      | Ok bf =>
          let c := c <| c_bf_msg := bf |> in
          let '(c1, o1, orcs') :=
            match w_type m with
            | APP => (recv_app c (w_seq m) (w_payload m), [], orcs)
            | APP_FRAGMENT => let '(c', o') := recv_fragment c now (w_seq m) (w_payload m) in (c', o', orcs)
            | DISCONNECT => (c <| c_status := DISCONNECTING |>, [], orcs)
            | KEEP_ALIVE | UNKNOWN => (c, [], orcs)
            | t => let '(c', o') := recv_handshake c t (hd no_oracle orcs) in (c', o', tl orcs)
            end in
          if raised o1 then (c1, o1, [j])
          else let '(c2, o2, p2) := recv_msgs_g c1 now r orcs' in (c2, o1 ++ o2, j :: p2)
      end
  end.

(* recv with two extra results: was the datagram accepted (it got past decoding and the datagram
   window), and the true indices of the messages that were processed *)
Definition recv_g (c : conn) (a : arrival) : conn * list out * bool * list Z :=
  let d := a_d a in
  if keyless_refuses c (d_hdr d) then (bump c, [ORet false], false, []) else
  match open_dgram (c_key c) d with
  | Err _ => (bump c, [ORet false], false, [])
  | Ok ms =>
      match bf_insert (c_bf_pkt c) (h_seq (d_hdr d)) with
      | Err _ => (bump c, [ORet false], false, [])
      | Ok bf =>
          let c := c <| c_bf_pkt := bf |> <| c_received := c_received c + 1 |> <| c_last_recv := a_now a |> in
          let '(c1, o1) := handle_ack_bits c (d_hdr d) in
          let '(c2, o2, p) := recv_msgs_g c1 (a_now a) (combine ms (a_js a)) (a_orcs a) in
          (c2, o1 ++ o2 ++ (if raised o2 then [] else [ORet true]), true, p)
      end
  end.

(* a whole receive history: final state, accepted datagram indices, processed message indices
   (both in arrival order) *)
Fixpoint run_g (c : conn) (l : list arrival) : conn * list Z * list Z :=
  match l with
  | [] => (c, [], [])
  | a :: r =>
      let '(c1, _, acc, p) := recv_g c a in
      let '(c2, ns, js) := run_g c1 r in
      (c2, (if acc then a_n a :: ns else ns), p ++ js)
  end.

(* the plain run it instruments *)
Fixpoint run_recv (c : conn) (l : list arrival) : conn * list (list out) :=
  match l with
  | [] => (c, [])
  | a :: r => let '(c1, o) := recv c (a_now a) (a_d a) (a_orcs a) in
              let '(c2, os) := run_recv c1 r in (c2, o :: os)
  end.

(* the message indices presented to the message window by a history: those of the datagrams the
   datagram window did not flag *)
Fixpoint presented (flags : list bool) (l : list arrival) : list Z :=
  match flags, l with
  | f :: fs, a :: r => if f then presented fs r else a_js a ++ presented fs r
  | _, _ => []
  end.

(* ---------- decidable versions (used for concrete witnesses) ---------- *)

Fixpoint Zlist_eqb (a b : list Z) : bool :=
  match a, b with
  | [], [] => true
  | x :: a', y :: b' => (x =? y) && Zlist_eqb a' b'
  | _, _ => false
  end.

Definition goodb (k : Z) (a : arrival) : bool :=
  (1 <=? a_n a) && (h_seq (d_hdr (a_d a)) =? wire (a_n a))
  && match open_dgram (Some k) (a_d a) with
     | Ok ms => Zlist_eqb (map w_seq ms) (map wire (a_js a)) && forallb (fun j => 1 <=? j) (a_js a)
                && forallb data_msg ms
     | Err _ => false
     end.

Definition w_okb (st : wstate) (n : Z) : bool :=
  (1 <=? n) && match st with None => true | Some (m, _) => Z.abs (n - m) <=? HALF end.
Fixpoint w_halfb (nb : Z) (st : wstate) (h : list Z) : bool :=
  match h with [] => true | n :: h' => w_okb st n && w_halfb nb (w_next nb st n) h' end.

Fixpoint w_inwinb (nb : Z) (st : wstate) (h : list Z) : bool :=
  match h with
  | [] => true
  | n :: h' =>
      match st with None => true | Some (m, acc) => negb (existsb (Z.eqb n) acc) || (m - n <=? nb) end
      && w_inwinb nb (w_next nb st n) h'
  end.

(* ---------- the D16 witness: replay after the windows have moved on ---------- *)

Definition wit_hdr (seq : Z) (count ln : Z) : header :=
  {| h_to_server := true; h_ctime := 0; h_seq := seq; h_ack := 0; h_type := APP;
     h_len := ln; h_count := count; h_ackbits := 0 |}.

Definition wit_dgram (n : Z) (ms : list wmsg) : dgram :=
  let p := match encode_msgs ms with Ok p => p | Err _ => [] end in
  {| d_hdr := wit_hdr (wire n) (len ms) (len p); d_body := Sealed 7 (wit_hdr (wire n) (len ms) (len p)) p |}.

Definition wit_msg (j : Z) : wmsg := {| w_seq := wire j; w_type := APP; w_payload := be 4 j |}.

Definition wit_arrival (n : Z) (js : list Z) : arrival :=
  {| a_now := 0; a_d := wit_dgram n (map wit_msg js); a_orcs := []; a_n := n; a_js := js |}.

Fixpoint zrange (from : Z) (count : nat) : list Z :=
  match count with O => [] | S k => from :: zrange (from + 1) k end.

(* datagram 1 carries message 1; datagrams 2..(1+gap) carry per messages each; then datagram 1 again *)
Definition wit_history (gap : nat) (per : nat) : list arrival :=
  wit_arrival 1 [1]
  :: map (fun i => wit_arrival (2 + i) (zrange (2 + i * Z.of_nat per) per)) (zrange 0 gap)
  ++ [wit_arrival 1 [1]].

Definition wit_conn : conn := (conn0 true) <| c_key := Some 7 |> <| c_status := CONNECTED |>.

Definition count_delivered (j : Z) (c : conn) : Z :=
  len (filter (fun e => (fst e =? wire j) && bytes_eqb (snd e) (be 4 j)) (c_incoming c)).
