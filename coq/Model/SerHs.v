(* SerHs.v — what ServerClientConnection does with the bytes of the two handshake messages it
   decodes (mpgameserver/connection.py, _recvClientHello and _recvChallengeResponse): both call
   Serializable.loadb(data) with the global registry — ANY registered type decodes — and then read
   an attribute of whatever came back.  Definitions only.

   Assumption on the registry (true of the library's own classes): HandshakeClientHelloMessage is
   the only registered class with an attribute `client_version`; tok gives, per class id, the
   position of a field named `token` (HandshakeClientChallengeResponseMessage: field 0). *)
From Model Require Import Base Utf8 Ser.
Open Scope Z_scope.

Inductive hs_out :=
  | HsAccept (v : value)      (* hello: version matched, key parsed, handshake continues with v
                                 challenge: token matched (a mismatch raises NameError: the
                                 failure branch names an undefined variable, as Conn.v records) *)
  | HsIgnore                  (* hello: other version (silently dropped) *)
  | HsRaise (e : serr).       (* exception leaves the receiver (the server loop logs it) *)

Section Hs.
  Variable fc : fconv.
  Variable pk : value -> option serr.
  Variable reg : registry.
  Variable tok : Z -> option nat.

  (* x != 1 / n == x for a decoded x: SerializableEnum's comparison operators read other.value *)
  Definition eq_int (x : value) (n : Z) : sres bool :=
    match x with
    | VEnum _ _ => SErr (SE EAttr)
    | _ => match as_num x with Some y => SOk (num_eq y (NI n)) | None => SOk false end
    end.

  Definition client_version (v : value) : option value :=
    match v with
    | VObj t [_; ver] => match reg_find reg t with Some (CClientHello _) => Some ver | _ => None end
    | _ => None
    end.

  Definition recv_client_hello (fuel : nat) (version : Z) (data : list byte) : hs_out :=
    match decode fc pk reg fuel data with
    | SErr e => HsRaise e
    | SOk (v, _) =>
        match client_version v with
        | None => HsRaise (SE EAttr)
        | Some ver =>
            match eq_int ver version with
            | SErr e => HsRaise e
            | SOk true => HsAccept v
            | SOk false => HsIgnore
            end
        end
    end.

  Definition token_of (v : value) : option value :=
    match v with
    | VObj t fs => match tok t with Some i => nth_error fs i | None => None end
    | _ => None
    end.

  Definition recv_challenge (fuel : nat) (expected : Z) (data : list byte) : hs_out :=
    match decode fc pk reg fuel data with
    | SErr e => HsRaise e
    | SOk (v, _) =>
        match token_of v with
        | None => HsRaise (SE EAttr)
        | Some tv =>
            match eq_int tv expected with
            | SErr e => HsRaise e
            | SOk true => HsAccept v
            | SOk false => HsRaise SName   (* `client.log.warning(...)`: `client` is not defined there *)
            end
        end
    end.
End Hs.
