(* Persist.v — the persistent format of mpgameserver/serializable.py: serialize_registry /
   Serializable.store_persistant (writer) and deserialize_registry / Serializable.load_persistant
   (reader).  A stored record is   <count> (<type id> <class name>)*count <value>   — every part an
   ordinary encoded value.  The reader builds a LOCAL table  stored type id -> class  from the names it
   knows (SerializableType.names) and decodes the value with that table instead of
   SerializableType.registry; the process-wide tables are only read.  Definitions only.

   tables of the reading process:  reg   : SerializableType.registry  (type id -> class description)
                                   names : SerializableType.names     (class name -> the class, given by
                                           the type id that class carries in this process)
   Modelled quirks: the count is not capped (the loop ends with the stream: every iteration decodes two
   values, i.e. consumes at least four bytes, so at most |left|/4 + 1 iterations can begin — the model
   iterates min(count, |left|/2 + 1) times, which is the same thing); a count that is not an int/bool is
   range()'s TypeError; an entry whose name is not a known class name is skipped, whatever its id; a name
   that is unhashable is TypeError, a SerializableEnum name whose value is a known class name is
   AttributeError (SerializableEnum.__eq__ against a str); a later entry for the same id wins; a float id
   equal to an integer is that integer's entry; ids that can never equal a 16-bit type id read from the
   stream (None, str, bytes, non-integral floats, objects) are inert.
   Outside the model (explicit SE EOther): a stored id that is a SerializableEnum member (a later lookup
   of an equal int raises from SerializableEnum.__eq__), and a name table that points to an id the
   registry does not have. *)
From Model Require Import Base Utf8 Ser Registry.
Open Scope Z_scope.

Notation "'dop' x <- r ; k" := (mbind r (fun x => k)) (at level 200, x pattern, r at level 100, k at level 200).

Definition ntable := list (list Z * Z).
Fixpoint names_find (s : list Z) (l : ntable) : option Z :=
  match l with
  | [] => None
  | (s', t) :: r => if list_eqb Z.eqb s' s then Some t else names_find s r
  end.

(* the integer a binary64 is equal to, if any (CPython: 261.0 == 261 and hash(261.0) == hash(261)) *)
Definition f_to_int (b : Z) : option Z :=
  if f_exp b =? 2047 then None
  else
    let mm := if f_exp b =? 0 then f_man b else f_man b + 2 ^ 52 in
    let ee := if f_exp b =? 0 then -1074 else f_exp b - 1075 in
    let a := if 0 <=? ee then Some (mm * 2 ^ ee)
             else if mm mod 2 ^ (- ee) =? 0 then Some (mm / 2 ^ (- ee)) else None in
    match a with Some z => Some (if f_neg b then - z else z) | None => None end.

(* A decoded instance is an instance of the class found by NAME, so it carries the id that class has in this
   process, whatever id stood in the stream; field values the stream did not supply are the class's defaults
   and carry this process's ids anyway.  dec_value labels an instance with the id it read (always < 65536):
   the defaults inside the local table are tagged (+65536) so that the two kinds can be told apart afterwards. *)
Definition TAG : Z := 65536.
Fixpoint retag (v : value) : value :=
  match v with
  | VList l => VList (map retag l)
  | VTuple l => VTuple (map retag l)
  | VSet l => VSet (map retag l)
  | VDict kv => VDict (map (fun p => (retag (fst p), retag (snd p))) kv)
  | VObj t fs => VObj (t + TAG) (map retag fs)
  | VEnum t x => VEnum (t + TAG) (retag x)
  | _ => v
  end.
Definition retag_cls (c : cls) : cls :=
  match c with CObj defs => CObj (map retag defs) | _ => c end.
Definition cur_id (m : list (Z * Z)) (t : Z) : Z :=
  if TAG <=? t then t - TAG else match rget t m with Some c => c | None => t end.
Fixpoint rename (m : list (Z * Z)) (v : value) : value :=
  match v with
  | VList l => VList (map (rename m) l)
  | VTuple l => VTuple (map (rename m) l)
  | VSet l => VSet (map (rename m) l)
  | VDict kv => VDict (map (fun p => (rename m (fst p), rename m (snd p))) kv)
  | VObj t fs => VObj (cur_id m t) (map (rename m) fs)
  | VEnum t x => VEnum (cur_id m t) (rename m x)
  | _ => v
  end.

Section Persist.
  Variable fc : fconv.
  Variable pk : value -> option serr.
  Variable reg : registry.
  Variable names : ntable.

  (* `if cls_name in SerializableType.names: obj[type_id] = SerializableType.names[cls_name]` *)
  Definition known_name (nm : value) : sres (option Z) :=
    if negb (hashable nm) then SErr (SE EType)
    else match nm with
         | VStr s => SOk (names_find s names)
         | VEnum _ _ =>
             match strip nm with
             | VStr s => match names_find s names with Some _ => SErr (SE EAttr) | None => SOk None end
             | _ => SOk None
             end
         | _ => SOk None
         end.

  Definition dreg_put (acc : list (Z * Z)) (tid nm : value) : sres (list (Z * Z)) :=
    dos k <- known_name nm;
    match k with
    | None => SOk acc
    | Some c =>
        if negb (hashable tid) then SErr (SE EType)
        else match tid with
             | VInt z => SOk (rset z c acc)
             | VBool b => SOk (rset (if b then 1 else 0) c acc)
             | VFloat b => match f_to_int b with Some z => SOk (rset z c acc) | None => SOk acc end
             | VEnum _ _ => SErr (SE EOther)
             | _ => SOk acc
             end
    end.

  Fixpoint dreg_loop (sub : M value) (n : nat) (acc : list (Z * Z)) : M (list (Z * Z)) :=
    match n with
    | O => ret acc
    | S k => dop t <- sub; dop nm <- sub; dop acc' <- lift (dreg_put acc t nm); dreg_loop sub k acc'
    end.

  (* deserialize_registry(stream): values are decoded with the process-wide registry *)
  Definition dec_registry (fuel : nat) : M (list (Z * Z)) :=
    let sub := dec_value fc pk reg fuel in
    dop lv <- sub;
    match as_len lv with
    | None => fail (SE EType)
    | Some n => dop nleft <- m_left; dreg_loop sub (Z.to_nat (Z.min n (nleft / 2 + 1))) []
    end.

  (* the local table: stored id -> the class this process knows under that name *)
  Definition local_registry (m : list (Z * Z)) : sres registry :=
    mapM (fun p => match reg_find reg (snd p) with
                   | Some c => SOk (fst p, retag_cls c)
                   | None => SErr (SE EOther)
                   end) m.

  (* Serializable.load_persistant(stream) *)
  Definition load_persistant (fuel : nat) : M value :=
    dop m <- dec_registry fuel;
    dop reg' <- lift (local_registry m);
    dop v <- dec_value fc pk reg' fuel;
    ret (rename m v).

  (* the tables after the call: load_persistant only reads them *)
  Definition tables_after_load : registry * ntable := (reg, names).

  (* serialize_registry(stream): count, then (type id, class name) per registered class, dict order.
     cname : the __name__ of the class registered under an id *)
  Definition enc_registry (cname : Z -> list Z) : sres (list byte) :=
    dos h <- enc_int (len reg);
    dos body <- mapM (fun p => dos a <- enc_int (fst p); dos b <- enc fc reg (VStr (cname (fst p))); SOk (a ++ b)) reg;
    SOk (h ++ concat body).

  (* Serializable.store_persistant(stream) *)
  Definition store_persistant (cname : Z -> list Z) (v : value) : sres (list byte) :=
    dos h <- enc_registry cname; dos b <- enc fc reg v; SOk (h ++ b).
End Persist.
