(* WsFrame.v — executable model of the WebSocket code of mpgameserver/http_server.py AFTER the
   D13 repairs: WebSocketFrame.serializeHeader / serializeDataHeader / writeData (writeFrame),
   readHeader / parseHeader / readDataHeader / readData (readFrame) over the
   WebSocketTemporaryRingBuffer, WebSocketTemporaryHandler._frameAvailable / __call__ / close.
   Definitions only. *)
From Model Require Import Base.
Open Scope Z_scope.

(* ---------- bytes ---------- *)
(* struct.pack("!H"/"!Q") : n bytes, big endian; struct.unpack likewise *)
Fixpoint be_enc (n : nat) (z : Z) : list byte :=
  match n with O => [] | S n' => be_enc n' (z / 256) ++ [byte_of_Z z] end.
Definition be_dec (l : list byte) : Z := fold_left (fun acc b => acc * 256 + Z_of_byte b) l 0.

(* b ^ k on bytes *)
Definition xor_byte (a b : byte) : byte :=
  let '(a0, (a1, (a2, (a3, (a4, (a5, (a6, a7))))))) := Byte.to_bits a in
  let '(b0, (b1, (b2, (b3, (b4, (b5, (b6, b7))))))) := Byte.to_bits b in
  Byte.of_bits (xorb a0 b0, (xorb a1 b1, (xorb a2 b2, (xorb a3 b3,
               (xorb a4 b4, (xorb a5 b5, (xorb a6 b6, xorb a7 b7))))))).

(* payload[i] ^ key[i % 4] for i = 0, 1, ... with the key rotated as we go *)
Fixpoint xor_cycle (k0 k1 k2 k3 : byte) (p : list byte) : list byte :=
  match p with
  | [] => []
  | a :: p' => xor_byte a k0 :: xor_cycle k1 k2 k3 k0 p'
  end.

(* the masking loop; key[i%4] raises IndexError when the key is shorter than the index used *)
Definition mask_payload (key p : list byte) : res (list byte) :=
  if (4 <=? len key) || (len p <=? len key)
  then Ok (xor_cycle (nth 0 key x00) (nth 1 key x00) (nth 2 key x00) (nth 3 key x00) p)
  else Err EIndex.

(* buf[:n], buf[n:] with an integer count (n may be as large as 2^64) *)
Fixpoint takeZ {A} (n : Z) (l : list A) : list A :=
  match l with [] => [] | a :: l' => if n <=? 0 then [] else a :: takeZ (n - 1) l' end.
Fixpoint dropZ {A} (n : Z) (l : list A) : list A :=
  match l with [] => [] | a :: l' => if n <=? 0 then l else dropZ (n - 1) l' end.

(* ---------- frames ---------- *)
Inductive opcode := OpOpen | OpClose | OpPing | OpPong | OpText | OpBinary.
Definition opcode_val (o : opcode) : Z :=
  match o with OpOpen => 255 | OpClose => 8 | OpPing => 9 | OpPong => 10 | OpText => 1 | OpBinary => 2 end.
(* WebSocketOpCode(n) : ValueError when n is not a member *)
Definition opcode_of_Z (z : Z) : res opcode :=
  if z =? 255 then Ok OpOpen else if z =? 8 then Ok OpClose else if z =? 9 then Ok OpPing
  else if z =? 10 then Ok OpPong else if z =? 1 then Ok OpText else if z =? 2 then Ok OpBinary
  else Err EValue.
Definition opcode_eqb (a b : opcode) : bool := opcode_val a =? opcode_val b.

Record frame := {
  f_fin : Z; f_rsv1 : Z; f_rsv2 : Z; f_rsv3 : Z;
  f_opcode : opcode;
  f_mask : Z;
  f_key : list byte;          (* masking_key *)
  f_plen : Z;                 (* payload_length *)
  f_payload : list byte }.

Definition zero_key : list byte := [x00; x00; x00; x00].

(* struct.pack("BB", a, b) *)
Definition pack_BB (a b : Z) : res (list byte) :=
  if (0 <=? a) && (a <=? 255) && (0 <=? b) && (b <=? 255) then Ok [byte_of_Z a; byte_of_Z b] else Err EStruct.
Definition pack_H (z : Z) : res (list byte) :=
  if (0 <=? z) && (z <=? 65535) then Ok (be_enc 2 z) else Err EStruct.
Definition pack_Q (z : Z) : res (list byte) :=
  if (0 <=? z) && (z <? 2 ^ 64) then Ok (be_enc 8 z) else Err EStruct.

Definition length_code (plen : Z) : Z :=
  if plen <=? 125 then plen else if plen <=? 65535 then 126 else 127.

Definition serialize_header (f : frame) : res (list byte) :=
  let flags := Z.lor (Z.shiftl (f_fin f) 7) (Z.lor (Z.shiftl (f_rsv1 f) 6) (Z.lor (Z.shiftl (f_rsv2 f) 5)
               (Z.lor (Z.shiftl (f_rsv3 f) 4) (opcode_val (f_opcode f))))) in
  let length := Z.lor (length_code (f_plen f)) (Z.shiftl (f_mask f) 7) in
  pack_BB flags length.

Definition serialize_data_header (f : frame) : res (list byte) :=
  do ext <- (if f_plen f >? 125 then (if f_plen f <=? 65535 then pack_H (f_plen f) else pack_Q (f_plen f))
             else Ok []);
  Ok (ext ++ (if f_mask f =? 0 then [] else f_key f)).

Definition write_data (f : frame) : res (list byte) :=
  if f_mask f =? 0 then Ok (f_payload f) else mask_payload (f_key f) (f_payload f).

(* writeFrame: the concatenation of the three sendall calls (an error in a later step leaves the
   earlier writes on the socket; the unit reports the error only) *)
Definition encode_frame (f : frame) : res (list byte) :=
  do h <- serialize_header f;
  do d <- serialize_data_header f;
  do p <- write_data f;
  Ok (h ++ d ++ p).

(* readFrame over the ring buffer: result and the bytes left in the buffer (also on error) *)
Definition unpack_n (n : Z) (b : list byte) : res Z :=
  if len b =? n then Ok (be_dec b) else Err EStruct.

Definition parse_frame (buf : list byte) : res frame * list byte :=
  let hdr := takeZ 2 buf in let buf := dropZ 2 buf in
  match hdr with
  | [] => (Err EValue, buf)                       (* readHeader: "if not hdr: raise ValueError()" *)
  | [_] => (Err EStruct, buf)                     (* struct.unpack("!BB", one byte) *)
  | b0 :: b1 :: _ =>
      let flags := Z_of_byte b0 in let lb := Z_of_byte b1 in
      match opcode_of_Z (Z.land flags 15) with
      | Err e => (Err e, buf)
      | Ok op =>
          let mask := if Z.land lb 128 =? 0 then 0 else 1 in
          let lcode := Z.land lb 127 in
          (* readDataHeader *)
          let '(rlen, buf) :=
            if lcode =? 126 then (unpack_n 2 (takeZ 2 buf), dropZ 2 buf)
            else if lcode =? 127 then (unpack_n 8 (takeZ 8 buf), dropZ 8 buf)
            else (Ok lcode, buf) in
          match rlen with
          | Err e => (Err e, buf)
          | Ok plen =>
              let '(key, buf) := if mask =? 0 then (zero_key, buf) else (takeZ 4 buf, dropZ 4 buf) in
              (* readData *)
              let raw := takeZ plen buf in let buf := dropZ plen buf in
              match (if mask =? 0 then Ok raw else mask_payload key raw) with
              | Err e => (Err e, buf)
              | Ok payload =>
                  (Ok {| f_fin := Z.shiftr (Z.land flags 128) 7; f_rsv1 := Z.shiftr (Z.land flags 64) 6;
                         f_rsv2 := Z.shiftr (Z.land flags 32) 5; f_rsv3 := Z.shiftr (Z.land flags 16) 4;
                         f_opcode := op; f_mask := mask; f_key := key; f_plen := plen;
                         f_payload := payload |}, buf)
              end
          end
      end
  end.

(* ---------- bytes.decode("utf-8") succeeds?  (Unicode table 3-7, CPython's strict decoder) ---------- *)
Definition in_rng (lo hi : Z) (b : byte) : bool := let z := Z_of_byte b in (lo <=? z) && (z <=? hi).
Fixpoint utf8_valid (l : list byte) : bool :=
  match l with
  | [] => true
  | b :: l1 =>
      let z := Z_of_byte b in
      if z <? 128 then utf8_valid l1
      else if (194 <=? z) && (z <=? 223) then
        match l1 with c1 :: l2 => in_rng 128 191 c1 && utf8_valid l2 | _ => false end
      else if (224 <=? z) && (z <=? 239) then
        match l1 with
        | c1 :: c2 :: l3 =>
            (if z =? 224 then in_rng 160 191 c1 else if z =? 237 then in_rng 128 159 c1 else in_rng 128 191 c1)
            && in_rng 128 191 c2 && utf8_valid l3
        | _ => false
        end
      else if (240 <=? z) && (z <=? 244) then
        match l1 with
        | c1 :: c2 :: c3 :: l4 =>
            (if z =? 240 then in_rng 144 191 c1 else if z =? 244 then in_rng 128 143 c1 else in_rng 128 191 c1)
            && in_rng 128 191 c2 && in_rng 128 191 c3 && utf8_valid l4
        | _ => false
        end
      else false
  end.

(* ---------- the handler ---------- *)
(* WebSocketTemporaryHandler._frameAvailable *)
Definition frame_available (buf : list byte) : bool :=
  if len buf <? 2 then false
  else
    let b1 := Z_of_byte (nth 1 buf x00) in
    let lcode := Z.land b1 127 in
    let maskadd := if Z.land b1 128 =? 0 then 0 else 4 in
    if lcode =? 126 then
      if len buf <? 4 then false
      else len buf >=? 4 + maskadd + be_dec (takeZ 2 (dropZ 2 buf))
    else if lcode =? 127 then
      if len buf <? 10 then false
      else len buf >=? 10 + maskadd + be_dec (takeZ 8 (dropZ 2 buf))
    else len buf >=? 2 + maskadd + lcode.

(* WebSocketFrame.Close() : status 200, message b"OK", as written by close() *)
Definition close_frame : frame :=
  {| f_fin := 1; f_rsv1 := 0; f_rsv2 := 0; f_rsv3 := 0; f_opcode := OpClose; f_mask := 0; f_key := zero_key;
     f_plen := 4; f_payload := be_enc 2 200 ++ [byte_of_Z 79; byte_of_Z 75] |}.
Definition close_bytes : list byte :=
  match encode_frame close_frame with Ok b => b | Err _ => [] end.

Record ws := { w_buf : list byte; w_closed : bool }.
Record wsout := {
  o_delivered : list (opcode * list byte);   (* endpoint callback(opcode, payload); Text payloads as their utf-8 bytes *)
  o_written : list byte;                     (* bytes written to the socket (the Close reply) *)
  o_error : option err }.                    (* exception escaping __call__ *)

(* the while loop of __call__; every iteration consumes at least the 2 header bytes, so
   fuel = length of the buffer suffices; running out of fuel is reported as ERecursion *)
Fixpoint drain (fuel : nat) (st : ws) : ws * wsout :=
  if frame_available (w_buf st) then
    match fuel with
    | O => (st, {| o_delivered := []; o_written := []; o_error := Some ERecursion |})
    | S fuel' =>
        match parse_frame (w_buf st) with
        | (Err e, rest) => ({| w_buf := rest; w_closed := w_closed st |},
                            {| o_delivered := []; o_written := []; o_error := Some e |})
        | (Ok f, rest) =>
            let st1 := {| w_buf := rest; w_closed := w_closed st |} in
            if f_mask f =? 0 then (st1, {| o_delivered := []; o_written := []; o_error := Some EOther |})
            else if opcode_eqb (f_opcode f) OpText && negb (utf8_valid (f_payload f))
            then (st1, {| o_delivered := []; o_written := []; o_error := Some EUnicode |})
            else
              let closing := opcode_eqb (f_opcode f) OpClose in
              let wr := if closing && negb (w_closed st) then close_bytes else [] in
              let st2 := {| w_buf := rest; w_closed := w_closed st || closing |} in
              let '(st3, o) := drain fuel' st2 in
              (st3, {| o_delivered := (f_opcode f, f_payload f) :: o_delivered o;
                       o_written := wr ++ o_written o; o_error := o_error o |})
        end
    end
  else (st, {| o_delivered := []; o_written := []; o_error := None |}).

(* __call__(data) *)
Definition ws_call (st : ws) (data : list byte) : ws * wsout :=
  let buf := w_buf st ++ data in
  drain (S (length buf)) {| w_buf := buf; w_closed := w_closed st |}.

(* a whole connection: successive reads; an exception ends the run (Twisted drops the connection) *)
Fixpoint ws_feed (st : ws) (chunks : list (list byte)) : ws * wsout :=
  match chunks with
  | [] => (st, {| o_delivered := []; o_written := []; o_error := None |})
  | c :: cs =>
      let '(st1, o1) := ws_call st c in
      match o_error o1 with
      | Some _ => (st1, o1)
      | None =>
          let '(st2, o2) := ws_feed st1 cs in
          (st2, {| o_delivered := o_delivered o1 ++ o_delivered o2;
                   o_written := o_written o1 ++ o_written o2; o_error := o_error o2 |})
      end
  end.

(* ---------- specification side (RFC 6455 section 5.2), written independently ---------- *)
Definition bit (z : Z) : Prop := z = 0 \/ z = 1.
Definition wire_opcode (o : opcode) : Prop := o <> OpOpen.
Definition wf_frame (f : frame) : Prop :=
  bit (f_fin f) /\ bit (f_rsv1 f) /\ bit (f_rsv2 f) /\ bit (f_rsv3 f) /\ bit (f_mask f) /\
  wire_opcode (f_opcode f) /\ length (f_key f) = 4%nat /\
  f_plen f = len (f_payload f) /\ f_plen f < 2 ^ 63 /\
  (f_mask f = 0 -> f_key f = zero_key).

Definition rfc_encode (f : frame) : list byte :=
  let b0 := 128 * f_fin f + 64 * f_rsv1 f + 32 * f_rsv2 f + 16 * f_rsv3 f + opcode_val (f_opcode f) in
  let n := len (f_payload f) in
  let '(code, ext) := if n <=? 125 then (n, []) else if n <=? 65535 then (126, be_enc 2 n) else (127, be_enc 8 n) in
  let b1 := 128 * f_mask f + code in
  [byte_of_Z b0; byte_of_Z b1] ++ ext ++
  (if f_mask f =? 0 then f_payload f
   else f_key f ++ xor_cycle (nth 0 (f_key f) x00) (nth 1 (f_key f) x00) (nth 2 (f_key f) x00) (nth 3 (f_key f) x00)
                             (f_payload f)).

(* a frame a client may send and the endpoint must receive *)
Definition client_frame (f : frame) : Prop :=
  wf_frame f /\ f_mask f = 1 /\ (f_opcode f = OpText -> utf8_valid (f_payload f) = true).

(* the stream a client sends: the RFC encodings of its frames, back to back *)
Definition enc_stream (fs : list frame) : list byte := concat (map rfc_encode fs).
(* what the endpoint callback sees for a frame: callback(ws, opcode, payload) *)
Definition delivery (f : frame) : opcode * list byte := (f_opcode f, f_payload f).
Definition is_close (f : frame) : bool := opcode_eqb (f_opcode f) OpClose.

(* bytes that are the beginning of a frame whose end has not arrived yet (or nothing at all) *)
Definition partial_frame (t : list byte) : Prop :=
  t = [] \/ exists g q, wf_frame g /\ q <> [] /\ rfc_encode g = t ++ q.

(* wf_frame without the convention "an unmasked frame carries the all-zero default key" *)
Definition wf_frame_anykey (f : frame) : Prop :=
  bit (f_fin f) /\ bit (f_rsv1 f) /\ bit (f_rsv2 f) /\ bit (f_rsv3 f) /\ bit (f_mask f) /\
  wire_opcode (f_opcode f) /\ length (f_key f) = 4%nat /\
  f_plen f = len (f_payload f) /\ f_plen f < 2 ^ 63.
(* the key is not on the wire when the mask bit is clear: the parser reports the default key *)
Definition canon_key (f : frame) : frame :=
  {| f_fin := f_fin f; f_rsv1 := f_rsv1 f; f_rsv2 := f_rsv2 f; f_rsv3 := f_rsv3 f; f_opcode := f_opcode f;
     f_mask := f_mask f; f_key := if f_mask f =? 0 then zero_key else f_key f; f_plen := f_plen f;
     f_payload := f_payload f |}.
