(* SeqNum.v — hand-written spec side of the 16-bit sequence ring and the sliding receive
   window (connection.py: SeqNum, BitField).  Definitions only.  Gen/Kernels.v holds the text
   regenerated from the source; Proofs/KernelsP.v proves the two agree. *)
From Model Require Import Base.
Open Scope Z_scope.

Definition RING : Z := 65535.
Definition HALF : Z := 32767.

(* true (unbounded) index n >= 1  ->  wire value in 1..65535 *)
Definition wire (n : Z) : Z := (n - 1) mod RING + 1.

Definition seq_new (v : Z) : res Z :=
  if v >? RING then Err EValue else if v <? 0 then Err EValue else Ok v.

Definition seq_wrap (r : Z) : Z :=
  let r := if r <? 1 then r + RING else r in
  if r >? RING then r - RING else r.

Definition seq_add (a k : Z) : res Z := seq_new (seq_wrap (a + k)).
Definition seq_sub (a k : Z) : res Z := seq_new (seq_wrap (a - k)).
Definition seq_succ (a : Z) : Z := seq_wrap (a + 1).

Definition seq_diff (a b : Z) : Z :=
  let r := a - b in
  if r >? HALF then r - RING else if r <? - HALF then r + RING else r.

Definition seq_newer (a b : Z) : bool := seq_diff a b >? 0.
Definition seq_lt (a b : Z) : bool := a <? a + seq_diff b a.
Definition seq_gt (a b : Z) : bool := a >? a + seq_diff b a.

(* BitField *)
Record bitfield := { bf_nbits : Z; bf_bits : Z; bf_cur : Z }.
Definition bf_new (nb : Z) : bitfield := {| bf_nbits := nb; bf_bits := 0; bf_cur := 0 |}.
Definition bf_mask (nb d : Z) : Z := Z.shiftr (Z.shiftl 1 (nb - 1)) (d - 1).

Definition bf_insert (f : bitfield) (s : Z) : res bitfield :=
  let nb := bf_nbits f in
  if bf_cur f =? 0 then Ok {| bf_nbits := nb; bf_bits := bf_bits f; bf_cur := s |}
  else
    let d := seq_diff (bf_cur f) s in
    if d <? 0 then
      let n := - d in
      Ok {| bf_nbits := nb;
            bf_bits := if n <=? nb then Z.lor (Z.shiftr (bf_bits f) n) (bf_mask nb n) else 0;
            bf_cur := s |}
    else if d =? 0 then Err EDup
    else
      let mask := bf_mask nb d in
      if negb (Z.land mask (bf_bits f) =? 0) then Err EDup
      else Ok {| bf_nbits := nb; bf_bits := Z.lor (bf_bits f) mask; bf_cur := bf_cur f |}.

Definition bf_contains (f : bitfield) (s : Z) : bool :=
  let d := seq_diff (bf_cur f) s in
  if d =? 0 then true
  else if d >? 0 then negb (Z.land (bf_mask (bf_nbits f) d) (bf_bits f) =? 0)
  else false.

(* how a sender decodes the (ack, ack_bits) header fields: connection.py _handle_ack_bits *)
Definition hdr_acks (ack ack_bits s : Z) : bool :=
  let d := seq_diff ack s in
  (d =? 0) || ((1 <=? d) && (d <=? 32) && negb (Z.land ack_bits (Z.shiftr 2147483648 (d - 1)) =? 0)).

(* abstract specification of the window over true indices *)
Definition spec_dup (nb m : Z) (acc : list Z) (n : Z) : bool :=
  existsb (Z.eqb n) acc && (n <=? m) && (m - n <=? nb).

Fixpoint spec_hist (nb m : Z) (acc : list Z) (h : list Z) : list bool :=
  match h with
  | [] => []
  | n :: h' =>
      let d := spec_dup nb m acc n in
      d :: spec_hist nb (Z.max m n) (if d then acc else n :: acc) h'
  end.

Fixpoint impl_hist (f : bitfield) (h : list Z) : list bool :=
  match h with
  | [] => []
  | n :: h' =>
      match bf_insert f (wire n) with
      | Ok f' => false :: impl_hist f' h'
      | Err _ => true :: impl_hist f h'
      end
  end.

(* the half-range hypothesis: every arrival is within HALF of the newest index so far *)
Fixpoint half_range (m : Z) (h : list Z) : Prop :=
  match h with
  | [] => True
  | n :: h' => 1 <= n /\ Z.abs (n - m) <= HALF /\ half_range (Z.max m n) h'
  end.

(* final states of the two runs (for statements about what the window holds afterwards) *)
Fixpoint impl_state (f : bitfield) (h : list Z) : bitfield :=
  match h with
  | [] => f
  | n :: h' => match bf_insert f (wire n) with Ok f' => impl_state f' h' | Err _ => impl_state f h' end
  end.

Fixpoint spec_state (nb m : Z) (acc : list Z) (h : list Z) : Z * list Z :=
  match h with
  | [] => (m, acc)
  | n :: h' => spec_state nb (Z.max m n) (if spec_dup nb m acc n then acc else n :: acc) h'
  end.
