(* Wire.v — byte-level wire format of connection.py: PacketHeader.to_bytes/from_bytes,
   Packet.create / the payload part of Packet.from_bytes, CRC framing of clear datagrams,
   AEAD framing of sealed datagrams (over abstract seal/open functions).  Definitions only. *)
From Model Require Import Base.
Open Scope Z_scope.

Inductive ptype := UNKNOWN | CLIENT_HELLO | SERVER_HELLO | CHALLENGE_RESP | KEEP_ALIVE
                 | DISCONNECT | APP | APP_FRAGMENT.

Definition ptype_code (t : ptype) : Z :=
  match t with UNKNOWN => 0 | CLIENT_HELLO => 1 | SERVER_HELLO => 2 | CHALLENGE_RESP => 3
             | KEEP_ALIVE => 4 | DISCONNECT => 5 | APP => 6 | APP_FRAGMENT => 7 end.

Definition ptype_of_code (z : Z) : option ptype :=
  match z with 0 => Some UNKNOWN | 1 => Some CLIENT_HELLO | 2 => Some SERVER_HELLO
             | 3 => Some CHALLENGE_RESP | 4 => Some KEEP_ALIVE | 5 => Some DISCONNECT
             | 6 => Some APP | 7 => Some APP_FRAGMENT | _ => None end.

Definition ptype_eqb (a b : ptype) : bool := ptype_code a =? ptype_code b.

(* big-endian fixed-width unsigned integers *)
Fixpoint be (n : nat) (z : Z) : list byte :=
  match n with
  | O => []
  | S n' => be n' (z / 256) ++ [byte_of_Z z]
  end.

Definition unbe (l : list byte) : Z := fold_left (fun acc b => acc * 256 + Z_of_byte b) l 0.

Definition in_range (bits z : Z) : bool := (0 <=? z) && (z <? 2 ^ bits).

(* h_to_server: the direction identifier is TO_SERVER ("FSOS"); a header built by the server
   carries TO_CLIENT ("FSOC") *)
Record header := {
  h_to_server : bool; h_ctime : Z; h_seq : Z; h_ack : Z; h_type : ptype;
  h_len : Z; h_count : Z; h_ackbits : Z }.

Definition MAGIC_TO_SERVER : list byte := map byte_of_Z [70; 83; 79; 83].   (* b"FSOS" *)
Definition MAGIC_TO_CLIENT : list byte := map byte_of_Z [70; 83; 79; 67].   (* b"FSOC" *)

Definition header_ok (h : header) : bool :=
  in_range 32 (h_ctime h) && in_range 16 (h_seq h) && in_range 16 (h_ack h)
  && in_range 16 (h_len h) && in_range 8 (h_count h) && in_range 32 (h_ackbits h).

(* PacketHeader.to_bytes: struct.pack(">4sLHH") + struct.pack(">BHBL"); struct.error when a
   field is out of range *)
Definition encode_header (h : header) : res (list byte) :=
  if header_ok h then
    Ok ((if h_to_server h then MAGIC_TO_SERVER else MAGIC_TO_CLIENT)
        ++ be 4 (h_ctime h) ++ be 2 (h_seq h) ++ be 2 (h_ack h)
        ++ [byte_of_Z (ptype_code (h_type h))] ++ be 2 (h_len h) ++ [byte_of_Z (h_count h)]
        ++ be 4 (h_ackbits h))
  else Err EStruct.

Definition bytes_eqb (a b : list byte) : bool :=
  (length a =? length b)%nat && forallb (fun p => Byte.eqb (fst p) (snd p)) (combine a b).

Definition sub (l : list byte) (from n : nat) : list byte := firstn n (skipn from l).

(* PacketHeader.from_bytes(isServer, datagram) *)
Definition decode_header (is_server : bool) (d : list byte) : res header :=
  let b := firstn 20 d in
  if negb (length b =? 20)%nat then Err EStruct else
  let ident := sub b 0 4 in
  match ptype_of_code (unbe (sub b 12 1)) with
  | None => Err EValue
  | Some t =>
      let h := {| h_to_server := bytes_eqb ident MAGIC_TO_SERVER;
                  h_ctime := unbe (sub b 4 4); h_seq := unbe (sub b 8 2); h_ack := unbe (sub b 10 2);
                  h_type := t; h_len := unbe (sub b 13 2); h_count := unbe (sub b 15 1);
                  h_ackbits := unbe (sub b 16 4) |} in
      if negb (bytes_eqb ident MAGIC_TO_SERVER) && negb (bytes_eqb ident MAGIC_TO_CLIENT) then Err EPacket
      else if negb (Bool.eqb (h_to_server h) is_server) then Err EPacket
      else Ok h
  end.

(* messages as they travel *)
Record wmsg := { w_seq : Z; w_type : ptype; w_payload : list byte }.

(* Packet.create: payload bytes for a message list *)
Definition encode_msgs (ms : list wmsg) : res (list byte) :=
  match ms with
  | [] => Ok []
  | [m] => if in_range 16 (w_seq m) then Ok (be 2 (w_seq m) ++ w_payload m) else Err EStruct
  | _ =>
      fold_right (fun m acc =>
        do rest <- acc;
        if in_range 16 (len (w_payload m)) && in_range 16 (w_seq m)
        then Ok (be 2 (len (w_payload m)) ++ be 2 (w_seq m) ++ [byte_of_Z (ptype_code (w_type m))]
                 ++ w_payload m ++ rest)
        else Err EStruct) (Ok []) ms
  end.

(* Packet.from_bytes, payload part: header type and count drive the parse *)
Fixpoint decode_multi (n : nat) (p : list byte) : res (list wmsg) :=
  match n with
  | O => Ok []
  | S n' =>
      if (length p <? 5)%nat then Err EStruct else
      let l := unbe (sub p 0 2) in
      let s := unbe (sub p 2 2) in
      match ptype_of_code (unbe (sub p 4 1)) with
      | None => Err EValue
      | Some t =>
          let body := sub p 5 (Z.to_nat l) in
          do rest <- decode_multi n' (skipn (5 + Z.to_nat l) p);
          Ok ({| w_seq := s; w_type := t; w_payload := body |} :: rest)
      end
  end.

Definition decode_msgs (t : ptype) (count : Z) (p : list byte) : res (list wmsg) :=
  if count =? 1 then
    if (length p <? 2)%nat then Err EStruct
    else Ok [{| w_seq := unbe (sub p 0 2); w_type := t; w_payload := skipn 2 p |}]
  else if count >? 1 then decode_multi (Z.to_nat count) p
  else Ok [].

(* ---- framing over abstract crc / AEAD ---- *)
Section Framing.
  Variable crc : list byte -> Z.
  Variable seal : Z -> list byte -> list byte -> list byte -> list byte.          (* key iv aad plain *)
  Variable open : Z -> list byte -> list byte -> list byte -> option (list byte). (* key iv aad ct||tag *)

  (* Packet.to_bytes(key) for a packet built by Packet.create(hdr, msgs) *)
  Definition to_bytes (key : option Z) (h0 : header) (ms : list wmsg) : res (list byte) :=
    do payload <- encode_msgs ms;
    let h := {| h_to_server := h_to_server h0; h_ctime := h_ctime h0; h_seq := h_seq h0; h_ack := h_ack h0;
                h_type := h_type h0; h_len := len payload; h_count := len ms; h_ackbits := h_ackbits h0 |} in
    do hb <- encode_header h;
    match key with
    | Some k =>
        if negb (ptype_eqb (h_type h) SERVER_HELLO) then Ok (hb ++ seal k (firstn 12 hb) hb payload)
        else Ok (hb ++ payload ++ be 4 (crc (hb ++ payload)))
    | None => Ok (hb ++ payload ++ be 4 (crc (hb ++ payload)))
    end.

  Definition is_hello (t : ptype) : bool := ptype_eqb t CLIENT_HELLO || ptype_eqb t SERVER_HELLO.

  (* Packet.from_bytes(hdr, key, datagram) — after the fix: a key holder only accepts sealed
     datagrams; without a key the CRC form is decoded (the connection itself refuses
     everything but a single-message hello while it has no key, see Conn.recv) *)
  Definition from_bytes (key : option Z) (h : header) (d : list byte) : res (list wmsg) :=
    let length_ := 20 + h_len h in
    if length_ >? len d then Err EPacket else
    do payload <-
      match key with
      | Some k =>
          match open k (firstn 12 d) (firstn 20 d) (sub d 20 (Z.to_nat (h_len h) + 16)) with
          | Some p => Ok p
          | None => Err EOther          (* cryptography.exceptions.InvalidTag *)
          end
      | None =>
          let data := firstn (Z.to_nat length_) d in
          let c := sub d (Z.to_nat length_) 4 in
          if (length c <? 4)%nat then Err EStruct
          else if negb (crc data =? unbe c) then Err EPacket
          else Ok (skipn 20 data)
      end;
    decode_msgs (h_type h) (h_count h) payload.
End Framing.

(* concrete CRC-32 (IEEE, reflected, as binascii.crc32) so that the byte-level units run *)
Definition crc_step (c : Z) : Z :=
  if Z.testbit c 0 then Z.lxor (Z.shiftr c 1) 3988292384 else Z.shiftr c 1.
Definition crc_byte (c : Z) (b : byte) : Z :=
  let c := Z.lxor c (Z_of_byte b) in
  crc_step (crc_step (crc_step (crc_step (crc_step (crc_step (crc_step (crc_step c))))))).
Definition crc32 (l : list byte) : Z := Z.lxor (fold_left crc_byte l 4294967295) 4294967295.
