(* Ser.v — executable model of mpgameserver/serializable.py (binary serializer), as the code is.
   Definitions only.

   value     : the Python values the serializer meets (floats are IEEE binary64 bit patterns,
               str is a list of code points, dict/set are insertion/iteration-ordered lists,
               VUnsup stands for a value of any unsupported type)
   registry  : SerializableType.registry passed as data: type id -> class description
   enc       : serialize_value           (value -> bytes or the exception raised)
   dec_value : deserialize_value         (state monad over a stream: remaining bytes, number of
               stream.read calls, number of deserialize_value calls); the fuel argument is the
               number of Python frames still available (RecursionError when it runs out)
   norm      : what a value looks like after one trip (tuple->list, float->float32->float,
               dict/set rebuilt by sequential insertion under Python equality)

   Quirks modelled on purpose: uint64_t and float32_t share id 11 (float32 wins); ids 2 and 7 are
   not decodable; lengths are ordinary encoded values (a bool is accepted as a length, a negative
   length reads everything that is left, a short read of string/bytes data is NOT an error);
   SerializableHeaderError raised below a successfully looked-up type becomes SerializableError;
   an over-long str raises NameError (undefined variable in the error message);
   an object decoded with fewer fields than its class keeps the class defaults for the rest;
   an enum accepts any decoded value; enum equality ignores the enum class and raises
   AttributeError against a non-enum. *)
From Model Require Import Base Utf8.
Open Scope Z_scope.

(* ---------- errors: Base.err plus the three kinds this module needs *)
Inductive serr := SHeader | SSer | SName | SE (e : err).
Definition serr_code (e : serr) : Z :=
  match e with SHeader => 101 | SSer => 102 | SName => 103 | SE e => err_code e end.
Inductive sres (A : Type) := SOk (a : A) | SErr (e : serr).
Arguments SOk {A} a.
Arguments SErr {A} e.
Definition sbind {A B} (r : sres A) (f : A -> sres B) : sres B :=
  match r with SOk a => f a | SErr e => SErr e end.
Notation "'dos' x <- r ; k" := (sbind r (fun x => k)) (at level 200, x pattern, r at level 100, k at level 200).

(* ---------- values *)
Inductive value :=
  | VNone
  | VBool (b : bool)
  | VInt (z : Z)
  | VFloat (bits : Z)                     (* binary64 bit pattern *)
  | VStr (s : list Z)                     (* code points *)
  | VBytes (b : list byte)
  | VList (l : list value)
  | VTuple (l : list value)
  | VDict (kv : list (value * value))     (* insertion order *)
  | VSet (l : list value)                 (* iteration order *)
  | VObj (tid : Z) (fields : list value)  (* Serializable instance: values of cls._fields in order *)
  | VEnum (tid : Z) (v : value)           (* SerializableEnum instance and its .value *)
  | VUnsup.                               (* any value of an unsupported type *)

Inductive cls :=
  | CObj (defaults : list value)          (* field values of a freshly constructed instance *)
  | CEnum (members : list value)          (* keys of _value2name *)
  | CClientHello (base : Z)               (* connection.HandshakeClientHelloMessage; base =
                                             Packet.MAX_PAYLOAD_SIZE - 2 - PacketHeader.SIZE - 2 *)
  | CServerHello.                         (* connection.HandshakeServerHelloMessage decoded without the
                                             'server_public_key' keyword (what a server does) *)
Definition registry := list (Z * cls).
Fixpoint reg_find (reg : registry) (t : Z) : option cls :=
  match reg with
  | [] => None
  | (t', c) :: r => if t' =? t then Some c else reg_find r t
  end.

Definition MAXB : Z := 1048576.   (* MAX_BYTES_LENGTH = 2**20 *)
Definition MAXA : Z := 16384.     (* MAX_ARRAY_LENGTH = 2**14 *)

(* float32 conversions (struct.pack('>f') / struct.unpack('>f')), supplied by Float32.v *)
Record fconv := { to32 : Z -> sres Z; of32 : Z -> Z }.

(* ---------- big-endian integers *)
Fixpoint be_enc (n : nat) (z : Z) : list byte :=
  match n with O => [] | S k => be_enc k (z / 256) ++ [byte_of_Z z] end.
Definition be_dec (l : list byte) : Z := fold_left (fun a b => a * 256 + Z_of_byte b) l 0.
Definition be_dec_signed (l : list byte) : Z :=
  let u := be_dec l in let w := 256 ^ len l in if 2 * u <? w then u else u - w.
Definition tag (t : Z) : list byte := be_enc 2 t.

(* serialize_int: width chosen by abs(value); struct.error (-> ValueError) beyond 64 bits *)
Definition enc_int (z : Z) : sres (list byte) :=
  let a := Z.abs z in
  if 0x7FFFFFFF <? a then
    if (- 2 ^ 63 <=? z) && (z <? 2 ^ 63) then SOk (tag 6 ++ be_enc 8 z) else SErr (SE EValue)
  else if 0x7FFF <? a then SOk (tag 5 ++ be_enc 4 z)
  else if 0x7F <? a then SOk (tag 4 ++ be_enc 2 z)
  else SOk (tag 3 ++ be_enc 1 z).

(* ---------- Python equality / hashing of the values that can be dict keys or set members *)
Definition f_exp (b : Z) : Z := (b / 2 ^ 52) mod 2048.
Definition f_man (b : Z) : Z := b mod 2 ^ 52.
Definition f_neg (b : Z) : bool := negb ((b / 2 ^ 63) mod 2 =? 0).
Definition f_is_nan (b : Z) : bool := (f_exp b =? 2047) && negb (f_man b =? 0).
Definition f_is_zero (b : Z) : bool := (f_exp b =? 0) && (f_man b =? 0).
(* exact comparison of a binary64 with an integer, as CPython does it *)
Definition f_eq_int (b z : Z) : bool :=
  if f_exp b =? 2047 then false
  else
    let mm := if f_exp b =? 0 then f_man b else f_man b + 2 ^ 52 in
    let ee := if f_exp b =? 0 then -1074 else f_exp b - 1075 in
    if mm =? 0 then z =? 0
    else if z =? 0 then false
    else if negb (Bool.eqb (f_neg b) (z <? 0)) then false
    else if 0 <=? ee then Z.abs z =? mm * 2 ^ ee
    else (mm mod 2 ^ (- ee) =? 0) && (Z.abs z =? mm / 2 ^ (- ee)).
Definition f_eq (a b : Z) : bool :=
  if f_is_nan a || f_is_nan b then false
  else (a =? b) || (f_is_zero a && f_is_zero b).

Fixpoint list_eqb {A} (eq : A -> A -> bool) (a b : list A) : bool :=
  match a, b with
  | [], [] => true
  | x :: a', y :: b' => eq x y && list_eqb eq a' b'
  | _, _ => false
  end.
Definition byte_eqb (a b : byte) : bool := Z_of_byte a =? Z_of_byte b.

Inductive num := NI (z : Z) | NF (b : Z).
Definition as_num (v : value) : option num :=
  match v with
  | VBool b => Some (NI (if b then 1 else 0))
  | VInt z => Some (NI z)
  | VFloat b => Some (NF b)
  | _ => None
  end.
Definition num_eq (a b : num) : bool :=
  match a, b with
  | NI x, NI y => x =? y
  | NI x, NF f | NF f, NI x => f_eq_int f x
  | NF f, NF g => f_eq f g
  end.

Fixpoint hashable (v : value) : bool :=
  match v with
  | VNone | VBool _ | VInt _ | VFloat _ | VStr _ | VBytes _ | VObj _ _ => true
  | VTuple l => forallb hashable l
  | VEnum _ x => hashable x
  | VList _ | VDict _ | VSet _ | VUnsup => false
  end.

Definition is_enum (v : value) : bool := match v with VEnum _ _ => true | _ => false end.

(* equality as seen by dict/set insertion (only asked of hashable values).  Objects compare by
   identity and every decoded object is fresh: never equal.  SerializableEnum.__eq__ compares
   .value with other.value whatever the classes, and raises AttributeError when the other side
   has no .value; it is reached whenever the hashes agree, which is certain when the values are
   equal (CPython hash collisions between unequal values are not modelled). *)
Fixpoint strip (v : value) : value := match v with VEnum _ x => strip x | _ => v end.
Fixpoint edepth (v : value) : Z := match v with VEnum _ x => 1 + edepth x | _ => 0 end.
(* equality of two values that are not enums *)
Definition core_eq (a b : value) : sres bool :=
  match a, b with
  | VNone, VNone => SOk true
  | VStr s, VStr t => SOk (list_eqb Z.eqb s t)
  | VBytes s, VBytes t => SOk (list_eqb byte_eqb s t)
  | VTuple _, VTuple _ => SErr (SE EOther)     (* tuple keys never come out of the decoder: outside the model *)
  | _, _ =>
      match as_num a, as_num b with
      | Some x, Some y => SOk (num_eq x y)
      | _, _ => SOk false
      end
  end.
Definition py_eq (a b : value) : sres bool :=
  if edepth a =? edepth b then core_eq (strip a) (strip b)
  else dos e <- core_eq (strip a) (strip b); if e then SErr (SE EAttr) else SOk false.

(* obj[k] = v *)
Fixpoint dict_set (d : list (value * value)) (k v : value) : sres (list (value * value)) :=
  match d with
  | [] => SOk [(k, v)]
  | (k', v') :: r =>
      dos e <- py_eq k' k;
      if e then SOk ((k', v) :: r) else dos r' <- dict_set r k v; SOk ((k', v') :: r')
  end.
Definition dict_put (d : list (value * value)) (k v : value) : sres (list (value * value)) :=
  if hashable k then dict_set d k v else SErr (SE EType).
Fixpoint dict_build (acc : list (value * value)) (kv : list (value * value)) : sres (list (value * value)) :=
  match kv with
  | [] => SOk acc
  | (k, v) :: r => dos acc' <- dict_put acc k v; dict_build acc' r
  end.

Fixpoint mem_py (x : value) (l : list value) : sres bool :=
  match l with
  | [] => SOk false
  | y :: r => dos e <- py_eq y x; if e then SOk true else mem_py x r
  end.
Definition set_add (s : list value) (x : value) : sres (list value) :=
  if hashable x then dos m <- mem_py x s; SOk (if m then s else s ++ [x]) else SErr (SE EType).
Fixpoint set_build (acc : list value) (l : list value) : sres (list value) :=
  match l with
  | [] => SOk acc
  | x :: r => dos acc' <- set_add acc x; set_build acc' r
  end.

(* ---------- type ids *)
Inductive bk := KBool | KI8 | KI16 | KI32 | KI64 | KU8 | KU16 | KU32 | KF32 | KF64
              | KStr | KBytes | KNull | KSeq | KMap | KSet.
Definition base_kind (t : Z) : option bk :=
  if t =? 1 then Some KBool else if t =? 3 then Some KI8 else if t =? 4 then Some KI16
  else if t =? 5 then Some KI32 else if t =? 6 then Some KI64 else if t =? 8 then Some KU8
  else if t =? 9 then Some KU16 else if t =? 10 then Some KU32 else if t =? 11 then Some KF32
  else if t =? 12 then Some KF64 else if t =? 13 then Some KStr else if t =? 14 then Some KBytes
  else if t =? 15 then Some KNull else if t =? 16 then Some KSeq else if t =? 17 then Some KMap
  else if t =? 18 then Some KSet else None.
(* a class id that struct.pack('>H') accepts and that is not shadowed by a base type *)
Definition tid_ok (t : Z) : bool :=
  (0 <=? t) && (t <? 65536) && match base_kind t with None => true | Some _ => false end.
Definition tid_packable (t : Z) : bool := (0 <=? t) && (t <? 65536).

(* ---------- generic traversals *)
Definition mapM {A B} (f : A -> sres B) : list A -> sres (list B) :=
  fix go (l : list A) : sres (list B) :=
    match l with
    | [] => SOk []
    | x :: r => dos y <- f x; dos ys <- go r; SOk (y :: ys)
    end.

Section Ser.
  Variable fc : fconv.                       (* float32 conversions *)
  Variable pk : value -> option serr.        (* EllipticCurvePublicKey.fromBytes: None = parsed *)
  Variable reg : registry.

  (* ---------- serialize_value *)
  Fixpoint enc (v : value) : sres (list byte) :=
    match v with
    | VNone => SOk (tag 15)
    | VBool b => SOk (tag 1 ++ [if b then x01 else x00])
    | VInt z => enc_int z
    | VFloat b => dos w <- to32 fc b; SOk (tag 11 ++ be_enc 4 w)
    | VStr s =>
        match utf8_encode s with
        | None => SErr (SE EUnicode)
        | Some bs =>
            if MAXB <? len bs then SErr SName
            else dos l <- enc_int (len bs); SOk (tag 13 ++ l ++ bs)
        end
    | VBytes bs =>
        if MAXB <? len bs then SErr (SE EValue)
        else dos l <- enc_int (len bs); SOk (tag 14 ++ l ++ bs)
    | VList l | VTuple l =>
        if MAXA <? len l then SErr (SE EValue)
        else dos h <- enc_int (len l); dos body <- mapM enc l; SOk (tag 16 ++ h ++ concat body)
    | VDict kv =>
        if MAXA <? len kv then SErr (SE EValue)
        else dos h <- enc_int (len kv);
             dos body <- mapM (fun p => let '(k, x) := p in dos a <- enc k; dos b <- enc x; SOk (a ++ b)) kv;
             SOk (tag 17 ++ h ++ concat body)
    | VSet l =>
        if MAXA <? len l then SErr (SE EValue)
        else dos h <- enc_int (len l); dos body <- mapM enc l; SOk (tag 18 ++ h ++ concat body)
    | VObj t fs =>
        if tid_packable t then
          dos h <- enc_int (len fs); dos body <- mapM enc fs; SOk (tag t ++ h ++ concat body)
        else SErr (SE EStruct)
    | VEnum t x =>
        if tid_packable t then
          match reg_find reg t with
          | Some (CEnum ms) =>
              if hashable x then
                dos m <- mem_py x ms;
                if m then dos b <- enc x; SOk (tag t ++ b) else SErr (SE EValue)
              else SErr (SE EType)
          | _ => SErr (SE EOther)       (* not an enum class of this registry: outside the model *)
          end
        else SErr (SE EStruct)
    | VUnsup => SErr (SE EType)
    end.

  (* ---------- the stream *)
  Record st := mkst { rem : list byte; nrd : Z; nval : Z }.
  Definition M (A : Type) := st -> sres A * st.
  Definition ret {A} (a : A) : M A := fun s => (SOk a, s).
  Definition fail {A} (e : serr) : M A := fun s => (SErr e, s).
  Definition mbind {A B} (m : M A) (f : A -> M B) : M B :=
    fun s => match m s with (SOk a, s') => f a s' | (SErr e, s') => (SErr e, s') end.
  Notation "'dom' x <- r ; k" := (mbind r (fun x => k)) (at level 200, x pattern, r at level 100, k at level 200).
  Definition lift {A} (r : sres A) : M A := fun s => (r, s).

  (* stream.read(n) of a BytesIO: at most n bytes, everything when n < 0; one read call *)
  Definition m_read (n : Z) : M (list byte) := fun s =>
    let k := if n <? 0 then length (rem s) else Z.to_nat n in
    (SOk (firstn k (rem s)), mkst (skipn k (rem s)) (nrd s + 1) (nval s)).
  Definition m_left : M Z := fun s => (SOk (len (rem s)), s).
  Definition tick_val : M unit := fun s => (SOk tt, mkst (rem s) (nrd s) (nval s + 1)).

  (* struct.unpack(fmt, stream.read(k)) inside a leaf lambda that has f frames below it
     (the counting stream's read is a Python-level call and needs one) *)
  Definition rd (f : nat) (k : Z) : M (list byte) :=
    match f with
    | O => fail (SE ERecursion)
    | S _ => dom b <- m_read k; if len b =? k then ret b else fail (SE EStruct)
    end.

  Fixpoint rep {A} (n : nat) (m : M A) : M (list A) :=
    match n with
    | O => ret []
    | S k => dom x <- m; dom xs <- rep k m; ret (x :: xs)
    end.

  (* isinstance(length, int): bool is an int *)
  Definition as_len (v : value) : option Z :=
    match v with VInt z => Some z | VBool b => Some (if b then 1 else 0) | _ => None end.

  Definition dec_len (sub : M value) (cap : Z) : M Z :=
    dom lv <- sub;
    match as_len lv with
    | None => fail (SE EType)
    | Some n => if cap <? n then fail (SE EValue) else ret n
    end.

  Fixpoint dec_map_loop (sub : M value) (n : nat) (acc : list (value * value)) : M (list (value * value)) :=
    match n with
    | O => ret acc
    | S k => dom key <- sub; dom x <- sub; dom acc' <- lift (dict_put acc key x); dec_map_loop sub k acc'
    end.

  (* Serializable.deserialize: for i in range(num_fields): field = _fields[i] (IndexError) ; ... *)
  Fixpoint dec_fields (sub : M value) (n : Z) (defs : list value) : M (list value) :=
    if n <=? 0 then ret defs
    else match defs with
         | [] => fail (SE EIndex)
         | _ :: ds => dom x <- sub; dom xs <- dec_fields sub (n - 1) ds; ret (x :: xs)
         end.

  Definition conv {A} (m : M A) : M A := fun s =>
    match m s with
    | (SErr SHeader, s') => (SErr SSer, s')
    | r => r
    end.

  (* the part of deserialize_value after the 2-byte type id; [sub] decodes a nested value
     (it runs two frames further down), f2 = frames below the type function / method *)
  Definition dec_base (sub : M value) (f2 : nat) (k : bk) : M value :=
    match k with
    | KBool => dom b <- rd f2 1; ret (VBool (negb (be_dec b =? 0)))
    | KI8 => dom b <- rd f2 1; ret (VInt (be_dec_signed b))
    | KI16 => dom b <- rd f2 2; ret (VInt (be_dec_signed b))
    | KI32 => dom b <- rd f2 4; ret (VInt (be_dec_signed b))
    | KI64 => dom b <- rd f2 8; ret (VInt (be_dec_signed b))
    | KU8 => dom b <- rd f2 1; ret (VInt (be_dec b))
    | KU16 => dom b <- rd f2 2; ret (VInt (be_dec b))
    | KU32 => dom b <- rd f2 4; ret (VInt (be_dec b))
    | KF32 => dom b <- rd f2 4; ret (VFloat (of32 fc (be_dec b)))
    | KF64 => dom b <- rd f2 8; ret (VFloat (be_dec b))
    | KNull => ret VNone
    | KStr =>
        dom n <- dec_len sub MAXB; dom b <- m_read n;
        match utf8_decode b with Some s => ret (VStr s) | None => fail (SE EUnicode) end
    | KBytes => dom n <- dec_len sub MAXB; dom b <- m_read n; ret (VBytes b)
    | KSeq => dom n <- dec_len sub MAXA; dom l <- rep (Z.to_nat n) sub; ret (VList l)
    | KMap => dom n <- dec_len sub MAXA; dom d <- dec_map_loop sub (Z.to_nat n) []; ret (VDict d)
    | KSet =>
        dom n <- dec_len sub MAXA; dom l <- rep (Z.to_nat n) sub;
        dom s <- lift (set_build [] l); ret (VSet s)
    end.

  Definition dec_cls (sub : M value) (t : Z) (c : cls) : M value :=
    match c with
    | CObj defs =>
        dom nf <- sub;
        match as_len nf with               (* range(num_fields) *)
        | None => fail (SE EType)
        | Some n => dom fs <- dec_fields sub n defs; ret (VObj t fs)
        end
    | CEnum _ => dom x <- sub; ret (VEnum t x)
    | CClientHello base =>
        dom before <- m_left;
        dom der <- sub;
        match pk der with
        | Some e => fail e
        | None =>
            dom ver <- sub;
            dom after <- m_left;
            let to_read := base - (before - after) in
            dom pad <- m_read to_read;
            if len pad =? to_read then ret (VObj t [der; ver]) else fail (SE EValue)
        end
    | CServerHello =>
        dom root <- sub;
        match pk root with
        | Some e => fail e
        | None => dom payload <- sub; dom sig <- sub; fail (SE EKey)
        end
    end.

  (* one deserialize_value call that has f1 frames below its own *)
  Definition dec_body (sub : M value) (f1 : nat) : M value :=
    dom _ <- tick_val;
    match f1 with
    | O => fail (SE ERecursion)                       (* stream.read needs a frame *)
    | S f2 =>
        dom buf <- m_read 2;
        if negb (len buf =? 2) then fail SHeader
        else
          let t := be_dec buf in
          match base_kind t with
          | Some k => conv (dec_base sub f2 k)
          | None =>
              match reg_find reg t with
              | Some c => conv (dec_cls sub t c)
              | None => fail SHeader
              end
          end
    end.

  Fixpoint dec_value (fuel : nat) : M value :=
    match fuel with
    | O => fail (SE ERecursion)
    | S f1 =>
        dec_body (match f1 with O => fail (SE ERecursion) | S f2 => dec_value f2 end) f1
    end.

  Definition st0 (bs : list byte) : st := mkst bs 0 0.

  (* Serializable.loadb / deserialize_value on a byte string: value and what is left *)
  Definition decode (fuel : nat) (bs : list byte) : sres (value * list byte) :=
    match dec_value fuel (st0 bs) with
    | (SOk v, s) => SOk (v, rem s)
    | (SErr e, _) => SErr e
    end.

  (* ---------- what a value looks like after one trip *)
  Fixpoint norm (v : value) : sres value :=
    match v with
    | VNone | VBool _ | VInt _ | VStr _ | VBytes _ => SOk v
    | VFloat b => dos w <- to32 fc b; SOk (VFloat (of32 fc w))
    | VList l | VTuple l => dos l' <- mapM norm l; SOk (VList l')
    | VDict kv =>
        dos kv' <- mapM (fun p => let '(k, x) := p in dos a <- norm k; dos b <- norm x; SOk (a, b)) kv;
        dos d <- dict_build [] kv'; SOk (VDict d)
    | VSet l => dos l' <- mapM norm l; dos s <- set_build [] l'; SOk (VSet s)
    | VObj t fs => dos fs' <- mapM norm fs; SOk (VObj t fs')
    | VEnum t x => dos x' <- norm x; SOk (VEnum t x')
    | VUnsup => SErr (SE EType)
    end.

  (* frames deserialize_value needs for the encoding of v *)
  Fixpoint need (v : value) : nat :=
    match v with
    | VNone => 2
    | VBool _ | VInt _ | VFloat _ => 3
    | VStr _ | VBytes _ => 5
    | VList l | VTuple l | VSet l | VObj _ l => 2 + fold_right (fun x a => Nat.max (need x) a) 3%nat l
    | VDict kv => 2 + fold_right (fun p a => Nat.max (Nat.max (need (fst p)) (need (snd p))) a) 3%nat kv
    | VEnum _ x => 2 + need x
    | VUnsup => 0
    end.

  (* the domain: what serialize_value accepts, with classes that the registry knows *)
  Fixpoint wf (v : value) : Prop :=
    match v with
    | VNone | VBool _ => True
    | VInt z => - 2 ^ 63 <= z < 2 ^ 63
    | VFloat b => exists w, to32 fc b = SOk w
    | VStr s => exists bs, utf8_encode s = Some bs /\ len bs <= MAXB
    | VBytes bs => len bs <= MAXB
    | VList l | VTuple l | VSet l => len l <= MAXA /\ fold_right (fun x P => wf x /\ P) True l
    | VDict kv => len kv <= MAXA /\ fold_right (fun p P => wf (fst p) /\ wf (snd p) /\ P) True kv
    | VObj t fs =>
        tid_ok t = true /\ (exists defs, reg_find reg t = Some (CObj defs) /\ length defs = length fs)
        /\ len fs < 2 ^ 63     (* the field count is written by serialize_int *)
        /\ fold_right (fun x P => wf x /\ P) True fs
    | VEnum t x =>
        tid_ok t = true /\ (exists ms, reg_find reg t = Some (CEnum ms) /\ mem_py x ms = SOk true)
        /\ hashable x = true /\ wf x
    | VUnsup => False
    end.
End Ser.
