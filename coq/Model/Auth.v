(* Auth.v — executable model of mpgameserver/auth.py (Auth.hash_password / Auth.verify_password).
   Definitions only.  The external libraries are Section variables (oracles):
     sha  : hashes.SHA256 digest
     b64d : base64.b64decode (Err EValue = binascii.Error, a ValueError)
   base64.b64encode is NOT an oracle: it is modelled exactly (Model/Base64.v, b64e).
     kdf  : scrypt.Scrypt(salt, length, N, r, p).derive(key_material); Err = the exception the
            constructor or derive raised (parameter validation -> ValueError).
            Scrypt.verify(km, expected) is derive + constant-time comparison (InvalidKey caught
            by the code = result False), modelled as such.
   os.urandom(SALT_LENGTH) is the [salt] argument of hash_password.
   A Python argument is bytes, a str (carried as the result of .encode('utf-8'): a str with
   lone surrogates raises UnicodeEncodeError) or something else. *)
From Model Require Import Base Base64.
Open Scope Z_scope.

Inductive pyarg := PBytes (b : list byte) | PStr (enc : res (list byte)) | POther.

Definition colon : byte := ":"%byte.
Definition lit_scrypt : list byte := ["s"; "c"; "r"; "y"; "p"; "t"]%byte.
Definition lit_1 : list byte := ["1"]%byte.

(* bytes.split(b':') *)
Fixpoint split_on (s : byte) (l : list byte) : list (list byte) :=
  match l with
  | [] => [[]]
  | c :: l' =>
      match split_on s l' with
      | p :: ps => if Byte.eqb c s then [] :: p :: ps else (c :: p) :: ps
      | [] => [[]]
      end
  end.

Fixpoint bytes_eqb (a b : list byte) : bool :=
  match a, b with
  | [], [] => true
  | x :: a', y :: b' => Byte.eqb x y && bytes_eqb a' b'
  | _, _ => false
  end.

(* parts[i] ; IndexError when out of range *)
Definition index {A} (l : list A) (i : nat) : res A :=
  match nth_error l i with Some x => Ok x | None => Err EIndex end.

Record kparams := { k_N : Z; k_r : Z; k_p : Z; k_sl : Z; k_len : Z }.

(* struct.unpack(">HBBBB", params); struct.error is re-raised by the code as ValueError *)
Definition unpack_params (b : list byte) : res kparams :=
  match b with
  | [n1; n0; r; p; sl; ln] =>
      Ok {| k_N := Z_of_byte n1 * 256 + Z_of_byte n0; k_r := Z_of_byte r; k_p := Z_of_byte p;
            k_sl := Z_of_byte sl; k_len := Z_of_byte ln |}
  | _ => Err EValue
  end.

(* struct.pack(">HBBBB", N, r, p, sl, len) for in-range values *)
Definition pack_params (k : kparams) : list byte :=
  [byte_of_Z (k_N k / 256); byte_of_Z (k_N k); byte_of_Z (k_r k); byte_of_Z (k_p k);
   byte_of_Z (k_sl k); byte_of_Z (k_len k)].

Definition SALT_LENGTH : Z := 16.
Definition DIGEST_LENGTH : Z := 24.
Definition std_params : kparams :=
  {| k_N := 16384; k_r := 16; k_p := 1; k_sl := SALT_LENGTH; k_len := DIGEST_LENGTH |}.

(* what verify_password hands to scrypt, and what it compares the result with *)
Record prepared := { q_salt : list byte; q_len : Z; q_N : Z; q_r : Z; q_p : Z; q_expected : list byte }.

Section Auth.
  Variable sha : list byte -> list byte.
  Variable b64d : list byte -> res (list byte).
  Variable kdf : list byte -> Z -> Z -> Z -> Z -> list byte -> res (list byte).

  Definition header : list byte :=
    lit_scrypt ++ [colon] ++ lit_1 ++ [colon] ++ b64e (pack_params std_params) ++ [colon].

  Definition hash_password (pw : pyarg) (salt : list byte) : res (list byte) :=
    match pw with
    | PBytes p =>
        let km := sha p in
        do out <- kdf salt DIGEST_LENGTH (k_N std_params) (k_r std_params) (k_p std_params) km;
        Ok (header ++ b64e (salt ++ out))
    | _ => Err EType
    end.

  (* the parsing part of verify_password (after the repair of D14: field count, then
     length >= 1 and salt_length + length = len(data)).  The order of the code is kept: both
     base64 fields are decoded before the method / version test. *)
  Definition prepare (h : list byte) : res prepared :=
    let parts := split_on colon h in
    if negb (Nat.eqb (length parts) 4) then Err EValue else
    do kind <- index parts 0;
    do version <- index parts 1;
    do f2 <- index parts 2;
    do params <- b64d f2;
    do f3 <- index parts 3;
    do data <- b64d f3;
    if negb (bytes_eqb kind lit_scrypt) || negb (bytes_eqb version lit_1) then Err EValue else
    do k <- unpack_params params;
    if (k_len k <? 1) || negb (k_sl k + k_len k =? len data) then Err EValue else
    Ok {| q_salt := firstn (Z.to_nat (k_sl k)) data; q_len := k_len k; q_N := k_N k; q_r := k_r k;
          q_p := k_p k; q_expected := skipn (Z.to_nat (k_sl k)) data |}.

  Definition verify_password (pw h : pyarg) : res bool :=
    match pw with
    | PBytes p =>
        match h with
        | PStr enc =>
            let km := sha p in
            do hb <- enc;
            do q <- prepare hb;
            do d <- kdf (q_salt q) (q_len q) (q_N q) (q_r q) (q_p q) km;
            Ok (bytes_eqb d (q_expected q))
        | _ => Err EType
        end
    | _ => Err EType
    end.
End Auth.

(* ---- hypotheses about the external libraries; they appear as premises of the theorems ---- *)
(* base64.b64decode inverts base64.b64encode *)
Definition b64_roundtrip (b64d : list byte -> res (list byte)) : Prop :=
  forall x, b64d (b64e x) = Ok x.
(* a proper prefix of an encoding is refused or decodes to fewer bytes than were encoded *)
Definition b64_prefix_shorter (b64d : list byte -> res (list byte)) : Prop :=
  forall x m y, (m < length (b64e x))%nat -> b64d (firstn m (b64e x)) = Ok y -> (length y < length x)%nat.
(* b64decode fails with binascii.Error (a ValueError) only *)
Definition b64_err_value (b64d : list byte -> res (list byte)) : Prop :=
  forall x e, b64d x = Err e -> e = EValue.
(* Scrypt(...).derive returns exactly [length] bytes *)
Definition kdf_length (kdf : list byte -> Z -> Z -> Z -> Z -> list byte -> res (list byte)) : Prop :=
  forall salt ln N r p km d, kdf salt ln N r p km = Ok d -> len d = ln.
(* Scrypt's constructor / derive fail with ValueError only (parameter validation) *)
Definition kdf_err_value (kdf : list byte -> Z -> Z -> Z -> Z -> list byte -> res (list byte)) : Prop :=
  forall salt ln N r p km e, kdf salt ln N r p km = Err e -> e = EValue.
(* whether scrypt fails depends on the parameters, not on the key material *)
Definition kdf_err_params (kdf : list byte -> Z -> Z -> Z -> Z -> list byte -> res (list byte)) : Prop :=
  forall salt ln N r p km km' e, kdf salt ln N r p km = Err e -> kdf salt ln N r p km' = Err e.
(* the digest hash_password derives for a password under a salt *)
Definition std_digest (sha : list byte -> list byte)
    (kdf : list byte -> Z -> Z -> Z -> Z -> list byte -> res (list byte)) (salt pw : list byte) : res (list byte) :=
  kdf salt DIGEST_LENGTH (k_N std_params) (k_r std_params) (k_p std_params) (sha pw).
(* exceptions that are ValueError (UnicodeEncodeError is a subclass of ValueError) or TypeError *)
Definition value_or_type (e : err) : Prop := e = EValue \/ e = EType \/ e = EUnicode.
