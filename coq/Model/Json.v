(* Json.v — executable model of the typed-JSON conversion of mpgameserver/serializable.py
   (Serializable.toJson / fromJson / dumps / loads, _toJsonBasic / _fromJsonBasic,
   Serializable.__init__, SerializableEnum.__init__ / toJson / fromJson).  Definitions only.

   One universe [pv] of Python values is used for object fields AND for JSON data: Python is
   untyped, toJson passes values of plain annotations through unchanged, and fromJson accepts any
   Python value as `record`.  "Plain JSON data" is therefore a predicate on [pv] ([strictb]) and
   "json.dumps accepts it" is [json_rt _ = Ok _].

   Representation choices (stated, checked by the harness where executable):
   * str   = list of code points (Z);  bytes = list of Z
   * float = IEEE-754 binary64 bit pattern as Z in [0, 2^64) — never a decimal text
   * set   = list in iteration order (the harness passes the real iteration order);  dict = association
     list in insertion order;  equality of keys / set elements is Python's == ([py_eq])
   * class table (data): for each Serializable class its `_fields` in order with the annotation of the
     field ([ty]) and the class attribute (default);  for each SerializableEnum class the pairs
     (member name, raw value) in `dir(cls)` order (sorted by name), raw values restricted to int
   * the builtins int() float() bool() str() bytes() list() tuple() set() dict() are modelled on the
     argument shapes listed below;  [Err EOther] NEVER stands for a Python exception here: it marks an
     argument outside the modelled domain of a builtin (e.g. float("1.5"), repr of a float) or a
     malformed class table.  The harness maps a real "Other" exception to a different code so that
     the two can never agree by accident.
   * str.upper is external: a Section variable [upper].  Nothing is assumed about it; the domain
     condition "member names are upper case" is [upper name = name] in [wf_ctab].
   * Python's recursion limit is not modelled; nesting is bounded by explicit fuel (one unit per
     nested Serializable), exhausted fuel = [Err ERecursion]. *)
From Coq Require Import ZArith List Bool Decimal DecimalZ.
From Model Require Import Base.
Open Scope Z_scope.

Definition str := list Z.

Inductive ckind := KList | KTuple | KSet | KDict.

(* annotation of a generic argument / of a non-generic field *)
Inductive ety :=
  | TInt | TFloat | TBool | TStr | TBytes
  | TObj (cid : Z)            (* a Serializable subclass *)
  | TEnum (eid : Z)           (* a SerializableEnum subclass *)
  | TBare (k : ckind).        (* bare list/tuple/set/dict, or a nested generic alias (List[List[int]]):
                                 no toJson attribute; get_origin gives the container *)

(* annotation of a field *)
Inductive ty :=
  | TBasic (e : ety)          (* get_origin(annotation) is None *)
  | TList (e : ety) | TSet (e : ety) | TDict (k v : ety) | TTuple (es : list ety)
  | TGenOther.                (* any other generic (Optional[...], Union[...]): only None is handled *)

Inductive pv :=
  | PNone | PBool (b : bool) | PInt (z : Z) | PFloat (bits : Z) | PStr (s : str) | PBytes (b : list Z)
  | PList (l : list pv) | PTuple (l : list pv) | PSet (l : list pv) | PDict (kv : list (pv * pv))
  | PEnum (eid : Z) (raw : Z)            (* instance of enum class eid with .value = raw *)
  | PObj (cid : Z) (fields : list pv).   (* instance of Serializable class cid, attribute values in _fields order *)

Record field := mkField { f_name : str; f_ty : ty; f_default : pv }.
Record ctab := mkCtab { c_objs : list (Z * list field); c_enums : list (Z * list (str * Z)) }.

(* ------------------------------------------------------------------ small helpers *)

Definition mapM {A B} (f : A -> res B) : list A -> res (list B) :=
  fix go (l : list A) : res (list B) :=
    match l with
    | [] => Ok []
    | a :: l' => match f a with
                 | Err e => Err e
                 | Ok b => match go l' with Err e => Err e | Ok bs => Ok (b :: bs) end
                 end
    end.

Fixpoint str_eqb (a b : str) : bool :=
  match a, b with
  | [], [] => true
  | x :: a', y :: b' => (x =? y) && str_eqb a' b'
  | _, _ => false
  end.

Fixpoint assocZ {A} (l : list (Z * A)) (k : Z) : option A :=
  match l with [] => None | (k', a) :: l' => if k =? k' then Some a else assocZ l' k end.

Definition find_obj (ct : ctab) (cid : Z) := assocZ (c_objs ct) cid.
Definition find_enum (ct : ctab) (eid : Z) := assocZ (c_enums ct) eid.

(* cls._name2value[name]  (names are unique class attributes; first match) *)
Fixpoint name2value (ms : list (str * Z)) (n : str) : option Z :=
  match ms with [] => None | (n', v) :: ms' => if str_eqb n n' then Some v else name2value ms' n end.

(* cls._value2name[raw] : built by sequential assignment over dir(cls), so the LAST name wins *)
Fixpoint value2name (ms : list (str * Z)) (raw : Z) : option str :=
  match ms with
  | [] => None
  | (n, v) :: ms' => match value2name ms' raw with
                     | Some n' => Some n'
                     | None => if raw =? v then Some n else None
                     end
  end.

(* ------------------------------------------------------------------ int <-> decimal text *)

Fixpoint uint_chars (u : uint) : str :=
  match u with
  | Nil => []
  | D0 u => 48 :: uint_chars u | D1 u => 49 :: uint_chars u | D2 u => 50 :: uint_chars u
  | D3 u => 51 :: uint_chars u | D4 u => 52 :: uint_chars u | D5 u => 53 :: uint_chars u
  | D6 u => 54 :: uint_chars u | D7 u => 55 :: uint_chars u | D8 u => 56 :: uint_chars u
  | D9 u => 57 :: uint_chars u
  end.

Fixpoint ulen (u : uint) : Z :=
  match u with
  | Nil => 0
  | D0 u | D1 u | D2 u | D3 u | D4 u | D5 u | D6 u | D7 u | D8 u | D9 u => 1 + ulen u
  end.

(* str(int) / int.__repr__ : canonical decimal *)
Definition dec (z : Z) : str :=
  match Z.to_int z with Pos u => uint_chars u | Neg u => 45 :: uint_chars u end.

(* CPython >= 3.11: int <-> str conversions refuse more than 4300 digits (sys.int_info.default_max_str_digits) *)
Definition MAX_STR_DIGITS : Z := 4300.
Definition lim_ok (z : Z) : bool :=
  match Z.to_int z with Pos u | Neg u => ulen u <=? MAX_STR_DIGITS end.

Definition digit_of (c : Z) : option (uint -> uint) :=
  if c =? 48 then Some D0 else if c =? 49 then Some D1 else if c =? 50 then Some D2
  else if c =? 51 then Some D3 else if c =? 52 then Some D4 else if c =? 53 then Some D5
  else if c =? 54 then Some D6 else if c =? 55 then Some D7 else if c =? 56 then Some D8
  else if c =? 57 then Some D9 else None.

(* digits with single underscores between digits; prev = "the previous character was a digit" *)
Fixpoint parse_digits (prev : bool) (s : str) : option uint :=
  match s with
  | [] => if prev then Some Nil else None
  | c :: s' =>
      match digit_of c with
      | Some d => match parse_digits true s' with Some u => Some (d u) | None => None end
      | None => if (c =? 95) && prev then parse_digits false s' else None
      end
  end.

(* what int() strips: ASCII isspace, and the non-ASCII Py_UNICODE_ISSPACE characters (0x1c-0x1f are NOT stripped) *)
Definition is_space (c : Z) : bool :=
  ((9 <=? c) && (c <=? 13)) || (c =? 32) || (c =? 133) || (c =? 160) || (c =? 5760)
  || ((8192 <=? c) && (c <=? 8202)) || (c =? 8232) || (c =? 8233) || (c =? 8239) || (c =? 8287) || (c =? 12288).

Fixpoint lstrip (s : str) : str :=
  match s with [] => [] | c :: s' => if is_space c then lstrip s' else s end.
Fixpoint rstrip (s : str) : str :=
  match s with
  | [] => []
  | c :: s' => match rstrip s' with [] => if is_space c then [] else [c] | r => c :: r end
  end.

(* int(s) for a str s, base 10.  Exact except that non-ASCII decimal digits (category Nd), which
   Python accepts, are rejected here. *)
Definition parse_int (s : str) : res Z :=
  let s1 := rstrip (lstrip s) in
  let '(neg, body) := match s1 with
                      | c :: r => if c =? 45 then (true, r) else if c =? 43 then (false, r) else (false, s1)
                      | [] => (false, s1)
                      end in
  match parse_digits false body with
  | None => Err EValue
  | Some u => if MAX_STR_DIGITS <? ulen u then Err EValue
              else Ok (if neg then - Z.of_uint u else Z.of_uint u)
  end.

(* ------------------------------------------------------------------ binary64 bit patterns *)

Definition fexp (t : Z) : Z := (t / 2 ^ 52) mod 2048.
Definition fman (t : Z) : Z := t mod 2 ^ 52.
Definition fneg (t : Z) : bool := 2 ^ 63 <=? t.
Definition is_nan (t : Z) : bool := (fexp t =? 2047) && negb (fman t =? 0).
Definition f_is_zero (t : Z) : bool := t mod 2 ^ 63 =? 0.
Definition NAN_BITS : Z := 9221120237041090560.   (* 0x7ff8000000000000 = float('nan') *)

(* finite value = m * 2^e *)
Definition fdecode (t : Z) : option (Z * Z) :=
  if fexp t =? 2047 then None
  else let m := if fexp t =? 0 then fman t else fman t + 2 ^ 52 in
       let e := (if fexp t =? 0 then 1 else fexp t) - 1075 in
       Some (if fneg t then - m else m, e).

Definition feq (a b : Z) : bool :=
  if is_nan a || is_nan b then false else (f_is_zero a && f_is_zero b) || (a =? b).

Definition f_int_eq (t k : Z) : bool :=
  match fdecode t with
  | None => false
  | Some (m, e) => if 0 <=? e then k =? m * 2 ^ e else k * 2 ^ (- e) =? m
  end.

(* int(float) *)
Definition f_trunc (t : Z) : res Z :=
  match fdecode t with
  | None => Err (if is_nan t then EValue else EOverflow)
  | Some (m, e) => Ok (if 0 <=? e then m * 2 ^ e else Z.quot m (2 ^ (- e)))
  end.

(* float(int), exact range only (|k| <= 2^53); beyond that rounding would be needed: unmodelled *)
Definition f_of_int (k : Z) : res Z :=
  if k =? 0 then Ok 0
  else let a := Z.abs k in
       if 2 ^ 53 <? a then Err EOther
       else let l := Z.log2 a in
            Ok ((if k <? 0 then 2 ^ 63 else 0) + (l + 1023) * 2 ^ 52 + (a * 2 ^ (52 - l) - 2 ^ 52)).

(* ------------------------------------------------------------------ Python == on dict keys / set elements *)

(* a == b as used by dict / set lookups.  Limits: an enum compared with a non-enum raises
   AttributeError in the real code (SerializableEnum.__eq__ reads other.value) — here false;
   distinct Serializable instances are never equal (identity); tuples compare element-wise only
   when both are empty (otherwise false): tuple keys are outside every annotated shape. *)
Definition py_eq (a b : pv) : bool :=
  match a, b with
  | PNone, PNone => true
  | PBool x, PBool y => Bool.eqb x y
  | PBool x, PInt y | PInt y, PBool x => (if x then 1 else 0) =? y
  | PInt x, PInt y => x =? y
  | PFloat x, PFloat y => feq x y
  | PFloat x, PInt y | PInt y, PFloat x => f_int_eq x y
  | PFloat x, PBool y | PBool y, PFloat x => f_int_eq x (if y then 1 else 0)
  | PStr x, PStr y => str_eqb x y
  | PBytes x, PBytes y => str_eqb x y
  | PTuple [], PTuple [] => true
  | PEnum _ x, PEnum _ y => x =? y
  | _, _ => false
  end.

Fixpoint hashable (v : pv) : bool :=
  match v with
  | PList _ | PSet _ | PDict _ => false
  | PTuple l => forallb hashable l
  | _ => true
  end.

Fixpoint dict_find (kv : list (pv * pv)) (k : pv) : option pv :=
  match kv with [] => None | (k', v) :: kv' => if py_eq k' k then Some v else dict_find kv' k end.

(* d[k] = v : replace in place, else append *)
Fixpoint dict_set (kv : list (pv * pv)) (k v : pv) : list (pv * pv) :=
  match kv with
  | [] => [(k, v)]
  | (k', v') :: kv' => if py_eq k' k then (k', v) :: kv' else (k', v') :: dict_set kv' k v
  end.

Definition dict_build (kv : list (pv * pv)) : list (pv * pv) :=
  fold_left (fun acc p => dict_set acc (fst p) (snd p)) kv [].

(* set(lst) : first occurrence kept *)
Definition set_add (l : list pv) (x : pv) : list pv := if existsb (fun y => py_eq y x) l then l else l ++ [x].
Definition set_build (l : list pv) : list pv := fold_left set_add l [].

Definition is_nan_val (v : pv) : bool := match v with PFloat t => is_nan t | _ => false end.

(* set(lst) with the TypeError for unhashable elements; NaN elements: identity semantics, unmodelled *)
Definition py_set (l : list pv) : res pv :=
  if negb (forallb hashable l) then Err EType
  else if existsb is_nan_val l then Err EOther
  else Ok (PSet (set_build l)).

(* ------------------------------------------------------------------ iteration / len / indexing *)

(* isinstance(v, Iterable) and what iterating yields *)
Definition py_iter (v : pv) : option (list pv) :=
  match v with
  | PList l | PTuple l | PSet l => Some l
  | PDict kv => Some (map fst kv)
  | PStr s => Some (map (fun c => PStr [c]) s)
  | PBytes b => Some (map PInt b)
  | _ => None
  end.

(* v[i] for 0 <= i < len(v), v iterable *)
Definition py_index (v : pv) (i : nat) : res pv :=
  match v with
  | PList l | PTuple l => match nth_error l i with Some x => Ok x | None => Err EIndex end
  | PStr s => match nth_error s i with Some c => Ok (PStr [c]) | None => Err EIndex end
  | PBytes b => match nth_error b i with Some c => Ok (PInt c) | None => Err EIndex end
  | PDict kv => match dict_find kv (PInt (Z.of_nat i)) with Some x => Ok x | None => Err EKey end
  | _ => Err EType                              (* 'set' object is not subscriptable *)
  end.

Definition none_or_typeerror (v : pv) : res pv :=
  match v with PNone => Ok PNone | _ => Err EType end.

(* ------------------------------------------------------------------ builtin conversions *)

Definition py_int (v : pv) : res pv :=
  match v with
  | PInt k => Ok (PInt k)
  | PBool b => Ok (PInt (if b then 1 else 0))
  | PStr s => do k <- parse_int s; Ok (PInt k)
  | PFloat t => do k <- f_trunc t; Ok (PInt k)
  | PBytes _ => Err EOther
  | _ => Err EType
  end.

Definition py_float (v : pv) : res pv :=
  match v with
  | PFloat t => Ok (PFloat t)
  | PInt k => do t <- f_of_int k; Ok (PFloat t)
  | PBool b => Ok (PFloat (if b then 4607182418800017408 else 0))     (* 1.0 = 0x3ff0000000000000 *)
  | PStr _ | PBytes _ => Err EOther
  | _ => Err EType
  end.

Definition py_bool (v : pv) : res pv :=
  Ok (PBool match v with
            | PNone => false
            | PBool b => b
            | PInt k => negb (k =? 0)
            | PFloat t => negb (f_is_zero t)
            | PStr s => negb (len s =? 0)
            | PBytes s => negb (len s =? 0)
            | PList l | PTuple l | PSet l => negb (len l =? 0)
            | PDict kv => negb (len kv =? 0)
            | PEnum _ raw => negb (raw =? 0)          (* SerializableEnum.__bool__ *)
            | PObj _ _ => true
            end).

Definition py_str (v : pv) : res pv :=
  match v with
  | PStr s => Ok (PStr s)
  | PInt k => if lim_ok k then Ok (PStr (dec k)) else Err EValue
  | PBool true => Ok (PStr [84; 114; 117; 101])
  | PBool false => Ok (PStr [70; 97; 108; 115; 101])
  | PNone => Ok (PStr [78; 111; 110; 101])
  | _ => Err EOther                              (* repr of floats / containers / objects: unmodelled *)
  end.

Definition py_bytes (v : pv) : res pv :=
  match v with
  | PBytes b => Ok (PBytes b)
  | PStr _ | PNone => Err EType
  | _ => Err EOther
  end.

(* origin(value) for a bare / nested-generic container annotation *)
Definition py_container (k : ckind) (v : pv) : res pv :=
  match k with
  | KList => match py_iter v with Some l => Ok (PList l) | None => Err EType end
  | KTuple => match py_iter v with Some l => Ok (PTuple l) | None => Err EType end
  | KSet => match py_iter v with Some l => py_set l | None => Err EType end
  | KDict => match v with
             | PDict kv => Ok (PDict kv)
             | _ => match py_iter v with
                    | Some [] => Ok (PDict [])
                    | Some _ => Err EOther       (* sequence of pairs: unmodelled *)
                    | None => Err EType
                    end
             end
  end.

(* ------------------------------------------------------------------ enums *)

Section WithTable.
Variable ct : ctab.

(* Color(value) : SerializableEnum.__init__ ; result = the .value of the new instance *)
Definition enum_init (eid : Z) (v : pv) : res (option Z) :=
  match find_enum ct eid with
  | None => Err EOther
  | Some ms =>
      let by_raw (raw : Z) := match value2name ms raw with Some _ => Ok (Some raw) | None => Err EValue end in
      match v with
      | PEnum eid' raw => if eid' =? eid then Ok (Some raw) else Err EOther   (* foreign enum: == raises *)
      | PInt raw => by_raw raw
      | PBool b => by_raw (if b then 1 else 0)
      | PNone => Ok None
      | PFloat _ => Err EOther
      | PList _ | PSet _ | PDict _ => Err EType      (* unhashable *)
      | PTuple _ => Err EOther
      | _ => Err EValue
      end
  end.

(* self.toJson() for an enum instance: _value2name[self.value] *)
Definition enum_name (eid : Z) (raw : option Z) : res pv :=
  match find_enum ct eid with
  | None => Err EOther
  | Some ms => match raw with
               | None => Err EKey
               | Some r => match value2name ms r with Some n => Ok (PStr n) | None => Err EKey end
               end
  end.

(* ------------------------------------------------------------------ toJson *)

(* _toJsonBasic(type, field, value);  self = value.toJson() at the remaining fuel *)
Definition basic_toJson (self : pv -> res pv) (e : ety) (v : pv) : res pv :=
  match e with
  | TObj _ => self v                                           (* value.toJson() : dynamic dispatch *)
  | TEnum eid => do raw <- enum_init eid v; enum_name eid raw    (* type(value).toJson() *)
  | _ => Ok v
  end.

(* the Tuple branch (both directions): for i, t in enumerate(args): conv(t, value[i]) if i < len(value) else None *)
Fixpoint tuple_conv (f : ety -> pv -> res pv) (es : list ety) (i : nat) (n : nat) (v : pv) : res (list pv) :=
  match es with
  | [] => Ok []
  | e :: es' =>
      do x <- (if Nat.ltb i n then do y <- py_index v i; f e y else Ok PNone);
      do r <- tuple_conv f es' (S i) n v;
      Ok (x :: r)
  end.

(* the Dict branch (both directions): for key, val in value.items(): map[conv(key)] = conv(val) *)
Fixpoint dict_conv (fk fv : pv -> res pv) (kv : list (pv * pv)) (acc : list (pv * pv)) : res (list (pv * pv)) :=
  match kv with
  | [] => Ok acc
  | (key, val) :: kv' =>
      do k' <- fk key;
      do v' <- fv val;
      if hashable k' then dict_conv fk fv kv' (dict_set acc k' v') else Err EType
  end.

(* the body of the loop in Serializable.toJson for one field *)
Definition field_toJson (self : pv -> res pv) (t : ty) (v : pv) : res pv :=
  match t with
  | TBasic e => basic_toJson self e v
  | TList e | TSet e =>
      match py_iter v with
      | Some l => do l' <- mapM (basic_toJson self e) l; Ok (PList l')
      | None => none_or_typeerror v
      end
  | TDict k e =>
      match v with
      | PDict kv => do kv' <- dict_conv (basic_toJson self k) (basic_toJson self e) kv []; Ok (PDict kv')
      | _ => none_or_typeerror v
      end
  | TTuple es =>
      match py_iter v with
      | Some l => do l' <- tuple_conv (basic_toJson self) es 0 (length l) v; Ok (PList l')
      | None => none_or_typeerror v
      end
  | TGenOther => none_or_typeerror v
  end.

Fixpoint fields_toJson (self : pv -> res pv) (fds : list field) (fs : list pv) : res (list (pv * pv)) :=
  match fds, fs with
  | [], _ => Ok []
  | fd :: fds', x :: fs' =>
      do j <- field_toJson self (f_ty fd) x;
      do r <- fields_toJson self fds' fs';
      Ok ((PStr (f_name fd), j) :: r)
  | _ :: _, [] => Err EOther                     (* malformed instance: fewer values than _fields *)
  end.

(* v.toJson() *)
Fixpoint val_toJson (n : nat) (v : pv) : res pv :=
  match n with
  | O => Err ERecursion
  | S n' =>
      match v with
      | PObj cid fs =>
          match find_obj ct cid with
          | None => Err EOther
          | Some fds => do kv <- fields_toJson (val_toJson n') fds fs; Ok (PDict kv)
          end
      | PEnum eid raw => enum_name eid (Some raw)
      | _ => Err EAttr
      end
  end.

(* ------------------------------------------------------------------ fromJson *)

Variable upper : str -> str.       (* str.upper — external *)

(* _fromJsonBasic(type, field, value);  self cid = the classmethod cid.fromJson at the remaining fuel *)
Definition basic_fromJson (self : Z -> pv -> res pv) (e : ety) (v : pv) : res pv :=
  match e with
  | TObj cid => match v with PNone => Ok PNone | _ => self cid v end
  | TEnum eid =>
      match v with
      | PStr s => match find_enum ct eid with
                  | None => Err EOther
                  | Some ms => match name2value ms (upper s) with
                               | Some raw => do r <- enum_init eid (PInt raw);
                                             match r with Some raw' => Ok (PEnum eid raw') | None => Err EOther end
                               | None => Err EKey
                               end
                  end
      | PBytes _ => Err EKey
      | _ => Err EAttr
      end
  | TInt => py_int v
  | TFloat => py_float v
  | TBool => py_bool v
  | TStr => py_str v
  | TBytes => py_bytes v
  | TBare k => py_container k v
  end.

Definition field_fromJson (self : Z -> pv -> res pv) (t : ty) (v : pv) : res pv :=
  match t with
  | TBasic e => basic_fromJson self e v
  | TList e =>
      match py_iter v with
      | Some l => do l' <- mapM (basic_fromJson self e) l; Ok (PList l')
      | None => none_or_typeerror v
      end
  | TSet e =>
      match py_iter v with
      | Some l => do l' <- mapM (basic_fromJson self e) l; py_set l'
      | None => none_or_typeerror v
      end
  | TDict k e =>
      match v with
      | PDict kv => do kv' <- dict_conv (basic_fromJson self k) (basic_fromJson self e) kv []; Ok (PDict kv')
      | _ => none_or_typeerror v
      end
  | TTuple es =>
      match py_iter v with
      | Some l => do l' <- tuple_conv (basic_fromJson self) es 0 (length l) v; Ok (PTuple l')
      | None => none_or_typeerror v
      end
  | TGenOther => none_or_typeerror v
  end.

(* Serializable.__init__ with no kwargs: value of one attribute of `cls()` *)
Definition init_field (fd : field) : pv :=
  match f_ty fd with
  | TBasic (TBare KList) | TList _ => PList []
  | TBasic (TBare KTuple) | TTuple _ => PTuple []
  | TBasic (TBare KSet) | TSet _ => PSet []
  | TBasic (TBare KDict) | TDict _ _ => PDict []
  | _ => f_default fd        (* class attribute; the `Default` sentinel is resolved by the harness *)
  end.

(* `field in record` and `record[field]` : Ok None = absent *)
Definition record_get (rec : pv) (name : str) : res (option pv) :=
  match rec with
  | PDict kv => Ok (dict_find kv (PStr name))
  | PList l | PTuple l | PSet l =>
      if existsb (fun x => match x with PEnum _ _ => true | _ => false end) l then Err EOther
      else if existsb (fun x => py_eq x (PStr name)) l then Err EType else Ok None
  | PStr _ | PBytes _ => Err EOther             (* substring test: unmodelled *)
  | _ => Err EType                              (* argument of type ... is not iterable *)
  end.

(* cid.fromJson(record) *)
Fixpoint obj_fromJson (n : nat) (cid : Z) (rec : pv) : res pv :=
  match n with
  | O => Err ERecursion
  | S n' =>
      match find_obj ct cid with
      | None => Err EOther
      | Some fds =>
          do vals <- mapM (fun fd =>
                             do o <- record_get rec (f_name fd);
                             match o with
                             | None => Ok (init_field fd)
                             | Some x => field_fromJson (obj_fromJson n') (f_ty fd) x
                             end) fds;
          Ok (PObj cid vals)
      end
  end.

(* ------------------------------------------------------------------ the domain of the property *)

Definition is_key_ty (e : ety) : bool := match e with TInt | TStr | TEnum _ => true | _ => false end.

Definition enum_has_value (eid raw : Z) : bool :=
  match find_enum ct eid with
  | Some ms => match value2name ms raw with Some _ => true | None => false end
  | None => false
  end.

Fixpoint nodupb (l : list pv) : bool :=
  match l with [] => true | x :: l' => forallb (fun y => negb (py_eq x y)) l' && nodupb l' end.

Fixpoint forall2b {A B} (f : A -> B -> bool) (a : list A) (b : list B) : bool :=
  match a, b with
  | [], [] => true
  | x :: a', y :: b' => f x y && forall2b f a' b'
  | _, _ => false
  end.

(* value v is of the annotated (generic-argument) type e.
   lim = true additionally requires every int to be within the interpreter's 4300-digit limit.
   bytes and bare containers are outside the domain: JSON has no bytes (json.dumps raises TypeError),
   bare containers are passed through unconverted. *)
Definition ht_basic (self : pv -> Z -> bool) (lim : bool) (e : ety) (v : pv) : bool :=
  match e, v with
  | TInt, PInt z => if lim then lim_ok z else true
  | TFloat, PFloat t => (0 <=? t) && (t <? 2 ^ 64) && negb (is_nan t)
  | TBool, PBool _ => true
  | TStr, PStr _ => true
  | TObj cid, _ => self v cid
  | TEnum eid, PEnum eid' raw => (eid =? eid') && enum_has_value eid raw
  | _, _ => false
  end.

(* the value of a field annotated t: basic value, or None / a container of the annotated shape *)
Definition ht_field (self : pv -> Z -> bool) (lim : bool) (t : ty) (v : pv) : bool :=
  match t, v with
  | TBasic e, _ => ht_basic self lim e v
  | (TList _ | TSet _ | TDict _ _ | TTuple _ | TGenOther), PNone => true
  | TList e, PList l => forallb (ht_basic self lim e) l
  | TSet e, PSet l => forallb (ht_basic self lim e) l && nodupb l
  | TDict k e, PDict kv =>
      is_key_ty k && forallb (fun p => ht_basic self lim k (fst p) && ht_basic self lim e (snd p)) kv
      && nodupb (map fst kv)
  | TTuple es, PTuple l => forall2b (ht_basic self lim) es l
  | _, _ => false
  end.

(* v is an instance of class cid whose fields hold values of their annotated types;
   n bounds the nesting of Serializable objects *)
Fixpoint ht_obj (lim : bool) (n : nat) (v : pv) (cid : Z) : bool :=
  match n with
  | O => false
  | S n' =>
      match v with
      | PObj cid' fs =>
          (cid =? cid') &&
          match find_obj ct cid with
          | None => false
          | Some fds => forall2b (fun fd x => ht_field (ht_obj lim n') lim (f_ty fd) x) fds fs
          end
      | _ => false
      end
  end.

(* class table well-formedness = what Python's class machinery guarantees plus the documented
   condition on enums: attribute names of a class are distinct; enum member names are distinct
   and upper case (upper name = name) *)
Fixpoint str_nodupb (l : list str) : bool :=
  match l with [] => true | x :: l' => negb (existsb (str_eqb x) l') && str_nodupb l' end.

Definition wf_ctab : bool :=
  forallb (fun c => str_nodupb (map f_name (snd c))) (c_objs ct)
  && forallb (fun c => str_nodupb (map fst (snd c))
                       && forallb (fun m => str_eqb (upper (fst m)) (fst m)) (snd c)) (c_enums ct).

End WithTable.

(* ------------------------------------------------------------------ json.loads(json.dumps(j)) *)

(* dict key as written by json.dumps (skipkeys=False) *)
Definition key_str (k : pv) : res str :=
  match k with
  | PStr s => Ok s
  | PBool true => Ok [116; 114; 117; 101]
  | PBool false => Ok [102; 97; 108; 115; 101]
  | PInt z => if lim_ok z then Ok (dec z) else Err EValue
  | PNone => Ok [110; 117; 108; 108]
  | PFloat _ => Err EOther                       (* float.__repr__ : unmodelled *)
  | _ => Err EType                               (* keys must be str, int, float, bool or None *)
  end.

(* TRUSTED (sampled by the harness against the real json module, default arguments):
   json.loads(json.dumps(v)).  Err = the exception json.dumps raises. *)
Fixpoint json_rt (v : pv) : res pv :=
  match v with
  | PNone => Ok PNone
  | PBool b => Ok (PBool b)
  | PInt z => if lim_ok z then Ok (PInt z) else Err EValue
  | PFloat t => Ok (PFloat (if is_nan t then NAN_BITS else t))
  | PStr s => Ok (PStr s)
  | PList l | PTuple l => do l' <- mapM json_rt l; Ok (PList l')
  | PDict kv =>
      do kv' <- mapM (fun p => match p with
                               | (k, x) => do s <- key_str k; do x' <- json_rt x; Ok (PStr s, x')
                               end) kv;
      Ok (PDict (dict_build kv'))
  | _ => Err EType                               (* Object of type ... is not JSON serializable *)
  end.

(* plain JSON data as json.loads returns it: null, bool, number, string, list, object with string keys *)
Fixpoint strictb (v : pv) : bool :=
  match v with
  | PNone | PBool _ | PInt _ | PFloat _ | PStr _ => true
  | PList l => forallb strictb l
  | PDict kv => forallb (fun p => match p with
                                  | (PStr _, x) => strictb x
                                  | _ => false
                                  end) kv
  | _ => false
  end.

(* what toJson may produce: JSON data whose dict keys are str or int (json.dumps writes an int key
   as its decimal text).  lim = true additionally requires every int to be within the 4300-digit limit. *)
Definition plain_key (lim : bool) (k : pv) : bool :=
  match k with PStr _ => true | PInt z => if lim then lim_ok z else true | _ => false end.

Fixpoint plainb (lim : bool) (v : pv) : bool :=
  match v with
  | PNone | PBool _ | PFloat _ | PStr _ => true
  | PInt z => if lim then lim_ok z else true
  | PList l => forallb (plainb lim) l
  | PDict kv => forallb (fun p => match p with (k, x) => plain_key lim k && plainb lim x end) kv
  | _ => false
  end.

(* ASCII instance of str.upper used by the correspondence units (the harness only sends strings on
   which it coincides with Python's str.upper) *)
Definition ascii_upper (s : str) : str :=
  map (fun c => if (97 <=? c) && (c <=? 122) then c - 32 else c) s.
