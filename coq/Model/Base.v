(* Base.v — shared vocabulary of the executable model: universal value type used by the
   correspondence driver, error kinds, result type.  Definitions only. *)
From Coq Require Export ZArith List Bool Strings.Byte.
Export ListNotations.
Open Scope Z_scope.

(* Universal value exchanged with the harness (s-expression on the wire). *)
Inductive V := VI (z : Z) | VB (b : list byte) | VL (l : list V).

(* Exceptions are values.  Codes are what the harness compares. *)
Inductive err :=
  | EValue | EType | EStruct | EDup | EPacket | ESig | EIndex | ERecursion | EOther
  | EKey | EDispatch | EUnicode | EOverflow | EAttr.

Definition err_code (e : err) : Z :=
  match e with
  | EValue => 1 | EType => 2 | EStruct => 3 | EDup => 4 | EPacket => 5 | ESig => 6
  | EIndex => 7 | ERecursion => 8 | EOther => 9 | EKey => 10 | EDispatch => 11
  | EUnicode => 12 | EOverflow => 13 | EAttr => 14
  end.

Inductive res (A : Type) := Ok (a : A) | Err (e : err).
Arguments Ok {A} a.
Arguments Err {A} e.

Definition bind {A B} (r : res A) (f : A -> res B) : res B :=
  match r with Ok a => f a | Err e => Err e end.
Notation "'do' x <- r ; k" := (bind r (fun x => k)) (at level 200, x pattern, r at level 100, k at level 200).

Definition vbool (b : bool) : V := VI (if b then 1 else 0).
Definition vres {A} (f : A -> V) (r : res A) : V :=
  match r with Ok a => VL [VI 0; f a] | Err e => VL [VI 1; VI (err_code e)] end.
Definition vbad : V := VL [VI 2].   (* malformed request: harness/driver bug, never a model answer *)

Definition as_int (v : V) : Z := match v with VI z => z | _ => 0 end.
Definition as_bytes (v : V) : list byte := match v with VB b => b | _ => [] end.
Definition as_list (v : V) : list V := match v with VL l => l | _ => [] end.
Definition as_bool (v : V) : bool := negb (as_int v =? 0).
Definition vnth (v : V) (n : nat) : V := nth n (as_list v) (VL []).

Definition byte_of_Z (z : Z) : byte :=
  match Byte.of_N (Z.to_N (z mod 256)) with Some b => b | None => x00 end.
Definition Z_of_byte (b : byte) : Z := Z.of_N (Byte.to_N b).
Definition vbn (l : list Z) : V := VB (map byte_of_Z l).   (* byte strings in generated cases *)

Definition len {A} (l : list A) : Z := Z.of_nat (length l).
