(* Router.v — executable model of mpgameserver/http_server.py  Router.patternToRegex,
   Router.registerRoutes, Router.getRoute and Router.dispatch (AFTER the D11 repair:
   ':name+' compiles to  \/(.+)  and literal segments go through re.escape).

   Strings are lists of code points (Z), as in PathJoin.v.

   * [pattern_to_regex] builds the regular expression SOURCE TEXT exactly as the code does
     (string concatenation, the 'final' flag, ValueError on a second wildcard).
   * [regex] is an abstract syntax for exactly the constructs that text uses; [pr_regex]
     prints it; [re_match] is a backtracking matcher (greedy, ordered alternatives, capture
     groups) for it — the model of  re.compile(text).match(path)  on this fragment.
   * [spec] is the documented rule on segment lists.
   Definitions only. *)
From Model Require Import Base PathJoin.
Open Scope Z_scope.

Definition COLON : Z := 58.   (* ':' *)
Definition QM : Z := 63.      (* '?' *)
Definition STAR : Z := 42.    (* '*' *)
Definition PLUS : Z := 43.    (* '+' *)
Definition NL : Z := 10.      (* '\n' *)

(* ---- the pattern grammar --------------------------------------------------------------- *)

Inductive piece :=
  | PLit (s : str)      (* /abc    *)
  | POne (n : str)      (* /:name  *)
  | POpt (n : str)      (* /:name? *)
  | PStar (n : str)     (* /:name* *)
  | PPlus (n : str).    (* /:name+ *)

Definition nonempty (s : str) : bool := negb (is_empty s).

(* [part for part in pattern.split("/") if part] *)
Definition pattern_parts (pat : str) : list str := filter nonempty (split_sl pat).

(* part.startswith(':'), c = part[-1], part[1:-1] / part[1:] *)
Definition classify (part : str) : piece :=
  match part with
  | [] => PLit []
  | c :: rest =>
      if c =? COLON then
        let l := last part 0 in
        if l =? QM then POpt (removelast rest)
        else if l =? STAR then PStar (removelast rest)
        else if l =? PLUS then PPlus (removelast rest)
        else POne rest
      else PLit part
  end.

Definition parse_pattern (pat : str) : list piece := map classify (pattern_parts pat).

Definition is_wild (p : piece) : bool :=
  match p with POpt _ | PStar _ | PPlus _ => true | _ => false end.

(* token names, in order *)
Fixpoint names (ps : list piece) : list str :=
  match ps with
  | [] => []
  | PLit _ :: t => names t
  | POne n :: t | POpt n :: t | PStar n :: t | PPlus n :: t => n :: names t
  end.

(* number of ?, * and + parameters *)
Fixpoint nwild (ps : list piece) : nat :=
  match ps with
  | [] => 0%nat
  | p :: t => ((if is_wild p then 1 else 0) + nwild t)%nat
  end.

(* the documented grammar: ?, * and + only on the last segment *)
Fixpoint wf_pieces (ps : list piece) : bool :=
  match ps with
  | [] => true
  | [_] => true
  | p :: t => negb (is_wild p) && wf_pieces t
  end.
Definition wf_pat (pat : str) : bool := wf_pieces (parse_pattern pat).

(* ---- patternToRegex: the source text --------------------------------------------------- *)

(* re.escape (CPython >= 3.7): the characters  ()[]{}?*+-|^$\.&~#  space \t \n \r \v \f  *)
Definition special (c : Z) : bool :=
  existsb (Z.eqb c) [40;41;91;93;123;125;63;42;43;45;124;94;36;92;46;38;126;35;32;9;10;13;11;12].
Definition re_escape (s : str) : str := flat_map (fun c => if special c then [BSL; c] else [c]) s.

Definition T_SL : str := [92;47].                                                   (*  \/  *)
Definition T_ONE : str := [92;47;40;91;94;92;47;93;43;41].                          (*  \/([^\/]+)  *)
Definition T_OPT : str := [40;63;58;92;47;40;91;94;92;47;93;42;41;124;92;47;41;63]. (*  (?:\/([^\/]STAR)|\/)?   with STAR = '*'  *)
Definition T_STAR : str := [40;63;58;92;47;40;46;42;41;124;92;47;41;63].            (*  (?:\/(.STAR)|\/)?  *)
Definition T_PLUS : str := [92;47;40;46;43;41].                                     (*  \/(.+)  *)
Definition T_TAIL : str := [92;47;63].                                              (*  \/?  *)

Fixpoint ptr_loop (parts : list str) (final : bool) (re : str) (toks : list str)
  : res (str * list str) :=
  match parts with
  | [] => Ok (re, toks)
  | p :: ps =>
      match classify p with
      | POpt n => if final then Err EValue else ptr_loop ps true (re ++ T_OPT) (toks ++ [n])
      | PStar n => if final then Err EValue else ptr_loop ps true (re ++ T_STAR) (toks ++ [n])
      | PPlus n => if final then Err EValue else ptr_loop ps true (re ++ T_PLUS) (toks ++ [n])
      | POne n => ptr_loop ps final (re ++ T_ONE) (toks ++ [n])
      | PLit l => ptr_loop ps final (re ++ T_SL ++ re_escape l) toks
      end
  end.

(* returns (re_str, tokens); re_str is what the code hands to re.compile *)
Definition pattern_to_regex (pat : str) : res (str * list str) :=
  match ptr_loop (pattern_parts pat) false [94] [] with
  | Err e => Err e
  | Ok (re, toks) =>
      let re := if str_eqb re [94;92;47] then re else re ++ T_TAIL in
      Ok (re ++ [36], toks)
  end.

(* ---- abstract syntax of the regular expressions produced ------------------------------- *)

Inductive cls := CNotSlash | CAny.          (*  [^\/]   and   .   (no DOTALL)  *)
Definition cls_ok (c : cls) (x : Z) : bool :=
  match c with CNotSlash => negb (x =? SL) | CAny => negb (x =? NL) end.

Inductive atom :=
  | AChar (c : Z)                           (* one literal character (printed escaped) *)
  | ACap (i : nat) (c : cls) (min1 : bool)  (* capture group number i around  cls*  /  cls+  (greedy) *)
  | AOptChar (c : Z).                       (* c?  (greedy) *)
Inductive node :=
  | NAtom (a : atom)
  | NOptAlt (a b : list atom).              (* (?:a|b)?  (greedy, alternatives in order) *)
(* a [regex] r denotes the text  ^ r $  *)
Definition regex := list node.

Definition pr_char (c : Z) : str :=
  if c =? SL then [BSL; SL] else if special c then [BSL; c] else [c].
Definition pr_cls (c : cls) : str :=
  match c with CNotSlash => [91;94;92;47;93] | CAny => [46] end.
Definition pr_atom (a : atom) : str :=
  match a with
  | AChar c => pr_char c
  | ACap _ c m => [40] ++ pr_cls c ++ [if m then 43 else 42] ++ [41]
  | AOptChar c => pr_char c ++ [63]
  end.
Definition pr_node (n : node) : str :=
  match n with
  | NAtom a => pr_atom a
  | NOptAlt a b => [40;63;58] ++ flat_map pr_atom a ++ [124] ++ flat_map pr_atom b ++ [41;63]
  end.
Definition pr_regex (r : regex) : str := [94] ++ flat_map pr_node r ++ [36].

(* the syntax tree of the text built by patternToRegex; i = number of the next capture group *)
Fixpoint ast_pieces (i : nat) (ps : list piece) : list node :=
  match ps with
  | [] => []
  | PLit l :: t => NAtom (AChar SL) :: map (fun c => NAtom (AChar c)) l ++ ast_pieces i t
  | POne _ :: t => NAtom (AChar SL) :: NAtom (ACap i CNotSlash true) :: ast_pieces (S i) t
  | POpt _ :: t => NOptAlt [AChar SL; ACap i CNotSlash false] [AChar SL] :: ast_pieces (S i) t
  | PStar _ :: t => NOptAlt [AChar SL; ACap i CAny false] [AChar SL] :: ast_pieces (S i) t
  | PPlus _ :: t => NAtom (AChar SL) :: NAtom (ACap i CAny true) :: ast_pieces (S i) t
  end.
Definition tail_nodes : list node := [NAtom (AOptChar SL)].
Definition ast_of_pieces (ps : list piece) : regex := ast_pieces 0 ps ++ tail_nodes.

Definition ncaps_atom (a : atom) : nat := match a with ACap _ _ _ => 1%nat | _ => 0%nat end.
Definition ncaps_atoms (l : list atom) : nat := fold_right (fun a n => (ncaps_atom a + n)%nat) 0%nat l.
Definition ncaps_node (n : node) : nat :=
  match n with NAtom a => ncaps_atom a | NOptAlt a b => (ncaps_atoms a + ncaps_atoms b)%nat end.
Definition ncaps (r : regex) : nat := fold_right (fun n k => (ncaps_node n + k)%nat) 0%nat r.

(* ---- the matcher: re.compile(text).match(path) ----------------------------------------- *)

(* capture assignments, most recent first *)
Definition caps := list (nat * str).
Definition K := str -> caps -> option caps.

(* greedy repetition of a character class with backtracking: the longest run first, then
   shorter ones; [acc] = what the group has consumed so far, reversed *)
Fixpoint rep (c : cls) (k : str -> str -> option caps) (acc : str) (s : str) : option caps :=
  match s with
  | x :: s' =>
      if cls_ok c x then
        match rep c k (x :: acc) s' with
        | Some r => Some r
        | None => k (rev acc) s
        end
      else k (rev acc) s
  | [] => k (rev acc) []
  end.

Definition m_char (c : Z) (k : K) (s : str) (cp : caps) : option caps :=
  match s with
  | x :: s' => if x =? c then k s' cp else None
  | [] => None
  end.

Fixpoint m_atoms (l : list atom) (k : K) (s : str) (cp : caps) : option caps :=
  match l with
  | [] => k s cp
  | AChar c :: l' => m_char c (m_atoms l' k) s cp
  | ACap i c min1 :: l' =>
      rep c (fun v s' => if min1 && is_empty v then None else m_atoms l' k s' ((i, v) :: cp)) [] s
  | AOptChar c :: l' =>
      match m_char c (m_atoms l' k) s cp with
      | Some r => Some r
      | None => m_atoms l' k s cp
      end
  end.

Fixpoint m_nodes (l : list node) (k : K) (s : str) (cp : caps) : option caps :=
  match l with
  | [] => k s cp
  | NAtom a :: l' => m_atoms [a] (m_nodes l' k) s cp
  | NOptAlt a b :: l' =>
      match m_atoms a (m_nodes l' k) s cp with
      | Some r => Some r
      | None =>
          match m_atoms b (m_nodes l' k) s cp with
          | Some r => Some r
          | None => m_nodes l' k s cp
          end
      end
  end.

(* '$' without MULTILINE: at the end, or just before a newline that ends the string *)
Definition k_end : K :=
  fun s cp => match s with
              | [] => Some cp
              | [x] => if x =? NL then Some cp else None
              | _ => None
              end.

Definition re_match (r : regex) (s : str) : option caps := m_nodes r k_end s [].

Fixpoint lookup (i : nat) (cp : caps) : option str :=
  match cp with
  | [] => None
  | (j, v) :: t => if Nat.eqb i j then Some v else lookup i t
  end.
(* m.groups(): None for a group that did not take part *)
Definition groups (n : nat) (cp : caps) : list (option str) := map (fun i => lookup i cp) (seq 0 n).

Definition re_groups (r : regex) (s : str) : option (list (option str)) :=
  option_map (groups (ncaps r)) (re_match r s).

(* ---- route table, getRoute, dispatch --------------------------------------------------- *)

(* {k: v for k, v in zip(tokens, m.groups())}: insertion ordered, a repeated key keeps its
   place and takes the later value *)
Definition dict := list (str * option str).
Fixpoint dict_set (k : str) (v : option str) (d : dict) : dict :=
  match d with
  | [] => [(k, v)]
  | (k', v') :: t => if str_eqb k k' then (k', v) :: t else (k', v') :: dict_set k v t
  end.
Definition mkdict (kvs : list (str * option str)) : dict :=
  fold_left (fun d kv => dict_set (fst kv) (snd kv) d) kvs [].

Record entry := { e_re : regex; e_toks : list str; e_id : Z }.
Definition table := list (str * list entry).

Definition M_DELETE : str := [68;69;76;69;84;69].
Definition M_GET : str := [71;69;84].
Definition M_POST : str := [80;79;83;84].
Definition M_PUT : str := [80;85;84].
Definition empty_table : table := [(M_DELETE, []); (M_GET, []); (M_POST, []); (M_PUT, [])].

Fixpoint tbl_get (t : table) (m : str) : option (list entry) :=
  match t with
  | [] => None
  | (m', es) :: t' => if str_eqb m m' then Some es else tbl_get t' m
  end.
Fixpoint tbl_append (t : table) (m : str) (e : entry) : table :=
  match t with
  | [] => []
  | (m', es) :: t' => if str_eqb m m' then (m', es ++ [e]) :: t' else (m', es) :: tbl_append t' m e
  end.

(* patternToRegex as a whole: re.compile of the text is its syntax tree *)
Definition compile_route (pat : str) : res (regex * list str) :=
  match pattern_to_regex pat with
  | Err e => Err e
  | Ok (_, toks) => Ok (ast_of_pieces (parse_pattern pat), toks)
  end.

Record route := { r_method : str; r_pattern : str; r_id : Z }.

(* registerRoutes: routes registered before a failing one stay registered *)
Fixpoint register_routes (t : table) (rs : list route) : table * res unit :=
  match rs with
  | [] => (t, Ok tt)
  | r :: rs' =>
      match compile_route (r_pattern r) with
      | Err e => (t, Err e)
      | Ok (re, toks) =>
          match tbl_get t (r_method r) with
          | None => (t, Err EValue)
          | Some _ =>
              register_routes (tbl_append t (r_method r) {| e_re := re; e_toks := toks; e_id := r_id r |}) rs'
          end
      end
  end.

Definition entry_match (e : entry) (path : str) : option dict :=
  match re_match (e_re e) path with
  | Some cp => Some (mkdict (combine (e_toks e) (groups (ncaps (e_re e)) cp)))
  | None => None
  end.

Fixpoint first_match (es : list entry) (path : str) : option (Z * dict) :=
  match es with
  | [] => None
  | e :: es' =>
      match entry_match e path with
      | Some d => Some (e_id e, d)
      | None => first_match es' path
      end
  end.

Definition get_route (t : table) (m path : str) : option (Z * dict) :=
  match tbl_get t m with
  | None => None
  | Some es => first_match es path
  end.

Inductive dres := D429 | D404 | DRoute (id : Z) (d : dict).
(* [limited] = what self.limiter.insert(client address) returned *)
Definition router_dispatch (t : table) (limited : bool) (m path : str) : dres :=
  if limited then D429
  else match get_route t m path with
       | None => D404
       | Some (id, d) => DRoute id d
       end.

(* ---- the documented rule, on segment lists --------------------------------------------- *)

(* the path "/s1/s2/.../sn" (n >= 0; n = 0 is the empty path) *)
Definition render (segs : list str) : str := flat_map (fun g => SL :: g) segs.

(* [segs]: the segments of the path after its leading '/'.  A trailing slash shows up as a
   last empty segment.  Result: one value per parameter, None = not bound.
     literal   the segment equals the literal in full
     :name     one non-empty segment
     :name?    nothing, or one segment (it may be followed by the tolerated trailing slash)
     :name*    nothing, or everything that follows the '/', verbatim
     :name+    like * but the remainder must not be empty
   after the last piece: nothing, or one trailing slash. *)
Fixpoint spec (ps : list piece) (segs : list str) : option (list (option str)) :=
  match ps with
  | [] => match segs with
          | [] => Some []
          | [g] => if is_empty g then Some [] else None
          | _ => None
          end
  | PLit l :: ps' =>
      match segs with
      | g :: segs' => if str_eqb g l then spec ps' segs' else None
      | [] => None
      end
  | POne _ :: ps' =>
      match segs with
      | g :: segs' => if is_empty g then None else option_map (cons (Some g)) (spec ps' segs')
      | [] => None
      end
  | POpt _ :: _ =>
      match segs with
      | [] => Some [None]
      | [g] => Some [Some g]
      | [g; e] => if is_empty e then Some [Some g] else None
      | _ => None
      end
  | PStar _ :: _ =>
      match segs with
      | [] => Some [None]
      | _ => Some [Some (join_sl segs)]
      end
  | PPlus _ :: _ =>
      match segs with
      | [] => None
      | [g] => if is_empty g then None else Some [Some g]
      | _ => Some [Some (join_sl segs)]
      end
  end.

(* the rule on a path string: the empty path has no segments; otherwise the path must start
   with '/' and its segments are what follows, split at '/' *)
Definition path_segs (path : str) : option (list str) :=
  match path with
  | [] => Some []
  | c :: t => if c =? SL then Some (split_sl t) else None
  end.

Definition spec_path (ps : list piece) (path : str) : option (list (option str)) :=
  match path_segs path with
  | Some segs => spec ps segs
  | None => None
  end.

(* one pattern against one path, through the regular expression: what getRoute computes for
   a table holding that single route *)
Definition route_match (pat path : str) : option (list (str * option str)) :=
  match compile_route pat with
  | Err _ => None
  | Ok (re, toks) => option_map (combine toks) (re_groups re path)
  end.
Definition spec_route_match (pat path : str) : option (list (str * option str)) :=
  option_map (combine (names (parse_pattern pat))) (spec_path (parse_pattern pat) path).

(* getRoute by the documented rule: the first route, in registration order, of the request's
   method whose pattern matches *)
Fixpoint spec_get_route (rs : list route) (m path : str) : option (Z * dict) :=
  match rs with
  | [] => None
  | r :: rs' =>
      if str_eqb m (r_method r) then
        match spec_route_match (r_pattern r) path with
        | Some kvs => Some (r_id r, mkdict kvs)
        | None => spec_get_route rs' m path
        end
      else spec_get_route rs' m path
  end.

Definition supported_method (m : str) : bool :=
  str_eqb m M_DELETE || str_eqb m M_GET || str_eqb m M_POST || str_eqb m M_PUT.

Definition no_nl (s : str) : Prop := ~ In NL s.

(* the documented rule once more, as inference rules (proved equivalent to [spec] on the
   documented grammar): [matches pieces segments values] *)
Inductive matches : list piece -> list str -> list (option str) -> Prop :=
  | M_end : matches [] [] []
  | M_end_slash : matches [] [[]] []                                   (* one trailing slash *)
  | M_lit l ps segs vals :
      matches ps segs vals -> matches (PLit l :: ps) (l :: segs) vals
  | M_one n g ps segs vals :
      g <> [] -> matches ps segs vals -> matches (POne n :: ps) (g :: segs) (Some g :: vals)
  | M_opt_none n : matches [POpt n] [] [None]
  | M_opt_one n g : matches [POpt n] [g] [Some g]
  | M_opt_one_slash n g : matches [POpt n] [g; []] [Some g]
  | M_star_none n : matches [PStar n] [] [None]
  | M_star n segs : segs <> [] -> matches [PStar n] segs [Some (join_sl segs)]
  | M_plus n segs : segs <> [] -> segs <> [[]] -> matches [PPlus n] segs [Some (join_sl segs)].
