(* PathJoin.v — executable model of mpgameserver/http_server.py:path_join_safe (AFTER the D12
   repair) and of the three posixpath functions it calls: join, normpath, abspath.
   Strings are lists of code points (Z); os.getcwd() is the parameter [cwd].
   Definitions only. *)
From Model Require Import Base.
Open Scope Z_scope.

Definition str := list Z.
Definition SL : Z := 47.      (* '/'  *)
Definition BSL : Z := 92.     (* '\\' *)
Definition DOT : Z := 46.     (* '.'  *)

Fixpoint str_eqb (a b : str) : bool :=
  match a, b with
  | [], [] => true
  | x :: a', y :: b' => (x =? y) && str_eqb a' b'
  | _, _ => false
  end.

Definition is_empty (s : str) : bool := match s with [] => true | _ => false end.
Definition is_dot (s : str) : bool := str_eqb s [DOT].
Definition is_dotdot (s : str) : bool := str_eqb s [DOT; DOT].

(* s.replace("\\", "/") *)
Definition replace_bs (s : str) : str := map (fun c => if c =? BSL then SL else c) s.

(* s.split("/") : always at least one element *)
Fixpoint split_sl (s : str) : list str :=
  match s with
  | [] => [[]]
  | c :: s' =>
      if c =? SL then [] :: split_sl s'
      else match split_sl s' with
           | h :: t => (c :: h) :: t
           | [] => [[c]]
           end
  end.

(* "/".join(l) *)
Fixpoint join_sl (l : list str) : str :=
  match l with
  | [] => []
  | a :: l' => match l' with [] => a | _ => a ++ SL :: join_sl l' end
  end.

Definition starts_sl (s : str) : bool := match s with c :: _ => c =? SL | [] => false end.
Definition ends_sl (s : str) : bool := match rev s with c :: _ => c =? SL | [] => false end.

(* s.startswith(p) *)
Fixpoint starts_with (p s : str) : bool :=
  match p, s with
  | [], _ => true
  | x :: p', y :: s' => (x =? y) && starts_with p' s'
  | _ :: _, [] => false
  end.

(* s.rstrip("/") *)
Fixpoint rstrip_sl (s : str) : str :=
  match s with
  | [] => []
  | c :: s' => match rstrip_sl s' with
               | [] => if c =? SL then [] else [c]
               | r => c :: r
               end
  end.

(* posixpath.join(a, b) *)
Definition pjoin (a b : str) : str :=
  if starts_sl b then b
  else if is_empty a || ends_sl a then a ++ b
  else a ++ SL :: b.

(* the loop of posixpath.normpath; [acc] is new_comps reversed; [init] is "initial_slashes" *)
Fixpoint norm_loop (init : bool) (comps : list str) (acc : list str) : list str :=
  match comps with
  | [] => rev acc
  | c :: cs =>
      if is_empty c || is_dot c then norm_loop init cs acc
      else if negb (is_dotdot c)
              || (negb init && match acc with [] => true | _ => false end)
              || (match acc with h :: _ => is_dotdot h | [] => false end)
           then norm_loop init cs (c :: acc)
           else match acc with
                | _ :: acc' => norm_loop init cs acc'
                | [] => norm_loop init cs acc
                end
  end.

(* number of initial slashes kept by normpath: 0, 1 or 2 (exactly two are kept, 3+ collapse) *)
Definition initial_slashes (p : str) : nat :=
  match p with
  | a :: b :: c :: _ =>
      if a =? SL then (if b =? SL then (if c =? SL then 1%nat else 2%nat) else 1%nat) else 0%nat
  | [a; b] => if a =? SL then (if b =? SL then 2%nat else 1%nat) else 0%nat
  | [a] => if a =? SL then 1%nat else 0%nat
  | [] => 0%nat
  end.

Definition normpath (p : str) : str :=
  match p with
  | [] => [DOT]
  | _ =>
      let n := initial_slashes p in
      let comps := norm_loop (negb (Nat.eqb n 0)) (split_sl p) [] in
      let path := repeat SL n ++ join_sl comps in
      match path with [] => [DOT] | _ => path end
  end.

(* posixpath.abspath with os.getcwd() = cwd *)
Definition abspath (cwd p : str) : str :=
  normpath (if starts_sl p then p else pjoin cwd p).

(* http_server.path_join_safe (fixed) *)
Definition path_join_safe (cwd root name : str) : res str :=
  let root := replace_bs root in
  let name := replace_bs name in
  let parts := split_sl name in
  if existsb is_dotdot parts || existsb is_dot parts then Err EValue
  else
    let root := abspath cwd root in
    let path := abspath cwd (pjoin root name) in
    if negb (str_eqb path root) && negb (starts_with (rstrip_sl root ++ [SL]) path)
    then Err EValue
    else Ok path.

(* ---- vocabulary of the containment statement -------------------------------------- *)

(* the path components: split on '/', empty components dropped *)
Definition comps_of (p : str) : list str := filter (fun c => negb (is_empty c)) (split_sl p).

(* no component is "." or ".." — so walking the components never leaves the directory
   reached so far *)
Definition no_dots (l : list str) : Prop := Forall (fun c => is_dot c = false /\ is_dotdot c = false) l.

(* what an accepted result looks like, relative to the absolute normalised root R:
   both are absolute and free of "."/".." components, the component list of the result
   extends the component list of R (so the result denotes R itself or something beneath it),
   and — the test the code performs — as strings the result is R or R (without trailing
   slashes) followed by "/" and a remainder. *)
Definition contained (R result : str) : Prop :=
  starts_sl result = true /\ no_dots (comps_of result) /\
  starts_sl R = true /\ no_dots (comps_of R) /\
  (exists extra, comps_of result = comps_of R ++ extra) /\
  (result = R \/ exists t, result = rstrip_sl R ++ SL :: t).
