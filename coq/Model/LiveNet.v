(* LiveNet.v — C05, the liveness composition: the timed two-endpoint model of TimedNet.v (same
   events, same step function, same ghost log of emissions per direction), started right after the
   sender's application has called send(payload, retry=RETRY_ON_TIMEOUT) / send_guaranteed(payload),
   over a network that loses, duplicates, reorders and injects at will and that, from a time th on
   ("healed"), shows every datagram the SENDER emits to the peer within the delay d.
   Definitions only.

   What differs from TimedNet.tvalid (C12): loss is allowed before th; copies of any age are allowed
   (there is no lifetime bound: the ring hypothesis is "fewer than HALF datagrams in the sender's
   direction", checked event by event); only the sender has to call update() at least every tau;
   only the sender's direction has to heal; "the connection stays open" is a hypothesis on the
   history (neither time-out rule fires), as in the property text. *)
From RecordUpdate Require Import RecordUpdate.
From Model Require Import Base SeqNum Wire Conn Client Net TimedNet.
Import RecordSetNotations.
Open Scope Z_scope.

(* which endpoint's application sends the guaranteed message *)
Inductive side := SCli | SSrv.

Definition snd_conn (sd : side) (n : tnet) : conn := match sd with SCli => t_cli n | SSrv => t_srv n end.
Definition rcv_conn (sd : side) (n : tnet) : conn := match sd with SCli => t_srv n | SSrv => t_cli n end.
Definition fwd (sd : side) (n : tnet) : wdir := match sd with SCli => t_cs n | SSrv => t_sc n end.
Definition bwd (sd : side) (n : tnet) : wdir := match sd with SCli => t_sc n | SSrv => t_cs n end.
Definition snd_tick (sd : side) (n : tnet) : Z := match sd with SCli => t_tickC n | SSrv => t_tickS n end.

(* every datagram emitted at or after th that has not been shown to the peer yet is at most d old *)
Definition on_time_from (th : Z) (w : wdir) (d now : Z) : Prop :=
  Forall (fun p => th <= snd p -> now <= snd p + d) (wd_pend w).

(* what a receive opportunity yields: nothing, a copy of ANY datagram the peer has emitted so far
   (duplication, reordering, arbitrary delay), or bytes the receiver cannot open under its key *)
Definition hsrc_ok (key : option Z) (w : wdir) (s : tsrc) : Prop :=
  match s with
  | SNone => True
  | SPeer i => exists t dg, wd_lookup w i = Some (t, dg)
  | SJunk dg _ => forall ms, open_dgram key dg <> Ok ms
  end.

(* "provided the connection stays open": the server has not removed the client, this update() does
   not report DROPPED (5 s of silence), this sweep does not remove the client (T of silence) *)
Definition stays_open (T : Z) (n : tnet) (v : tev) : Prop :=
  t_swept n = false /\
  match v with
  | TClient now _ => (c_last_recv (t_cli n) >? 0) && (now >? c_last_recv (t_cli n) + 5 * TICKS) = false
  | TSrvSweep now => sweep_drops T (t_srv n) now = false
  | TSrvRecv _ _ => True
  end.

Definition hok (P : tparams) (sd : side) (th : Z) (n : tnet) (v : tev) : Prop :=
  let now := tev_time v in
  t_clk n <= now /\ now - snd_tick sd n <= tp_tau P
  /\ on_time_from th (fwd sd n) (tp_d P) now
  /\ wd_n (fwd sd n) < HALF
  /\ stays_open (tp_T P) n v
  /\ match v with
     | TClient _ s => hsrc_ok (c_key (t_cli n)) (t_sc n) s
     | TSrvRecv _ s => hsrc_ok (c_key (t_srv n)) (t_cs n) s
     | TSrvSweep _ => True
     end.

Fixpoint hvalid (e : env) (P : tparams) (sd : side) (th : Z) (n : tnet) (vs : list tev) : Prop :=
  match vs with
  | [] => True
  | v :: r => hok P sd th n v /\ hvalid e P sd th (tstep e P n v) r
  end.

(* a moment `now`, after the history, up to which the hypotheses on the network and on the sender's
   update() calls still hold *)
Definition hnow (P : tparams) (sd : side) (th : Z) (n : tnet) (now : Z) : Prop :=
  t_clk n <= now /\ now - snd_tick sd n <= tp_tau P /\ on_time_from th (fwd sd n) (tp_d P) now.

(* ---------- the pair when the application calls send ---------- *)

(* y has accepted no datagram number that x has not used yet (first lap of the sequence ring) *)
Definition pkt_behind (x y : conn) : Prop :=
  bf_nbits (c_bf_pkt y) = 32 /\ 0 <= bf_bits (c_bf_pkt y) < 2 ^ 32 /\ 0 <= c_seq_send x < HALF
  /\ ((bf_cur (c_bf_pkt y) = 0 /\ bf_bits (c_bf_pkt y) = 0) \/ 1 <= bf_cur (c_bf_pkt y) <= c_seq_send x).

(* y has flagged no message number that x has not used yet (first half lap of the message ring) *)
Definition msg_behind (x y : conn) : Prop :=
  0 <= c_seq_msg x < HALF /\ (bf_cur (c_bf_msg y) = 0 \/ 1 <= bf_cur (c_bf_msg y) <= c_seq_msg x).

(* sender x, receiver y: both CONNECTED under key k with nothing queued, nothing waiting for a retry
   and no RetrySender pending (TimedNet.idle_ep: the message is the only traffic of the pair), no
   retry bookkeeping left over at the sender, the id of the RetrySender about to be created is not
   among the completed ones, the receiver's windows behind the sender's counters *)
Definition live_start (k t0 : Z) (x y : conn) : Prop :=
  idle_ep k x /\ idle_ep k y /\ c_pretry x = [] /\ 0 <= c_next_rid x /\ zmem (c_next_rid x) (c_done x) = false
  /\ pkt_behind x y /\ msg_behind x y /\ c_last_send x <= t0 /\ 0 <= kmax x.

Definition lenv_ok (e : env) : Prop := e_max_payload e < 2 ^ 16.

(* the state right after send(p, retry=RETRY_ON_TIMEOUT, callback=ucb) at time t0 *)
Definition after_send (e : env) (sd : side) (cli srv : conn) (p : list byte) (ucb : icb) (t0 : Z) : tnet :=
  match sd with
  | SCli => tnet0 (fst (send e cli p RTimeout ucb)) srv t0
  | SSrv => tnet0 cli (fst (send e srv p RTimeout ucb)) t0
  end.

(* the explicit bound: resend delay (= keep-alive interval) or send interval, one update() period,
   one network delay *)
Definition live_bound (P : tparams) (x : conn) : Z := kmax x + tp_tau P + tp_d P.

(* ---------- executable versions (Proofs/LiveP.v: each implies its Prop) ---------- *)
Definition on_time_fromb (th : Z) (w : wdir) (d now : Z) : bool :=
  forallb (fun p => negb (th <=? snd p) || (now <=? snd p + d)) (wd_pend w).

Definition hsrc_okb (key : option Z) (w : wdir) (s : tsrc) : bool :=
  match s with
  | SNone => true
  | SPeer i => match wd_lookup w i with Some _ => true | None => false end
  | SJunk dg _ => match open_dgram key dg with Ok _ => false | Err _ => true end
  end.

Definition stays_openb (T : Z) (n : tnet) (v : tev) : bool :=
  negb (t_swept n) &&
  match v with
  | TClient now _ => negb ((c_last_recv (t_cli n) >? 0) && (now >? c_last_recv (t_cli n) + 5 * TICKS))
  | TSrvSweep now => negb (sweep_drops T (t_srv n) now)
  | TSrvRecv _ _ => true
  end.

Definition hokb (P : tparams) (sd : side) (th : Z) (n : tnet) (v : tev) : bool :=
  let now := tev_time v in
  (t_clk n <=? now) && (now - snd_tick sd n <=? tp_tau P)
  && on_time_fromb th (fwd sd n) (tp_d P) now
  && (wd_n (fwd sd n) <? HALF)
  && stays_openb (tp_T P) n v
  && match v with
     | TClient _ s => hsrc_okb (c_key (t_cli n)) (t_sc n) s
     | TSrvRecv _ s => hsrc_okb (c_key (t_srv n)) (t_cs n) s
     | TSrvSweep _ => true
     end.

Fixpoint hvalidb (e : env) (P : tparams) (sd : side) (th : Z) (n : tnet) (vs : list tev) : bool :=
  match vs with
  | [] => true
  | v :: r => hokb P sd th n v && hvalidb e P sd th (tstep e P n v) r
  end.

Definition hnowb (P : tparams) (sd : side) (th : Z) (n : tnet) (now : Z) : bool :=
  (t_clk n <=? now) && (now - snd_tick sd n <=? tp_tau P) && on_time_fromb th (fwd sd n) (tp_d P) now.

Definition pkt_behindb (x y : conn) : bool :=
  (bf_nbits (c_bf_pkt y) =? 32) && (0 <=? bf_bits (c_bf_pkt y)) && (bf_bits (c_bf_pkt y) <? 2 ^ 32)
  && (0 <=? c_seq_send x) && (c_seq_send x <? HALF)
  && (((bf_cur (c_bf_pkt y) =? 0) && (bf_bits (c_bf_pkt y) =? 0))
      || ((1 <=? bf_cur (c_bf_pkt y)) && (bf_cur (c_bf_pkt y) <=? c_seq_send x))).

Definition msg_behindb (x y : conn) : bool :=
  (0 <=? c_seq_msg x) && (c_seq_msg x <? HALF)
  && ((bf_cur (c_bf_msg y) =? 0) || ((1 <=? bf_cur (c_bf_msg y)) && (bf_cur (c_bf_msg y) <=? c_seq_msg x))).

Definition live_startb (k t0 : Z) (x y : conn) : bool :=
  idle_epb k x && idle_epb k y && is_nil (c_pretry x) && (0 <=? c_next_rid x)
  && negb (zmem (c_next_rid x) (c_done x))
  && pkt_behindb x y && msg_behindb x y && (c_last_send x <=? t0) && (0 <=? kmax x).
