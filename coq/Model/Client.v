(* Client.v — the configuration glue of client.py (UdpClient setters / connect) and of
   context.py + server.py (ServerContext setters, settings copied to a new connection, the
   time-out tests of the server's sweeps).  Definitions only. *)
From RecordUpdate Require Import RecordUpdate.
From Model Require Import Base SeqNum Wire Conn.
Import RecordSetNotations.
Open Scope Z_scope.

(* ---- UdpClient ---- *)
Record uclient := mkUclient { u_ka : Z; u_tt : Z; u_ot : Z; u_conn : option conn }.
#[export] Instance eta_uclient : Settable _ := settable! mkUclient <u_ka; u_tt; u_ot; u_conn>.

(* UdpClient.__init__: keep_alive_interval .1, temp_connection_timeout 2.0, outgoing_timeout 1.0 *)
Definition uclient0 : uclient := {| u_ka := 1536; u_tt := 2 * TICKS; u_ot := TICKS; u_conn := None |}.

Inductive uop :=
  | USetKeepAlive (v : Z)            (* setKeepAliveInterval *)
  | USetConnTimeout (v : Z)          (* setConnectionTimeout *)
  | USetMsgTimeout (v : Z)           (* setMessageTimeout *)
  | UConnect (now : Z) (hello : list byte) (with_cb : bool)
  | UConn (x : ev).                  (* anything that happens to the current connection *)

Definition on_conn (f : conn -> conn) (u : uclient) : uclient :=
  u <| u_conn := match u_conn u with Some c => Some (f c) | None => None end |>.

Definition ustep (e : env) (u : uclient) (op : uop) : uclient * list out :=
  match op with
  | USetKeepAlive v => (on_conn (fun c => c <| c_ka_interval := v |>) (u <| u_ka := v |>), [])
  | USetConnTimeout v => (on_conn (fun c => c <| c_temp_timeout := v |>) (u <| u_tt := v |>), [])
  | USetMsgTimeout v => (on_conn (fun c => c <| c_out_timeout := v |>) (u <| u_ot := v |>), [])
  | UConnect now hello with_cb =>
      let c := (conn0 false) <| c_conn_cb := with_cb |> <| c_ka_interval := u_ka u |>
                 <| c_temp_timeout := u_tt u |> <| c_out_timeout := u_ot u |> in
      (u <| u_conn := Some (client_hello c now hello) |>, [])
  | UConn x =>
      match u_conn u with
      | Some c => let '(c', o) := step e c x in (u <| u_conn := Some c' |>, o)
      | None => (u, [])
      end
  end.

Fixpoint urun (e : env) (u : uclient) (ops : list uop) : uclient * list (list out) :=
  match ops with
  | [] => (u, [])
  | op :: r => let '(u1, o) := ustep e u op in
               let '(u2, os) := urun e u1 r in (u2, o :: os)
  end.

(* ---- ServerContext ---- *)
Record scfg := mkScfg { s_conn_timeout : Z; s_temp_timeout : Z; s_ka : Z; s_ot : Z }.
#[export] Instance eta_scfg : Settable _ := settable! mkScfg <s_conn_timeout; s_temp_timeout; s_ka; s_ot>.
(* ServerContext.__init__: 5.0, 2.0, .1, 1.0 *)
Definition scfg0 : scfg := {| s_conn_timeout := 5 * TICKS; s_temp_timeout := 2 * TICKS; s_ka := 1536; s_ot := TICKS |}.

Inductive sop := SSetKeepAlive (v : Z) | SSetConnTimeout (v : Z) | SSetTempTimeout (v : Z) | SSetMsgTimeout (v : Z).
Definition sstep (s : scfg) (op : sop) : scfg :=
  match op with
  | SSetKeepAlive v => s <| s_ka := v |>
  | SSetConnTimeout v => s <| s_conn_timeout := v |>
  | SSetTempTimeout v => s <| s_temp_timeout := v |>
  | SSetMsgTimeout v => s <| s_ot := v |>
  end.

(* server.py: a connection created for a new address takes the context's settings *)
Definition new_server_conn (s : scfg) : conn :=
  (conn0 true) <| c_ka_interval := s_ka s |> <| c_out_timeout := s_ot s |>.

(* server.py sweeps: an established client is dropped when DISCONNECTED or silent for
   connection_timeout; a temporary one when DISCONNECTED or silent for temp_connection_timeout *)
Definition sweep_drops (timeout : Z) (c : conn) (now : Z) : bool :=
  status_eqb (c_status c) DISCONNECTED || timedout c now timeout.
