(* Dispatch.v — executable model of mpgameserver/dispatch.py (server_event/client_event,
   MessageDispatcher.register/unregister/register_function/unregister_function,
   ServerMessageDispatcher.dispatch / ClientMessageDispatcher.dispatch).  Definitions only.

   registered_events (a Python dict, insertion ordered, keys unique) is an association list in
   insertion order keyed by the event name.  A resource is the list of its decorated routines in
   dir() order.  A handler is an opaque identity plus the number of positional parameters the
   bound method accepts (a call with another number of arguments is Python's TypeError, raised
   before the body runs).  Arguments of dispatch are opaque tokens of an arbitrary type A.
   Domain: annotations that are classes or strings (anything else is stored under a key no
   message class name can equal and is outside the property). *)
From Model Require Import Base.
Open Scope Z_scope.

Definition name := list byte.

Fixpoint name_eqb (a b : name) : bool :=
  match a, b with
  | [], [] => true
  | x :: a', y :: b' => Byte.eqb x y && name_eqb a' b'
  | _, _ => false
  end.

(* the annotation recorded on a method: a class object (its __name__) or a string *)
Inductive akind := AClass | AStr.
Record ann := { a_kind : akind; a_name : name }.

Inductive dkind := KServer | KClient.

(* number of arguments the dispatcher passes to a handler *)
Definition nargs (k : dkind) : Z := match k with KServer => 3 | KClient => 2 end.

(* server_event / client_event: [nparams] = len(inspect.signature(method).parameters) (self
   included), [a] = annotation of the parameter at index 3 / 2 (None = inspect._empty).
   Ok a = the value stored in method._event; Err EOther = the bare Exception() *)
Definition decorate (k : dkind) (nparams : Z) (a : option ann) : res ann :=
  if negb (nparams =? nargs k + 1) then Err EOther
  else match a with None => Err EOther | Some x => Ok x end.

Record handler := { h_id : Z; h_arity : Z }.
Record method := { m_ann : ann; m_h : handler }.
Definition resource := list method.

Definition table := list (name * handler).

(* isinstance(event_type, type) -> event_type.__name__ ; a string is kept *)
Definition ev_name (a : ann) : name := a_name a.

Definition has (t : table) (n : name) : bool := existsb (fun e => name_eqb (fst e) n) t.
Definition lookup (t : table) (n : name) : option handler :=
  match find (fun e => name_eqb (fst e) n) t with Some e => Some (snd e) | None => None end.
Definition remove (t : table) (n : name) : table := filter (fun e => negb (name_eqb (fst e) n)) t.

Definition register_function (t : table) (a : ann) (h : handler) : table * res unit :=
  if has t (ev_name a) then (t, Err EOther) else (t ++ [(ev_name a, h)], Ok tt).

(* unregister_function: normalise, refuse an absent name, delete the entry *)
Definition unregister_function (t : table) (a : ann) : table * res unit :=
  if has t (ev_name a) then (remove t (ev_name a), Ok tt) else (t, Err EOther).

(* register: for name in dir(resource): register_function(attr._event, attr); an exception
   leaves the methods registered so far in the table *)
Fixpoint register (t : table) (r : resource) : table * res unit :=
  match r with
  | [] => (t, Ok tt)
  | m :: r' =>
      match register_function t (m_ann m) (m_h m) with
      | (t', Ok _) => register t' r'
      | (t', Err e) => (t', Err e)
      end
  end.

(* unregister: for name in dir(resource): normalise attr._event; if it is a key of the table
   call unregister_function with the (string) name; names without an entry are skipped *)
Fixpoint unregister (t : table) (r : resource) : table * res unit :=
  match r with
  | [] => (t, Ok tt)
  | m :: r' =>
      let n := ev_name (m_ann m) in
      if has t n then
        match unregister_function t {| a_kind := AStr; a_name := n |} with
        | (t', Ok _) => unregister t' r'
        | (t', Err e) => (t', Err e)
        end
      else unregister t r'
  end.

(* dispatch: T = type(msg); T.__name__ not in table -> DispatchError, nothing called;
   otherwise the registered callable is invoked once with the arguments as given.
   Result: the list of invocations (handler id, arguments). *)
Definition invoke {A} (t : table) (cname : name) (args : list A) : res (list (Z * list A)) :=
  match lookup t cname with
  | None => Err EDispatch
  | Some h => if h_arity h =? len args then Ok [(h_id h, args)] else Err EType
  end.

Definition call_args {A} (k : dkind) (client seqnum msg : A) : list A :=
  match k with KServer => [client; seqnum; msg] | KClient => [seqnum; msg] end.

(* ServerMessageDispatcher.dispatch(client, seqnum, msg) / ClientMessageDispatcher.dispatch(seqnum, msg);
   cname = type(msg).__name__ ; [client] is ignored by the client dispatcher *)
Definition dispatch_msg {A} (k : dkind) (t : table) (client seqnum : A) (cname : name) (msg : A)
  : res (list (Z * list A)) :=
  invoke t cname (call_args k client seqnum msg).

(* operation sequences on one dispatcher *)
Inductive op (A : Type) :=
  | ORegister (r : resource)
  | OUnregister (r : resource)
  | ORegFn (a : ann) (h : handler)
  | OUnregFn (a : ann)
  | ODispatch (client seqnum : A) (cname : name) (msg : A).
Arguments ORegister {A} r.
Arguments OUnregister {A} r.
Arguments ORegFn {A} a h.
Arguments OUnregFn {A} a.
Arguments ODispatch {A} client seqnum cname msg.

Inductive out (A : Type) :=
  | OUnit (r : res unit)
  | OCalls (r : res (list (Z * list A))).
Arguments OUnit {A} r.
Arguments OCalls {A} r.

Definition step {A} (k : dkind) (t : table) (o : op A) : table * out A :=
  match o with
  | ORegister r => let '(t', x) := register t r in (t', OUnit x)
  | OUnregister r => let '(t', x) := unregister t r in (t', OUnit x)
  | ORegFn a h => let '(t', x) := register_function t a h in (t', OUnit x)
  | OUnregFn a => let '(t', x) := unregister_function t a in (t', OUnit x)
  | ODispatch c s n m => (t, OCalls (dispatch_msg k t c s n m))
  end.

Fixpoint run {A} (k : dkind) (t : table) (ops : list (op A)) : table * list (out A) :=
  match ops with
  | [] => (t, [])
  | o :: ops' =>
      let '(t', x) := step k t o in
      let '(t'', xs) := run k t' ops' in (t'', x :: xs)
  end.

Definition table_of {A} (k : dkind) (ops : list (op A)) : table := fst (run k [] ops).

(* ---------------------------------------------------------------------------------------
   Abstract specification used by the refinement theorem: the dispatcher state as a
   mathematical finite map (a function name -> option handler), no list, no order. *)
Definition amap := name -> option handler.
Definition a_empty : amap := fun _ => None.
Definition a_set (f : amap) (n : name) (h : handler) : amap := fun m => if name_eqb n m then Some h else f m.
Definition a_del (f : amap) (n : name) : amap := fun m => if name_eqb n m then None else f m.
Definition a_bound (f : amap) (n : name) : bool := match f n with Some _ => true | None => false end.

Definition a_regfn (f : amap) (n : name) (h : handler) : amap * res unit :=
  if a_bound f n then (f, Err EOther) else (a_set f n h, Ok tt).
Definition a_unregfn (f : amap) (n : name) : amap * res unit :=
  if a_bound f n then (a_del f n, Ok tt) else (f, Err EOther).
Fixpoint a_register (f : amap) (r : resource) : amap * res unit :=
  match r with
  | [] => (f, Ok tt)
  | m :: r' =>
      match a_regfn f (ev_name (m_ann m)) (m_h m) with
      | (f', Ok _) => a_register f' r'
      | (f', Err e) => (f', Err e)
      end
  end.
(* unregister(resource): every class named by the resource ends up without a handler; never raises *)
Definition a_unregister (f : amap) (r : resource) : amap * res unit :=
  (fold_left (fun g m => a_del g (ev_name (m_ann m))) r f, Ok tt).
Definition a_dispatch {A} (k : dkind) (f : amap) (client seqnum : A) (cname : name) (msg : A)
  : res (list (Z * list A)) :=
  match f cname with
  | None => Err EDispatch
  | Some h => if h_arity h =? nargs k then Ok [(h_id h, call_args k client seqnum msg)] else Err EType
  end.

Definition a_step {A} (k : dkind) (f : amap) (o : op A) : amap * out A :=
  match o with
  | ORegister r => let '(f', x) := a_register f r in (f', OUnit x)
  | OUnregister r => let '(f', x) := a_unregister f r in (f', OUnit x)
  | ORegFn a h => let '(f', x) := a_regfn f (ev_name a) h in (f', OUnit x)
  | OUnregFn a => let '(f', x) := a_unregfn f (ev_name a) in (f', OUnit x)
  | ODispatch c s n m => (f, OCalls (a_dispatch k f c s n m))
  end.

Fixpoint a_run {A} (k : dkind) (f : amap) (ops : list (op A)) : amap * list (out A) :=
  match ops with
  | [] => (f, [])
  | o :: ops' =>
      let '(f', x) := a_step k f o in
      let '(f'', xs) := a_run k f' ops' in (f'', x :: xs)
  end.
