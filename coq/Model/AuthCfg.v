(* AuthCfg.v — Auth.hash_password under the documented class attributes Auth.SALT_LENGTH / Auth.DIGEST_LENGTH
   as they are AT THE TIME OF THE CALL, and histories of calls in one process (the attributes changed between
   calls).  Definitions only; extends Model/Auth.v (whose hash_password is the default configuration 16 / 24).
   The code keeps no state between calls: the string depends on the current attributes, the password and
   the salt os.urandom returned - nothing else. *)
From Model Require Import Base Base64 Auth.
Open Scope Z_scope.

Record cfg := { c_sl : Z; c_dl : Z }.      (* SALT_LENGTH, DIGEST_LENGTH *)
Definition default_cfg : cfg := {| c_sl := SALT_LENGTH; c_dl := DIGEST_LENGTH |}.
Definition cfg_params (c : cfg) : kparams :=
  {| k_N := k_N std_params; k_r := k_r std_params; k_p := k_p std_params; k_sl := c_sl c; k_len := c_dl c |}.
(* struct.pack(">HBBBB", ...) takes the two lengths as unsigned bytes *)
Definition byte_rng (z : Z) : bool := (0 <=? z) && (z <=? 255).

Section AuthCfg.
  Variable sha : list byte -> list byte.
  Variable kdf : list byte -> Z -> Z -> Z -> Z -> list byte -> res (list byte).

  Definition header_cfg (c : cfg) : list byte :=
    lit_scrypt ++ [colon] ++ lit_1 ++ [colon] ++ b64e (pack_params (cfg_params c)) ++ [colon].

  (* hash_password with SALT_LENGTH = c_sl c, DIGEST_LENGTH = c_dl c (0 <= SALT_LENGTH); salt = os.urandom(SALT_LENGTH) *)
  Definition hash_password_cfg (c : cfg) (pw : pyarg) (salt : list byte) : res (list byte) :=
    match pw with
    | PBytes p =>
        if byte_rng (c_sl c) && byte_rng (c_dl c) then
          do out <- kdf salt (c_dl c) (k_N std_params) (k_r std_params) (k_p std_params) (sha p);
          Ok (header_cfg c ++ b64e (salt ++ out))
        else Err EStruct
    | _ => Err EType
    end.

  (* a process: the attributes are set, passwords are hashed, in any order *)
  Inductive aop := ASet (c : cfg) | AHash (pw : pyarg) (salt : list byte).

  (* every hash call of the history with the configuration that was current and its result *)
  Fixpoint trace (c : cfg) (ops : list aop) : list (cfg * pyarg * list byte * res (list byte)) :=
    match ops with
    | [] => []
    | ASet c' :: r => trace c' r
    | AHash pw salt :: r => (c, pw, salt, hash_password_cfg c pw salt) :: trace c r
    end.
End AuthCfg.
