(* Utf8.v — UTF-8 as CPython's strict codec does it (str.encode("utf-8") / bytes.decode("utf-8")).
   Strings are lists of code points (Z); bytes are handled as their numeric values 0..255.
   Definitions only. *)
From Model Require Import Base.
Open Scope Z_scope.

(* a Python str holds code points 0..0x10FFFF (lone surrogates are possible in a str) *)
Definition cp_ok (c : Z) : bool := (0 <=? c) && (c <=? 0x10FFFF).
Definition is_surrogate (c : Z) : bool := (0xD800 <=? c) && (c <=? 0xDFFF).

(* encoding of one code point; None = UnicodeEncodeError (surrogate) / not a code point *)
Definition utf8_enc1 (c : Z) : option (list Z) :=
  if c <? 0 then None
  else if c <? 0x80 then Some [c]
  else if c <? 0x800 then Some [0xC0 + c / 64; 0x80 + c mod 64]
  else if c <? 0x10000 then
    if is_surrogate c then None
    else Some [0xE0 + c / 4096; 0x80 + (c / 64) mod 64; 0x80 + c mod 64]
  else if c <? 0x110000 then
    Some [0xF0 + c / 262144; 0x80 + (c / 4096) mod 64; 0x80 + (c / 64) mod 64; 0x80 + c mod 64]
  else None.

Fixpoint utf8_enc (s : list Z) : option (list Z) :=
  match s with
  | [] => Some []
  | c :: s' =>
      match utf8_enc1 c, utf8_enc s' with
      | Some a, Some b => Some (a ++ b)
      | _, _ => None
      end
  end.

Definition is_cont (b : Z) : bool := (0x80 <=? b) && (b <=? 0xBF).
Definition inr (lo hi b : Z) : bool := (lo <=? b) && (b <=? hi).

(* strict decoder: shortest form only, no surrogates, nothing above U+10FFFF, no truncation.
   None = UnicodeDecodeError. *)
Fixpoint utf8_dec (l : list Z) : option (list Z) :=
  match l with
  | [] => Some []
  | b0 :: r0 =>
      if b0 <? 0x80 then
        match utf8_dec r0 with Some s => Some (b0 :: s) | None => None end
      else if b0 <? 0xC2 then None
      else if b0 <? 0xE0 then
        match r0 with
        | b1 :: r1 =>
            if is_cont b1 then
              match utf8_dec r1 with
              | Some s => Some (((b0 - 0xC0) * 64 + (b1 - 0x80)) :: s)
              | None => None
              end
            else None
        | _ => None
        end
      else if b0 <? 0xF0 then
        match r0 with
        | b1 :: b2 :: r2 =>
            if (if b0 =? 0xE0 then inr 0xA0 0xBF b1
                else if b0 =? 0xED then inr 0x80 0x9F b1
                else is_cont b1) && is_cont b2 then
              match utf8_dec r2 with
              | Some s => Some (((b0 - 0xE0) * 4096 + (b1 - 0x80) * 64 + (b2 - 0x80)) :: s)
              | None => None
              end
            else None
        | _ => None
        end
      else if b0 <? 0xF5 then
        match r0 with
        | b1 :: b2 :: b3 :: r3 =>
            if (if b0 =? 0xF0 then inr 0x90 0xBF b1
                else if b0 =? 0xF4 then inr 0x80 0x8F b1
                else is_cont b1) && is_cont b2 && is_cont b3 then
              match utf8_dec r3 with
              | Some s => Some (((b0 - 0xF0) * 262144 + (b1 - 0x80) * 4096 + (b2 - 0x80) * 64 + (b3 - 0x80)) :: s)
              | None => None
              end
            else None
        | _ => None
        end
      else None
  end.

(* on real byte strings *)
Definition utf8_encode (s : list Z) : option (list byte) :=
  match utf8_enc s with Some l => Some (map byte_of_Z l) | None => None end.
Definition utf8_decode (b : list byte) : option (list Z) := utf8_dec (map Z_of_byte b).
