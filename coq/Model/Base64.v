(* Base64.v — executable model of base64.b64encode (standard alphabet, '=' padding), the encoder
   mpgameserver/auth.py uses to build the hash string.  Definitions only.
   [b64d_strict] is NOT a model of Python's (lenient) base64.b64decode: the decoder is an oracle of
   Model/Auth.v.  It is a reference decoder used as the witness that the hypotheses made about the
   decoder are consistent (Properties/C19.v), nothing else. *)
From Model Require Import Base.
Local Open Scope N_scope.

Definition b64_alphabet : list byte :=
  ["A";"B";"C";"D";"E";"F";"G";"H";"I";"J";"K";"L";"M";"N";"O";"P";"Q";"R";"S";"T";"U";"V";"W";"X";"Y";"Z";
   "a";"b";"c";"d";"e";"f";"g";"h";"i";"j";"k";"l";"m";"n";"o";"p";"q";"r";"s";"t";"u";"v";"w";"x";"y";"z";
   "0";"1";"2";"3";"4";"5";"6";"7";"8";"9";"+";"/"]%byte.

Definition b64_pad : byte := "="%byte.

(* the character of a 6-bit value *)
Definition b64c (n : N) : byte := nth (N.to_nat n) b64_alphabet "A"%byte.

(* base64.b64encode: 3 bytes -> 4 characters; a final group of 1 / 2 bytes -> 2 / 3 characters
   and "==" / "=" *)
Fixpoint b64e (l : list byte) : list byte :=
  match l with
  | [] => []
  | [a] =>
      let x := Byte.to_N a in
      [b64c (x / 4); b64c ((x mod 4) * 16); b64_pad; b64_pad]
  | [a; b] =>
      let x := Byte.to_N a in let y := Byte.to_N b in
      [b64c (x / 4); b64c ((x mod 4) * 16 + y / 16); b64c ((y mod 16) * 4); b64_pad]
  | a :: b :: c :: rest =>
      let x := Byte.to_N a in let y := Byte.to_N b in let z := Byte.to_N c in
      b64c (x / 4) :: b64c ((x mod 4) * 16 + y / 16) :: b64c ((y mod 16) * 4 + z / 64) :: b64c (z mod 64)
      :: b64e rest
  end.

(* ---- reference decoder (consistency witness only) *)
Fixpoint index_of (c : byte) (l : list byte) (i : N) : option N :=
  match l with
  | [] => None
  | x :: l' => if Byte.eqb x c then Some i else index_of c l' (N.succ i)
  end.
Definition b64i (c : byte) : option N := index_of c b64_alphabet 0.

Definition byte_of_N (n : N) : byte :=
  match Byte.of_N (n mod 256) with Some b => b | None => x00 end.

Fixpoint b64d_strict (l : list byte) : res (list byte) :=
  match l with
  | [] => Ok []
  | c1 :: c2 :: c3 :: c4 :: rest =>
      match b64i c1, b64i c2 with
      | Some i1, Some i2 =>
          let a := byte_of_N (i1 * 4 + i2 / 16) in
          if Byte.eqb c4 b64_pad then
            match rest with
            | [] =>
                if Byte.eqb c3 b64_pad then Ok [a]
                else match b64i c3 with
                     | Some i3 => Ok [a; byte_of_N ((i2 mod 16) * 16 + i3 / 4)]
                     | None => Err EValue
                     end
            | _ => Err EValue
            end
          else
            match b64i c3, b64i c4 with
            | Some i3, Some i4 =>
                match b64d_strict rest with
                | Ok r => Ok (a :: byte_of_N ((i2 mod 16) * 16 + i3 / 4) :: byte_of_N ((i3 mod 4) * 64 + i4) :: r)
                | Err e => Err e
                end
            | _, _ => Err EValue
            end
      | _, _ => Err EValue
      end
  | _ => Err EValue
  end.
