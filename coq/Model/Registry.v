(* Registry.v — the class registry of mpgameserver/serializable.py: SerializableType.__new__,
   SerializableEnumType.__new__, SerializableType.setRootId.  Type ids are drawn from a global
   counter (next_type_id, starting at 128) or, for a module that called setRootId, from that module's
   counter (custom_id[module]).  (An explicit `type_id = n` in a direct subclass raises
   AttributeError in both metaclasses — parent_type.type_id does not exist — so ids only ever come
   from the counters.)  A Serializable class is refused (ValueError) when its id or its name is
   already registered; the counters have advanced by then.  A SerializableEnum class is refused when its
   id is already registered (since the fix of D21; before it the registered class was silently replaced);
   its NAME is not checked: names[name] is overwritten (two enums called Color in two modules are
   tolerated; `names` is only consulted by deserialize_registry).  Definitions only. *)
From Coq Require Import ZArith List Bool.
Import ListNotations.
Open Scope Z_scope.

Section Dict.
  Context {A : Type}.
  Fixpoint rget (k : Z) (d : list (Z * A)) : option A :=
    match d with [] => None | (k', v) :: r => if k =? k' then Some v else rget k r end.
  Fixpoint rset (k : Z) (v : A) (d : list (Z * A)) : list (Z * A) :=
    match d with
    | [] => [(k, v)]
    | (k', v') :: r => if k =? k' then (k, v) :: r else (k', v') :: rset k v r
    end.
  Definition rmem (k : Z) (d : list (Z * A)) : bool := match rget k d with Some _ => true | None => false end.
End Dict.

Record reg := {
  r_next : Z;                    (* SerializableType.next_type_id *)
  r_custom : list (Z * Z);       (* SerializableType.custom_id : module -> next id *)
  r_reg : list (Z * Z);          (* SerializableType.registry : type id -> class (identity = definition number) *)
  r_names : list (Z * Z);        (* SerializableType.names : class name -> class *)
  r_defs : Z                     (* number of class statements executed so far = identity of the next class *)
}.

Definition reg0 : reg := {| r_next := 128; r_custom := []; r_reg := []; r_names := []; r_defs := 0 |}.

Inductive rop :=
  | RSetRoot (m base : Z)              (* SerializableType.setRootId(module, base) *)
  | RDefSer (m name : Z)               (* class <name>(Serializable) in module m *)
  | RDefEnum (m name : Z).             (* class <name>(SerializableEnum) in module m *)

(* result of a class statement: the type id the class object got, and 0 = registered,
   1 = ValueError "ID already in use", 2 = ValueError "Name already in use" *)
Definition draw (m : Z) (s : reg) : Z * reg :=
  match rget m (r_custom s) with
  | Some t => (t, {| r_next := r_next s; r_custom := rset m (t + 1) (r_custom s); r_reg := r_reg s;
                     r_names := r_names s; r_defs := r_defs s |})
  | None => (r_next s, {| r_next := r_next s + 1; r_custom := r_custom s; r_reg := r_reg s;
                          r_names := r_names s; r_defs := r_defs s |})
  end.

Definition rstep (s : reg) (o : rop) : reg * (Z * Z) :=
  match o with
  | RSetRoot m base =>
      ({| r_next := r_next s; r_custom := rset m base (r_custom s); r_reg := r_reg s; r_names := r_names s;
          r_defs := r_defs s |}, (0, 0))
  | RDefSer m name =>
      let '(t, s1) := draw m s in
      let c := r_defs s in
      let bump := {| r_next := r_next s1; r_custom := r_custom s1; r_reg := r_reg s1; r_names := r_names s1;
                     r_defs := c + 1 |} in
      if rmem t (r_reg s1) then (bump, (t, 1))
      else if rmem name (r_names s1) then (bump, (t, 2))
      else ({| r_next := r_next s1; r_custom := r_custom s1; r_reg := rset t c (r_reg s1);
               r_names := rset name c (r_names s1); r_defs := c + 1 |}, (t, 0))
  | RDefEnum m name =>
      let '(t, s1) := draw m s in
      let c := r_defs s in
      if rmem t (r_reg s1)
      then ({| r_next := r_next s1; r_custom := r_custom s1; r_reg := r_reg s1; r_names := r_names s1; r_defs := c + 1 |}, (t, 1))
      else ({| r_next := r_next s1; r_custom := r_custom s1; r_reg := rset t c (r_reg s1);
               r_names := rset name c (r_names s1); r_defs := c + 1 |}, (t, 0))
  end.

Fixpoint rrun (s : reg) (ops : list rop) : reg * list (Z * Z) :=
  match ops with
  | [] => (s, [])
  | o :: r => let '(s1, x) := rstep s o in let '(s2, xs) := rrun s1 r in (s2, x :: xs)
  end.

