(* Net3.v — the message level over Net2.v (C07, "success means the WHOLE MESSAGE was handed to the
   peer application").  Definitions only.

   Net2's ghost numbers the datagrams; this file adds
     m_sent  every (payload, id) pair A's application has passed to send() together with a user
             callback id (ESend p r (IUser id)), newest first;
     m_st    B's message window over true message indices (RecvHist.wstate, the specification of the
             256-bit window c_bf_msg) together with the record of what was processed: for every message
             index that got past the window, the (type, payload) of the message that carried it.
   A labelled event of Net3 is a labelled event of Net2 plus a list js of message indices; js matters
   only when the event presents a datagram to B that B accepts: js are then the sender's true
   (unbounded) message indices of the messages of that datagram, in order (the message sequence
   number on the wire is wire j). *)
From Model Require Import Base SeqNum Wire Conn RecvHist Net Net2.
Open Scope Z_scope.

(* the messages a datagram carries: what Packet.from_bytes decodes once the body is opened *)
Definition body_payload (d : dgram) : option (list byte) :=
  match d_body d with Sealed _ _ p => Some p | Clear p => Some p | Bad => None end.

Definition dg_msgs (d : dgram) : list wmsg :=
  match body_payload d with
  | Some p => match decode_msgs (h_type (d_hdr d)) (h_count (d_hdr d)) p with Ok ws => ws | Err _ => [] end
  | None => []
  end.

Definition content (w : wmsg) : ptype * list byte := (w_type w, w_payload w).

(* B's message window over indices, and what was processed under each index *)
Definition mghost := (wstate * list (Z * (ptype * list byte)))%type.

Definition wacc (st : wstate) : list Z := match st with None => [] | Some (_, acc) => acc end.

Definition mrec (st : mghost) (wj : wmsg * Z) : mghost :=
  (w_next 256 (fst st) (snd wj),
   if w_dup 256 (fst st) (snd wj) then snd st else (snd wj, content (fst wj)) :: snd st).

(* the hypotheses on the message labels of one accepted datagram, message by message:
   (label)    the wire number of the message is wire j, j >= 1;
   (near)     j is within HALF of the newest message index B has processed (C08's half-range
              hypothesis, for the message window);
   (truthful) labels are the sender's message indices: a message labelled j carries what was
              processed under j before (a retransmitted copy is byte-identical; different messages
              have different indices) *)
Fixpoint mwf (st : mghost) (wjs : list (wmsg * Z)) : Prop :=
  match wjs with
  | [] => True
  | wj :: r =>
      w_seq (fst wj) = wire (snd wj) /\ w_ok (fst st) (snd wj) /\
      (forall c, In (snd wj, c) (snd st) -> c = content (fst wj)) /\
      mwf (mrec st wj) r
  end.

Record mnet := { m_g : gnet; m_sent : list (list byte * Z); m_st : mghost }.

Definition lev3 := (lev * list Z)%type.

Definition sent_of (x : ev) : list (list byte * Z) :=
  match x with ESend p _ (IUser id) => [(p, id)] | _ => [] end.

Definition mstep (e : env) (M : mnet) (vj : lev3) : mnet :=
  {| m_g := gstep e (m_g M) (fst vj);
     m_sent := match fst (fst vj) with NA x => sent_of x ++ m_sent M | NB _ => m_sent M end;
     m_st := match fst (fst vj) with
             | NB x => match accepts (nB (g_net (m_g M))) x with
                       | Some d => fold_left mrec (combine (dg_msgs d) (snd vj)) (m_st M)
                       | None => m_st M
                       end
             | NA _ => m_st M
             end |}.

Definition mrun (e : env) (M : mnet) (vs : list lev3) : mnet := fold_left (mstep e) vs M.

Definition mnet_of (G : gnet) : mnet := {| m_g := G; m_sent := []; m_st := (None, []) |}.
Definition mnet0 : mnet := mnet_of gnet0.

(* ---------- the schedule hypotheses, per event ---------- *)
(* Net2's (auth), (near), (fresh) for the datagram level, plus
   for A: the application passes a user callback or none to send() (the other icb constructors are
          internal to the connection); payloads of any size, fragmented or not;
   for B, when it accepts a datagram: the message labels are as described at mwf, and — if the
   datagram carries a handshake-typed message — processing it raises no exception (recv_msgs stops
   at the first exception: the messages behind a handshake message whose verification fails are never
   looked at; datagrams without handshake messages never raise: MsgRecvP.recv_msgs_noraise). *)
Definition user_icb (k : icb) : Prop := match k with INone | IUser _ => True | _ => False end.
Definition user_x (x : ev) : Prop := match x with ESend _ _ k => user_icb k | _ => True end.

(* callback id was passed to send() with a payload that needs fragmenting *)
Definition big_id (e : env) (S : list (list byte * Z)) (id : Z) : Prop :=
  exists p, In (p, id) S /\ len p > e_max_payload e.

Definition has_hs (ws : list wmsg) : bool := existsb (fun w => is_hs (w_type w)) ws.

(* strict = false drops "processing raises no exception" (used to show that it cannot be dropped) *)
Definition msg_ev (strict : bool) (e : env) (M : mnet) (vj : lev3) : Prop :=
  match fst (fst vj) with
  | NA x => user_x x
  | NB x => forall d, accepts (nB (g_net (m_g M))) x = Some d ->
              length (snd vj) = length (dg_msgs d) /\ mwf (m_st M) (combine (dg_msgs d) (snd vj)) /\
              (strict = true -> has_hs (dg_msgs d) = true -> raised (snd (step e (nB (g_net (m_g M))) x)) = false)
  end.

Definition wf3x_ev (strict : bool) (e : env) (M : mnet) (vj : lev3) : Prop :=
  wf2_ev (m_g M) (fst vj) /\ msg_ev strict e M vj.

Fixpoint wf3x_run (strict : bool) (e : env) (M : mnet) (vs : list lev3) : Prop :=
  match vs with
  | [] => True
  | v :: r => wf3x_ev strict e M v /\ wf3x_run strict e (mstep e M v) r
  end.

(* the message-level part alone *)
Fixpoint msg_run (strict : bool) (e : env) (M : mnet) (vs : list lev3) : Prop :=
  match vs with
  | [] => True
  | v :: r => msg_ev strict e M v /\ msg_run strict e (mstep e M v) r
  end.

Definition wf3_ev := wf3x_ev true.
Definition wf3_run := wf3x_run true.
Definition noraise_free_run := wf3x_run false.

(* the joint state M with B replaced (used to exhibit a state for the counterexample) *)
Definition with_B (M : mnet) (b : conn) : mnet :=
  let G := m_g M in let n := g_net G in
  {| m_g := {| g_net := {| nA := nA n; nB := b; wAB := wAB n; wBA := wBA n; sentA := sentA n; dlvB := dlvB n |};
               g_nA := g_nA G; g_AB := g_AB G; g_B := g_B G; g_accB := g_accB G; g_BA := g_BA G |};
     m_sent := m_sent M; m_st := m_st M |}.

(* what a success callback id stands for on the sender: the user callback itself (unretried or
   best-effort send) or the RetrySender that wraps it (guaranteed send) *)
Definition cb_user (k : cb) (id : Z) : Prop :=
  match k with Plain (IUser i) => i = id | Retry _ _ _ _ (IUser i) => i = id | _ => False end.
