(* SerCost.v — vocabulary of property C14 (decoding hostile bytes) on top of Model/Ser.v.
   Definitions only.

   Part 1  what the theorems speak about: the documented exception kinds of the decoder, the
           values "composed only of supported and registered types", the size of a value.
   Part 2  an instrumented copy of the decoder of Ser.v whose stream additionally logs every
           read call (bytes requested, bytes returned).  Proofs/SerCostP.v proves that erasing
           the log gives exactly Ser.dec_value (same result, same remaining bytes, same counters).

   Ser.v itself already counts stream.read calls (nrd) and deserialize_value calls (nval). *)
From Model Require Import Base Utf8 Ser.
Open Scope Z_scope.

(* ---------- Part 1: specification vocabulary *)

(* exception kinds deserialize_value lets escape on its own account:
   SerializableHeaderError (short type id / unknown type id at top level), SerializableError (the
   same below a decoded type), struct.error (short fixed-width read), TypeError (length that is
   not an int, unhashable dict key / set element, range(non-int)), ValueError (declared length
   above the cap, hello padding), UnicodeDecodeError, IndexError (more fields than the class has),
   RecursionError (nesting beyond the frames available), AttributeError (SerializableEnum.__eq__
   against a value without .value during dict/set insertion), KeyError (a server decoding a
   ServerHello: no 'server_public_key' keyword).  Whatever the external DER parser
   EllipticCurvePublicKey.fromBytes raises is accounted for separately in the theorems. *)
Definition documented (e : serr) : Prop :=
  e = SHeader \/ e = SSer \/ e = SE EStruct \/ e = SE EType \/ e = SE EValue \/ e = SE EUnicode \/
  e = SE EIndex \/ e = SE ERecursion \/ e = SE EAttr \/ e = SE EKey.

Section Spec.
  Variable reg : registry.

  (* t is a Serializable class of the registry whose instances have nf fields *)
  Definition is_class (t : Z) (nf : nat) : Prop :=
    match reg_find reg t with
    | Some (CObj defs) => length defs = nf
    | Some (CClientHello _) => nf = 2%nat
    | _ => False
    end.
  Definition is_enum_class (t : Z) : Prop :=
    match reg_find reg t with Some (CEnum _) => True | _ => False end.

  (* composed only of base types and classes of the registry *)
  Fixpoint closed (v : value) : Prop :=
    match v with
    | VNone | VBool _ | VInt _ | VFloat _ | VStr _ | VBytes _ => True
    | VList l | VTuple l | VSet l => fold_right (fun x P => closed x /\ P) True l
    | VDict kv => fold_right (fun p P => closed (fst p) /\ closed (snd p) /\ P) True kv
    | VObj t fs => is_class t (length fs) /\ fold_right (fun x P => closed x /\ P) True fs
    | VEnum t x => is_enum_class t /\ closed x
    | VUnsup => False
    end.
  Definition closed_list (l : list value) : Prop := fold_right (fun x P => closed x /\ P) True l.

  (* the class defaults (what cls() holds before any field is decoded) are themselves closed:
     a fact about the application's class definitions *)
  Definition reg_closed : Prop :=
    forall t defs, reg_find reg t = Some (CObj defs) -> closed_list defs.
End Spec.

(* size of a value: one per node plus the payload of strings (code points) and bytes — a proxy
   for the memory the decoded Python object graph takes, up to a constant per node *)
Fixpoint vsize (v : value) : Z :=
  match v with
  | VNone | VBool _ | VInt _ | VFloat _ | VUnsup => 1
  | VStr s => 1 + len s
  | VBytes b => 1 + len b
  | VList l | VTuple l | VSet l => 1 + fold_right (fun x a => vsize x + a) 0 l
  | VDict kv => 1 + fold_right (fun p a => vsize (fst p) + vsize (snd p) + a) 0 kv
  | VObj _ fs => 1 + fold_right (fun x a => vsize x + a) 0 fs
  | VEnum _ x => 1 + vsize x
  end.
Definition lsize (l : list value) : Z := fold_right (fun x a => vsize x + a) 0 l.
Definition dsize (kv : list (value * value)) : Z := fold_right (fun p a => vsize (fst p) + vsize (snd p) + a) 0 kv.
(* D bounds the size of the defaults of every class of the registry *)
Definition reg_defsize_le (reg : registry) (D : Z) : Prop :=
  forall t defs, reg_find reg t = Some (CObj defs) -> lsize defs <= D.

(* the cap on the declared length of each length-prefixed base type *)
Definition cap_of (k : bk) : option Z :=
  match k with
  | KStr | KBytes => Some MAXB
  | KSeq | KMap | KSet => Some MAXA
  | _ => None
  end.

(* ---------- Part 2: the decoder over a stream that logs its reads *)
Record cst := mkcst { c_rem : list byte; c_nval : Z; c_log : list (Z * Z) }.
   (* c_log: one entry per stream.read call, most recent first: (size argument, bytes returned) *)
Definition erase (s : cst) : st := mkst (c_rem s) (len (c_log s)) (c_nval s).
Definition log_bytes (l : list (Z * Z)) : Z := fold_right (fun p a => snd p + a) 0 l.

Definition CM (A : Type) := cst -> sres A * cst.
Definition cret {A} (a : A) : CM A := fun s => (SOk a, s).
Definition cfail {A} (e : serr) : CM A := fun s => (SErr e, s).
Definition cbind {A B} (m : CM A) (f : A -> CM B) : CM B :=
  fun s => match m s with (SOk a, s') => f a s' | (SErr e, s') => (SErr e, s') end.
Notation "'doc' x <- r ; k" := (cbind r (fun x => k)) (at level 200, x pattern, r at level 100, k at level 200).
Definition clift {A} (r : sres A) : CM A := fun s => (r, s).

Definition c_read (n : Z) : CM (list byte) := fun s =>
  let k := if n <? 0 then length (c_rem s) else Z.to_nat n in
  let out := firstn k (c_rem s) in
  (SOk out, mkcst (skipn k (c_rem s)) (c_nval s) ((n, len out) :: c_log s)).
Definition c_left : CM Z := fun s => (SOk (len (c_rem s)), s).
Definition c_tick : CM unit := fun s => (SOk tt, mkcst (c_rem s) (c_nval s + 1) (c_log s)).

Definition c_rd (f : nat) (k : Z) : CM (list byte) :=
  match f with
  | O => cfail (SE ERecursion)
  | S _ => doc b <- c_read k; if len b =? k then cret b else cfail (SE EStruct)
  end.

Fixpoint c_rep {A} (n : nat) (m : CM A) : CM (list A) :=
  match n with
  | O => cret []
  | S k => doc x <- m; doc xs <- c_rep k m; cret (x :: xs)
  end.

Definition c_dec_len (sub : CM value) (cap : Z) : CM Z :=
  doc lv <- sub;
  match as_len lv with
  | None => cfail (SE EType)
  | Some n => if cap <? n then cfail (SE EValue) else cret n
  end.

Fixpoint c_dec_map_loop (sub : CM value) (n : nat) (acc : list (value * value)) : CM (list (value * value)) :=
  match n with
  | O => cret acc
  | S k => doc key <- sub; doc x <- sub; doc acc' <- clift (dict_put acc key x); c_dec_map_loop sub k acc'
  end.

Fixpoint c_dec_fields (sub : CM value) (n : Z) (defs : list value) : CM (list value) :=
  if n <=? 0 then cret defs
  else match defs with
       | [] => cfail (SE EIndex)
       | _ :: ds => doc x <- sub; doc xs <- c_dec_fields sub (n - 1) ds; cret (x :: xs)
       end.

Definition c_conv {A} (m : CM A) : CM A := fun s =>
  match m s with
  | (SErr SHeader, s') => (SErr SSer, s')
  | r => r
  end.

Section CDec.
  Variable fc : fconv.
  Variable pk : value -> option serr.
  Variable reg : registry.

  Definition c_dec_base (sub : CM value) (f2 : nat) (k : bk) : CM value :=
    match k with
    | KBool => doc b <- c_rd f2 1; cret (VBool (negb (be_dec b =? 0)))
    | KI8 => doc b <- c_rd f2 1; cret (VInt (be_dec_signed b))
    | KI16 => doc b <- c_rd f2 2; cret (VInt (be_dec_signed b))
    | KI32 => doc b <- c_rd f2 4; cret (VInt (be_dec_signed b))
    | KI64 => doc b <- c_rd f2 8; cret (VInt (be_dec_signed b))
    | KU8 => doc b <- c_rd f2 1; cret (VInt (be_dec b))
    | KU16 => doc b <- c_rd f2 2; cret (VInt (be_dec b))
    | KU32 => doc b <- c_rd f2 4; cret (VInt (be_dec b))
    | KF32 => doc b <- c_rd f2 4; cret (VFloat (of32 fc (be_dec b)))
    | KF64 => doc b <- c_rd f2 8; cret (VFloat (be_dec b))
    | KNull => cret VNone
    | KStr =>
        doc n <- c_dec_len sub MAXB; doc b <- c_read n;
        match utf8_decode b with Some s => cret (VStr s) | None => cfail (SE EUnicode) end
    | KBytes => doc n <- c_dec_len sub MAXB; doc b <- c_read n; cret (VBytes b)
    | KSeq => doc n <- c_dec_len sub MAXA; doc l <- c_rep (Z.to_nat n) sub; cret (VList l)
    | KMap => doc n <- c_dec_len sub MAXA; doc d <- c_dec_map_loop sub (Z.to_nat n) []; cret (VDict d)
    | KSet =>
        doc n <- c_dec_len sub MAXA; doc l <- c_rep (Z.to_nat n) sub;
        doc s <- clift (set_build [] l); cret (VSet s)
    end.

  Definition c_dec_cls (sub : CM value) (t : Z) (c : cls) : CM value :=
    match c with
    | CObj defs =>
        doc nf <- sub;
        match as_len nf with
        | None => cfail (SE EType)
        | Some n => doc fs <- c_dec_fields sub n defs; cret (VObj t fs)
        end
    | CEnum _ => doc x <- sub; cret (VEnum t x)
    | CClientHello base =>
        doc before <- c_left;
        doc der <- sub;
        match pk der with
        | Some e => cfail e
        | None =>
            doc ver <- sub;
            doc after <- c_left;
            let to_read := base - (before - after) in
            doc pad <- c_read to_read;
            if len pad =? to_read then cret (VObj t [der; ver]) else cfail (SE EValue)
        end
    | CServerHello =>
        doc root <- sub;
        match pk root with
        | Some e => cfail e
        | None => doc payload <- sub; doc sig <- sub; cfail (SE EKey)
        end
    end.

  Definition c_dec_body (sub : CM value) (f1 : nat) : CM value :=
    doc _ <- c_tick;
    match f1 with
    | O => cfail (SE ERecursion)
    | S f2 =>
        doc buf <- c_read 2;
        if negb (len buf =? 2) then cfail SHeader
        else
          let t := be_dec buf in
          match base_kind t with
          | Some k => c_conv (c_dec_base sub f2 k)
          | None =>
              match reg_find reg t with
              | Some c => c_conv (c_dec_cls sub t c)
              | None => cfail SHeader
              end
          end
    end.

  Fixpoint c_dec_value (fuel : nat) : CM value :=
    match fuel with
    | O => cfail (SE ERecursion)
    | S f1 =>
        c_dec_body (match f1 with O => cfail (SE ERecursion) | S f2 => c_dec_value f2 end) f1
    end.

  Definition cst0 (bs : list byte) : cst := mkcst bs 0 [].
End CDec.

(* ---------- the frames a decode gets: Python's recursion limit minus the frames already on the
   stack when deserialize_value is entered (Serializable.loadb adds one).  The fuel of
   dec_value / decode is this number: one frame per deserialize_value call, one per type function
   or deserialize method, one for the read of a Python-level stream (a plain io.BytesIO reads in C
   and needs none: add 1 to the fuel).  CPython 3.12 also limits C-level recursion: about 747
   nested Serializable / SerializableEnum instances raise the same RecursionError whatever the
   limit; the single fuel is exact while limit - depth <= 1400 (the default limit is 1000). *)
Definition frames_available (recursion_limit caller_depth : Z) : nat :=
  Z.to_nat (recursion_limit - caller_depth).
