(* Net2.v — the two endpoints of Net.v with a ghost that numbers the datagrams (C07, "success
   means accepted", both directions of the wire).  Definitions only.

   A joint history is a list of labelled endpoint events (v, l): v is an event of Net.v; the label l
   matters only when v presents a datagram to B that B can open — it is the sender's true
   (unbounded) datagram index of that datagram, as in C07_acks_name_accepted / C08.  The ghost is a
   function of the labelled history:
     g_nA   how many sequence numbers A has consumed (= index of the datagram A built last; every
            packet assembly counts, also CLIENT_HELLO / CHALLENGE_RESP and assemblies whose
            encoding failed and put nothing on the wire);
     g_AB   every datagram A has put on the wire with its index (map snd g_AB = wAB);
     g_B    B's receive window over indices: newest accepted index and all accepted indices;
     g_accB every datagram B has accepted (opened, sequence number new), newest first;
     g_BA   every datagram B has put on the wire with the value g_B had when it was built
            (map snd g_BA = wBA). *)
From Model Require Import Base SeqNum Wire Conn Net.
Open Scope Z_scope.

(* window ghost over indices (same shape as Proofs/AckNamesP.ghost) *)
Definition idxset := option (Z * list Z).
Definition idx_add (g : idxset) (n : Z) : idxset :=
  match g with None => Some (n, [n]) | Some (m, acc) => Some (Z.max m n, n :: acc) end.
Definition idx_acc (g : idxset) : list Z := match g with None => [] | Some (_, acc) => acc end.

(* C08's half-range hypothesis for one arrival *)
Definition idx_near (g : idxset) (n : Z) : Prop := forall m acc, g = Some (m, acc) -> Z.abs (n - m) <= HALF.

(* how stale an ack header may be when the sender processes it: the sender has consumed n sequence
   numbers, the header was built when the peer's newest accepted index was m.  RING - 33 is exact
   for the arithmetic (an ack header names the 33 sequence numbers m-32..m; pending indices are
   within RING - 2 of n).  A header built before the peer accepted anything carries ack = 0, which
   _handle_ack_bits reads as sequence number 65535: harmless while n < RING. *)
Definition FRESH : Z := RING - 33.
Definition idx_fresh (n : Z) (g : idxset) : Prop :=
  match g with None => n < RING | Some (m, _) => n - m <= FRESH end.

Definition is_ok {A} (r : res A) : bool := match r with Ok _ => true | Err _ => false end.

(* the state in which the datagram of an event reaches _recv_datagram (None: it does not) *)
Definition pre_recv (c : conn) (x : ev) : option (conn * dgram) :=
  match x with
  | ERecv _ d _ => Some (c, d)
  | EClientTick now (RxDgram d _) =>
      let c0 := fst (client_update c now) in
      if status_eqb (c_status c0) DROPPED then None else Some (c0, d)
  | _ => None
  end.

(* the endpoint opens the datagram: not refused for want of a key, authentic under the key held
   (or, while no key is held, a clear hello with a valid CRC) *)
Definition opens (c : conn) (d : dgram) : bool :=
  negb (keyless_refuses c (d_hdr d)) && is_ok (open_dgram (c_key c) d).

(* the datagram an event makes the endpoint accept (opened and its sequence number is new) *)
Definition accepts (c : conn) (x : ev) : option dgram :=
  match pre_recv c x with
  | Some (c0, d) =>
      if opens c0 d && is_ok (bf_insert (c_bf_pkt c0) (h_seq (d_hdr d))) then Some d else None
  | None => None
  end.

Record gnet := {
  g_net : net;
  g_nA : Z;
  g_AB : list (Z * dgram);
  g_B : idxset;
  g_accB : list dgram;
  g_BA : list (idxset * dgram)
}.

Definition lev := (nev * Z)%type.

Definition gstep (e : env) (G : gnet) (vl : lev) : gnet :=
  let '(v, l) := vl in
  match v with
  | NA x =>
      let '(a', o) := step e (nA (g_net G)) x in
      let n' := if c_seq_send a' =? c_seq_send (nA (g_net G)) then g_nA G else g_nA G + 1 in
      {| g_net := nstep e (g_net G) v; g_nA := n';
         g_AB := g_AB G ++ map (fun d => (n', d)) (flat_map dg_of o);
         g_B := g_B G; g_accB := g_accB G; g_BA := g_BA G |}
  | NB x =>
      let '(b', o) := step e (nB (g_net G)) x in
      let acc := accepts (nB (g_net G)) x in
      let gB' := match acc with Some _ => idx_add (g_B G) l | None => g_B G end in
      {| g_net := nstep e (g_net G) v; g_nA := g_nA G; g_AB := g_AB G;
         g_B := gB';
         g_accB := match acc with Some d => d :: g_accB G | None => g_accB G end;
         g_BA := g_BA G ++ map (fun d => (gB', d)) (flat_map dg_of o) |}
  end.

Definition grun (e : env) (G : gnet) (vs : list lev) : gnet := fold_left (gstep e) vs G.

Definition gnet_of (n : net) : gnet :=
  {| g_net := n; g_nA := 0; g_AB := []; g_B := None; g_accB := []; g_BA := [] |}.
Definition gnet0 : gnet := gnet_of net0.

(* A's application keeps the connection open and leaves message time-out and send interval alone
   (Proofs/AckP.ev_open; restated here so that this file has definitions only) *)
Definition ev_open2 (x : ev) : Prop :=
  match x with EDisconnect _ => False | ESetCfg w _ => w = 0 \/ w = 2 | _ => True end.

(* ---------- the schedule hypotheses, per event ---------- *)

(* (auth) only: whatever an endpoint opens was put on the wire by the other endpoint — for B, as
   the index the label says.  While the endpoint holds a key this is what AES-GCM gives; while it
   holds none (before / during the handshake) it says that the handshake is not interfered with. *)
Definition auth_ev (G : gnet) (vl : lev) : Prop :=
  let '(v, l) := vl in
  match v with
  | NB x => forall d, dgram_in x = Some d -> opens (nB (g_net G)) d = true -> In (l, d) (g_AB G)
  | NA x => ev_open2 x /\
            forall d, dgram_in x = Some d -> opens (nA (g_net G)) d = true -> exists g, In (g, d) (g_BA G)
  end.

(* (auth) + (near) for B, (auth) + (fresh acks) for A *)
Definition wf2_ev (G : gnet) (vl : lev) : Prop :=
  let '(v, l) := vl in
  match v with
  | NB x => forall d, dgram_in x = Some d -> opens (nB (g_net G)) d = true ->
              In (l, d) (g_AB G) /\ idx_near (g_B G) l
  | NA x => ev_open2 x /\
            forall d, dgram_in x = Some d -> opens (nA (g_net G)) d = true ->
              exists g, In (g, d) (g_BA G) /\ idx_fresh (g_nA G) g
  end.

Fixpoint wf2_run (e : env) (G : gnet) (vs : list lev) : Prop :=
  match vs with
  | [] => True
  | v :: r => wf2_ev G v /\ wf2_run e (gstep e G v) r
  end.

(* (auth) + (near) WITHOUT (fresh acks): used to show that (fresh acks) cannot be dropped *)
Definition nofresh_ev (G : gnet) (vl : lev) : Prop :=
  let '(v, l) := vl in
  match v with
  | NB x => forall d, dgram_in x = Some d -> opens (nB (g_net G)) d = true ->
              In (l, d) (g_AB G) /\ idx_near (g_B G) l
  | NA x => ev_open2 x /\
            forall d, dgram_in x = Some d -> opens (nA (g_net G)) d = true -> exists g, In (g, d) (g_BA G)
  end.
Fixpoint nofresh_run (e : env) (G : gnet) (vs : list lev) : Prop :=
  match vs with
  | [] => True
  | v :: r => nofresh_ev G v /\ nofresh_run e (gstep e G v) r
  end.

(* the joint state G with A replaced (used to exhibit a state late in a long session) *)
Definition with_A (G : gnet) (a : conn) (n : Z) : gnet :=
  {| g_net := {| nA := a; nB := nB (g_net G); wAB := wAB (g_net G); wBA := wBA (g_net G);
                 sentA := sentA (g_net G); dlvB := dlvB (g_net G) |};
     g_nA := n; g_AB := g_AB G; g_B := g_B G; g_accB := g_accB G; g_BA := g_BA G |}.

(* short sessions: (auth) only, and A never consumes more than HALF + 1 sequence numbers *)
Fixpoint auth_run (e : env) (G : gnet) (vs : list lev) : Prop :=
  match vs with
  | [] => True
  | v :: r => auth_ev G v /\ g_nA G <= HALF + 1 /\ auth_run e (gstep e G v) r
  end.

(* what the theorem says of one step of A: every pending datagram that the step resolves as
   acknowledged — it is pending when the datagram d reaches _recv_datagram and d's (ack, ack_bits)
   name its sequence number — is index i of A, B has accepted index i, and the datagram A put on
   the wire as index i is one B has accepted *)
Definition acked_accepted (G : gnet) (a0 : conn) (d : dgram) : Prop :=
  forall s t, In (s, t) (c_packs a0) ->
    hdr_acks (h_ack (d_hdr d)) (h_ackbits (d_hdr d)) s = true ->
    exists i dA, s = wire i /\ 1 <= i <= g_nA G /\ In i (idx_acc (g_B G)) /\
                 In (i, dA) (g_AB G) /\ h_seq (d_hdr dA) = s /\ In dA (g_accB G).
