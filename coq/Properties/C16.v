(* C16 — the HTTP router matches paths exactly as the documented pattern grammar says.
   Theorems only.  Strings are lists of code points.  Vocabulary (Model/Router.v):
     pattern_to_regex   the regular expression SOURCE TEXT and the tokens built by Router.patternToRegex
     ast_of_pieces      the syntax tree of that text; pr_regex prints it
     re_groups          re.compile(text).match(path).groups() : backtracking matcher on the syntax tree
     route_match        pattern against path through the regular expression, as getRoute does (names zipped with groups)
     spec_path / spec_route_match / spec_get_route   the documented rule on the path's segments
     wf_pat             ?, * and + parameters only on the last segment (the documented grammar)
     no_nl              the path holds no newline (an HTTP request line cannot) *)
From Model Require Import Base PathJoin Router.
From Proofs Require Import RouterP C16P.
Open Scope Z_scope.

(* 1. the text handed to re.compile is the printed syntax tree, the tokens are the parameter
      names in order; the only failure is ValueError, exactly when there are two or more
      ?/*/+ parameters *)
Theorem C16_regex_text : forall pat,
  pattern_to_regex pat =
  if (nwild (parse_pattern pat) <=? 1)%nat
  then Ok (pr_regex (ast_of_pieces (parse_pattern pat)), names (parse_pattern pat))
  else Err EValue.
Proof. exact C16_regex_text_proof. Qed.
Print Assumptions C16_regex_text.

Theorem C16_compile_error : forall pat,
  (compile_route pat = Err EValue <-> (2 <= nwild (parse_pattern pat))%nat) /\
  ((exists r, compile_route pat = Ok r) \/ compile_route pat = Err EValue).
Proof. exact C16_compile_error_proof. Qed.
Print Assumptions C16_compile_error.

(* 2. for every pattern of the documented grammar and every newline-free path, of any length:
      the regular expression matches exactly when the documented rule does, and m.groups()
      are exactly the values the rule binds (None for an absent optional parameter) *)
Theorem C16_groups_spec : forall pat path,
  wf_pat pat = true -> no_nl path ->
  re_groups (ast_of_pieces (parse_pattern pat)) path = spec_path (parse_pattern pat) path.
Proof. exact C16_groups_spec_proof. Qed.
Print Assumptions C16_groups_spec.

Theorem C16_match_spec : forall pat path,
  wf_pat pat = true -> no_nl path ->
  route_match pat path = spec_route_match pat path.
Proof. exact C16_match_spec_proof. Qed.
Print Assumptions C16_match_spec.

(* ... and the documented rule itself, as inference rules over (pieces, segments, values):
      [spec] computes exactly the relation [matches] of Model/Router.v *)
Theorem C16_spec_rules : forall ps segs vals,
  wf_pieces ps = true -> (spec ps segs = Some vals <-> matches ps segs vals).
Proof. exact C16_spec_rules_proof. Qed.
Print Assumptions C16_spec_rules.

(* 3. registerRoutes on a fresh router succeeds for routes of the documented grammar with
      supported methods, and getRoute then answers: the first route in registration order
      whose method is the request's and whose pattern matches by the documented rule, with
      the bindings as a dict; for every list of routes, method and path *)
Theorem C16_first_match : forall rs m path,
  (forall r, In r rs -> wf_pat (r_pattern r) = true /\ supported_method (r_method r) = true) ->
  no_nl path ->
  exists t, register_routes empty_table rs = (t, Ok tt) /\
            get_route t m path = spec_get_route rs m path.
Proof. exact C16_first_match_proof. Qed.
Print Assumptions C16_first_match.

(* ... where "first" reads: every earlier route of that method does not match *)
Theorem C16_first_match_wins : forall rs m path id d,
  spec_get_route rs m path = Some (id, d) <->
  exists rs1 r rs2 kvs,
    rs = rs1 ++ r :: rs2 /\ r_id r = id /\ r_method r = m /\
    spec_route_match (r_pattern r) path = Some kvs /\ d = mkdict kvs /\
    forall r', In r' rs1 -> r_method r' = m -> spec_route_match (r_pattern r') path = None.
Proof. exact C16_first_match_wins_proof. Qed.
Print Assumptions C16_first_match_wins.

(* 4. dispatch: 404 exactly when the client is not rate limited and no route of the request's
      method matches; 429 exactly when limited; otherwise the route getRoute chose *)
Theorem C16_notfound_404 : forall rs limited m path,
  (forall r, In r rs -> wf_pat (r_pattern r) = true /\ supported_method (r_method r) = true) ->
  no_nl path ->
  exists t, register_routes empty_table rs = (t, Ok tt) /\
    (router_dispatch t limited m path = D404 <->
       limited = false /\
       forall r, In r rs -> r_method r = m -> spec_route_match (r_pattern r) path = None) /\
    (router_dispatch t limited m path = D429 <-> limited = true) /\
    (forall id d, router_dispatch t limited m path = DRoute id d <->
       limited = false /\ spec_get_route rs m path = Some (id, d)).
Proof. exact C16_notfound_404_proof. Qed.
Print Assumptions C16_notfound_404.

(* ---- non-vacuity and the D11 witnesses ------------------------------------------------ *)
Definition p_abc_rest : str := [47;97;98;99;47;58;114;101;115;116;43].   (* /abc/:rest+ *)
Definition p_a_dot_c : str := [47;97;46;99].   (* /a.c *)
Definition p_abc_x_r : str := [47;97;98;99;47;58;120;47;58;114;43].   (* /abc/:x/:r+ *)
Definition p_abc_x : str := [47;97;98;99;47;58;120].   (* /abc/:x *)
Definition p_abc_abc : str := [47;97;98;99;47;97;98;99].   (* /abc/abc *)
Definition p_abc_opt : str := [47;97;98;99;47;58;121;63].   (* /abc/:y? *)
Definition p_star_mid : str := [47;58;97;42;47;98].   (* /:a*/b *)
Definition s_rest : str := [114;101;115;116].   (* rest *)

Example C16_text_example :
  pattern_to_regex p_abc_x_r = Ok ([94;92;47;97;98;99;92;47;40;91;94;92;47;93;43;41;92;47;40;46;43;41;92;47;63;36], [[120]; [114]]).   (* ^\/abc\/([^\/]+)\/(.+)\/?$ *)
Proof. vm_compute. reflexivity. Qed.

(* D11, now refused: '/abc/:rest+' against '/abcdef', '/a.c' against '/aXc'; and what they accept *)
Example C16_d11_witnesses :
  wf_pat p_abc_rest = true /\ wf_pat p_a_dot_c = true /\
  route_match p_abc_rest [47;97;98;99;100;101;102] = None /\
  route_match p_abc_rest [47;97;98;99;47;100;47;101] = Some [(s_rest, Some [100;47;101])] /\
  route_match p_abc_rest [47;97;98;99;47] = None /\
  route_match p_a_dot_c [47;97;88;99] = None /\
  route_match p_a_dot_c [47;97;46;99;47] = Some [].
Proof. vm_compute. repeat split. Qed.

(* the optional parameter: absent, present, present with the tolerated slash, too many segments *)
Example C16_optional_example :
  route_match p_abc_opt [47;97;98;99] = Some [([121], None)] /\
  route_match p_abc_opt [47;97;98;99;47;118] = Some [([121], Some [118])] /\
  route_match p_abc_opt [47;97;98;99;47;118;47] = Some [([121], Some [118])] /\
  route_match p_abc_opt [47;97;98;99;47;118;47;119] = None.
Proof. vm_compute. repeat split. Qed.

(* first registered route wins, method respected, 404 otherwise *)
Example C16_table_example :
  let rs := [ {| r_method := M_GET; r_pattern := p_abc_x; r_id := 1 |};
              {| r_method := M_GET; r_pattern := p_abc_abc; r_id := 2 |};
              {| r_method := M_POST; r_pattern := p_abc_abc; r_id := 3 |} ] in
  let t := fst (register_routes empty_table rs) in
  get_route t M_GET [47;97;98;99;47;97;98;99] = Some (1, [([120], Some [97;98;99])]) /\
  get_route t M_POST [47;97;98;99;47;97;98;99] = Some (3, []) /\
  router_dispatch t false M_PUT [47;97;98;99;47;97;98;99] = D404 /\
  router_dispatch t false M_GET [47;97;98;99;100;101;102] = D404 /\
  router_dispatch t true M_GET [47;97;98;99;47;97;98;99] = D429.
Proof. vm_compute. repeat split. Qed.

(* both premises are needed: '$' accepts a final newline, which the rule does not; and a
   wildcard in the middle (outside the documented grammar) backtracks in ways the rule
   does not describe *)
Example C16_premises_needed :
  route_match [47;97;98;99] [47;97;98;99;10] = Some [] /\ spec_route_match [47;97;98;99] [47;97;98;99;10] = None /\
  wf_pat p_star_mid = false /\
  route_match p_star_mid [47;120;47;98] <> spec_route_match p_star_mid [47;120;47;98].
Proof. vm_compute. repeat split. discriminate. Qed.
