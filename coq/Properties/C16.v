(* C16 — the HTTP router matches paths exactly as the documented pattern grammar says.
   Theorems only.  Strings are lists of code points. *)
From Model Require Import Base PathJoin Router.
From Proofs Require Import RouterP.
Open Scope Z_scope.

Theorem C16_notfound_404_raw : forall t limited m path,
  router_dispatch t limited m path = D404 <-> limited = false /\ get_route t m path = None.
Proof. exact dispatch_404_iff. Qed.
Print Assumptions C16_notfound_404_raw.
