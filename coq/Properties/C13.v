(* C13 — binary serializer (stub: first theorems; the full round-trip follows). *)
From Model Require Import Base Utf8 Ser.
From Proofs Require Import BytesP Utf8P.
Open Scope Z_scope.

Theorem C13_utf8_roundtrip : forall s bs, utf8_encode s = Some bs -> utf8_decode bs = Some s.
Proof. exact utf8_roundtrip. Qed.
Print Assumptions C13_utf8_roundtrip.
