(* C13 — binary serializer (mpgameserver/serializable.py): decode (encode v) = norm v with exact
   consumption, concatenated encodings decode one after another, values outside the domain are
   refused.  Theorems only; proofs in Proofs/SerP.v, C13P.v, BytesP.v, Utf8P.v, Float32P.v.

   Vocabulary (Model/Ser.v): value = None | bool | int | float (binary64 bits) | str (code points) |
   bytes | list | tuple | dict | set | Serializable object | SerializableEnum member | unsupported;
   reg = SerializableType.registry as data; enc = serialize_value; decode fuel bs = deserialize_value
   on a stream holding bs with `fuel` Python frames available, returning the value and the bytes
   left; norm v = the value expected back (tuple -> list, float -> float32 -> float, dict / set
   rebuilt by insertion under Python equality, an error if a key is unhashable after the trip);
   wf = the supported grammar within the documented limits, classes registered; need v = frames
   deserialize_value needs for v (linear in the nesting depth).
   fc = the two float32 conversions (struct '>f'); the general theorems hold for every fc whose
   pack result is a 32-bit pattern, and are instantiated with the Flocq model flocq_fc. *)
From Coq Require Import Lia.
From Model Require Import Base Utf8 Ser Float32.
From Model Require Registry.
From Proofs Require Import BytesP Utf8P SerP SerNormP C13P Float32P.
From Proofs Require RegistryP.
Open Scope Z_scope.

(* The statement without the premise [norm fc v = SOk nv],
     forall v, wf fc reg v -> exists bs nv, enc fc reg v = SOk bs /\ decode ... bs = SOk (nv, []),
   is FALSE of the code (D18): see C13_refuted.  The premise says that every dict key / set element
   of v is still hashable (and comparable) after the trip. *)

(* 1. round trip with exact consumption, for every registry, every value of the grammar, every
      trailing byte string and every sufficient number of frames *)
Theorem C13_roundtrip : forall (fc : fconv) (pk : value -> option serr) (reg : registry),
  (forall b w, to32 fc b = SOk w -> 0 <= w < 2 ^ 32) ->
  forall v nv, wf fc reg v -> norm fc v = SOk nv ->
  exists bs, enc fc reg v = SOk bs /\
    forall fuel rest, (need v <= fuel)%nat -> decode fc pk reg fuel (bs ++ rest) = SOk (nv, rest).
Proof. exact C13_roundtrip_proof. Qed.
Print Assumptions C13_roundtrip.

(* 1a. the same for the Flocq model of struct.pack('>f') / unpack (no premise left) *)
Theorem C13_roundtrip_flocq : forall pk reg v nv,
  wf flocq_fc reg v -> norm flocq_fc v = SOk nv ->
  exists bs, enc flocq_fc reg v = SOk bs /\
    forall fuel rest, (need v <= fuel)%nat -> decode flocq_fc pk reg fuel (bs ++ rest) = SOk (nv, rest).
Proof. exact (fun pk reg => C13_roundtrip_proof flocq_fc pk reg flocq_fc_range). Qed.
Print Assumptions C13_roundtrip_flocq.

(* 1b. the premise on norm discharged syntactically: every dict key / set element is a scalar
       (None, bool, int, float, str, bytes) or an enum member of a scalar, all keys of one container at
       the same enum depth [keys_ok] — then norm succeeds and the trip returns it *)
Theorem C13_roundtrip_total : forall (fc : fconv) pk reg,
  (forall b w, to32 fc b = SOk w -> 0 <= w < 2 ^ 32) ->
  forall v, wf fc reg v -> keys_ok v ->
  exists bs nv, enc fc reg v = SOk bs /\ norm fc v = SOk nv /\
    forall fuel rest, (need v <= fuel)%nat -> decode fc pk reg fuel (bs ++ rest) = SOk (nv, rest).
Proof. exact C13_roundtrip_total_proof. Qed.
Print Assumptions C13_roundtrip_total.

(* 1c. equality on the nose: a value without tuples whose floats are float32 values and whose dict
       keys / set elements are hashable and pairwise different [exact] decodes to itself *)
Theorem C13_roundtrip_exact : forall (fc : fconv) pk reg,
  (forall b w, to32 fc b = SOk w -> 0 <= w < 2 ^ 32) ->
  forall v, wf fc reg v -> exact fc v ->
  exists bs, enc fc reg v = SOk bs /\
    forall fuel rest, (need v <= fuel)%nat -> decode fc pk reg fuel (bs ++ rest) = SOk (v, rest).
Proof. exact C13_roundtrip_exact_proof. Qed.
Print Assumptions C13_roundtrip_exact.

(* 2. concatenated encodings decode one after another (any number of values) *)
Theorem C13_concat : forall (fc : fconv) pk reg,
  (forall b w, to32 fc b = SOk w -> 0 <= w < 2 ^ 32) ->
  forall vs nvs, Forall2 (fun v nv => wf fc reg v /\ norm fc v = SOk nv) vs nvs ->
  exists bss, mapM (enc fc reg) vs = SOk bss /\
    forall fuel rest, (forall v, In v vs -> (need v <= fuel)%nat) ->
      decode_seq fc pk reg fuel (length vs) (concat bss ++ rest) = SOk (nvs, rest).
Proof. exact C13_concat_proof. Qed.
Print Assumptions C13_concat.

(* 2b. self-delimiting: if one encoding followed by r1 is byte-for-byte another encoding followed by
       r2, both read as the same value and leave the same rest (no encoding is a proper prefix of
       another one that means something else) *)
Theorem C13_self_delimiting : forall (fc : fconv) (pk : value -> option serr) reg,
  (forall b w, to32 fc b = SOk w -> 0 <= w < 2 ^ 32) ->
  forall v1 v2 n1 n2 b1 b2 r1 r2,
  wf fc reg v1 -> wf fc reg v2 -> norm fc v1 = SOk n1 -> norm fc v2 = SOk n2 ->
  enc fc reg v1 = SOk b1 -> enc fc reg v2 = SOk b2 ->
  b1 ++ r1 = b2 ++ r2 -> n1 = n2 /\ r1 = r2.
Proof. exact C13_self_delimiting_proof. Qed.
Print Assumptions C13_self_delimiting.

(* 3. the encoder produces bytes exactly on its domain [accepts] (64-bit ints, floats that fit
      float32, surrogate-free strings and byte strings up to 2^20 bytes, containers up to 2^14
      elements, packable class ids, legal enum members, nested arbitrarily); everything else —
      at any depth — is an error and no bytes *)
Theorem C13_domain : forall fc reg v, (exists bs, enc fc reg v = SOk bs) <-> accepts fc reg v.
Proof. exact C13_domain_proof. Qed.
Print Assumptions C13_domain.

Theorem C13_refuses : forall fc reg v, ~ accepts fc reg v -> exists e, enc fc reg v = SErr e.
Proof. exact C13_refuses_proof. Qed.
Print Assumptions C13_refuses.

(* 3'. the refusals the property names, with the exception raised *)
Theorem C13_refuses_kinds : forall fc reg,
  (forall z, ~ (- 2 ^ 63 <= z < 2 ^ 63) -> enc fc reg (VInt z) = SErr (SE EValue)) /\
  (forall b e, to32 fc b = SErr e -> enc fc reg (VFloat b) = SErr e) /\
  (forall s c, In c s -> is_surrogate c = true -> enc fc reg (VStr s) = SErr (SE EUnicode)) /\
  (forall s bs, utf8_encode s = Some bs -> MAXB < len bs -> enc fc reg (VStr s) = SErr SName) /\
  (forall b, MAXB < len b -> enc fc reg (VBytes b) = SErr (SE EValue)) /\
  (forall l, MAXA < len l -> enc fc reg (VList l) = SErr (SE EValue) /\ enc fc reg (VTuple l) = SErr (SE EValue)
                             /\ enc fc reg (VSet l) = SErr (SE EValue)) /\
  (forall kv, MAXA < len kv -> enc fc reg (VDict kv) = SErr (SE EValue)) /\
  enc fc reg VUnsup = SErr (SE EType) /\
  (forall t ms x, reg_find reg t = Some (CEnum ms) -> tid_packable t = true -> hashable x = true ->
                  mem_py x ms = SOk false -> enc fc reg (VEnum t x) = SErr (SE EValue)).
Proof. exact C13_refuses_kinds_proof. Qed.
Print Assumptions C13_refuses_kinds.

(* 4. D18 — the unrestricted statement is refuted: {(1, 2): 3} is in the grammar, is encoded, and the
      decoder raises TypeError on the result (a tuple comes back as a list, which is unhashable) *)
Theorem C13_refuted : forall fc pk reg,
  exists v, wf fc reg v /\
    exists bs, enc fc reg v = SOk bs /\
      decode fc pk reg 10 bs = SErr (SE EType) /\ norm fc v = SErr (SE EType).
Proof. exact C13_refuted_proof. Qed.
Print Assumptions C13_refuted.

(* 5. kernels: big-endian signed integers of the four widths chosen by |z|, and UTF-8 *)
Theorem C13_int_roundtrip : forall fc pk reg z, - 2 ^ 63 <= z < 2 ^ 63 ->
  exists bs, enc_int z = SOk bs /\
    forall f rest, Runs (dec_value fc pk reg (S (S (S f)))) (bs ++ rest) (VInt z) rest.
Proof. exact enc_int_dec. Qed.
Print Assumptions C13_int_roundtrip.

Theorem C13_utf8_roundtrip : forall s bs, utf8_encode s = Some bs -> utf8_decode bs = Some s.
Proof. exact utf8_roundtrip. Qed.
Print Assumptions C13_utf8_roundtrip.

Theorem C13_utf8_domain : forall s,
  (Forall (fun c => cp_ok c = true /\ is_surrogate c = false) s -> exists bs, utf8_encode s = Some bs) /\
  (forall c, In c s -> is_surrogate c = true -> utf8_encode s = None).
Proof. exact (fun s => conj (utf8_encode_total s) (utf8_encode_surrogate s)). Qed.
Print Assumptions C13_utf8_domain.

(* ---------- the class registry (Model/Registry.v: SerializableType.__new__, SerializableEnumType.__new__,
   setRootId).  The round-trip theorems above take the decode table as a function of type ids; these say the real
   table IS one, for every sequence of class statements and setRootId calls: *)
(* ... the table is a bijection between the ids in use and the registered classes *)
Theorem C13_registry_bijection : forall ops, RegistryP.WF (fst (Registry.rrun Registry.reg0 ops)).
Proof. intros ops. apply RegistryP.rrun_WF. exact RegistryP.WF_reg0. Qed.
Print Assumptions C13_registry_bijection.

(* ... so a type id decodes to the one class that was given this id, and no class has two ids *)
Theorem C13_registry_lookup : forall s t c, RegistryP.WF s -> In (t, c) (Registry.r_reg s) ->
  Registry.rget t (Registry.r_reg s) = Some c /\ forall t', In (t', c) (Registry.r_reg s) -> t' = t.
Proof. exact RegistryP.WF_lookup. Qed.
Print Assumptions C13_registry_lookup.

(* ... a class statement that succeeds makes its class the one its id decodes to, and it stays so
   whatever is defined later (Serializable or enum, any module, any setRootId) *)
Theorem C13_defined_is_registered : forall s o s' t, Registry.rstep s o = (s', (t, 0)) ->
  match o with Registry.RSetRoot _ _ => True | _ => Registry.rget t (Registry.r_reg s') = Some (Registry.r_defs s) end.
Proof. exact RegistryP.defined_is_registered. Qed.
Print Assumptions C13_defined_is_registered.

Theorem C13_registered_stays : forall ops s t c, In (t, c) (Registry.r_reg s) ->
  In (t, c) (Registry.r_reg (fst (Registry.rrun s ops))).
Proof. exact RegistryP.registered_stays. Qed.
Print Assumptions C13_registered_stays.

(* ... and a class statement that is refused (id or name in use) leaves both tables unchanged *)
Theorem C13_refused_leaves_tables : forall s o s' t code, Registry.rstep s o = (s', (t, code)) -> code <> 0 ->
  Registry.r_reg s' = Registry.r_reg s /\ Registry.r_names s' = Registry.r_names s.
Proof. exact RegistryP.refused_leaves_tables. Qed.
Print Assumptions C13_refused_leaves_tables.

(* ---------- non-vacuity: the premises hold for concrete registries and values, and the
   statements compute to what the implementation does *)
Definition ex_reg : registry :=
  [(128, CEnum [VInt 1; VInt 2; VInt 3]); (200, CObj [VInt 5]); (65535, CObj [VNone; VStr [120]])].
Definition ex_val : value :=
  VList [VObj 65535 [VFloat 0x3FB999999999999A; VStr [233; 0x1F600]];
         VEnum 128 (VInt 2);
         VDict [(VStr [], VTuple [VInt (-129); VInt 32768; VInt (- 2 ^ 63)]); (VInt 1, VSet [VBool true; VFloat 0x3FF0000000000000])];
         VBytes [x00; xff]; VNone].

Example ex_wf : wf flocq_fc ex_reg ex_val.
Proof.
  cbn [wf ex_val fold_right fst snd]. unfold MAXA, MAXB.
  repeat match goal with
         | |- _ /\ _ => split
         | |- True => exact I
         | |- exists defs, reg_find _ _ = Some (CObj defs) /\ _ => eexists; split; reflexivity
         | |- exists ms, reg_find _ _ = Some (CEnum ms) /\ _ => eexists; split; reflexivity
         | |- exists w, to32 _ _ = SOk w => eexists; vm_compute; reflexivity
         | |- exists bs, utf8_encode _ = Some bs /\ _ => eexists; split; [vm_compute; reflexivity | vm_compute; discriminate]
         | |- _ = true => reflexivity
         | |- _ <= _ => vm_compute; discriminate
         | |- _ < _ => vm_compute; reflexivity
         end.
Qed.

Example ex_keys_ok : keys_ok ex_val.
Proof.
  cbn [keys_ok ex_val fold_right fst snd].
  repeat match goal with
         | |- _ /\ _ => split
         | |- True => exact I
         | |- exists d, _ => exists 0; reflexivity
         end.
Qed.

Example ex_exact : exact flocq_fc (VDict [(VEnum 128 (VInt 1), VFloat 0x3FF8000000000000); (VEnum 128 (VInt 2), VSet [VInt 7; VStr [55]])]).
Proof.
  cbn [exact map fst snd distinct forallb fold_right hashable andb].
  repeat match goal with
         | |- _ /\ _ => split
         | |- True => exact I
         | |- Forall _ [] => constructor
         | |- Forall _ (_ :: _) => constructor
         | |- exists w, to32 _ _ = SOk w /\ _ => eexists; split; [vm_compute; reflexivity | vm_compute; reflexivity]
         | |- _ = _ => reflexivity
         end.
Qed.

Example ex_norm : exists nv, norm flocq_fc ex_val = SOk nv.
Proof. eexists. vm_compute. reflexivity. Qed.

(* 0.1 comes back as float32(0.1) = 0x3FB99999A0000000, the tuple as a list, 1 and 1.0/True collapse in the set *)
Example ex_trip :
  match enc flocq_fc ex_reg ex_val with
  | SOk bs => decode flocq_fc (fun _ => None) ex_reg 9 (bs ++ [x07; x07]) = SOk
      (VList [VObj 65535 [VFloat 0x3FB99999A0000000; VStr [233; 0x1F600]];
              VEnum 128 (VInt 2);
              VDict [(VStr [], VList [VInt (-129); VInt 32768; VInt (- 2 ^ 63)]); (VInt 1, VSet [VBool true])];
              VBytes [x00; xff]; VNone], [x07; x07])
  | SErr _ => False
  end.
Proof. vm_compute. reflexivity. Qed.

(* float32 overflow is refused (FLT_MAX + half an ulp), the largest value that still rounds to FLT_MAX is not *)
Example ex_overflow : flocq_to32 0x47EFFFFFF0000000 = SErr (SE EOverflow)
                      /\ flocq_to32 0x47EFFFFFEFFFFFFF = SOk 0x7F7FFFFF.
Proof. split; vm_compute; reflexivity. Qed.

Example ex_refused : ~ accepts flocq_fc ex_reg (VList [VInt 1; VDict [(VInt 2, VInt (2 ^ 63))]]).
Proof. intro H. cbn [accepts fold_right fst snd] in H. decompose [and] H. lia. Qed.

(* overlapping setRootId ranges: the second class is refused whether it is a Serializable or an enum (D21) *)
Example ex_registry_id_in_use :
  snd (Registry.rrun Registry.reg0 [Registry.RSetRoot 1 128; Registry.RDefSer 0 10; Registry.RDefEnum 1 11; Registry.RDefSer 1 12; Registry.RDefEnum 1 10]) =
  [(0, 0); (128, 0); (128, 1); (129, 0); (130, 0)].
Proof. exact RegistryP.id_in_use_refused. Qed.

(* ---------- kernels REGENERATED from mpgameserver/serializable.py on every run (tools/py2v_bytes.py,
   Gen/SerKernels.v): the translated source text is the hand-written model the theorems above are about *)
From Model Require StructPack.
From Gen Require SerKernels.
From Proofs Require SerKernelsP.

(* 19. serialize_int as written in the source (width selection by abs(value), the four struct.pack
       formats, struct.error beyond 64 bits) is Ser.enc_int, byte for byte, for every integer; the two size
       limits and every base type id are the model's *)
Theorem C13_kernel_int : forall z,
  match SerKernels.gen_serialize_int z with
  | Ok b => enc_int z = SOk b
  | Err e => e = EStruct /\ enc_int z = SErr (SE EValue)
  end.
Proof. exact SerKernelsP.gen_serialize_int_spec. Qed.
Print Assumptions C13_kernel_int.

(* 20. the other translated stream writers: bool, None and bytes (length limit, tag, length, data) *)
Theorem C13_kernel_writers : forall (fc : fconv) (reg : registry),
  (SerKernels.gen_ser_MAX_BYTES_LENGTH = MAXB /\ SerKernels.gen_ser_MAX_ARRAY_LENGTH = MAXA) /\
  (forall b : bool, SerKernels.gen_serialize_bool (if b then 1 else 0) = Ok (tag 1 ++ [if b then x01 else x00])) /\
  (forall z, SerKernels.gen_serialize_null z = Ok (tag 15)) /\
  (forall bs, match SerKernels.gen_serialize_bytes bs with
              | Ok r => enc fc reg (VBytes bs) = SOk r
              | Err e => e = EValue /\ enc fc reg (VBytes bs) = SErr (SE EValue)
              end).
Proof.
  intros fc reg. split; [exact SerKernelsP.gen_limits|]. split; [exact SerKernelsP.gen_serialize_bool_spec|].
  split; [exact SerKernelsP.gen_serialize_null_spec|]. exact (SerKernelsP.gen_serialize_bytes_spec fc reg).
Qed.
Print Assumptions C13_kernel_writers.

(* 21. the deserialize_types table of the source (dict literal, the later subscript assignments, the
       duplicate id 11 where float32 replaces uint64) is the model's base_kind for EVERY type id; each scalar
       reader hands struct.unpack exactly the bytes its format needs, and the model's decoding of those
       bytes is struct.unpack's answer *)
Theorem C13_kernel_readers :
  (forall t, StructPack.dict_get SerKernels.gen_deserialize_types t
             = option_map SerKernelsP.reader_of_kind (base_kind t)) /\
  (forall t c n, StructPack.dict_get SerKernels.gen_deserialize_types t = Some (StructPack.RUnpack c n) ->
                 n = StructPack.fsizeZ c) /\
  (forall c l, StructPack.sp_signed c = true -> len l = StructPack.fsizeZ c ->
               StructPack.unpack1 c l = Ok (be_dec_signed l)) /\
  (forall c l, StructPack.sp_signed c = false -> c <> StructPack.Fbool -> c <> StructPack.Ff -> c <> StructPack.Fd ->
               len l = StructPack.fsizeZ c -> StructPack.unpack1 c l = Ok (be_dec l)).
Proof.
  split; [exact SerKernelsP.gen_table_is_base_kind|]. split; [exact SerKernelsP.gen_table_sizes|].
  split; [exact SerKernelsP.unpack1_signed|exact SerKernelsP.unpack1_unsigned].
Qed.
Print Assumptions C13_kernel_readers.

(* 22. the container writers as written in the source, up to their element loop (the length limit, the type tag, the
       length written through serialize_value -> serialize_int), as functions of len(value): what they write is
       exactly the header the model's encoder puts in front of the encoded elements, and they refuse exactly the
       lengths the model refuses — list, tuple, set and dict *)
Theorem C13_kernel_containers : forall (fc : fconv) (reg : registry),
  (forall l, match SerKernels.gen_serialize_seq_header (len l) with
             | Ok hd => enc fc reg (VList l) = (dos body <- mapM (enc fc reg) l; SOk (hd ++ concat body))
                        /\ enc fc reg (VTuple l) = (dos body <- mapM (enc fc reg) l; SOk (hd ++ concat body))
             | Err e => e = EValue /\ enc fc reg (VList l) = SErr (SE EValue) /\ enc fc reg (VTuple l) = SErr (SE EValue)
             end) /\
  (forall l, match SerKernels.gen_serialize_set_header (len l) with
             | Ok hd => enc fc reg (VSet l) = (dos body <- mapM (enc fc reg) l; SOk (hd ++ concat body))
             | Err e => e = EValue /\ enc fc reg (VSet l) = SErr (SE EValue)
             end) /\
  (forall kv, match SerKernels.gen_serialize_map_header (len kv) with
              | Ok hd => enc fc reg (VDict kv) =
                         (dos body <- mapM (fun p => let '(k, x) := p in dos a <- enc fc reg k; dos b <- enc fc reg x; SOk (a ++ b)) kv;
                          SOk (hd ++ concat body))
              | Err e => e = EValue /\ enc fc reg (VDict kv) = SErr (SE EValue)
              end).
Proof.
  intros fc reg. split; [exact (SerKernelsP.gen_seq_header_enc fc reg)|].
  split; [exact (SerKernelsP.gen_set_header_enc fc reg)|exact (SerKernelsP.gen_map_header_enc fc reg)].
Qed.
Print Assumptions C13_kernel_containers.

(* 23. the length guards of the five length-prefixed decoders as written in the source (the statements between
       `length = deserialize_value(...)` and the first use of length: not an int -> TypeError, above the limit ->
       ValueError, INCLUSIVE upper bound, no lower bound) are the guard of the model's dec_len, which is "decode a
       value, then that guard" *)
Theorem C13_kernel_length_guards :
  ((forall b n, SerKernels.gen_deserialize_string_guard b n = SerKernelsP.guard_spec MAXB b n) /\
   (forall b n, SerKernels.gen_deserialize_bytes_guard b n = SerKernelsP.guard_spec MAXB b n) /\
   (forall b n, SerKernels.gen_deserialize_map_guard b n = SerKernelsP.guard_spec MAXA b n) /\
   (forall b n, SerKernels.gen_deserialize_seq_guard b n = SerKernelsP.guard_spec MAXA b n) /\
   (forall b n, SerKernels.gen_deserialize_set_guard b n = SerKernelsP.guard_spec MAXA b n)) /\
  (forall (sub : M value) cap s, dec_len sub cap s = mbind sub (SerKernelsP.guard_M (SerKernelsP.guard_spec cap)) s).
Proof. split; [exact SerKernelsP.gen_guards|exact SerKernelsP.dec_len_is_guard]. Qed.
Print Assumptions C13_kernel_length_guards.

(* the translated source on the width boundaries: -129 takes two bytes, 2^63 is refused, id 11 reads a float32 *)
Example ex_kernel_int :
  SerKernels.gen_serialize_int (-129) = Ok [x00; x04; xff; x7f] /\
  SerKernels.gen_serialize_int (2 ^ 63) = Err EStruct /\
  StructPack.dict_get SerKernels.gen_deserialize_types 11 = Some (StructPack.RUnpack StructPack.Ff 4) /\
  SerKernels.gen_serialize_seq_header 16384 = Ok [x00; x10; x00; x04; x40; x00] /\
  SerKernels.gen_serialize_seq_header 16385 = Err EValue /\
  SerKernels.gen_deserialize_seq_guard true 16384 = Ok 16384 /\
  SerKernels.gen_deserialize_seq_guard true 16385 = Err EValue /\
  SerKernels.gen_deserialize_bytes_guard true (-1) = Ok (-1).
Proof. repeat split; vm_compute; reflexivity. Qed.
