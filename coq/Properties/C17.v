(* C17 — path_join_safe never returns a path outside the root.
   Theorems only.  Strings are lists of code points; cwd is what os.getcwd() returns. *)
From Model Require Import Base PathJoin.
From Proofs Require Import PathJoinP C17P.
Open Scope Z_scope.

(* 1. for every cwd (absolute), every root and every name: the call raises ValueError, or it
      returns an absolute path without "."/".." components whose component list extends the
      component list of abspath(root) — the root directory itself or something beneath it *)
Theorem C17_contained : forall cwd root name,
  starts_sl cwd = true ->
  match path_join_safe cwd root name with
  | Err e => e = EValue
  | Ok result => contained (abspath cwd (replace_bs root)) result
  end.
Proof. exact C17_contained_proof. Qed.
Print Assumptions C17_contained.

(* 2. a name with a "." or ".." component (either separator) is always refused *)
Theorem C17_rejects_dots : forall cwd root name,
  In [DOT; DOT] (split_sl (replace_bs name)) \/ In [DOT] (split_sl (replace_bs name)) ->
  path_join_safe cwd root name = Err EValue.
Proof. exact C17_rejects_dots_proof. Qed.
Print Assumptions C17_rejects_dots.

(* non-vacuity: a plain relative name is accepted below the root; the absolute names that
   escaped before the repair (D12) are refused; an absolute name inside the root is accepted *)
Definition s_srv_www := [47;115;114;118;47;119;119;119].                 (* "/srv/www" *)
Definition s_etc_passwd := [47;101;116;99;47;112;97;115;115;119;100].    (* "/etc/passwd" *)
Example C17_accepts_plain_name :
  path_join_safe [47;116;109;112] s_srv_www [97;47;98] = Ok (s_srv_www ++ [47;97;47;98]).   (* "a/b" *)
Proof. vm_compute. reflexivity. Qed.
Example C17_refuses_absolute :
  path_join_safe [47;116;109;112] s_srv_www s_etc_passwd = Err EValue /\
  path_join_safe [47;116;109;112] s_srv_www (47 :: s_etc_passwd) = Err EValue /\
  path_join_safe [47;116;109;112] s_srv_www (map (fun c => if c =? 47 then 92 else c) s_etc_passwd) = Err EValue /\
  path_join_safe [47;116;109;112] s_srv_www (s_srv_www ++ [120;47;97]) = Err EValue.      (* "/srv/wwwx/a" *)
Proof. vm_compute. repeat split. Qed.
Example C17_relative_root_uses_cwd :
  path_join_safe [47;116;109;112] [119] [97] = Ok [47;116;109;112;47;119;47;97].          (* cwd /tmp, root "w", "a" *)
Proof. vm_compute. reflexivity. Qed.
