(* C14 — deserializing hostile bytes is safe and bounded.  Theorems only.
   decode fc pk reg fuel bs  is Serializable.loadb / deserialize_value on the byte string bs with
   registry reg (data), float conversions fc, the outcome pk of the external DER key parser
   (EllipticCurvePublicKey.fromBytes) and fuel = Python frames still available when
   deserialize_value is entered (recursion limit minus frames in use).  dec_value is the same
   computation on the stream state (bytes left, number of stream.read calls, number of
   deserialize_value calls). *)
From Model Require Import Base Utf8 Ser SerCost SerHs.
From Proofs Require Import SerDecP SerCostP SerSizeP C14P.
From Model Require Registry.
From Proofs Require RegistryP.
Open Scope Z_scope.

(* 1. totality: for every byte string, registry, key-parser behaviour and number of frames the
      decoder ends (it is a total function: structural recursion on the frames) either with a
      value and the unread rest of the input, or with one of the documented exception kinds
      (or with whatever exception the external key parser raised). *)
Theorem C14_decode_total : forall fc pk reg fuel bs,
  match decode fc pk reg fuel bs with
  | SOk (v, rest) => exists consumed, bs = consumed ++ rest
  | SErr e => documented e \/ exists x, pk x = Some e
  end.
Proof. exact decode_total_proof. Qed.
Print Assumptions C14_decode_total.

(* 2. RecursionError (fuel exhausted) is only possible when the frames available are fewer than
      |bs| + 3: every nesting level costs two frames and at least two bytes.  With Python's
      recursion limit L and d frames in use at the call, inputs of at most L - d - 3 bytes never
      hit it (L - d <= 1400, e.g. the default L = 1000: beyond that CPython 3.12's separate C-level
      recursion limit, about 747 nested class instances, raises the same RecursionError first —
      see frames_available in Model/SerCost.v and the harness). *)
Theorem C14_recursion_needs_long_input : forall fc pk reg fuel bs,
  len bs + 3 <= Z.of_nat fuel ->
  decode fc pk reg fuel bs = SErr (SE ERecursion) -> exists x, pk x = Some (SE ERecursion).
Proof. exact decode_recursion_proof. Qed.
Print Assumptions C14_recursion_needs_long_input.

Theorem C14_recursion_limit : forall fc pk reg limit depth bs,
  len bs + 3 <= limit - depth ->
  decode fc pk reg (frames_available limit depth) bs = SErr (SE ERecursion) ->
  exists x, pk x = Some (SE ERecursion).
Proof. exact decode_recursion_limit_proof. Qed.
Print Assumptions C14_recursion_limit.

(* 3. work is bounded by the input length: value decodes (every deserialize_value call, so every
      iteration of every loop) <= |bs|/2 + 1, stream reads <= 2 per value decode, the stream only
      moves forward (the bytes handed out are the consumed prefix of bs). *)
Theorem C14_decode_bounded : forall fc pk reg fuel bs,
  match dec_value fc pk reg fuel (st0 bs) with
  | (r, s) =>
      0 <= nval s /\ 2 * nval s <= len bs + 2 /\
      0 <= nrd s /\ nrd s <= 2 * nval s /\
      (exists consumed, bs = consumed ++ rem s) /\
      match r with SOk _ => 2 * nval s <= len bs - len (rem s) | SErr _ => True end
  end.
Proof. exact decode_bounded_proof. Qed.
Print Assumptions C14_decode_bounded.

(* 4. a returned value is composed only of base types and classes of the registry (given that
      the class defaults are) *)
Theorem C14_decode_closed : forall fc pk reg fuel bs v rest,
  reg_closed reg -> decode fc pk reg fuel bs = SOk (v, rest) -> closed reg v.
Proof. exact decode_closed_proof. Qed.
Print Assumptions C14_decode_closed.

(* 5. the read log.  c_dec_value is the same decoder on a stream that records every read call
      (size argument, bytes returned).  Erasing the log gives exactly dec_value: same outcome,
      same bytes left, same number of value decodes, and the number of reads is the length of
      the log ... *)
Theorem C14_cost_erasure : forall fc pk reg fuel bs,
  match c_dec_value fc pk reg fuel (cst0 bs) with
  | (r, cs) => dec_value fc pk reg fuel (st0 bs) = (r, erase cs)
  end.
Proof. exact cost_erasure_proof. Qed.
Print Assumptions C14_cost_erasure.

(*    ... the bytes returned by all reads together are exactly the bytes the stream moved forward,
      hence at most |bs|; every single read returned between 0 and its size argument (when that is
      not negative) *)
Theorem C14_bytes_returned : forall fc pk reg fuel bs,
  match c_dec_value fc pk reg fuel (cst0 bs) with
  | (r, cs) =>
      log_bytes (c_log cs) = len bs - len (c_rem cs) /\
      0 <= len (c_rem cs) /\ log_bytes (c_log cs) <= len bs /\
      Forall (fun p => 0 <= snd p /\ (0 <= fst p -> snd p <= fst p)) (c_log cs)
  end.
Proof. exact bytes_returned_proof. Qed.
Print Assumptions C14_bytes_returned.

(* 5b. allocation: the size of a decoded value (nodes + string/bytes payload) is bounded by the work
      done, hence by the input: with D a bound on the size of the class defaults of the registry,
      vsize v <= (1 + D) * (value decodes) + (bytes consumed) and so 2 * vsize v <= (3 + D) * |bs|.
      (Intermediate structures are the partially built lists/dicts of the same values; peak
      memory of the CPython process is measured by the harness, not proved.) *)
Theorem C14_decode_size : forall fc pk reg D,
  reg_defsize_le reg D -> 0 <= D -> forall fuel bs,
  match dec_value fc pk reg fuel (st0 bs) with
  | (SOk v, s) => vsize v <= (1 + D) * nval s + (len bs - len (rem s))
  | (SErr _, _) => True
  end.
Proof. exact decode_size_proof. Qed.
Print Assumptions C14_decode_size.

Theorem C14_decode_alloc : forall fc pk reg D fuel bs v rest,
  reg_defsize_le reg D -> 0 <= D ->
  decode fc pk reg fuel bs = SOk (v, rest) ->
  2 * vsize v <= (3 + D) * (len bs - len rest) /\ len bs - len rest <= len bs.
Proof. exact decode_alloc_proof. Qed.
Print Assumptions C14_decode_alloc.

(* 6. length-prefixed types (str, bytes: cap 2^20; seq, map, set: cap 2^14), for ANY decoder `sub`
      of the length (in particular the recursive one):
      a declared length above the cap is refused in the very state the length decode left —
      no read, no loop iteration, no further value decode; *)
Theorem C14_cap_refused_before_loop : forall fc (sub : M value) f2 k cap s v s1 n,
  cap_of k = Some cap -> sub s = (SOk v, s1) -> as_len v = Some n -> cap < n ->
  dec_base fc sub f2 k s = (SErr (SE EValue), s1).
Proof. exact cap_refused_proof. Qed.
Print Assumptions C14_cap_refused_before_loop.

(*    a declared length that is not an int is a TypeError in that same state; *)
Theorem C14_length_not_int : forall fc (sub : M value) f2 k cap s v s1,
  cap_of k = Some cap -> sub s = (SOk v, s1) -> as_len v = None ->
  dec_base fc sub f2 k s = (SErr (SE EType), s1).
Proof. exact length_not_int_proof. Qed.
Print Assumptions C14_length_not_int.

(*    the element loop ends at the first element that fails (a short read included): the state and
      the exception are those of that element, whatever length was declared; *)
Theorem C14_loop_stops_at_first_failure : forall (A : Type) (m : M A) i n s l si e s',
  rep i m s = (SOk l, si) -> m si = (SErr e, s') -> (i < n)%nat ->
  rep n m s = (SErr e, s').
Proof. exact @rep_first_failure_proof. Qed.
Print Assumptions C14_loop_stops_at_first_failure.

(*    a negative or over-long declared bytes length (within the cap) returns exactly what is left
      of the stream, in one read, without an error. *)
Theorem C14_bytes_returns_what_is_left : forall fc (sub : M value) f2 s v s1 n,
  sub s = (SOk v, s1) -> as_len v = Some n -> n <= MAXB ->
  (n < 0 \/ len (rem s1) <= n) ->
  dec_base fc sub f2 KBytes s = (SOk (VBytes (rem s1)), mkst [] (nrd s1 + 1) (nval s1)).
Proof. exact bytes_returns_what_is_left_proof. Qed.
Print Assumptions C14_bytes_returns_what_is_left.

(* 7. the two messages a server decodes from peers before the handshake is complete
      (ServerClientConnection._recvClientHello / _recvChallengeResponse: Serializable.loadb on the
      payload with the global registry, then one attribute of the result).  Both are `decode`
      followed by a constant amount of work, so theorems 1-6 bound them; what leaves them is:
      hello     — the handshake continues only with a HandshakeClientHelloMessage whose version
                  compares equal; anything else is dropped or raises a documented exception kind
                  (AttributeError for a value of another type);
      challenge — accepted only with an equal token; otherwise a documented kind, or NameError (the
                  failure branch of the receiver names an undefined variable). *)
Theorem C14_hello_total : forall fc pk reg fuel version data,
  match recv_client_hello fc pk reg fuel version data with
  | HsAccept v =>
      exists t der ver base rest,
        v = VObj t [der; ver] /\ reg_find reg t = Some (CClientHello base) /\
        eq_int ver version = SOk true /\ decode fc pk reg fuel data = SOk (v, rest) /\
        (reg_closed reg -> closed reg v)
  | HsIgnore => True
  | HsRaise e => documented e \/ exists x, pk x = Some e
  end.
Proof. exact hello_total_proof. Qed.
Print Assumptions C14_hello_total.

Theorem C14_challenge_total : forall fc pk reg tok fuel expected data,
  match recv_challenge fc pk reg tok fuel expected data with
  | HsAccept v =>
      exists tv rest, token_of tok v = Some tv /\ eq_int tv expected = SOk true /\
                      decode fc pk reg fuel data = SOk (v, rest) /\ (reg_closed reg -> closed reg v)
  | HsIgnore => False
  | HsRaise e => documented e \/ e = SName \/ exists x, pk x = Some e
  end.
Proof. exact challenge_total_proof. Qed.
Print Assumptions C14_challenge_total.

(* ---------- "registered types": the decode table only ever holds classes whose class statement succeeded
   (Model/Registry.v, the metaclasses of serializable.py): a refused definition (type id or name already in use)
   leaves the decode table and the name table exactly as they were, so its half-built class can never be the
   result of decoding hostile bytes; see also C13_registry_bijection *)
Theorem C14_refused_class_not_decodable : forall s o s' t code, Registry.rstep s o = (s', (t, code)) -> code <> 0 ->
  Registry.r_reg s' = Registry.r_reg s /\ Registry.r_names s' = Registry.r_names s.
Proof. exact RegistryP.refused_leaves_tables. Qed.
Print Assumptions C14_refused_class_not_decodable.

(* ---------- non-vacuity *)
Definition fc0 : fconv := {| to32 := fun z => SOk z; of32 := fun z => z |}.
Definition pk0 : value -> option serr := fun _ => None.
Definition reg0 : registry := [(130, CEnum [VInt 1; VInt 2]); (131, CObj [VInt 0; VInt 0])].
Definition B (l : list Z) : list byte := map byte_of_Z l.

Example C14_ex_reg_closed : reg_closed reg0.
Proof.
  intros t defs H. unfold reg0 in H. cbn [reg_find] in H.
  destruct (130 =? t); [discriminate|]. destruct (131 =? t); [|discriminate].
  inversion H. simpl. auto.
Qed.

Example C14_ex_ok :     (* [None, Point(5, default)] followed by a stray byte *)
  decode fc0 pk0 reg0 50 (B [0;16; 0;3;2; 0;15; 0;131; 0;3;1; 0;3;5; 9]) =
  SOk (VList [VNone; VObj 131 [VInt 5; VInt 0]], B [9]).
Proof. vm_compute. reflexivity. Qed.
Example C14_ex_errors :
  decode fc0 pk0 reg0 50 (B [0]) = SErr SHeader /\                         (* short type id *)
  decode fc0 pk0 reg0 50 (B [0;99; 1;2]) = SErr SHeader /\                 (* unknown type id *)
  decode fc0 pk0 reg0 50 (B [0;16; 0;3;2; 0;15]) = SErr SSer /\            (* element missing *)
  decode fc0 pk0 reg0 50 (B [0;5; 1;2]) = SErr (SE EStruct) /\             (* short int32 *)
  decode fc0 pk0 reg0 50 (B [0;16; 0;15]) = SErr (SE EType) /\             (* length None *)
  decode fc0 pk0 reg0 50 (B [0;16; 0;4;64;1]) = SErr (SE EValue) /\        (* length 16385 *)
  decode fc0 pk0 reg0 50 (B [0;13; 0;3;1; 255]) = SErr (SE EUnicode) /\
  decode fc0 pk0 reg0 50 (B [0;131; 0;3;3; 0;15; 0;15; 0;15]) = SErr (SE EIndex) /\
  decode fc0 pk0 reg0 50 (B [0;17; 0;3;1; 0;16;0;3;0; 0;15]) = SErr (SE EType) /\   (* list as key *)
  decode fc0 pk0 reg0 50 (B [0;18; 0;3;2; 0;130;0;3;1; 0;3;1]) = SErr (SE EAttr).  (* {Color(1), 1} *)
Proof. vm_compute. repeat split. Qed.
(* six nested enums need 15 frames; 14 frames raise RecursionError, 15 do not *)
Example C14_ex_recursion :
  decode fc0 pk0 reg0 14 (B [0;130; 0;130; 0;130; 0;130; 0;130; 0;130; 0;3;1]) = SErr (SE ERecursion) /\
  decode fc0 pk0 reg0 15 (B [0;130; 0;130; 0;130; 0;130; 0;130; 0;130; 0;3;1]) =
    SOk (VEnum 130 (VEnum 130 (VEnum 130 (VEnum 130 (VEnum 130 (VEnum 130 (VInt 1)))))), []).
Proof. vm_compute. split; reflexivity. Qed.
(* the counters: a declared length of 16385 is refused after 2 value decodes and 3 reads;
   a bytes value with declared length -1 / 1000 returns what is left in one read *)
Example C14_ex_counters :
  (let '(r, s) := dec_value fc0 pk0 reg0 50 (st0 (B [0;16; 0;4;64;1; 0;15; 0;15])) in (r, nval s, nrd s))
    = (SErr (SE EValue), 2, 3) /\
  (let '(r, s) := dec_value fc0 pk0 reg0 50 (st0 (B [0;14; 0;3;255; 7;8;9])) in (r, nval s, nrd s))
    = (SOk (VBytes (B [7;8;9])), 2, 4) /\
  (let '(r, s) := dec_value fc0 pk0 reg0 50 (st0 (B [0;14; 0;4;3;232; 7;8;9])) in (r, nval s, nrd s))
    = (SOk (VBytes (B [7;8;9])), 2, 4).
Proof. vm_compute. repeat split. Qed.

(* the logging decoder on the same inputs: the log of the over-long bytes value *)
Example C14_ex_log :
  (let '(r, cs) := c_dec_value fc0 pk0 reg0 50 (cst0 (B [0;14; 0;4;3;232; 7;8;9])) in (r, c_log cs))
    = (SOk (VBytes (B [7;8;9])), [(1000, 3); (2, 2); (2, 2); (2, 2)]).
Proof. vm_compute. reflexivity. Qed.
(* handshake receivers: registry with the hello class (id 130) and the challenge class (id 132, token = field 0) *)
Definition reg1 : registry := [(129, CEnum [VInt 1]); (130, CClientHello 13); (132, CObj [VInt 0])].
Definition tok1 (t : Z) : option nat := if t =? 132 then Some 0%nat else None.
Example C14_ex_hello :
  recv_client_hello fc0 pk0 reg1 50 1 (B [0;130; 0;14;0;3;1;65; 0;3;1; 0;0;0;0]) = HsAccept (VObj 130 [VBytes (B [65]); VInt 1]) /\
  recv_client_hello fc0 pk0 reg1 50 1 (B [0;130; 0;14;0;3;1;65; 0;3;2; 0;0;0;0]) = HsIgnore /\
  recv_client_hello fc0 pk0 reg1 50 1 (B [0;130; 0;14;0;3;1;65; 0;3;1; 0;0;0]) = HsRaise (SE EValue) /\        (* padding short *)
  recv_client_hello fc0 pk0 reg1 50 1 (B [0;132; 0;3;1; 0;3;1]) = HsRaise (SE EAttr) /\                        (* another class *)
  recv_client_hello fc0 pk0 reg1 50 1 (B [0;130; 0;14;0;3;1;65; 0;129;0;3;1; 0;0]) = HsRaise (SE EAttr) /\      (* version is an enum *)
  recv_client_hello fc0 pk0 reg1 6 1 (B [0;129; 0;129; 0;129; 0;3;1]) = HsRaise (SE ERecursion).
Proof. vm_compute. repeat split. Qed.
Example C14_ex_challenge :
  recv_challenge fc0 pk0 reg1 tok1 50 77 (B [0;132; 0;3;1; 0;3;77]) = HsAccept (VObj 132 [VInt 77]) /\
  recv_challenge fc0 pk0 reg1 tok1 50 77 (B [0;132; 0;3;1; 0;3;78]) = HsRaise SName /\
  recv_challenge fc0 pk0 reg1 tok1 50 77 (B [0;132; 0;3;1; 0;129;0;3;77]) = HsRaise (SE EAttr) /\
  recv_challenge fc0 pk0 reg1 tok1 50 77 (B [0;132; 0;3;2; 0;3;77; 0;3;77]) = HsRaise (SE EIndex) /\
  recv_challenge fc0 pk0 reg1 tok1 50 77 (B [0;15]) = HsRaise (SE EAttr).
Proof. vm_compute. repeat split. Qed.

(* size: reg0's defaults have size 2; 16 input bytes give a value of size 6 <= (3 + 2) * 15 / 2 *)
Example C14_ex_size : reg_defsize_le reg0 2 /\ vsize (VList [VNone; VObj 131 [VInt 5; VInt 0]]) = 5.
Proof.
  split; [|reflexivity]. intros t defs H. unfold reg0 in H. cbn [reg_find] in H.
  destruct (130 =? t); [discriminate|]. destruct (131 =? t); [|discriminate]. inversion H. vm_compute. discriminate.
Qed.

(* ---------- the length limits the bounds above rest on, tied to the source text: the guards of the five length-prefixed
   decoders REGENERATED from mpgameserver/serializable.py on every run (tools/py2v_bytes.py, Gen/SerKernels.v) *)
From Gen Require SerKernels.
From Proofs Require SerKernelsP.

(* the statements between `length = deserialize_value(...)` and the first use of length, as written in the source, refuse
   a non-integer with TypeError and a length above MAX_BYTES_LENGTH (str, bytes) / MAX_ARRAY_LENGTH (list, dict, set) with
   ValueError BEFORE anything is read or allocated for it, and that is exactly the guard of the model's dec_len; the two
   limits are the model's 2^20 and 2^14 *)
Theorem C14_kernel_length_limits :
  (SerKernels.gen_ser_MAX_BYTES_LENGTH = MAXB /\ SerKernels.gen_ser_MAX_ARRAY_LENGTH = MAXA) /\
  ((forall b n, SerKernels.gen_deserialize_string_guard b n = SerKernelsP.guard_spec MAXB b n) /\
   (forall b n, SerKernels.gen_deserialize_bytes_guard b n = SerKernelsP.guard_spec MAXB b n) /\
   (forall b n, SerKernels.gen_deserialize_map_guard b n = SerKernelsP.guard_spec MAXA b n) /\
   (forall b n, SerKernels.gen_deserialize_seq_guard b n = SerKernelsP.guard_spec MAXA b n) /\
   (forall b n, SerKernels.gen_deserialize_set_guard b n = SerKernelsP.guard_spec MAXA b n)) /\
  (forall (sub : M value) cap s, dec_len sub cap s = mbind sub (SerKernelsP.guard_M (SerKernelsP.guard_spec cap)) s).
Proof. split; [exact SerKernelsP.gen_limits|]. split; [exact SerKernelsP.gen_guards|exact SerKernelsP.dec_len_is_guard]. Qed.
Print Assumptions C14_kernel_length_limits.
