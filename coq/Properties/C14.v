(* C14 — deserializing hostile bytes is safe and bounded.  Theorems only.
   decode fc pk reg fuel bs  is Serializable.loadb / deserialize_value on the byte string bs with
   registry reg (data), float conversions fc, the outcome pk of the external DER key parser
   (EllipticCurvePublicKey.fromBytes) and fuel = Python frames still available when
   deserialize_value is entered (recursion limit minus frames in use).  dec_value is the same
   computation on the stream state (bytes left, number of stream.read calls, number of
   deserialize_value calls). *)
From Model Require Import Base Utf8 Ser SerCost.
From Proofs Require Import SerDecP C14P.
Open Scope Z_scope.

(* 1. totality: for every byte string, registry, key-parser behaviour and number of frames the
      decoder ends (it is a total function: structural recursion on the frames) either with a
      value and the unread rest of the input, or with one of the documented exception kinds
      (or with whatever exception the external key parser raised). *)
Theorem C14_decode_total : forall fc pk reg fuel bs,
  match decode fc pk reg fuel bs with
  | SOk (v, rest) => exists consumed, bs = consumed ++ rest
  | SErr e => documented e \/ exists x, pk x = Some e
  end.
Proof. exact decode_total_proof. Qed.
Print Assumptions C14_decode_total.

(* 2. RecursionError (fuel exhausted) is only possible when the frames available are fewer than
      |bs| + 3: every nesting level costs two frames and at least two bytes.  With Python's
      recursion limit L and d frames in use at the call, inputs of at most L - d - 3 bytes never
      hit it. *)
Theorem C14_recursion_needs_long_input : forall fc pk reg fuel bs,
  len bs + 3 <= Z.of_nat fuel ->
  decode fc pk reg fuel bs = SErr (SE ERecursion) -> exists x, pk x = Some (SE ERecursion).
Proof. exact decode_recursion_proof. Qed.
Print Assumptions C14_recursion_needs_long_input.

Theorem C14_recursion_limit : forall fc pk reg limit depth bs,
  len bs + 3 <= limit - depth ->
  decode fc pk reg (frames_available limit depth) bs = SErr (SE ERecursion) ->
  exists x, pk x = Some (SE ERecursion).
Proof. exact decode_recursion_limit_proof. Qed.
Print Assumptions C14_recursion_limit.

(* 3. work is bounded by the input length: value decodes (every deserialize_value call, so every
      iteration of every loop) <= |bs|/2 + 1, stream reads <= 2 per value decode, the stream only
      moves forward (the bytes handed out are the consumed prefix of bs). *)
Theorem C14_decode_bounded : forall fc pk reg fuel bs,
  match dec_value fc pk reg fuel (st0 bs) with
  | (r, s) =>
      0 <= nval s /\ 2 * nval s <= len bs + 2 /\
      0 <= nrd s /\ nrd s <= 2 * nval s /\
      (exists consumed, bs = consumed ++ rem s) /\
      match r with SOk _ => 2 * nval s <= len bs - len (rem s) | SErr _ => True end
  end.
Proof. exact decode_bounded_proof. Qed.
Print Assumptions C14_decode_bounded.

(* 4. a returned value is composed only of base types and classes of the registry (given that
      the class defaults are) *)
Theorem C14_decode_closed : forall fc pk reg fuel bs v rest,
  reg_closed reg -> decode fc pk reg fuel bs = SOk (v, rest) -> closed reg v.
Proof. exact decode_closed_proof. Qed.
Print Assumptions C14_decode_closed.

(* ---------- non-vacuity *)
Definition fc0 : fconv := {| to32 := fun z => SOk z; of32 := fun z => z |}.
Definition pk0 : value -> option serr := fun _ => None.
Definition reg0 : registry := [(130, CEnum [VInt 1; VInt 2]); (131, CObj [VInt 0; VInt 0])].
Definition B (l : list Z) : list byte := map byte_of_Z l.

Example C14_ex_reg_closed : reg_closed reg0.
Proof.
  intros t defs H. unfold reg0 in H. cbn [reg_find] in H.
  destruct (130 =? t); [discriminate|]. destruct (131 =? t); [|discriminate].
  inversion H. simpl. auto.
Qed.

Example C14_ex_ok :     (* [None, Point(5, default)] followed by a stray byte *)
  decode fc0 pk0 reg0 50 (B [0;16; 0;3;2; 0;15; 0;131; 0;3;1; 0;3;5; 9]) =
  SOk (VList [VNone; VObj 131 [VInt 5; VInt 0]], B [9]).
Proof. vm_compute. reflexivity. Qed.
Example C14_ex_errors :
  decode fc0 pk0 reg0 50 (B [0]) = SErr SHeader /\                         (* short type id *)
  decode fc0 pk0 reg0 50 (B [0;99; 1;2]) = SErr SHeader /\                 (* unknown type id *)
  decode fc0 pk0 reg0 50 (B [0;16; 0;3;2; 0;15]) = SErr SSer /\            (* element missing *)
  decode fc0 pk0 reg0 50 (B [0;5; 1;2]) = SErr (SE EStruct) /\             (* short int32 *)
  decode fc0 pk0 reg0 50 (B [0;16; 0;15]) = SErr (SE EType) /\             (* length None *)
  decode fc0 pk0 reg0 50 (B [0;16; 0;4;64;1]) = SErr (SE EValue) /\        (* length 16385 *)
  decode fc0 pk0 reg0 50 (B [0;13; 0;3;1; 255]) = SErr (SE EUnicode) /\
  decode fc0 pk0 reg0 50 (B [0;131; 0;3;3; 0;15; 0;15; 0;15]) = SErr (SE EIndex) /\
  decode fc0 pk0 reg0 50 (B [0;17; 0;3;1; 0;16;0;3;0; 0;15]) = SErr (SE EType) /\   (* list as key *)
  decode fc0 pk0 reg0 50 (B [0;18; 0;3;2; 0;130;0;3;1; 0;3;1]) = SErr (SE EAttr).  (* {Color(1), 1} *)
Proof. vm_compute. repeat split. Qed.
(* six nested enums need 15 frames; 14 frames raise RecursionError, 15 do not *)
Example C14_ex_recursion :
  decode fc0 pk0 reg0 14 (B [0;130; 0;130; 0;130; 0;130; 0;130; 0;130; 0;3;1]) = SErr (SE ERecursion) /\
  decode fc0 pk0 reg0 15 (B [0;130; 0;130; 0;130; 0;130; 0;130; 0;130; 0;3;1]) =
    SOk (VEnum 130 (VEnum 130 (VEnum 130 (VEnum 130 (VEnum 130 (VEnum 130 (VInt 1)))))), []).
Proof. vm_compute. split; reflexivity. Qed.
(* the counters: a declared length of 16385 is refused after 2 value decodes and 3 reads;
   a bytes value with declared length -1 / 1000 returns what is left in one read *)
Example C14_ex_counters :
  (let '(r, s) := dec_value fc0 pk0 reg0 50 (st0 (B [0;16; 0;4;64;1; 0;15; 0;15])) in (r, nval s, nrd s))
    = (SErr (SE EValue), 2, 3) /\
  (let '(r, s) := dec_value fc0 pk0 reg0 50 (st0 (B [0;14; 0;3;255; 7;8;9])) in (r, nval s, nrd s))
    = (SOk (VBytes (B [7;8;9])), 2, 4) /\
  (let '(r, s) := dec_value fc0 pk0 reg0 50 (st0 (B [0;14; 0;4;3;232; 7;8;9])) in (r, nval s, nrd s))
    = (SOk (VBytes (B [7;8;9])), 2, 4).
Proof. vm_compute. repeat split. Qed.
