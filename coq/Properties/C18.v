From Model Require Import Base WsFrame.
Theorem C18_placeholder : True. Proof. exact I. Qed.
Print Assumptions C18_placeholder.
