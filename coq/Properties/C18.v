(* C18 — WebSocket frames round-trip per RFC 6455; TCP segmentation is harmless.
   Theorems only.  Model/WsFrame.v: encode_frame = writeFrame (serializeHeader, serializeDataHeader,
   writeData), parse_frame = readFrame over the ring buffer, frame_available = _frameAvailable,
   ws_call = WebSocketTemporaryHandler.__call__, ws_feed = a connection (one ws_call per TCP read).
   rfc_encode is RFC 6455 section 5.2 written down independently (7-bit / 126 + 16-bit / 127 + 64-bit
   length selection, mask bit, 4-byte key, payload xor key[i mod 4]).

   wf_frame_anykey f : fin/rsv/mask are bits, the opcode is one of Text/Binary/Close/Ping/Pong, the
   key has 4 bytes, payload_length = len(payload) < 2^63.  wf_frame f adds the library's default
   "an unmasked frame carries the zero key".  client_frame f : wf_frame f, masked, and a Text payload
   is valid UTF-8 (what a client may send and the endpoint must receive). *)
From Model Require Import Base Utf8 WsFrame WsFactory.
From Proofs Require Import WsFrameP WsStreamP C18P WsFactoryP.
Import ListNotations.
Open Scope Z_scope.

(* 1. every frame the library builds — any opcode, mask flag, key, flag bits, payload of any
      length below 2^63 — is written exactly as RFC 6455 prescribes *)
Theorem C18_encoding_is_rfc6455 : forall f,
  wf_frame_anykey f -> encode_frame f = Ok (rfc_encode f).
Proof. exact C18_encode_rfc_proof. Qed.
Print Assumptions C18_encoding_is_rfc6455.

(* 2. frame_roundtrip: what writeFrame wrote, followed by anything, is parsed back by readFrame to the
      same frame (flags, opcode, mask, payload length, unmasked payload; the key too when it is on
      the wire) and exactly the bytes of the frame are consumed *)
Theorem C18_frame_roundtrip : forall f rest,
  wf_frame_anykey f ->
  match encode_frame f with
  | Ok bytes => parse_frame (bytes ++ rest) = (Ok (canon_key f), rest)
  | Err _ => False
  end.
Proof. exact C18_frame_roundtrip_proof. Qed.
Print Assumptions C18_frame_roundtrip.

Theorem C18_frame_roundtrip_exact : forall f rest,
  wf_frame f ->
  match encode_frame f with
  | Ok bytes => parse_frame (bytes ++ rest) = (Ok f, rest)
  | Err _ => False
  end.
Proof. exact C18_frame_roundtrip_exact_proof. Qed.
Print Assumptions C18_frame_roundtrip_exact.

(* 3. prefix-freeness: the handler sees a complete frame as complete whatever follows it, and
      any strict prefix of a frame as incomplete: it delivers nothing, raises nothing and keeps
      the bytes *)
Theorem C18_complete_frame_available : forall f rest,
  wf_frame f -> frame_available (rfc_encode f ++ rest) = true.
Proof. exact C18_complete_frame_available_proof. Qed.
Print Assumptions C18_complete_frame_available.

Theorem C18_incomplete_frame_waits : forall f p q,
  wf_frame f -> rfc_encode f = p ++ q -> q <> [] ->
  frame_available p = false /\
  forall st, w_buf st = [] ->
    ws_call st p = ({| w_buf := p; w_closed := w_closed st |},
                    {| o_delivered := []; o_written := []; o_error := None |}).
Proof. exact C18_incomplete_frame_waits_proof. Qed.
Print Assumptions C18_incomplete_frame_waits.

(* 4. stream_any_chunking: for ANY sequence of client frames and ANY way of cutting their
      concatenated encodings into TCP reads (frames split anywhere, several frames per read, empty
      reads), the endpoint callback receives exactly the frames — each once, in order, with its opcode
      and unmasked payload — no exception escapes, nothing is left in the buffer, and the Close
      reply is written exactly once iff a Close frame arrived on a handler not yet closed *)
Theorem C18_stream_any_chunking : forall frames chunks closed,
  Forall client_frame frames ->
  concat chunks = enc_stream frames ->
  ws_feed {| w_buf := []; w_closed := closed |} chunks =
  ({| w_buf := []; w_closed := closed || existsb is_close frames |},
   {| o_delivered := map delivery frames;
      o_written := if negb closed && existsb is_close frames then close_bytes else [];
      o_error := None |}).
Proof. exact C18_stream_any_chunking_proof. Qed.
Print Assumptions C18_stream_any_chunking.

(* 5. delivery is prompt: at any moment — the reads so far hold some whole frames followed by the
      beginning of the next one — exactly the whole frames have been delivered and exactly the
      beginning of the next one is buffered *)
Theorem C18_stream_prompt : forall frames tail chunks closed,
  Forall client_frame frames -> partial_frame tail ->
  concat chunks = enc_stream frames ++ tail ->
  ws_feed {| w_buf := []; w_closed := closed |} chunks =
  ({| w_buf := tail; w_closed := closed || existsb is_close frames |},
   {| o_delivered := map delivery frames;
      o_written := if negb closed && existsb is_close frames then close_bytes else [];
      o_error := None |}).
Proof. exact C18_stream_prompt_proof. Qed.
Print Assumptions C18_stream_prompt.

(* 6. composition of 1 and 4: frames written by the library's own writeFrame (a peer using this
      library) and cut arbitrarily are delivered exactly *)
Theorem C18_stream_written_by_library : forall frames encs chunks closed,
  Forall client_frame frames ->
  Forall2 (fun f b => encode_frame f = Ok b) frames encs ->
  concat chunks = concat encs ->
  let '(st, out) := ws_feed {| w_buf := []; w_closed := closed |} chunks in
  o_delivered out = map delivery frames /\ o_error out = None /\ w_buf st = [].
Proof. exact C18_stream_written_by_library_proof. Qed.
Print Assumptions C18_stream_written_by_library.

(* 7. ARBITRARY bytes (well-formed or not, e.g. unmasked frames, unknown opcodes, bad UTF-8, garbage):
      cutting the stream into reads changes nothing — the deliveries, the bytes written and the
      exception (if any) are those of a single read of the whole stream, and without an exception
      the final buffer and closed flag are the same too *)
Theorem C18_chunking_irrelevant : forall chunks closed,
  let '(s1, o1) := ws_feed {| w_buf := []; w_closed := closed |} chunks in
  let '(s2, o2) := ws_call {| w_buf := []; w_closed := closed |} (concat chunks) in
  o1 = o2 /\ (o_error o1 = None -> s1 = s2).
Proof. exact C18_chunking_irrelevant_proof. Qed.
Print Assumptions C18_chunking_irrelevant.

(* 8. readFrame is local: on ANY buffer that _frameAvailable accepts, the parsed frame (or the
      exception) does not depend on the bytes behind it and these bytes are left untouched *)
Theorem C18_parser_is_local : forall buf more,
  frame_available buf = true ->
  parse_frame (buf ++ more) = (fst (parse_frame buf), snd (parse_frame buf) ++ more).
Proof. exact C18_parser_is_local_proof. Qed.
Print Assumptions C18_parser_is_local.

(* 9. model sanity: the fuel that makes the while loop structurally recursive is never exhausted
      (the loop of the real handler terminates on every input: each iteration consumes >= 2 bytes) *)
Theorem C18_fuel_never_exhausted : forall chunks st,
  o_error (snd (ws_feed st chunks)) <> Some ERecursion.
Proof. exact C18_fuel_never_exhausted_proof. Qed.
Print Assumptions C18_fuel_never_exhausted.

(* 10. the PUBLIC CONSTRUCTORS (Model/WsFactory.v: WebSocketFrame.Ping / Pong / Binary / Close / Text, any
       argument): whatever they return is a well-formed final unmasked frame whose length field is the
       number of payload BYTES, so it is written exactly as RFC 6455 prescribes and parses back to itself *)
Theorem C18_factories_wellformed : forall f,
  built_by_factory f -> len (f_payload f) < 2 ^ 63 ->
  wf_frame f /\ f_fin f = 1 /\ f_mask f = 0 /\ f_plen f = len (f_payload f).
Proof. exact C18_factories_wellformed_proof. Qed.
Print Assumptions C18_factories_wellformed.

Theorem C18_factories_roundtrip : forall f rest,
  built_by_factory f -> len (f_payload f) < 2 ^ 63 ->
  encode_frame f = Ok (rfc_encode f) /\ parse_frame (rfc_encode f ++ rest) = (Ok f, rest).
Proof. exact C18_factories_roundtrip_proof. Qed.
Print Assumptions C18_factories_roundtrip.

(* 11. Text(s) exists for every str without lone surrogates; its payload is the UTF-8 encoding of s (it
       decodes back to s) and payload_length counts bytes, not characters; handler.send(s) puts exactly
       the RFC encoding of that frame on the wire *)
Theorem C18_text_factory : forall s,
  Forall (fun c => cp_ok c = true /\ is_surrogate c = false) s ->
  exists f, ws_text s = Ok f /\ f_opcode f = OpText /\ utf8_decode (f_payload f) = Some s /\
            f_plen f = len (f_payload f).
Proof. exact C18_text_factory_full_proof. Qed.
Print Assumptions C18_text_factory.

Theorem C18_send_is_rfc : forall s b, ws_send s = Ok b ->
  exists f, ws_text s = Ok f /\ (len (f_payload f) < 2 ^ 63 -> b = rfc_encode f).
Proof. exact C18_send_is_rfc_proof. Qed.
Print Assumptions C18_send_is_rfc.

(* ---------- non-vacuity ---------- *)
Definition mkf (op : opcode) (mask : Z) (key payload : list byte) : frame :=
  {| f_fin := 1; f_rsv1 := 0; f_rsv2 := 0; f_rsv3 := 0; f_opcode := op; f_mask := mask; f_key := key;
     f_plen := len payload; f_payload := payload |}.
Definition zeros (n : Z) : list byte := repeat x00 (Z.to_nat n).
Definition key1 : list byte := [byte_of_Z 1; byte_of_Z 2; byte_of_Z 3; byte_of_Z 4].
Definition hdr (n : nat) (r : res (list byte)) : list Z :=
  match r with Ok b => map Z_of_byte (firstn n b) | Err _ => [] end.

(* the length boundaries of the property: 125 / 126 / 127 (D13: used to be re-read as a 64-bit
   length) / 65535 (D13: used to be written as 64 bits under a 16-bit marker) / 65536 *)
Example C18_boundary_headers :
  hdr 2 (encode_frame (mkf OpBinary 0 zero_key (zeros 125))) = [130; 125] /\
  hdr 4 (encode_frame (mkf OpBinary 0 zero_key (zeros 126))) = [130; 126; 0; 126] /\
  hdr 4 (encode_frame (mkf OpBinary 0 zero_key (zeros 127))) = [130; 126; 0; 127] /\
  hdr 4 (encode_frame (mkf OpBinary 0 zero_key (zeros 65535))) = [130; 126; 255; 255] /\
  hdr 10 (encode_frame (mkf OpBinary 0 zero_key (zeros 65536))) = [130; 127; 0; 0; 0; 0; 0; 1; 0; 0] /\
  hdr 9 (encode_frame (mkf OpText 1 key1 (zeros 3))) = [129; 131; 1; 2; 3; 4; 1; 2; 3].   (* D13: payload used to go out unmasked *)
Proof. vm_compute. repeat split. Qed.

Example C18_boundary_roundtrips :
  forallb (fun n => match encode_frame (mkf OpBinary 1 key1 (zeros n)) with
                    | Ok b => match parse_frame (b ++ [x00]) with
                              | (Ok f, [_]) => (f_plen f =? n) && (len (f_payload f) =? n) && (f_mask f =? 1)
                              | _ => false
                              end
                    | Err _ => false
                    end) [0; 125; 126; 127; 128; 65535; 65536; 70000] = true.
Proof. vm_compute. reflexivity. Qed.

(* the hypotheses are satisfiable: two masked client frames (Text "hi", Close) *)
Definition f_hi : frame := mkf OpText 1 key1 [byte_of_Z 104; byte_of_Z 105].
Definition f_bye : frame := mkf OpClose 1 key1 [].
Example C18_client_frames_exist : Forall client_frame [f_hi; f_bye].
Proof.
  assert (H : forall op p, op <> OpOpen -> (op = OpText -> utf8_valid p = true) -> len p < 2 ^ 63 ->
                           client_frame (mkf op 1 key1 p)).
  { intros. unfold client_frame, wf_frame, bit, wire_opcode, mkf; cbn. repeat split; auto; discriminate. }
  repeat constructor; apply H; try discriminate; try reflexivity.
Qed.

(* the stream of the two frames (8 + 6 bytes) cut inside the first header, inside the key of the
   first frame and inside the second frame: delivered once, in order, Close answered *)
Example C18_three_cuts :
  let s := enc_stream [f_hi; f_bye] in
  ws_feed {| w_buf := []; w_closed := false |} [firstn 1 s; firstn 3 (skipn 1 s); firstn 7 (skipn 4 s); skipn 11 s] =
  ({| w_buf := []; w_closed := true |},
   {| o_delivered := [(OpText, [byte_of_Z 104; byte_of_Z 105]); (OpClose, [])];
      o_written := close_bytes; o_error := None |}).
Proof. vm_compute. reflexivity. Qed.

(* a strict prefix is a partial frame *)
Example C18_partial_exists : partial_frame (firstn 5 (rfc_encode f_hi)).
Proof.
  right. exists f_hi, (skipn 5 (rfc_encode f_hi)).
  split; [exact (proj1 (Forall_inv C18_client_frames_exist))|].
  split; [vm_compute; discriminate | symmetry; apply firstn_skipn].
Qed.

(* a malformed stream (Binary "a" masked, then an unmasked Text frame, then more): same outcome
   whether it arrives in one read or byte by byte — one delivery, then the "mask bit" exception *)
Example C18_malformed_same_outcome :
  let s := rfc_encode (mkf OpBinary 1 key1 [byte_of_Z 97]) ++ rfc_encode (mkf OpText 0 zero_key [byte_of_Z 98]) ++ rfc_encode f_hi in
  snd (ws_feed {| w_buf := []; w_closed := false |} (map (fun b => [b]) s)) =
    {| o_delivered := [(OpBinary, [byte_of_Z 97])]; o_written := []; o_error := Some EOther |} /\
  snd (ws_call {| w_buf := []; w_closed := false |} s) =
    {| o_delivered := [(OpBinary, [byte_of_Z 97])]; o_written := []; o_error := Some EOther |}.
Proof. vm_compute. split; reflexivity. Qed.

(* the factories: 42 euro signs are 126 BYTES (16-bit length form, not the 7-bit form with 42);
   Close() is Close(200, b"OK") *)
Example C18_text_counts_bytes :
  match ws_text (repeat 0x20AC 42) with
  | Ok f => f_plen f = 126 /\ hdr 4 (encode_frame f) = [129; 126; 0; 126]
  | Err _ => False
  end.
Proof. vm_compute. split; reflexivity. Qed.
Example C18_close_default : ws_close 200 [byte_of_Z 79; byte_of_Z 75] = Ok close_frame.
Proof. vm_compute. reflexivity. Qed.

(* ---------- kernels REGENERATED from mpgameserver/http_server.py on every run (tools/py2v_bytes.py,
   Gen/WsKernels.v): the translated source text of the three header functions is the hand-written model *)
From Model Require StructPack.
From Gen Require WsKernels.
From Proofs Require WsKernelsP.

(* WebSocketFrame.serializeHeader as written in the source = WsFrame.serialize_header, for every frame record
   (any flag values, any payload_length: the struct.error cases included) *)
Theorem C18_kernel_header : forall f,
  WsKernels.gen_ws_serializeHeader (f_fin f) (f_rsv1 f) (f_rsv2 f) (f_rsv3 f) (opcode_val (f_opcode f))
                                   (f_mask f) (f_plen f)
  = serialize_header f.
Proof. exact WsKernelsP.gen_ws_serializeHeader_spec. Qed.
Print Assumptions C18_kernel_header.

(* WebSocketFrame.serializeDataHeader as written in the source = WsFrame.serialize_data_header *)
Theorem C18_kernel_data_header : forall f,
  WsKernels.gen_ws_serializeDataHeader (f_mask f) (f_plen f) (f_key f) = serialize_data_header f.
Proof. exact WsKernelsP.gen_ws_serializeDataHeader_spec. Qed.
Print Assumptions C18_kernel_data_header.

(* WebSocketFrame.parseHeader as written in the source: the flag fields of every frame parse_frame returns
   are the kernel's, computed from the first two bytes *)
Theorem C18_kernel_parse_header : forall b0 b1 rest f buf',
  parse_frame (b0 :: b1 :: rest) = (Ok f, buf') ->
  WsKernels.gen_ws_parseHeader (Z_of_byte b0) (Z_of_byte b1)
  = (f_fin f, f_rsv1 f, f_rsv2 f, f_rsv3 f, opcode_val (f_opcode f), f_mask f, Z.land (Z_of_byte b1) 127).
Proof. exact WsKernelsP.gen_ws_parseHeader_spec. Qed.
Print Assumptions C18_kernel_parse_header.

Example C18_kernel_header_example :
  WsKernels.gen_ws_serializeHeader 1 0 0 0 2 1 70000 = Ok [byte_of_Z 130; byte_of_Z 255] /\
  WsKernels.gen_ws_serializeDataHeader 0 126 [] = Ok [x00; byte_of_Z 126] /\
  WsKernels.gen_ws_parseHeader 130 255 = (1, 0, 0, 0, 2, 1, 127).
Proof. vm_compute. repeat split. Qed.
