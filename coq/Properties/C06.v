(* C06 — fragmentation and reassembly preserve bytes.
   Theorems only.  The size environment is the one REGENERATED Packet.setMTU produces
   (env_of_mtu, Gen/Kernels.v); the sender is Conn.send / split_frags (FragmentSender.build), the
   receiver Conn.recv_fragment (_recvAppFragment + FragmentReceiver). *)
From Coq Require Import Lia.
From RecordUpdate Require Import RecordUpdate.
From Model Require Import Base SeqNum Wire Conn PackEnv Frag.
From Model Require Import Net.
From Proofs Require Import WireP PackP C09P FragP NetP.
Import RecordSetNotations.
Open Scope Z_scope.

(* 1. split_join: for every MTU >= 512 and every payload above the single-datagram limit up to the
      fragment limit, the fragments concatenate to the payload, none is empty, every fragment
      message (6-byte prefix + fragment) fits one datagram, and there are 2..MAX_FRAGMENTS of them *)
Theorem C06_split_join : forall mtu e p,
  512 <= mtu -> env_of_mtu mtu = Ok e ->
  e_max_payload e < len p <= e_max_frag e * e_max_frags e ->
  let fr := fragments e p in
  concat fr = p
  /\ Forall (fun f => f <> [] /\ len f + 6 <= e_max_payload e) fr
  /\ 2 <= len fr <= e_max_frags e.
Proof.
  intros mtu e p Hm He Hp. destruct (env_of_mtu_ok mtu e Hm He) as (Hok & Hfs & _ & _).
  apply split_join_proof; [exact Hok|lia|exact Hp].
Qed.
Print Assumptions C06_split_join.

(* ... and send queues exactly the fragment messages of these fragments (id, 1-based index,
   count, bytes), as APP_FRAGMENT messages under a fresh fragment id, and raises nothing *)
Theorem C06_send_fragmented : forall mtu e c p r k,
  512 <= mtu -> env_of_mtu mtu = Ok e -> c_status c = CONNECTED ->
  e_max_payload e < len p <= e_max_frag e * e_max_frags e ->
  let fid := seq_succ (c_seq_frag c) in
  let fr := fragments e p in
  snd (send e c p r k) = []
  /\ map m_payload (c_outgoing (fst (send e c p r k))) = map m_payload (c_outgoing c) ++ frag_payloads fid (len fr) 0 fr
  /\ map m_type (c_outgoing (fst (send e c p r k))) = map m_type (c_outgoing c) ++ repeat APP_FRAGMENT (length fr).
Proof. intros mtu e c p r k _ _ Hst Hp. apply send_fragmented_proof; assumption. Qed.
Print Assumptions C06_send_fragmented.

(* 2. payloads up to the single-datagram limit are not fragmented *)
Theorem C06_no_frag_small : forall e c p r k,
  c_status c = CONNECTED -> len p <= e_max_payload e ->
  send e c p r k = (send_type c APP p r k, [])
  /\ exists m, c_outgoing (fst (send e c p r k)) = c_outgoing c ++ [m]
               /\ m_payload m = p /\ m_type m = APP /\ m_retry m = r.
Proof. exact no_frag_small_proof. Qed.
Print Assumptions C06_no_frag_small.

(* 3. a payload above MAX_FRAGMENT_SIZE * MAX_FRAGMENTS is refused with ValueError; nothing is queued *)
Theorem C06_too_large_refused : forall mtu e c p r k,
  512 <= mtu <= 1500 -> env_of_mtu mtu = Ok e -> c_status c = CONNECTED ->
  len p > e_max_frag e * e_max_frags e ->
  snd (send e c p r k) = [ORaise EValue]
  /\ c_outgoing (fst (send e c p r k)) = c_outgoing c
  /\ c_pfrags (fst (send e c p r k)) = c_pfrags c.
Proof.
  intros mtu e c p r k Hm He Hst Hp. destruct (env_of_mtu_ok mtu e ltac:(lia) He) as (_ & _ & _ & Hlt).
  specialize (Hlt ltac:(lia)). apply too_large_refused_proof; [exact Hst|lia|exact Hp].
Qed.
Print Assumptions C06_too_large_refused.

(* 4. the receiver refines an abstract per-id receiver on EVERY history of arrivals (any order,
      any repetition, interleaved with arrivals of other ids, well-formed or not), as long as no
      arrival comes later than the expiry bound after the first fragment of an open round *)
Theorem C06_reassemble_refines : forall fid frags,
  0 <= fid < 2 ^ 16 -> len frags < 2 ^ 16 -> Forall (fun f => f <> []) frags ->
  forall xs c st,
  frag_rel fid frags c st ->
  Forall (fun x => match x with FMine i _ _ => (i < length frags)%nat | _ => True end) xs ->
  Forall (other_ok fid) xs -> timely st xs ->
  let '(c', ds) := feed fid frags c xs in
  let '(st', sp) := spec_run st xs in
  frag_rel fid frags c' st'
  /\ Forall2 (fun x dd => match x with
                         | (FMine _ _ _, Some sq) => dd = [(sq, concat frags)]
                         | (FMine _ _ _, None) => dd = []
                         | (FOther _ _ _, _) => True
                         end) (combine xs sp) ds.
Proof. exact reassemble_refines. Qed.
Print Assumptions C06_reassemble_refines.

(* FULL STATEMENT (false, see C06_delay_refuted): the same without the hypothesis `timely`.
   Proved: feeding recv_fragment any sequence `pre` over the fragment messages of a payload in
   which every index but i occurs (any order, any repetition, interleaved with other ids), then
   index i, delivers the payload exactly at that last arrival, once, nothing before, and
   closes the context — provided no expiry sweep hits the context (hypothesis `timely`, D17) *)
Theorem C06_reassemble_any_order_partial : forall fid frags pre i mseq now c,
  0 <= fid < 2 ^ 16 -> len frags < 2 ^ 16 -> Forall (fun f => f <> []) frags ->
  dget fid (c_rfrags c) = None ->
  (i < length frags)%nat -> ~ In i (mine_idx pre) ->
  (forall j, (j < length frags)%nat -> j <> i -> In j (mine_idx pre)) ->
  Forall (fun x => match x with FMine j _ _ => (j < length frags)%nat | _ => True end) pre ->
  Forall (other_ok fid) pre ->
  timely (rstate0 (length frags)) (pre ++ [FMine i mseq now]) ->
  let '(c1, ds) := feed fid frags c pre in
  Forall2 (fun x dd => match x with FMine _ _ _ => dd = [] | FOther _ _ _ => True end) pre ds
  /\ let c2 := fst (fev_apply fid frags c1 (FMine i mseq now)) in
     exists sq, c_incoming c2 = c_incoming c1 ++ [(sq, concat frags)]
                /\ dget fid (c_rfrags c2) = None
                /\ snd (fev_apply fid frags c1 (FMine i mseq now)) = [].
Proof. exact reassemble_any_order_proof. Qed.
Print Assumptions C06_reassemble_any_order_partial.

(* D17: without `timely` the statement is false — pure delay, every fragment arrives exactly once:
   fragments 1 and 3 of a 3-fragment message arrive, fragment 2 is 4 s late and a fragment of
   another message arrives just before it: the sweep discards the context, fragment 2 opens a
   fresh one that can never complete, the payload is never delivered *)
Theorem C06_delay_refuted : exists fid frags xs c,
  dget fid (c_rfrags c) = None /\ Forall (fun f => f <> []) frags
  /\ mine_idx xs = [0%nat; 2%nat; 1%nat] /\ Forall (other_ok fid) xs
  /\ let '(c', ds) := feed fid frags c xs in
     c_incoming c' = [] /\ concat ds = []
     /\ dget fid (c_rfrags c') = Some {| fr_frags := [None; Some [x02]; None]; fr_ctime := 4 * TICKS;
                                         fr_msgseq := 0; fr_count := 3 |}.
Proof.
  exists 5, [[x01]; [x02]; [x03]],
    [FMine 0 11 0; FMine 2 13 0; FOther (frag_payload 9 1 2 [x09]) 21 (4 * TICKS); FMine 1 12 (4 * TICKS)],
    (conn0 false).
  split; [reflexivity|]. split; [repeat constructor; discriminate|]. split; [reflexivity|].
  split.
  - constructor; [exact I|]. constructor; [exact I|]. constructor; [right; vm_compute; discriminate|].
    constructor; [exact I|constructor].
  - vm_compute. repeat split.
Qed.
Print Assumptions C06_delay_refuted.

(* ---- two endpoints (L2): nothing is fabricated ---- *)
(* Net.v joins two Conn.v endpoints A and B: a joint history is any interleaving of A's events (sends,
   ticks, receives, disconnects, settings) and B's; the network and the attacker are the choice of the
   datagram each of B's receive events carries.  The only schedule hypothesis (wf_run) is what AES-GCM
   provides: a datagram that B opens under the session key it holds is one of those A has emitted.  Loss,
   duplication, reordering, delay and replay of A's datagrams, arbitrary datagrams B cannot open, and anything
   at all while B holds no key or towards A, are allowed.  For unfragmented traffic (every payload A's
   application sends fits one datagram): every payload handed to B's application is, byte for byte, a
   payload that A's application passed to send() — from the initial state, through the handshake, for every
   such history of any length. *)
Theorem C06_delivered_was_sent : forall e vs,
  wf_run e net0 vs ->
  forall p, In p (dlvB (nrun e net0 vs)) -> In p (sentA (nrun e net0 vs)).
Proof. exact delivered_was_sent. Qed.
Print Assumptions C06_delivered_was_sent.

(* the same from any joint state satisfying the invariant NI (e.g. an established session) *)
Theorem C06_delivered_was_sent_from : forall e vs n,
  NI n -> wf_run e n vs ->
  forall p, In p (dlvB (nrun e n vs)) -> In p (sentA (nrun e n vs)).
Proof.
  intros e vs n H Hwf p Hp. pose proof (NI_run e vs n H Hwf) as [_ _ _ _ HD].
  rewrite Forall_forall in HD. exact (HD p Hp).
Qed.
Print Assumptions C06_delivered_was_sent_from.

(* ---- non-vacuity ---- *)
(* MTU 512: a 1000-byte payload is cut into 440 + 440 + 120 *)
Example C06_split_example :
  exists e, env_of_mtu 512 = Ok e /\ e_max_payload e = 446 /\ e_max_frag e = 440
            /\ map (@length byte) (fragments e (repeat x41 1000)) = [440; 440; 120]%nat.
Proof. eexists. split; [reflexivity|]. vm_compute. repeat split. Qed.

(* the hypotheses of reassemble_any_order are satisfiable: order 3,1,3,2 with a foreign
   fragment in between, all within the expiry bound; the payload is delivered at the last step *)
Example C06_reassemble_example :
  let frags := [[x01]; [x02]; [x03]] in
  let pre := [FMine 2 13 0; FMine 0 11 100; FOther (frag_payload 9 1 2 [x09]) 21 200; FMine 2 13 300] in
  timely (rstate0 3) (pre ++ [FMine 1 12 400])
  /\ c_incoming (fst (feed 5 frags (conn0 false) (pre ++ [FMine 1 12 400]))) = [(11, [x01; x02; x03])].
Proof. split; [|vm_compute; reflexivity]. vm_compute. repeat split; intros; try discriminate; vm_compute; discriminate. Qed.

(* the two-endpoint theorem is not vacuous: an established pair; A sends "AB", ticks (one sealed
   datagram), B receives it twice (a replay) and hands "AB" to its application exactly once *)
Definition ep_ex (server : bool) : conn :=
  let c := conn0 server in
  mkConn server (Some 7) CONNECTED [] [] [] [] [] [] [] [] 0 0 0 (c_bf_pkt c) (c_bf_msg c)
         (c_out_timeout c) (c_temp_timeout c) (c_send_interval c) (c_ka_interval c)
         1536000 (c_last_send c) (c_last_ka c) 0 0 0 0 0 0 [] 0 0 false 0.
Definition net_ex : net := {| nA := ep_ex false; nB := ep_ex true; wAB := []; wBA := []; sentA := []; dlvB := [] |}.
Definition env_ex6 : env := {| e_max_payload := 1434; e_max_frag := 1024; e_max_frags := 8192 |}.
Definition evs_ex : list nev := [NA (ESend [x41; x42] RNone INone); NA (EClientTick 1536300 RxNone)].
Definition dg_ex : dgram := hd {| d_hdr := Build_header true 0 0 0 APP 0 0 0; d_body := Bad |} (wAB (nrun env_ex6 net_ex evs_ex)).
Definition evs_ex2 : list nev := evs_ex ++ [NB (ERecv 1536400 dg_ex []); NB (ERecv 1536500 dg_ex [])].

Example C06_two_endpoints :
  NI net_ex /\ wf_run env_ex6 net_ex evs_ex2
  /\ sentA (nrun env_ex6 net_ex evs_ex2) = [[x41; x42]]
  /\ dlvB (nrun env_ex6 net_ex evs_ex2) = [[x41; x42]].
Proof.
  split; [constructor; cbn; repeat (constructor; cbn)|].
  split; [|split; vm_compute; reflexivity].
  unfold evs_ex2, evs_ex. cbn [app wf_run wf_ev small_ev].
  split; [exact I|]. split; [vm_compute; discriminate|].
  split; [exact I|]. split; [exact I|].
  split; [intros d ms Hd _ _; cbn [dgram_in] in Hd; assert (d = dg_ex) as -> by congruence; clear Hd; vm_compute; left; reflexivity|]. split; [exact I|].
  split; [intros d ms Hd _ _; cbn [dgram_in] in Hd; assert (d = dg_ex) as -> by congruence; clear Hd; vm_compute; left; reflexivity|]. split; exact I.
Qed.
