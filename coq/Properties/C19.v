(* C19 — password hashing: the right password verifies, every other one does not, a fresh salt
   gives a different string, a malformed or truncated hash string raises ValueError / TypeError and
   never verifies.   Theorems only.
   Model: Model/Auth.v follows mpgameserver/auth.py AFTER the repair of D14 (field count; length >= 1
   and salt_length + length = len(data)).  The string format, bytes.split(b':'), struct ">HBBBB" and
   base64.b64encode (Model/Base64.v) are modelled exactly.  sha256 ([sha]), base64.b64decode ([b64d])
   and scrypt ([kdf]) are ARBITRARY functions: every theorem is quantified over them and what it needs
   of them is an explicit premise (predicates at the end of Model/Auth.v):
     b64_roundtrip       b64decode (b64encode x) = x
     b64_prefix_shorter  a proper prefix of an encoding is refused or decodes to fewer bytes
     b64_err_value       b64decode fails with binascii.Error (a ValueError) only
     kdf_length          scrypt returns exactly [length] bytes
     kdf_err_value       scrypt fails with ValueError only
     kdf_err_params      whether scrypt fails does not depend on the key material
   A Python argument is [PBytes b], [PStr enc] (enc = result of .encode('utf-8')) or [POther];
   os.urandom(16) is the [salt] argument of hash_password.
   [std_digest sha kdf salt p] = scrypt(salt, 24, N=16384, r=16, p=1).derive(sha256(p)). *)
From Model Require Import Base Base64 Auth AuthCfg.
From Proofs Require Import Base64P AuthP C19P AuthCfgP.
Open Scope Z_scope.

(* 1. verify_password(p, hash_password(p)) is True: every byte string p, every 16-byte salt *)
Theorem C19_verify_own : forall sha b64d kdf, b64_roundtrip b64d -> kdf_length kdf ->
  forall pw salt h, len salt = SALT_LENGTH -> hash_password sha kdf (PBytes pw) salt = Ok h ->
  verify_password sha b64d kdf (PBytes pw) (PStr (Ok h)) = Ok true.
Proof. exact C19_verify_own_proof. Qed.
Print Assumptions C19_verify_own.

(* 2. hash_password is total on bytes up to scrypt: it returns "scrypt:1:" b64(params) ":" b64(salt+digest)
      whenever scrypt succeeds, passes scrypt's exception on otherwise, TypeError on a non-bytes password *)
Theorem C19_hash_total : forall sha kdf pw salt,
  match pw with
  | PBytes p =>
      match std_digest sha kdf salt p with
      | Ok out => hash_password sha kdf pw salt = Ok (header ++ b64e (salt ++ out))
      | Err e => hash_password sha kdf pw salt = Err e
      end
  | _ => hash_password sha kdf pw salt = Err EType
  end.
Proof. exact C19_hash_total_proof. Qed.
Print Assumptions C19_hash_total.

(* 3. another password q verifies against hash_password(p) EXACTLY when scrypt(sha256(.)) collides
      for the pair under that salt — so the injectivity premise of the next theorem is necessary *)
Theorem C19_verify_other_iff : forall sha b64d kdf, b64_roundtrip b64d -> kdf_length kdf ->
  forall p q salt h, len salt = SALT_LENGTH -> hash_password sha kdf (PBytes p) salt = Ok h ->
  (verify_password sha b64d kdf (PBytes q) (PStr (Ok h)) = Ok true
   <-> std_digest sha kdf salt q = std_digest sha kdf salt p).
Proof. exact C19_verify_other_iff_proof. Qed.
Print Assumptions C19_verify_other_iff.

(* 4. verify_password(q, hash_password(p)) is False for q <> p, provided scrypt(sha256(.)) does not
      collide on (p, q) (kdf-injectivity, stated for the pair: no function with a 24-byte result is
      injective on all byte strings, so a global injectivity premise would be unsatisfiable) *)
Theorem C19_verify_other_false : forall sha b64d kdf,
  b64_roundtrip b64d -> kdf_length kdf -> kdf_err_params kdf ->
  forall p q salt h, len salt = SALT_LENGTH -> hash_password sha kdf (PBytes p) salt = Ok h ->
  q <> p -> std_digest sha kdf salt q <> std_digest sha kdf salt p ->
  verify_password sha b64d kdf (PBytes q) (PStr (Ok h)) = Ok false.
Proof. exact C19_verify_other_false_proof. Qed.
Print Assumptions C19_verify_other_false.

(* 5. two hashes made with different salts differ (same or different passwords) *)
Theorem C19_fresh_salt_differs : forall sha b64d kdf, b64_roundtrip b64d ->
  forall p1 p2 s1 s2 h1 h2, len s1 = SALT_LENGTH -> len s2 = SALT_LENGTH -> s1 <> s2 ->
  hash_password sha kdf p1 s1 = Ok h1 -> hash_password sha kdf p2 s2 = Ok h2 -> h1 <> h2.
Proof. exact C19_fresh_salt_differs_proof. Qed.
Print Assumptions C19_fresh_salt_differs.

(* 6. what True means — for ANY behaviour of sha256 / b64decode / scrypt (no premise): both arguments
      have the right type, the string is exactly "scrypt:1:" f2 ":" f3 with colon-free f2, f3 that
      decode to a 6-byte parameter block and to data = salt ++ digest with length >= 1,
      len(data) = salt_length + length, and the digest IS scrypt(sha256(password)) under the
      embedded salt and parameters.  Whatever is not of that form never verifies. *)
Theorem C19_true_means_match : forall sha b64d kdf pw hs,
  verify_password sha b64d kdf pw hs = Ok true ->
  exists p h f2 f3 params data k,
    pw = PBytes p /\ hs = PStr (Ok h) /\
    h = hash_string f2 f3 /\ ~ In colon f2 /\ ~ In colon f3 /\
    split_on colon h = [lit_scrypt; lit_1; f2; f3] /\
    b64d f2 = Ok params /\ b64d f3 = Ok data /\ unpack_params params = Ok k /\
    1 <= k_len k /\ len data = k_sl k + k_len k /\
    len (skipn (Z.to_nat (k_sl k)) data) = k_len k /\
    kdf (firstn (Z.to_nat (k_sl k)) data) (k_len k) (k_N k) (k_r k) (k_p k) (sha p)
      = Ok (skipn (Z.to_nat (k_sl k)) data).
Proof. exact C19_true_means_match_proof. Qed.
Print Assumptions C19_true_means_match.

(* 7. malformed input, ALL arguments: verify_password returns a bool or raises ValueError
      (UnicodeEncodeError is one) or TypeError — never IndexError or any other kind *)
Theorem C19_malformed_raises : forall sha b64d kdf, b64_err_value b64d -> kdf_err_value kdf ->
  forall pw hs, (forall e, hs = PStr (Err e) -> e = EUnicode) ->
  match verify_password sha b64d kdf pw hs with
  | Ok _ => True
  | Err e => value_or_type e
  end.
Proof. exact C19_error_kinds_proof. Qed.
Print Assumptions C19_malformed_raises.

(* 8. wrong argument types raise TypeError *)
Theorem C19_type_errors : forall sha b64d kdf pw hs,
  (forall p, pw <> PBytes p) \/ (forall enc, hs <> PStr enc) ->
  verify_password sha b64d kdf pw hs = Err EType.
Proof. exact C19_type_errors_proof. Qed.
Print Assumptions C19_type_errors.

(* 9. field removal / addition: a string that does not have exactly four fields raises ValueError *)
Theorem C19_field_count : forall sha b64d kdf p h,
  length (split_on colon h) <> 4%nat ->
  verify_password sha b64d kdf (PBytes p) (PStr (Ok h)) = Err EValue.
Proof. exact C19_field_count_proof. Qed.
Print Assumptions C19_field_count.

(* 10. parameter edits (the repair of D14): embedded length 0, or salt_length + length different
       from the number of decoded data bytes, raises ValueError whatever the password *)
Theorem C19_bad_lengths : forall sha b64d kdf p h f0 f1 f2 f3 params data k,
  split_on colon h = [f0; f1; f2; f3] ->
  b64d f2 = Ok params -> b64d f3 = Ok data -> unpack_params params = Ok k ->
  k_len k < 1 \/ k_sl k + k_len k <> len data ->
  verify_password sha b64d kdf (PBytes p) (PStr (Ok h)) = Err EValue.
Proof. exact C19_bad_lengths_proof. Qed.
Print Assumptions C19_bad_lengths.

(* 11. method / version edits raise ValueError *)
Theorem C19_method_version : forall sha b64d kdf p h f0 f1 f2 f3,
  split_on colon h = [f0; f1; f2; f3] -> f0 <> lit_scrypt \/ f1 <> lit_1 ->
  b64_err_value b64d ->
  verify_password sha b64d kdf (PBytes p) (PStr (Ok h)) = Err EValue.
Proof. exact C19_method_version_proof. Qed.
Print Assumptions C19_method_version.

(* 12. truncation at EVERY position of a string hash_password produced raises ValueError, for
       the right password and for any other *)
Theorem C19_truncated : forall sha b64d kdf,
  b64_roundtrip b64d -> b64_prefix_shorter b64d -> b64_err_value b64d -> kdf_length kdf ->
  forall p q salt h n, len salt = SALT_LENGTH -> hash_password sha kdf (PBytes p) salt = Ok h ->
  (n < length h)%nat ->
  verify_password sha b64d kdf (PBytes q) (PStr (Ok (firstn n h))) = Err EValue.
Proof. exact C19_truncated_proof. Qed.
Print Assumptions C19_truncated.

(* 13. exact behaviour on EVERY well-formed string, whatever parameters it embeds (a hash written by
       a past or future hash_password with other N, r, p, salt / digest lengths): the answer is
       scrypt(salt, length, N, r, p)(sha256(q)) == digest, exceptions of scrypt passed on *)
Theorem C19_verify_wellformed : forall sha b64d kdf, b64_roundtrip b64d ->
  forall q k salt dg, params_in_range k -> k_sl k = len salt -> k_len k = len dg -> 1 <= len dg ->
  verify_password sha b64d kdf (PBytes q) (PStr (Ok (hash_string (b64e (pack_params k)) (b64e (salt ++ dg))))) =
  (do d <- kdf salt (k_len k) (k_N k) (k_r k) (k_p k) (sha q); Ok (bytes_eqb d dg)).
Proof. exact C19_verify_wellformed_proof. Qed.
Print Assumptions C19_verify_wellformed.

(* 14. the hash string is ASCII and its base64 fields contain no ':' (the encoder never emits the
       separator), so .decode("utf-8") / .encode("utf-8") is the identity on it *)
Theorem C19_hash_ascii : forall sha kdf pw salt h, hash_password sha kdf pw salt = Ok h ->
  Forall (fun c => (Byte.to_N c < 128)%N) h.
Proof. exact C19_hash_ascii_proof. Qed.
Print Assumptions C19_hash_ascii.

Theorem C19_b64encode_no_colon : forall x, ~ In colon (b64e x).
Proof. exact b64e_no_colon. Qed.
Print Assumptions C19_b64encode_no_colon.

(* ---- 15-19. the documented class attributes Auth.SALT_LENGTH / Auth.DIGEST_LENGTH changed between calls, and
   whole histories of calls in one process (Model/AuthCfg.v: hash_password_cfg c = hash_password with the
   attributes at the values c; trace = every hash call of a history with the configuration then current).
   verify_password has no configuration: it reads the parameters from the string. *)
Theorem C19_default_config : forall sha kdf pw salt,
  hash_password_cfg sha kdf default_cfg pw salt = hash_password sha kdf pw salt.
Proof. exact default_is_hash_password. Qed.
Print Assumptions C19_default_config.

(* the right password verifies whatever the settings were when its hash was made (any salt length 0..255,
   any digest length 1..255) and whatever they are when it is verified *)
Theorem C19_cfg_verify_own : forall sha b64d kdf, b64_roundtrip b64d -> kdf_length kdf ->
  forall c pw salt h, len salt = c_sl c -> 1 <= c_dl c -> hash_password_cfg sha kdf c (PBytes pw) salt = Ok h ->
  verify_password sha b64d kdf (PBytes pw) (PStr (Ok h)) = Ok true.
Proof. exact C19_cfg_verify_own_proof. Qed.
Print Assumptions C19_cfg_verify_own.

Theorem C19_cfg_verify_other_false : forall sha b64d kdf,
  b64_roundtrip b64d -> kdf_length kdf -> kdf_err_params kdf ->
  forall c p q salt h, len salt = c_sl c -> 1 <= c_dl c -> hash_password_cfg sha kdf c (PBytes p) salt = Ok h ->
  cfg_digest sha kdf c salt q <> cfg_digest sha kdf c salt p ->
  verify_password sha b64d kdf (PBytes q) (PStr (Ok h)) = Ok false.
Proof. exact C19_cfg_verify_other_false_proof. Qed.
Print Assumptions C19_cfg_verify_other_false.

(* histories: every hash call of a process - whatever was set and hashed before it - verifies its own
   password, and two calls with different salts or different settings never return the same string *)
Theorem C19_history_verify_own : forall sha b64d kdf, b64_roundtrip b64d -> kdf_length kdf ->
  forall c0 ops c pw salt h, In (c, PBytes pw, salt, Ok h) (trace sha kdf c0 ops) ->
  len salt = c_sl c -> 1 <= c_dl c ->
  verify_password sha b64d kdf (PBytes pw) (PStr (Ok h)) = Ok true.
Proof. exact C19_history_verify_own_proof. Qed.
Print Assumptions C19_history_verify_own.

Theorem C19_history_distinct : forall sha b64d kdf, b64_roundtrip b64d ->
  forall c0 ops c1 c2 p1 p2 s1 s2 h1 h2,
  In (c1, p1, s1, Ok h1) (trace sha kdf c0 ops) -> In (c2, p2, s2, Ok h2) (trace sha kdf c0 ops) ->
  len s1 = c_sl c1 -> len s2 = c_sl c2 -> (c1 <> c2 \/ s1 <> s2) -> h1 <> h2.
Proof. exact C19_history_distinct_proof. Qed.
Print Assumptions C19_history_distinct.

(* ---- non-vacuity: the premises are jointly satisfiable, and the theorems fire on concrete data.
   Instance: sha = identity, b64d = the strict reference decoder of Model/Base64.v, scrypt = the
   first [length] bytes of key material ++ salt ++ zeros (ValueError for length < 0 or N < 2). *)
Definition toy_sha (x : list byte) : list byte := x.
Definition toy_kdf (salt : list byte) (ln N r p : Z) (km : list byte) : res (list byte) :=
  if (ln <? 0) || (N <? 2) then Err EValue
  else Ok (firstn (Z.to_nat ln) (km ++ salt ++ repeat x00 (Z.to_nat ln))).

Example C19_premises_consistent :
  b64_roundtrip b64d_strict /\ b64_prefix_shorter b64d_strict /\ b64_err_value b64d_strict /\
  kdf_length toy_kdf /\ kdf_err_value toy_kdf /\ kdf_err_params toy_kdf.
Proof.
  split; [exact b64d_strict_roundtrip|]. split; [exact b64d_strict_prefix|].
  split; [exact b64d_strict_err|]. unfold kdf_length, kdf_err_value, kdf_err_params, toy_kdf. repeat split.
  - intros salt ln N r p km d H. destruct ((ln <? 0) || (N <? 2)) eqn:C; [discriminate|].
    apply Bool.orb_false_iff in C. destruct C as [C _]. apply Z.ltb_ge in C.
    inversion H; subst d. unfold len. rewrite firstn_length_le; [apply Z2Nat.id; exact C|].
    rewrite !app_length, repeat_length. apply Nat.le_trans with (length salt + Z.to_nat ln)%nat;
      [apply Nat.le_add_l | apply Nat.le_add_l].
  - intros salt ln N r p km e H. destruct ((ln <? 0) || (N <? 2)); congruence.
  - intros salt ln N r p km km' e H. destruct ((ln <? 0) || (N <? 2)); congruence.
Qed.

Definition ex_salt : list byte := map byte_of_Z [1;2;3;4;5;6;7;8;9;10;11;12;13;14;15;16].
Definition ex_pw : list byte := ["p"; "w"; x00]%byte.
Definition ex_other : list byte := ["p"; "w"]%byte.
Definition ex_hash : list byte :=
  match hash_password toy_sha toy_kdf (PBytes ex_pw) ex_salt with Ok h => h | Err _ => [] end.

(* "scrypt:1:QAAQARAY:AQIDBAUGBwgJCgsMDQ4PEHB3AAECAwQFBgcICQoLDA0ODxAAAAAA" *)
Example C19_example_hash :
  hash_password toy_sha toy_kdf (PBytes ex_pw) ex_salt = Ok ex_hash /\ length ex_hash = 74%nat /\
  firstn 18 ex_hash = ["s";"c";"r";"y";"p";"t";":";"1";":";"Q";"A";"A";"Q";"A";"R";"A";"Y";":"]%byte.
Proof. vm_compute. repeat split. Qed.

Example C19_example_own_other :
  verify_password toy_sha b64d_strict toy_kdf (PBytes ex_pw) (PStr (Ok ex_hash)) = Ok true /\
  verify_password toy_sha b64d_strict toy_kdf (PBytes ex_other) (PStr (Ok ex_hash)) = Ok false /\
  std_digest toy_sha toy_kdf ex_salt ex_other <> std_digest toy_sha toy_kdf ex_salt ex_pw.
Proof. vm_compute. repeat split. discriminate. Qed.

(* the two witnesses of defect D14 are refused by the repaired code: a string without its fourth
   field (was IndexError) and salt_length = 40 >= len(data), length = 0 (was True for every password) *)
Example C19_D14_witnesses_refused :
  verify_password toy_sha b64d_strict toy_kdf (PBytes ex_pw)
    (PStr (Ok (lit_scrypt ++ colon :: lit_1 ++ colon :: b64e (pack_params std_params)))) = Err EValue /\
  forall pw, verify_password toy_sha b64d_strict toy_kdf (PBytes pw)
    (PStr (Ok (hash_string (b64e (pack_params {| k_N := 16384; k_r := 16; k_p := 1; k_sl := 40; k_len := 0 |}))
                           (b64e ["d"; "a"; "t"; "a"]%byte)))) = Err EValue.
Proof. split; [vm_compute; reflexivity|]. intro pw. reflexivity. Qed.

(* every truncation of the example string is refused (instance of theorem 12, by computation) *)
Example C19_example_truncations :
  forallb (fun n => match verify_password toy_sha b64d_strict toy_kdf (PBytes ex_pw) (PStr (Ok (firstn n ex_hash))) with
                    | Err EValue => true | _ => false end) (seq 0 74) = true.
Proof. vm_compute. reflexivity. Qed.

(* the modelled encoder on the RFC 4648 test vectors ("", f, fo, foo, foob, fooba, foobar), inside Coq *)
Example C19_b64encode_rfc4648 :
  b64e [] = [] /\
  b64e ["f"]%byte = ["Z";"g";"=";"="]%byte /\
  b64e ["f";"o"]%byte = ["Z";"m";"8";"="]%byte /\
  b64e ["f";"o";"o"]%byte = ["Z";"m";"9";"v"]%byte /\
  b64e ["f";"o";"o";"b"]%byte = ["Z";"m";"9";"v";"Y";"g";"=";"="]%byte /\
  b64e ["f";"o";"o";"b";"a"]%byte = ["Z";"m";"9";"v";"Y";"m";"E";"="]%byte /\
  b64e ["f";"o";"o";"b";"a";"r"]%byte = ["Z";"m";"9";"v";"Y";"m";"F";"y"]%byte.
Proof. vm_compute. repeat split. Qed.


(* a history: hash under 16/24, raise DIGEST_LENGTH to 32 and SALT_LENGTH to 3, hash again: the second string
   embeds 3 / 32 ("QAAQAQMg") and both verify *)
Example C19_history_example :
  let tr := trace toy_sha toy_kdf default_cfg
              [AHash (PBytes ex_pw) ex_salt; ASet {| c_sl := 3; c_dl := 32 |}; AHash (PBytes ex_pw) (firstn 3 ex_salt)] in
  match map snd tr with
  | [Ok h1; Ok h2] =>
      h1 = ex_hash /\ firstn 18 h2 = ["s";"c";"r";"y";"p";"t";":";"1";":";"Q";"A";"A";"Q";"A";"Q";"M";"g";":"]%byte /\
      verify_password toy_sha b64d_strict toy_kdf (PBytes ex_pw) (PStr (Ok h1)) = Ok true /\
      verify_password toy_sha b64d_strict toy_kdf (PBytes ex_pw) (PStr (Ok h2)) = Ok true /\
      verify_password toy_sha b64d_strict toy_kdf (PBytes ex_other) (PStr (Ok h2)) = Ok false
  | _ => False
  end.
Proof. vm_compute. repeat split. Qed.
