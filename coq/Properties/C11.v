(* C11 — hostile datagrams cannot stop the server loop, hurt established clients or be amplified.
   Theorems only.  Model: Model/Server.v after the repair of UdpServerThread.send (fix 9a6ab23):
   every raising call of the loop sits under a modelled try/except; the model's only "the loop no
   longer serves" outcome is SDied 1 = ServerContext.get_token drawing for ever.
   A datagram is (source address, bytes, symbolic body, handshake oracle answers): ALL of them
   arbitrary; the header is decoded from the bytes by the model's gate exactly as
   PacketHeader.from_bytes does. *)
From RecordUpdate Require Import RecordUpdate.
From Model Require Import Base SeqNum Wire Conn Server.
From Proofs Require Import ServerP C11P.
From Proofs Require C11QuietP.
Import RecordSetNotations.
Open Scope Z_scope.

(* 1. step_total / the loop survives anything: srv_step is a total function, and the one way an
      iteration can leave the server not serving (s_dead) is the explicit SDied 1 output — no
      batch of datagrams, handler behaviour, clock value or stop flag produces any other *)
Theorem C11_step_survives : forall h e s i,
  s_dead s = false -> s_dead (fst (srv_step h e s i)) = true -> In (SDied 1) (snd (srv_step h e s i)).
Proof. exact C11_step_survives_proof. Qed.
Print Assumptions C11_step_survives.

Theorem C11_run_survives : forall h e is s,
  s_dead s = false -> ~ In (SDied 1) (snd (srv_run h e s is)) -> s_dead (fst (srv_run h e s is)) = false.
Proof. exact C11_run_survives_proof. Qed.
Print Assumptions C11_run_survives.

(* ... and SDied 1 needs a urandom stream in which every value collides: one acceptable value
   anywhere in the stream makes get_token return *)
Theorem C11_get_token_total : forall used rand,
  (exists r, In r rand /\ mask_token r <> 0 /\ ~ In (mask_token r) used) -> get_token used rand <> None.
Proof. exact C11_get_token_total_proof. Qed.
Print Assumptions C11_get_token_total.

(* 2. blocklist_first: datagrams from block-listed IPs are discarded before any processing or
      reply — the iteration (new state AND every output) is the one obtained without them *)
Theorem C11_blocklist_first : forall h e s i,
  srv_step h e s i
  = srv_step h e s (with_batch i (filter (fun it => negb (blocked (s_block s) it)) (i_batch i))).
Proof. exact C11_blocklist_first_proof. Qed.
Print Assumptions C11_blocklist_first.

(* 3. service to established clients: a datagram that is not sealed under the connection's session
      key for exactly its own header only increments that connection's drop counter: no handler
      event, no reply, no other connection touched, whatever the bytes are *)
Theorem C11_unauthentic_dropped : forall h e s cid now d xs cl k,
  sfind cid s = Some cl -> c_key (cl_conn cl) = Some k ->
  (forall p, d_body d <> Sealed k (d_hdr d) p) ->
  srv_recv h e s cid now d xs = (supd cid (fun c => c <| c_dropped := c_dropped c + 1 |>) s, [], false).
Proof. exact C11_unauthentic_dropped_proof. Qed.
Print Assumptions C11_unauthentic_dropped.

Theorem C11_recv_unauthentic_drop : forall c now d orcs k,
  c_key c = Some k -> (forall p, d_body d <> Sealed k (d_hdr d) p) ->
  recv c now d orcs = (c <| c_dropped := c_dropped c + 1 |>, [ORet false]).
Proof. exact recv_unauthentic_drop_proof. Qed.
Print Assumptions C11_recv_unauthentic_drop.

(* 4. strangers elicit nothing but a hello for a hello: a datagram from an address in neither pool that is not typed
      CLIENT_HELLO, a datagram from a half-open address that is not typed CHALLENGE_RESP, and bytes whose header
      does not parse leave the whole server state untouched and produce NO output — no reply datagram, no handler
      event — whatever the body and the handshake oracle answers are ... *)
Theorem C11_stranger_elicits_nothing : forall h e s now a d xs,
  pget a (s_conns s) = None ->
  match pget a (s_temp s) with
  | None => h_type (d_hdr d) <> CLIENT_HELLO
  | Some _ => h_type (d_hdr d) <> CHALLENGE_RESP
  end ->
  disp_item h e s now a d xs = (s, []).
Proof.
  intros h e s now a d xs Hc Ht. destruct (pget a (s_temp s)) as [cl|] eqn:Et.
  - exact (C11QuietP.half_open_ignored h e s now a d xs cl Hc Et Ht).
  - exact (C11QuietP.stranger_ignored h e s now a d xs Hc Et Ht).
Qed.
Print Assumptions C11_stranger_elicits_nothing.

(*    ... and so does any BATCH of such datagrams, of any length, in one loop iteration (the dispatch phase returns
      the state it started from and an empty output list): the part of no-amplification that is structural *)
Theorem C11_quiet_batch : forall h e s now q,
  Forall (C11QuietP.quiet_item s) q -> disp_all h e s now q = (s, []).
Proof. exact C11QuietP.quiet_batch. Qed.
Print Assumptions C11_quiet_batch.

(* no_amplification (for every address, while it is not in `connections`: bytes_out <= bytes_in,
   given |server hello| <= |minimal accepted client hello|) is NOT proved in full here — theorems 4 show that only a
   well-formed CLIENT_HELLO (resp. CHALLENGE_RESP) gets any reaction; the byte count of that reaction is checked by the
   implementation-level oracle of harness/props/C11.py (per-address byte counters at the mock socket)
   together with the measured premise. *)

(* non-vacuity: a well-formed client hello from source port 0 (the datagram that used to end the
   thread): accepted, a token drawn, the reply refused by the socket and logged, the loop alive *)
Definition e1500 : env := {| e_max_payload := 1434; e_max_frag := 1024; e_max_frags := 8192 |}.
Definition quiet : horacle := fun _ _ => {| r_acts := []; r_raises := false |}.
Definition hello_hdr : header :=
  {| h_to_server := true; h_ctime := 100; h_seq := 1; h_ack := 0; h_type := CLIENT_HELLO; h_len := 3;
     h_count := 1; h_ackbits := 0 |}.
Definition hello_item (a : addr) : witem :=
  {| w_addr := a; w_raw := match encode_header hello_hdr with Ok b => b | Err _ => [] end;
     w_body := Clear (be 2 1 ++ [x00]);
     w_hs := [{| x_parse := 0; x_version_ok := true; x_token := 0; x_key := 77; x_reply := [x01; x02]; x_ecdh := 0 |}] |}.
Definition step1 (a : addr) : sin :=
  {| i_td := 100 * TICKS; i_ts := 100 * TICKS; i_batch := [hello_item a]; i_rand := [5]; i_stop := false |}.

Example C11_port0_hello_survived :
  let r := srv_step quiet e1500 (srv0 cfg0 []) (step1 (7, 0)) in
  s_dead (fst r) = false /\ In (SSendErr (7, 0)) (snd r) /\ map cl_id (s_temp (fst r)) = [0].
Proof. vm_compute. repeat split; auto. Qed.

Example C11_blocked_hello_ignored :
  srv_step quiet e1500 (srv0 cfg0 [7]) (step1 (7, 5000)) = (srv0 cfg0 [7] <| s_rand := [5] |> <| s_calls := 1 |>, [SEv HUpdate]).
Proof. vm_compute. reflexivity. Qed.

Example C11_hello_answered_once :
  exists hd p, snd (srv_step quiet e1500 (srv0 cfg0 []) (step1 (7, 5000)))
               = [SHello 0 (7, 5000) 1073741829 77; SEv HUpdate; SSend (7, 5000) hd None p].
Proof. vm_compute. eauto. Qed.

(* non-vacuity of theorem 4: keep-alive / application / disconnect / challenge typed datagrams and unparsable bytes
   from five strangers in one batch *)
Definition junk_item (a : addr) (t : ptype) : witem :=
  {| w_addr := a;
     w_raw := match encode_header {| h_to_server := true; h_ctime := 100; h_seq := 9; h_ack := 0; h_type := t; h_len := 3;
                                     h_count := 1; h_ackbits := 0 |} with Ok b => b | Err _ => [] end;
     w_body := Clear [x00; x01; x02]; w_hs := [] |}.
Example C11_quiet_batch_example :
  let s0 := srv0 cfg0 [] in
  let q := [junk_item (9, 1) KEEP_ALIVE; junk_item (9, 2) APP; junk_item (9, 3) DISCONNECT; junk_item (9, 4) CHALLENGE_RESP;
            {| w_addr := (9, 5); w_raw := [x00; x01]; w_body := Bad; w_hs := [] |}] in
  Forall (C11QuietP.quiet_item s0) q /\ disp_all quiet e1500 s0 (100 * TICKS) q = (s0, []).
Proof.
  split; [|vm_compute; reflexivity].
  repeat (apply Forall_cons; [vm_compute; first [exact I | split; [reflexivity|discriminate]]|]). apply Forall_nil.
Qed.
