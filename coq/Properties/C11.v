(* C11 — hostile datagrams (theorems follow). *)
From Model Require Import Base SeqNum Wire Conn Server.
Open Scope Z_scope.
