(* C09 — the wire codec round-trips; datagrams respect the MTU; packing never fails.
   Theorems only.  Size constants are the ones REGENERATED from connection.py
   (Gen/Kernels.v: Packet.setMTU, Packet.overhead, header / tag / crc / UDP sizes). *)
From Coq Require Import Lia.
From RecordUpdate Require Import RecordUpdate.
From Model Require Import Base SeqNum Wire Conn PackEnv.
From Gen Require Import Kernels.
From Proofs Require Import WireP PackP C09P PackInvP.
Import RecordSetNotations.
Open Scope Z_scope.

(* 0. kernel ties: the model's overhead function and size environment are what the
      regenerated Packet.overhead / Packet.setMTU compute *)
Theorem C09_kernel_overhead : forall n, gen_overhead n = Ok (overhead n).
Proof. exact gen_overhead_spec. Qed.
Print Assumptions C09_kernel_overhead.

Theorem C09_kernel_setMTU : forall mtu,
  env_of_mtu mtu = Ok {| e_max_payload := mtu - 66; e_max_frag := (if mtu <? 1096 then mtu - 72 else 1024);
                         e_max_frags := 8192 |}
  /\ max_dgram mtu = mtu - 28.
Proof. intros mtu. split; [exact (env_of_mtu_spec mtu)|reflexivity]. Qed.
Print Assumptions C09_kernel_setMTU.

(* 1. header round trip: every in-range header is encoded to 20 bytes and decoding those bytes
      (whatever follows them) returns the same header *)
Theorem C09_hdr_roundtrip : forall h,
  hdr_fields_ok h -> 0 <= h_len h < 2 ^ 16 -> 0 <= h_count h < 2 ^ 8 ->
  exists bs, encode_header h = Ok bs /\ length bs = 20%nat
             /\ forall rest, decode_header (h_to_server h) (bs ++ rest) = Ok h.
Proof. intros h H1 H2 H3. apply hdr_roundtrip. apply header_ok_spec. repeat split; try apply H1; lia. Qed.
Print Assumptions C09_hdr_roundtrip.

(* out-of-range header fields are refused with struct.error *)
Theorem C09_hdr_out_of_range_refused : forall h,
  ~ (hdr_fields_ok h /\ 0 <= h_len h < 2 ^ 16 /\ 0 <= h_count h < 2 ^ 8) -> encode_header h = Err EStruct.
Proof.
  intros h Hn. apply encode_header_refuses. destruct (header_ok h) eqn:E; [|reflexivity].
  exfalso. apply Hn. apply header_ok_spec. exact E.
Qed.
Print Assumptions C09_hdr_out_of_range_refused.

(* 2. packet round trip, CRC form (no key, or a SERVER_HELLO) and sealed form — for ANY crc
      function and any AEAD that opens what it sealed with a 16-byte tag: every packet with
      in-range header fields, 0..255 messages with 16-bit sequence numbers and a payload below
      64 KiB is encoded; its header carries length = |payload| and count = number of messages;
      decoding the datagram (followed by anything) returns that header and the messages *)
Theorem C09_pkt_roundtrip_crc :
  forall (crc : list byte -> Z) seal open, (forall l, 0 <= crc l < 2 ^ 32) ->
  (forall k iv aad p, open k iv aad (seal k iv aad p) = Some p) ->
  (forall k iv aad p, length (seal k iv aad p) = (length p + 16)%nat) ->
  forall key h0 ms extra, rx_key key (h_type h0) = None ->
  enc_ok h0 ms -> (forall m, ms = [m] -> w_type m = h_type h0) ->
  exists d payload,
    to_bytes crc seal key h0 ms = Ok d /\ encode_msgs ms = Ok payload /\ len payload = wsize ms
    /\ len d = 20 + len payload + 4
    /\ decode_header (h_to_server h0) (d ++ extra) = Ok (built_header h0 ms payload)
    /\ h_len (built_header h0 ms payload) = len payload /\ h_count (built_header h0 ms payload) = len ms
    /\ from_bytes crc open None (built_header h0 ms payload) (d ++ extra) = Ok ms.
Proof.
  intros crc seal open H1 H2 H3 key h0 ms extra Hk Hok Ht.
  destruct (pkt_roundtrip_proof crc seal open H1 H2 H3 key h0 ms extra Hok Ht) as (d & p & A & B & C & D & E & F).
  rewrite Hk in *. exists d, p. repeat split; assumption.
Qed.
Print Assumptions C09_pkt_roundtrip_crc.

Theorem C09_pkt_roundtrip_sealed :
  forall (crc : list byte -> Z) seal open, (forall l, 0 <= crc l < 2 ^ 32) ->
  (forall k iv aad p, open k iv aad (seal k iv aad p) = Some p) ->
  (forall k iv aad p, length (seal k iv aad p) = (length p + 16)%nat) ->
  forall k h0 ms extra, h_type h0 <> SERVER_HELLO ->
  enc_ok h0 ms -> (forall m, ms = [m] -> w_type m = h_type h0) ->
  exists d payload,
    to_bytes crc seal (Some k) h0 ms = Ok d /\ encode_msgs ms = Ok payload /\ len payload = wsize ms
    /\ len d = 20 + len payload + 16
    /\ decode_header (h_to_server h0) (d ++ extra) = Ok (built_header h0 ms payload)
    /\ h_len (built_header h0 ms payload) = len payload /\ h_count (built_header h0 ms payload) = len ms
    /\ from_bytes crc open (Some k) (built_header h0 ms payload) (d ++ extra) = Ok ms.
Proof.
  intros crc seal open H1 H2 H3 k h0 ms extra Hty Hok Ht.
  destruct (pkt_roundtrip_proof crc seal open H1 H2 H3 (Some k) h0 ms extra Hok Ht) as (d & p & A & B & C & D & E & F).
  assert (Hk : rx_key (Some k) (h_type h0) = Some k) by (destruct (h_type h0); try reflexivity; contradiction Hty; reflexivity).
  rewrite Hk in *. exists d, p. repeat split; assumption.
Qed.
Print Assumptions C09_pkt_roundtrip_sealed.

(* anything else — a header field, a message sequence number, the count (> 255 messages) or
   the payload length out of range — is refused with struct.error, never mis-encoded *)
Theorem C09_pkt_out_of_range_refused :
  forall (crc : list byte -> Z) seal key h0 ms, ~ enc_ok h0 ms -> to_bytes crc seal key h0 ms = Err EStruct.
Proof. intros. apply out_of_range_refused_proof. assumption. Qed.
Print Assumptions C09_pkt_out_of_range_refused.

(* 3. MTU: whatever is queued (any state c, any retry store), every datagram that packet
      assembly produces has 20 + |payload| + 16 <= mtu - 28 (and so does its CRC form) *)
Theorem C09_mtu_respected : forall mtu e c now ka delay c' pk cx h k p,
  512 <= mtu <= 1500 -> env_of_mtu mtu = Ok e ->
  build_impl e c now ka delay = (c', Some pk) ->
  In (OEmit h k p) (emit cx pk) ->
  20 + len p + 16 <= mtu - 28 /\ 20 + len p + 4 <= mtu - 28
  /\ h_len h = len p /\ h_count h = len (snd pk) /\ h_count h <= 255.
Proof.
  intros mtu e c now ka delay c' pk cx h k p Hm He Hb Hin.
  exact (mtu_respected_build mtu e c now ka delay c' pk cx h k p ltac:(lia) He Hb Hin).
Qed.
Print Assumptions C09_mtu_respected.

(* the same for every datagram emitted in any history of events from any state *)
Theorem C09_mtu_respected_run : forall mtu e xs c c' outs h k p,
  512 <= mtu <= 1500 -> env_of_mtu mtu = Ok e ->
  run e c xs = (c', outs) -> In (OEmit h k p) (concat outs) ->
  20 + len p + 16 <= mtu - 28 /\ 20 + len p + 4 <= mtu - 28 /\ h_len h = len p /\ h_count h <= 255.
Proof.
  intros mtu e xs c c' outs h k p Hm He Hr Hin.
  exact (mtu_respected_run mtu e ltac:(lia) He xs c c' outs Hr h k p Hin).
Qed.
Print Assumptions C09_mtu_respected_run.

(* 4. packing is total: at most 255 messages per datagram; the messages taken from the send
      queue and the ones left in it are an order-preserving partition of the queue (nothing is
      lost, duplicated or reordered); re-sent messages come from the retry store *)
Theorem C09_pack_total : forall e c now ka delay c' r,
  no_unknown c ->
  build_impl e c now ka delay = (c', r) ->
  exists from_retry from_out,
    Interleave from_out (c_outgoing c') (c_outgoing c)
    /\ (forall m, In m from_retry -> In m (map snd (c_pretry_msg c)))
    /\ match r with
       | Some (h, ms) => ms = map (stamp now) (from_retry ++ from_out) /\ h_count h = len ms /\ len ms <= 255
       | None => from_retry = [] /\ from_out = []
       end.
Proof. exact pack_total_build. Qed.
Print Assumptions C09_pack_total.

(* 5. messages that fit together travel in one datagram *)
Theorem C09_fit_together : forall e c now ka delay,
  c_pretry_msg c = [] -> c_outgoing c <> [] -> no_unknown c ->
  payload_size (c_outgoing c) <= e_max_payload e + 2 -> len (c_outgoing c) <= 255 ->
  exists c' h, build_impl e c now ka delay = (c', Some (h, map (stamp now) (c_outgoing c)))
               /\ c_outgoing c' = [].
Proof. exact build_impl_together. Qed.
Print Assumptions C09_fit_together.

(* 6. no sequence of events can make packet construction raise or lose queued messages.
      conn_ok — queued messages and the messages a RetrySender would re-queue carry 16-bit
      sequence numbers and a real packet type — holds initially and is preserved by every event
      (send, ticks, received datagrams, acks, time-outs, disconnect, handshake, settings) *)
Theorem C09_invariant : forall e b xs, conn_ok (conn0 b) /\ (forall c, conn_ok c -> conn_ok (fst (run e c xs))).
Proof. intros e b xs. split; [apply conn0_ok|intros c; apply run_ok]. Qed.
Print Assumptions C09_invariant.

(* ... and on every such state Packet.create succeeds: emit hands exactly one datagram to the
   socket, whose length field is the payload length (< 64 KiB) and whose count (<= 255) is
   the number of messages *)
Theorem C09_pack_never_raises : forall mtu e c xs now ka delay c' pk cx,
  512 <= mtu <= 1500 -> env_of_mtu mtu = Ok e -> conn_ok c ->
  build_impl e (fst (run e c xs)) now ka delay = (c', Some pk) ->
  exists p, emit cx pk = [OEmit (emit_header (fst pk) p) (rx_key (c_key cx) (h_type (fst pk))) p]
            /\ encode_msgs (map wmsg_of (snd pk)) = Ok p /\ len p = payload_size (snd pk) /\ len p < 2 ^ 16
            /\ h_count (fst pk) = len (snd pk) /\ len (snd pk) <= 255.
Proof.
  intros mtu e c xs now ka delay c' pk cx Hm He H E.
  apply (pack_never_raises_proof e (fst (run e c xs)) now ka delay c' pk cx); [apply run_ok; exact H| |exact E].
  rewrite env_of_mtu_spec in He. injection He as <-. cbn. lia.
Qed.
Print Assumptions C09_pack_never_raises.

(* pack_total without side condition: on every reachable state nothing queued is lost *)
Theorem C09_pack_total_reachable : forall e c xs now ka delay c' r,
  conn_ok c ->
  build_impl e (fst (run e c xs)) now ka delay = (c', r) ->
  exists from_retry from_out,
    Interleave from_out (c_outgoing c') (c_outgoing (fst (run e c xs)))
    /\ (forall m, In m from_retry -> In m (map snd (c_pretry_msg (fst (run e c xs)))))
    /\ match r with
       | Some (h, ms) => ms = map (stamp now) (from_retry ++ from_out) /\ h_count h = len ms /\ len ms <= 255
       | None => from_retry = [] /\ from_out = []
       end.
Proof.
  intros e c xs now ka delay c' r H E.
  exact (pack_total_build e _ now ka delay c' r (conn_ok_no_unknown _ (run_ok e xs c H)) E).
Qed.
Print Assumptions C09_pack_total_reachable.

(* 7. end to end: on a reachable state the built packet is encoded (sealed or CRC form) into at
      most mtu-28 bytes and the peer's decoder returns exactly the messages put into it *)
Theorem C09_built_packet_bytes :
  forall (crc : list byte -> Z) seal open, (forall l, 0 <= crc l < 2 ^ 32) ->
  (forall k iv aad p, open k iv aad (seal k iv aad p) = Some p) ->
  (forall k iv aad p, length (seal k iv aad p) = (length p + 16)%nat) ->
  forall mtu e c xs now ka delay c' h0 ms key extra,
  512 <= mtu <= 1500 -> env_of_mtu mtu = Ok e -> conn_ok c ->
  build_impl e (fst (run e c xs)) now ka delay = (c', Some (h0, ms)) ->
  hdr_fields_ok h0 ->
  exists d payload,
    to_bytes crc seal key h0 (map wmsg_of ms) = Ok d
    /\ len d <= mtu - 28
    /\ decode_header (h_to_server h0) (d ++ extra) = Ok (built_header h0 (map wmsg_of ms) payload)
    /\ from_bytes crc open (rx_key key (h_type h0)) (built_header h0 (map wmsg_of ms) payload) (d ++ extra)
       = Ok (map wmsg_of ms).
Proof.
  intros crc seal open H1 H2 H3 mtu e c xs now ka delay c' h0 ms key extra Hm He H E Hf.
  exact (built_packet_bytes crc seal open H1 H2 H3 mtu e _ now ka delay c' h0 ms key extra ltac:(lia) He
           (run_ok e xs c H) E Hf).
Qed.
Print Assumptions C09_built_packet_bytes.

(* ---- non-vacuity ---- *)
(* the AEAD hypotheses are consistent: the toy scheme of PackEnv.v and the real CRC-32 satisfy them *)
Example C09_framing_hypotheses_satisfiable :
  (forall l, 0 <= crc32 l < 2 ^ 32)
  /\ (forall k iv aad p, toy_open k iv aad (toy_seal k iv aad p) = Some p)
  /\ (forall k iv aad p, length (toy_seal k iv aad p) = (length p + 16)%nat).
Proof. split; [exact crc32_range|split; [exact toy_open_seal|exact toy_seal_length]]. Qed.

(* 300 empty messages queued: the first datagram carries exactly 255 of them, 45 stay queued *)
Example C09_packs_255_of_300 :
  let e := {| e_max_payload := 1434; e_max_frag := 1024; e_max_frags := 8192 |} in
  let c := fst (run e ((conn0 false) <| c_status := CONNECTED |>) (repeat (ESend [] RNone INone) 300)) in
  match build_impl e c 1000 false 0 with
  | (c', Some (h, ms)) => h_count h = 255 /\ len ms = 255 /\ len (c_outgoing c') = 45
  | _ => False
  end.
Proof. vm_compute. repeat split. Qed.

(* a payload of exactly MAX_PAYLOAD_SIZE fits one datagram of exactly mtu - 28 bytes *)
Example C09_boundary_fits :
  let e := {| e_max_payload := 446; e_max_frag := 440; e_max_frags := 8192 |} in
  env_of_mtu 512 = Ok e /\
  let c := fst (send e ((conn0 false) <| c_status := CONNECTED |>) (repeat x00 446) RNone INone) in
  match build_impl e c 1000 false 0 with
  | (c', Some pk) => match emit c' pk with [OEmit h _ p] => 20 + len p + 16 = 512 - 28 | _ => False end
  | _ => False
  end.
Proof. split; [reflexivity|vm_compute; reflexivity]. Qed.

(* ---------- PacketHeader.to_bytes REGENERATED from mpgameserver/connection.py on every run (tools/py2v_bytes.py,
   Gen/HdrKernels.v): the translated source text is the header encoder the theorems above are about *)
From Gen Require HdrKernels.
From Proofs Require HdrKernelsP.

(* PacketHeader.to_bytes as written in the source (direction magic chosen by isServer, struct.pack(">4sLHH") +
   struct.pack(">BHBL")) = Wire.encode_header, for EVERY header record: the same 20 bytes when every field is in
   range, struct.error otherwise; the PacketType members are exactly the model's packet type codes (the values
   PacketType(n) accepts in from_bytes) and the two direction magics are the model's *)
Theorem C09_kernel_header_bytes :
  (forall h, HdrKernels.gen_PacketHeader_to_bytes (if h_to_server h then 0 else 1) (h_ctime h) (h_seq h) (h_ack h)
               (ptype_code (h_type h)) (h_len h) (h_count h) (h_ackbits h) = encode_header h) /\
  (HdrKernels.gen_PacketIdentifier_TO_SERVER = MAGIC_TO_SERVER /\ HdrKernels.gen_PacketIdentifier_TO_CLIENT = MAGIC_TO_CLIENT) /\
  (forall z, In z HdrKernels.gen_PacketType_members <-> exists t, ptype_of_code z = Some t).
Proof.
  split; [exact HdrKernelsP.gen_to_bytes_spec|]. split; [exact HdrKernelsP.gen_magics|].
  exact (proj2 HdrKernelsP.gen_packet_types).
Qed.
Print Assumptions C09_kernel_header_bytes.

Example C09_kernel_header_example :
  HdrKernels.gen_PacketHeader_to_bytes 1 1000 65535 7 6 300 2 (2 ^ 31)
  = Ok (map byte_of_Z [70; 83; 79; 67; 0; 0; 3; 232; 255; 255; 0; 7; 6; 1; 44; 2; 128; 0; 0; 0])
  /\ HdrKernels.gen_PacketHeader_to_bytes 0 1000 65536 7 6 300 2 0 = Err EStruct.
Proof. split; vm_compute; reflexivity. Qed.
