(* C10 — server handler lifecycle.  Theorems only.
   Model: Model/Server.v (UdpServerThread.run + the ServerContext helpers) on top of Model/Conn.v.
   `srv_life h e g bl ins` = handler.starting() followed by the loop iterations `ins`, for ANY
   handler oracle h (what every handler call does and whether it raises), ANY environment e (MTU
   constants), settings g, blocklist bl, and ANY list of iterations: each with arbitrary clock
   readings, an arbitrary batch of datagrams from arbitrary addresses (bytes + symbolic body +
   handshake oracle answers), an arbitrary urandom stream, and the stop flag (shutdown at any tick).
   A client is a ServerClientConnection OBJECT (cid), not an address: reconnecting from the same
   address creates a new one. *)
From Model Require Import Base SeqNum Wire Conn Server.
From Proofs Require Import ServerP C10P.
Open Scope Z_scope.

(* 1. per client object the handler sees a prefix of  connect . message* . disconnect :
      connect at most once and first, messages only between connect and disconnect, disconnect at
      most once and last; in particular never a message or disconnect without a prior connect *)
Theorem C10_lifecycle : forall h e g bl ins cid,
  lifecycle_shape cid (proj cid (hlog (snd (srv_life h e g bl ins)))).
Proof. exact C10_lifecycle_proof. Qed.
Print Assumptions C10_lifecycle.

(* 2. shutdown: once the loop has exited normally, every client that connected has had exactly
      one disconnect *)
Theorem C10_shutdown_complete : forall h e g bl ins cid,
  let r := srv_life h e g bl ins in
  s_active (fst r) = false -> s_dead (fst r) = false ->
  proj cid (hlog (snd r)) = [] \/
  exists a t msgs, proj cid (hlog (snd r)) = HConnect cid a t :: msgs ++ [HDisconnect cid] /\ Forall is_message msgs.
Proof. exact C10_shutdown_complete_proof. Qed.
Print Assumptions C10_shutdown_complete.
