(* C10 — server handler lifecycle.  Theorems only.
   Model: Model/Server.v (UdpServerThread.run + the ServerContext helpers) on top of Model/Conn.v.
   `srv_life h e g bl ins` = handler.starting() followed by the loop iterations `ins`, for ANY
   handler oracle h (what every handler call does and whether it raises), ANY environment e (MTU
   constants), settings g, blocklist bl, and ANY list of iterations: each with arbitrary clock
   readings, an arbitrary batch of datagrams from arbitrary addresses (bytes + symbolic body +
   handshake oracle answers), an arbitrary urandom stream, and the stop flag (shutdown at any tick).
   A client is a ServerClientConnection OBJECT (cid), not an address: reconnecting from the same
   address creates a new one. *)
From Model Require Import Base SeqNum Wire Conn Server.
From Proofs Require Import ServerP C10P ServerRunP.
Open Scope Z_scope.

(* 1. per client object the handler sees a prefix of  connect . message* . disconnect :
      connect at most once and first, messages only between connect and disconnect, disconnect at
      most once and last; in particular never a message or disconnect without a prior connect *)
Theorem C10_lifecycle : forall h e g bl ins cid,
  lifecycle_shape cid (proj cid (hlog (snd (srv_life h e g bl ins)))).
Proof. exact C10_lifecycle_proof. Qed.
Print Assumptions C10_lifecycle.

(* 2. shutdown: once the loop has exited normally, every client that connected has had exactly
      one disconnect *)
Theorem C10_shutdown_complete : forall h e g bl ins cid,
  let r := srv_life h e g bl ins in
  s_active (fst r) = false -> s_dead (fst r) = false ->
  proj cid (hlog (snd r)) = [] \/
  exists a t msgs, proj cid (hlog (snd r)) = HConnect cid a t :: msgs ++ [HDisconnect cid] /\ Forall is_message msgs.
Proof. exact C10_shutdown_complete_proof. Qed.
Print Assumptions C10_shutdown_complete.

(* 3. connect only on a valid challenge response: a connect event produced while processing message
      m means m is a CHALLENGE_RESP that parsed, the object is still in the temp pool and the token
      carried equals the token of that pool entry (issued by get_token when its CLIENT_HELLO was
      accepted); the datagram was opened by Conn.open_dgram under the object's key (srv_recv) *)
Theorem C10_connect_needs_challenge : forall h e s cid now m x s' o r,
  srv_msg h e s cid now m x = (s', o, r) -> existsb is_connect o = true ->
  w_type m = CHALLENGE_RESP /\ x_parse x = 0 /\
  exists cl other, sfind cid s = Some cl /\ pget (cl_addr cl) (s_temp s) = Some other /\
                   c_token (cl_conn other) = x_token x.
Proof. exact C10_connect_needs_challenge_proof. Qed.
Print Assumptions C10_connect_needs_challenge.

(* 4. one disconnect per cause: in the sweep a client of `connections` gets the disconnect event iff
      it is due — status DISCONNECTING (peer sent DISCONNECT) or DISCONNECTED (a handler called
      client.disconnect()) or silent for connection_timeout; with theorem 1 (at most one per object)
      and theorem 2 (shutdown) this is "exactly one per cause" *)
Theorem C10_sweep_due : forall h e s now cid cl s' o p,
  pfind cid (s_conns s) = Some cl ->
  sweep_conn h e s now cid = (s', o, p) ->
  hlog o = if due (s_cfg s) now (cl_conn cl) then [HDisconnect cid] else [].
Proof. exact C10_sweep_due_proof. Qed.
Print Assumptions C10_sweep_due.

Theorem C10_disconnect_causes : forall c k, c_status (disconnect c k) = DISCONNECTED.
Proof. exact C10_disconnect_causes_proof. Qed.
Print Assumptions C10_disconnect_causes.

(* 5. handler_raise_irrelevant (per call; every handler call of the loop goes through
      call_handler): whether the handler raised changes neither the state nor the event, only the
      logged line SExc.   [per call; the lift to whole runs is theorem 5' below] *)
Theorem C10_handler_raise_irrelevant_call_partial : forall h e s ev,
  fst (call_handler h e s ev) = fst (call_handler (strip h) e s ev) /\
  snd (call_handler (strip h) e s ev) = [SEv ev] /\
  snd (call_handler h e s ev) = SEv ev :: (if r_raises (h (s_calls s) ev) then [SExc ev] else []).
Proof. exact C10_handler_raise_irrelevant_call_proof. Qed.
Print Assumptions C10_handler_raise_irrelevant_call_partial.

(* 5'. handler_raise_irrelevant over WHOLE RUNS: for every handler oracle h, environment, settings,
       blocklist and list of iterations, the life of the thread driven by h and by (strip h) — the
       same handler that never raises — ends in the SAME server state, and the output trace of the
       never-raising run is the trace of the raising run with the logged SExc lines filtered out
       (noexc); in particular the handler sees the same sequence of events (hlog).  Events keep
       flowing identically whether or not handlers raise. *)
Theorem C10_handler_raise_irrelevant : forall h e g bl ins,
  fst (srv_life (strip h) e g bl ins) = fst (srv_life h e g bl ins) /\
  snd (srv_life (strip h) e g bl ins) = noexc (snd (srv_life h e g bl ins)) /\
  hlog (snd (srv_life (strip h) e g bl ins)) = hlog (snd (srv_life h e g bl ins)).
Proof. exact C10_handler_raise_irrelevant_proof. Qed.
Print Assumptions C10_handler_raise_irrelevant.

(* more generally: two handlers that make the same client.send / client.disconnect calls in every
   handler call and differ only in WHICH calls raise (any pattern of exceptions, in any event) drive
   the loop to the same state, the same trace up to the exception lines and the same events *)
Theorem C10_raise_pattern_irrelevant : forall h1 h2 e g bl ins,
  (forall n ev, r_acts (h1 n ev) = r_acts (h2 n ev)) ->
  fst (srv_life h1 e g bl ins) = fst (srv_life h2 e g bl ins) /\
  noexc (snd (srv_life h1 e g bl ins)) = noexc (snd (srv_life h2 e g bl ins)) /\
  hlog (snd (srv_life h1 e g bl ins)) = hlog (snd (srv_life h2 e g bl ins)).
Proof. exact C10_raise_pattern_irrelevant_proof. Qed.
Print Assumptions C10_raise_pattern_irrelevant.

(* the same from ANY server state (not only the initial one) *)
Theorem C10_handler_raise_irrelevant_run : forall h e s ins,
  fst (srv_run (strip h) e s ins) = fst (srv_run h e s ins) /\
  snd (srv_run (strip h) e s ins) = noexc (snd (srv_run h e s ins)).
Proof. exact C10_handler_raise_irrelevant_run_proof. Qed.
Print Assumptions C10_handler_raise_irrelevant_run.

(* (strip h) logs no exception line at all: noexc is the identity on its trace *)
Theorem C10_strip_never_logs : forall h e g bl ins,
  noexc (snd (srv_life (strip h) e g bl ins)) = snd (srv_life (strip h) e g bl ins).
Proof. exact C10_strip_never_logs_proof. Qed.
Print Assumptions C10_strip_never_logs.

(* 6. tokens (D10): for EVERY urandom stream the token handed out is non-zero, is not the token of
      any connection object in either pool, and is a masked value of the stream
      [per get_token call; the run-level invariant "pooled objects carry pairwise distinct non-zero
      tokens, connected ones a non-zero token" is theorem 6' below] *)
Theorem C10_token_fresh_partial : forall used rand t rest,
  get_token used rand = Some (t, rest) ->
  t <> 0 /\ ~ In t used /\ exists r, In r rand /\ t = mask_token r.
Proof. exact C10_token_fresh_proof. Qed.
Print Assumptions C10_token_fresh_partial.

Theorem C10_tokens_in_use : forall s cl, In cl (s_conns s) \/ In cl (s_temp s) ->
  In (c_token (cl_conn cl)) (tokens_in_use s).
Proof. exact C10_tokens_in_use_proof. Qed.
Print Assumptions C10_tokens_in_use.

(* 6'. the token invariant at EVERY REACHABLE STATE (after starting() and any list of loop
       iterations; every handler oracle, urandom stream, datagram batch, clock, stop flag):
       the connection objects held in the two pools have pairwise different identities, the
       non-zero tokens among them are pairwise different (NoDup over the pool positions), i.e. two
       DISTINCT pooled objects never share a non-zero token.   (Token 0 = "no token yet": an object
       whose hello was refused stays in temp_connections with token 0 and no key until it times
       out; see C10_temp_token_zero_shared below — such an object can never be promoted.) *)
Theorem C10_tokens_distinct : forall h e g bl ins,
  let s := fst (srv_life h e g bl ins) in
  NoDup (map cl_id (s_conns s ++ s_temp s)) /\
  NoDup (filter nonzero (tokens_in_use s)) /\
  (forall cl1 cl2, In cl1 (s_conns s ++ s_temp s) -> In cl2 (s_conns s ++ s_temp s) ->
     cl_id cl1 <> cl_id cl2 -> c_token (cl_conn cl1) <> 0 -> c_token (cl_conn cl1) <> c_token (cl_conn cl2)).
Proof. exact C10_tokens_distinct_proof. Qed.
Print Assumptions C10_tokens_distinct.

(* the invariant behind 6' is inductive: ANY loop iteration from ANY state that satisfies the pool
   bookkeeping invariant Inv (ServerP) and the token invariant TInv (ServerRunP: every pooled object is
   server-side and holds a non-zero token once it holds a key; every object of `connections` holds a
   key; different pooled objects never share a non-zero token) leads to a state that satisfies TInv *)
Theorem C10_token_invariant_step : forall h e s i phi,
  Inv s phi -> TInv s -> TInv (fst (srv_step h e s i)).
Proof. exact C10_token_invariant_step_proof. Qed.
Print Assumptions C10_token_invariant_step.

(* every object of `connections` (promoted = connected) holds a non-zero token and a session key *)
Theorem C10_connected_have_token : forall h e g bl ins cl,
  In cl (s_conns (fst (srv_life h e g bl ins))) ->
  c_token (cl_conn cl) <> 0 /\ c_key (cl_conn cl) <> None /\ c_server (cl_conn cl) = true.
Proof. exact C10_connected_have_token_proof. Qed.
Print Assumptions C10_connected_have_token.

(* corollary — the clause of the property: simultaneously connected clients carry distinct tokens *)
Theorem C10_connected_tokens_distinct : forall h e g bl ins,
  let s := fst (srv_life h e g bl ins) in
  NoDup (map (fun cl => c_token (cl_conn cl)) (s_conns s)) /\
  Forall (fun cl => c_token (cl_conn cl) <> 0) (s_conns s).
Proof. exact C10_connected_tokens_distinct_proof. Qed.
Print Assumptions C10_connected_tokens_distinct.

(* ---------- non-vacuity: one complete life, with a handler that raises in every event ---------- *)
Definition e1500 : env := {| e_max_payload := 1434; e_max_frag := 1024; e_max_frags := 8192 |}.
Definition raising : horacle := fun _ _ => {| r_acts := []; r_raises := true |}.
Definition A1 : addr := (7, 5000).
Definition mkhdr (seq : Z) (t : ptype) (ln : Z) : header :=
  {| h_to_server := true; h_ctime := 100; h_seq := seq; h_ack := 0; h_type := t; h_len := ln; h_count := 1; h_ackbits := 0 |}.
Definition rawof (hd : header) : list byte := match encode_header hd with Ok b => b | Err _ => [] end.
Definition hello : witem :=
  {| w_addr := A1; w_raw := rawof (mkhdr 1 CLIENT_HELLO 3); w_body := Clear (be 2 1 ++ [x00]);
     w_hs := [{| x_parse := 0; x_version_ok := true; x_token := 0; x_key := 77; x_reply := [x01]; x_ecdh := 0 |}] |}.
Definition sealed (seq : Z) (t : ptype) (mseq : Z) (p : list byte) (hs : list hsx) : witem :=
  let pl := be 2 mseq ++ p in
  {| w_addr := A1; w_raw := rawof (mkhdr seq t (len pl)); w_body := Sealed 77 (mkhdr seq t (len pl)) pl; w_hs := hs |}.
Definition chal (tok : Z) : witem :=
  sealed 2 CHALLENGE_RESP 2 [x00] [{| x_parse := 0; x_version_ok := true; x_token := tok; x_key := 0; x_reply := []; x_ecdh := 0 |}].
Definition at_ (k : Z) (b : list witem) (rnd : list Z) (stop : bool) : sin :=
  {| i_td := 100 * TICKS + k * 300; i_ts := 100 * TICKS + k * 300; i_batch := b; i_rand := rnd; i_stop := stop |}.
Definition life (tok : Z) : list sin :=
  [at_ 0 [hello] [5] false; at_ 1 [chal tok] [] false; at_ 2 [sealed 3 APP 3 [x41] []] [] false;
   at_ 3 [sealed 4 DISCONNECT 4 [] []] [] false; at_ 4 [] [] true].

Example C10_one_life :
  filter (fun ev => match ev with HUpdate => false | _ => true end)
         (hlog (snd (srv_life raising e1500 cfg0 [] (life 1073741829))))
  = [HStarting; HConnect 0 A1 1073741829; HMessage 0 3 [x41]; HDisconnect 0; HShutdown].
Proof. vm_compute. reflexivity. Qed.

(* a wrong token: no connect, hence nothing else for that object *)
Example C10_wrong_token_no_connect :
  filter (fun ev => match ev with HUpdate => false | _ => true end)
         (hlog (snd (srv_life raising e1500 cfg0 [] (life 1073741830))))
  = [HStarting; HShutdown].
Proof. vm_compute. reflexivity. Qed.

(* ---------- non-vacuity of the run-level theorems ---------- *)
(* the raising handler does log exception lines in that life, the stripped one logs none, and the
   two traces differ: noexc really removes something *)
Example C10_raise_logged :
  existsb is_exc (snd (srv_life raising e1500 cfg0 [] (life 1073741829))) = true /\
  existsb is_exc (snd (srv_life (strip raising) e1500 cfg0 [] (life 1073741829))) = false /\
  length (snd (srv_life raising e1500 cfg0 [] (life 1073741829))) =
    (length (snd (srv_life (strip raising) e1500 cfg0 [] (life 1073741829))) + 10)%nat.
Proof. vm_compute. auto. Qed.

(* two clients connected at the same time; os.urandom is forced to collide (5, 5, 6): the second
   hello draws 5 again, get_token rejects it and takes 6 — both end in `connections` with
   different non-zero tokens *)
Definition A2 : addr := (8, 5001).
Definition hello_at (a : addr) (key : Z) : witem :=
  {| w_addr := a; w_raw := rawof (mkhdr 1 CLIENT_HELLO 3); w_body := Clear (be 2 1 ++ [x00]);
     w_hs := [{| x_parse := 0; x_version_ok := true; x_token := 0; x_key := key; x_reply := [x01]; x_ecdh := 0 |}] |}.
Definition chal_at (a : addr) (key tok : Z) : witem :=
  let pl := be 2 2 ++ [x00] in
  {| w_addr := a; w_raw := rawof (mkhdr 2 CHALLENGE_RESP (len pl));
     w_body := Sealed key (mkhdr 2 CHALLENGE_RESP (len pl)) pl;
     w_hs := [{| x_parse := 0; x_version_ok := true; x_token := tok; x_key := 0; x_reply := []; x_ecdh := 0 |}] |}.
Definition two_clients : list sin :=
  [at_ 0 [hello_at A1 77; hello_at A2 78] [5; 5; 6] false;
   at_ 1 [chal_at A1 77 1073741829; chal_at A2 78 1073741830] [] false].

Example C10_two_connected_distinct :
  let s := fst (srv_life raising e1500 cfg0 [] two_clients) in
  map (fun cl => (cl_id cl, cl_addr cl, c_token (cl_conn cl))) (s_conns s)
    = [(0, A1, 1073741829); (1, A2, 1073741830)] /\ s_temp s = [].
Proof. vm_compute. auto. Qed.

(* why the pool-level statement speaks of NON-ZERO tokens: while a batch is being dispatched (after
   D+U, before the sweep of the same iteration) two hellos that did not parse have left two objects
   in temp_connections, both with token 0 and no key; they are never promoted, and the sweep of
   the same iteration removes them (status DISCONNECTED) *)
Definition bad_hello_at (a : addr) : witem :=
  {| w_addr := a; w_raw := rawof (mkhdr 1 CLIENT_HELLO 3); w_body := Clear (be 2 1 ++ [x00]);
     w_hs := [{| x_parse := 3; x_version_ok := true; x_token := 0; x_key := 0; x_reply := []; x_ecdh := 0 |}] |}.
Example C10_temp_token_zero_shared :
  let s := fst (srv_du raising e1500 (srv0 cfg0 []) (at_ 0 [bad_hello_at A1; bad_hello_at A2] [5; 6] false)) in
  map (fun cl => (cl_id cl, c_token (cl_conn cl), c_key (cl_conn cl))) (s_temp s) = [(0, 0, None); (1, 0, None)]
  /\ s_conns s = [] /\
  s_temp (fst (srv_life raising e1500 cfg0 [] [at_ 0 [bad_hello_at A1; bad_hello_at A2] [5; 6] false])) = [].
Proof. vm_compute. auto. Qed.

(* the hypotheses of C10_token_invariant_step are satisfiable: the initial state satisfies both *)
Example C10_token_invariant_initial :
  Inv (srv0 cfg0 []) (fun _ => Some Fresh) /\ TInv (srv0 cfg0 []).
Proof. exact (conj (Inv_srv0 cfg0 []) (TInv_srv0 cfg0 [])). Qed.
