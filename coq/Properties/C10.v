(* C10 — server handler lifecycle.  Theorems only.
   Model: Model/Server.v (UdpServerThread.run + the ServerContext helpers) on top of Model/Conn.v.
   `srv_life h e g bl ins` = handler.starting() followed by the loop iterations `ins`, for ANY
   handler oracle h (what every handler call does and whether it raises), ANY environment e (MTU
   constants), settings g, blocklist bl, and ANY list of iterations: each with arbitrary clock
   readings, an arbitrary batch of datagrams from arbitrary addresses (bytes + symbolic body +
   handshake oracle answers), an arbitrary urandom stream, and the stop flag (shutdown at any tick).
   A client is a ServerClientConnection OBJECT (cid), not an address: reconnecting from the same
   address creates a new one. *)
From Model Require Import Base SeqNum Wire Conn Server.
From Proofs Require Import ServerP C10P.
Open Scope Z_scope.

(* 1. per client object the handler sees a prefix of  connect . message* . disconnect :
      connect at most once and first, messages only between connect and disconnect, disconnect at
      most once and last; in particular never a message or disconnect without a prior connect *)
Theorem C10_lifecycle : forall h e g bl ins cid,
  lifecycle_shape cid (proj cid (hlog (snd (srv_life h e g bl ins)))).
Proof. exact C10_lifecycle_proof. Qed.
Print Assumptions C10_lifecycle.

(* 2. shutdown: once the loop has exited normally, every client that connected has had exactly
      one disconnect *)
Theorem C10_shutdown_complete : forall h e g bl ins cid,
  let r := srv_life h e g bl ins in
  s_active (fst r) = false -> s_dead (fst r) = false ->
  proj cid (hlog (snd r)) = [] \/
  exists a t msgs, proj cid (hlog (snd r)) = HConnect cid a t :: msgs ++ [HDisconnect cid] /\ Forall is_message msgs.
Proof. exact C10_shutdown_complete_proof. Qed.
Print Assumptions C10_shutdown_complete.

(* 3. connect only on a valid challenge response: a connect event produced while processing message
      m means m is a CHALLENGE_RESP that parsed, the object is still in the temp pool and the token
      carried equals the token of that pool entry (issued by get_token when its CLIENT_HELLO was
      accepted); the datagram was opened by Conn.open_dgram under the object's key (srv_recv) *)
Theorem C10_connect_needs_challenge : forall h e s cid now m x s' o r,
  srv_msg h e s cid now m x = (s', o, r) -> existsb is_connect o = true ->
  w_type m = CHALLENGE_RESP /\ x_parse x = 0 /\
  exists cl other, sfind cid s = Some cl /\ pget (cl_addr cl) (s_temp s) = Some other /\
                   c_token (cl_conn other) = x_token x.
Proof. exact C10_connect_needs_challenge_proof. Qed.
Print Assumptions C10_connect_needs_challenge.

(* 4. one disconnect per cause: in the sweep a client of `connections` gets the disconnect event iff
      it is due — status DISCONNECTING (peer sent DISCONNECT) or DISCONNECTED (a handler called
      client.disconnect()) or silent for connection_timeout; with theorem 1 (at most one per object)
      and theorem 2 (shutdown) this is "exactly one per cause" *)
Theorem C10_sweep_due : forall h e s now cid cl s' o p,
  pfind cid (s_conns s) = Some cl ->
  sweep_conn h e s now cid = (s', o, p) ->
  hlog o = if due (s_cfg s) now (cl_conn cl) then [HDisconnect cid] else [].
Proof. exact C10_sweep_due_proof. Qed.
Print Assumptions C10_sweep_due.

Theorem C10_disconnect_causes : forall c k, c_status (disconnect c k) = DISCONNECTED.
Proof. exact C10_disconnect_causes_proof. Qed.
Print Assumptions C10_disconnect_causes.

(* 5. handler_raise_irrelevant (per call; every handler call of the loop goes through
      call_handler): whether the handler raised changes neither the state nor the event, only the
      logged line SExc.   [partial: the lifting to whole iterations is structural — srv_step uses the
      oracle through call_handler only — and is checked by the correspondence run with raising
      handlers in every event; it is not stated as a theorem over srv_step] *)
Theorem C10_handler_raise_irrelevant_call_partial : forall h e s ev,
  fst (call_handler h e s ev) = fst (call_handler (strip h) e s ev) /\
  snd (call_handler (strip h) e s ev) = [SEv ev] /\
  snd (call_handler h e s ev) = SEv ev :: (if r_raises (h (s_calls s) ev) then [SExc ev] else []).
Proof. exact C10_handler_raise_irrelevant_call_proof. Qed.
Print Assumptions C10_handler_raise_irrelevant_call_partial.

(* 6. tokens (D10): for EVERY urandom stream the token handed out is non-zero, is not the token of
      any connection object in either pool, and is a masked value of the stream
      [partial: the run-level invariant "pooled objects carry pairwise distinct non-zero tokens" is
      checked by the oracle at every iteration, not proved] *)
Theorem C10_token_fresh_partial : forall used rand t rest,
  get_token used rand = Some (t, rest) ->
  t <> 0 /\ ~ In t used /\ exists r, In r rand /\ t = mask_token r.
Proof. exact C10_token_fresh_proof. Qed.
Print Assumptions C10_token_fresh_partial.

Theorem C10_tokens_in_use : forall s cl, In cl (s_conns s) \/ In cl (s_temp s) ->
  In (c_token (cl_conn cl)) (tokens_in_use s).
Proof. exact C10_tokens_in_use_proof. Qed.
Print Assumptions C10_tokens_in_use.

(* ---------- non-vacuity: one complete life, with a handler that raises in every event ---------- *)
Definition e1500 : env := {| e_max_payload := 1434; e_max_frag := 1024; e_max_frags := 8192 |}.
Definition raising : horacle := fun _ _ => {| r_acts := []; r_raises := true |}.
Definition A1 : addr := (7, 5000).
Definition mkhdr (seq : Z) (t : ptype) (ln : Z) : header :=
  {| h_to_server := true; h_ctime := 100; h_seq := seq; h_ack := 0; h_type := t; h_len := ln; h_count := 1; h_ackbits := 0 |}.
Definition rawof (hd : header) : list byte := match encode_header hd with Ok b => b | Err _ => [] end.
Definition hello : witem :=
  {| w_addr := A1; w_raw := rawof (mkhdr 1 CLIENT_HELLO 3); w_body := Clear (be 2 1 ++ [x00]);
     w_hs := [{| x_parse := 0; x_version_ok := true; x_token := 0; x_key := 77; x_reply := [x01]; x_ecdh := 0 |}] |}.
Definition sealed (seq : Z) (t : ptype) (mseq : Z) (p : list byte) (hs : list hsx) : witem :=
  let pl := be 2 mseq ++ p in
  {| w_addr := A1; w_raw := rawof (mkhdr seq t (len pl)); w_body := Sealed 77 (mkhdr seq t (len pl)) pl; w_hs := hs |}.
Definition chal (tok : Z) : witem :=
  sealed 2 CHALLENGE_RESP 2 [x00] [{| x_parse := 0; x_version_ok := true; x_token := tok; x_key := 0; x_reply := []; x_ecdh := 0 |}].
Definition at_ (k : Z) (b : list witem) (rnd : list Z) (stop : bool) : sin :=
  {| i_td := 100 * TICKS + k * 300; i_ts := 100 * TICKS + k * 300; i_batch := b; i_rand := rnd; i_stop := stop |}.
Definition life (tok : Z) : list sin :=
  [at_ 0 [hello] [5] false; at_ 1 [chal tok] [] false; at_ 2 [sealed 3 APP 3 [x41] []] [] false;
   at_ 3 [sealed 4 DISCONNECT 4 [] []] [] false; at_ 4 [] [] true].

Example C10_one_life :
  filter (fun ev => match ev with HUpdate => false | _ => true end)
         (hlog (snd (srv_life raising e1500 cfg0 [] (life 1073741829))))
  = [HStarting; HConnect 0 A1 1073741829; HMessage 0 3 [x41]; HDisconnect 0; HShutdown].
Proof. vm_compute. reflexivity. Qed.

(* a wrong token: no connect, hence nothing else for that object *)
Example C10_wrong_token_no_connect :
  filter (fun ev => match ev with HUpdate => false | _ => true end)
         (hlog (snd (srv_life raising e1500 cfg0 [] (life 1073741830))))
  = [HStarting; HShutdown].
Proof. vm_compute. reflexivity. Qed.
