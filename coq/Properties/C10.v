(* C10 — server handler lifecycle (theorems follow). *)
From Model Require Import Base Conn Server.
Open Scope Z_scope.
