(* C07 — send callbacks are truthful and fire exactly once.  Theorems only.
   Model: Model/Conn.v.  Callbacks are the outputs `OCallback id ok` of a step; `run e c xs` is the
   connection after ANY event list (sends of any size / retry mode, ticks at any times, received
   datagrams of any kind incl. forged or stale ack fields, reconfiguration). *)
From Model Require Import Base SeqNum Wire Conn.
From Proofs Require Import SeqNumP ConnFrameP NonceP AckP CallbackP AckNamesP.
Open Scope Z_scope.

(* 1. Success is only ever reported while processing a received datagram that passes the
      authenticity gate of the connection (it opens under the key the connection holds and its
      sequence number is new) and whose header names, in its (ack, ack_bits) fields, a datagram
      that is pending.  No tick, time-out sweep, send or configuration call reports success, and a
      datagram that is not authentic for the key — whatever ack fields it carries — reports nothing. *)
Theorem C07_success_only_on_ack : forall e c x c' o,
  Inc c -> step e c x = (c', o) -> (exists id, In (OCallback id true) o) ->
  exists now d orcs c0, (x = ERecv now d orcs /\ c0 = c \/
                         x = EClientTick now (RxDgram d orcs) /\ c0 = fst (client_update c now)) /\
    passes_gate c0 d /\
    exists s t, In (s, t) (c_packs c0) /\ hdr_acks (h_ack (d_hdr d)) (h_ackbits (d_hdr d)) s = true.
Proof. exact step_true. Qed.
Print Assumptions C07_success_only_on_ack.

(* 2. Failure is only reported when a datagram is declared timed out in that very step, or — for
      a fragmented message — when one of its fragments had been declared timed out before ... *)
Theorem C07_failure_only_on_timeout : forall e c x c' o id,
  step e c x = (c', o) -> In (OCallback id false) o ->
  c_timeouts c < c_timeouts c' \/
  exists fid fs0, dget fid (c_pfrags c) = Some fs0 /\ fs_ucb fs0 = IUser id /\ In (Some false) (fs_acks fs0).
Proof. intros e c x c' o id E Hin. exact (step_false e c x c' o E id Hin). Qed.
Print Assumptions C07_failure_only_on_timeout.

(*    ... and a datagram is declared timed out only if it is still pending (never acknowledged)
      and at least message-time-out old. *)
Theorem C07_timeout_only_when_due : forall e c x c' o,
  step e c x = (c', o) -> c_timeouts c < c_timeouts c' ->
  exists s t, (In (s, t) (c_packs c) \/ t = ev_now x) /\ c_out_timeout c <= ev_now x - t.
Proof. exact step_timeout_due. Qed.
Print Assumptions C07_timeout_only_when_due.

(* 3. Every datagram sent is resolved exactly once.  Over every history that keeps the connection
      open (no disconnect, message time-out and send interval not reconfigured), with message
      time-out < 65534 send intervals: pending sequence numbers are pairwise distinct, and
      #acked + #timed-out + #pending - #assembled is constant — each assembled datagram enters
      pending_acks once and leaves it once, as acked or as timed out ... *)
Theorem C07_resolved_once : forall e S K xs c n c' oss,
  all_open xs -> AInv S K c n -> run e c xs = (c', oss) ->
  exists n', AInv S K c' n'.
Proof. exact run_AInv. Qed.
Print Assumptions C07_resolved_once.

Theorem C07_resolved_once_fresh : forall S b, 0 < S -> S <= 256 -> TICKS < (RING - 1) * S -> AInv S 0 (conn0 b) 0.
Proof. exact AInv_conn0. Qed.
Print Assumptions C07_resolved_once_fresh.

(*    ... within the deadline: after any tick that passes the send-rate gate, nothing older than
      the message time-out is left pending. *)
Theorem C07_resolution_deadline : forall e S K c n now c' o,
  AInv S K c n -> c_send_interval c < now - c_last_send c -> server_tick e c now = (c', o) ->
  forall s t, In (s, t) (c_packs c') -> now - t <= c_out_timeout c.
Proof. exact server_tick_deadline. Qed.
Print Assumptions C07_resolution_deadline.

(* 4. The peer's half of "success means accepted": the (ack, ack_bits) fields a connection puts
      into EVERY header it emits name only datagrams it has accepted.  Received datagrams are
      labelled with the sender's true datagram index n (wire sequence number wire n; arrivals within
      HALF of the newest accepted index: the half-range hypothesis of C08); the ghost g records the
      newest accepted index and the set of accepted indices and GI ties it to the connection's
      window.  For every event of every history: the ghost is preserved (unchanged, or extended by
      the index just accepted) and each emitted header h satisfies
         hdr_acks (h_ack h) (h_ackbits h) (wire i) = true  ->  i was accepted and is within 32 of the newest.
      Together with 1 (the sender reports success only for a pending datagram named by an authentic
      header of the peer) this is "a send callback reports success only after the peer endpoint has
      accepted the datagram(s) carrying the message". *)
Theorem C07_acks_name_accepted : forall e c x n g c' o,
  GI c g ->
  (forall d, dgram_of x = Some d -> h_seq (d_hdr d) = wire n /\ 1 <= n /\ near g n) ->
  step e c x = (c', o) ->
  exists g', GI c' g' /\ (g' = g \/ g' = ghost_add g n) /\ Forall (names_accepted g') (emits o).
Proof. exact step_ghost. Qed.
Print Assumptions C07_acks_name_accepted.

Theorem C07_ghost_fresh : forall b, GI (conn0 b) None.
Proof. intros b. reflexivity. Qed.
Print Assumptions C07_ghost_fresh.

(* Invariant used by 1 (fragment sender contexts kept in pending_fragments are never complete):
   it holds initially and is preserved by the callback machinery and the receive path. *)
Theorem C07_inc_fresh : forall b, Inc (conn0 b).
Proof. intros b. constructor. Qed.
Print Assumptions C07_inc_fresh.

(* non-vacuity: a CONNECTED key holder sends one message with callback 5; the datagram is acked by
   an authentic keep-alive of the peer -> callback 5 fires once with True; a second message (6) is
   never acked -> callback 6 fires once with False at the first tick past the message time-out *)
Definition c_ex : conn :=
  let c := conn0 false in
  mkConn false (Some 7) CONNECTED [] [] [] [] [] [] [] [] 0 0 0 (c_bf_pkt c) (c_bf_msg c)
         (c_out_timeout c) (c_temp_timeout c) (c_send_interval c) (c_ka_interval c)
         1536000 (c_last_send c) (c_last_ka c) 0 0 0 0 0 0 [] 0 0 false 0.
Definition env_ex : env := {| e_max_payload := 1434; e_max_frag := 1024; e_max_frags := 8192 |}.
Definition ack_of (seq ack : Z) : dgram :=
  let h := {| h_to_server := false; h_ctime := 100; h_seq := seq; h_ack := ack; h_type := KEEP_ALIVE;
              h_len := 0; h_count := 0; h_ackbits := 0 |} in
  {| d_hdr := h; d_body := Sealed 7 h [] |}.

Example C07_callbacks_fire :
  let '(_, oss) := run env_ex c_ex
      [ESend [x01] RNone (IUser 5); EClientTick 1536300 RxNone;
       EClientTick 1536600 (RxDgram (ack_of 1 1) []);
       ESend [x02] RNone (IUser 6); EClientTick 1536900 RxNone;
       EClientTick (1536900 + TICKS) RxNone] in
  filter (fun o => match o with OCallback _ _ => true | _ => false end) (concat oss)
  = [OCallback 5 true; OCallback 6 false].
Proof. vm_compute. reflexivity. Qed.
