(* C07 — send callbacks are truthful and fire exactly once.  Theorems only.
   Model: Model/Conn.v.  Callbacks are the outputs `OCallback id ok` of a step; `run e c xs` is the
   connection after ANY event list (sends of any size / retry mode, ticks at any times, received
   datagrams of any kind incl. forged or stale ack fields, reconfiguration). *)
From Model Require Import Base SeqNum Wire Conn.
From Proofs Require Import SeqNumP ConnFrameP NonceP AckP CallbackP AckNamesP.
From Proofs Require Import OnceP OnceLiveP.
Open Scope Z_scope.

(* 1. Success is only ever reported while processing a received datagram that passes the
      authenticity gate of the connection (it opens under the key the connection holds and its
      sequence number is new) and whose header names, in its (ack, ack_bits) fields, a datagram
      that is pending.  No tick, time-out sweep, send or configuration call reports success, and a
      datagram that is not authentic for the key — whatever ack fields it carries — reports nothing. *)
Theorem C07_success_only_on_ack : forall e c x c' o,
  Inc c -> step e c x = (c', o) -> (exists id, In (OCallback id true) o) ->
  exists now d orcs c0, (x = ERecv now d orcs /\ c0 = c \/
                         x = EClientTick now (RxDgram d orcs) /\ c0 = fst (client_update c now)) /\
    passes_gate c0 d /\
    exists s t, In (s, t) (c_packs c0) /\ hdr_acks (h_ack (d_hdr d)) (h_ackbits (d_hdr d)) s = true.
Proof. exact step_true. Qed.
Print Assumptions C07_success_only_on_ack.

(* 2. Failure is only reported when a datagram is declared timed out in that very step, or — for
      a fragmented message — when one of its fragments had been declared timed out before ... *)
Theorem C07_failure_only_on_timeout : forall e c x c' o id,
  step e c x = (c', o) -> In (OCallback id false) o ->
  c_timeouts c < c_timeouts c' \/
  exists fid fs0, dget fid (c_pfrags c) = Some fs0 /\ fs_ucb fs0 = IUser id /\ In (Some false) (fs_acks fs0).
Proof. intros e c x c' o id E Hin. exact (step_false e c x c' o E id Hin). Qed.
Print Assumptions C07_failure_only_on_timeout.

(*    ... and a datagram is declared timed out only if it is still pending (never acknowledged)
      and at least message-time-out old. *)
Theorem C07_timeout_only_when_due : forall e c x c' o,
  step e c x = (c', o) -> c_timeouts c < c_timeouts c' ->
  exists s t, (In (s, t) (c_packs c) \/ t = ev_now x) /\ c_out_timeout c <= ev_now x - t.
Proof. exact step_timeout_due. Qed.
Print Assumptions C07_timeout_only_when_due.

(* 3. Every datagram sent is resolved exactly once.  Over every history that keeps the connection
      open (no disconnect, message time-out and send interval not reconfigured), with message
      time-out < 65534 send intervals: pending sequence numbers are pairwise distinct, and
      #acked + #timed-out + #pending - #assembled is constant — each assembled datagram enters
      pending_acks once and leaves it once, as acked or as timed out ... *)
Theorem C07_resolved_once : forall e S K xs c n c' oss,
  all_open xs -> AInv S K c n -> run e c xs = (c', oss) ->
  exists n', AInv S K c' n'.
Proof. exact run_AInv. Qed.
Print Assumptions C07_resolved_once.

Theorem C07_resolved_once_fresh : forall S b, 0 < S -> S <= 256 -> TICKS < (RING - 1) * S -> AInv S 0 (conn0 b) 0.
Proof. exact AInv_conn0. Qed.
Print Assumptions C07_resolved_once_fresh.

(*    ... within the deadline: after any tick that passes the send-rate gate, nothing older than
      the message time-out is left pending. *)
Theorem C07_resolution_deadline : forall e S K c n now c' o,
  AInv S K c n -> c_send_interval c < now - c_last_send c -> server_tick e c now = (c', o) ->
  forall s t, In (s, t) (c_packs c') -> now - t <= c_out_timeout c.
Proof. exact server_tick_deadline. Qed.
Print Assumptions C07_resolution_deadline.

(* 4. The peer's half of "success means accepted": the (ack, ack_bits) fields a connection puts
      into EVERY header it emits name only datagrams it has accepted.  Received datagrams are
      labelled with the sender's true datagram index n (wire sequence number wire n; arrivals within
      HALF of the newest accepted index: the half-range hypothesis of C08); the ghost g records the
      newest accepted index and the set of accepted indices and GI ties it to the connection's
      window.  For every event of every history: the ghost is preserved (unchanged, or extended by
      the index just accepted) and each emitted header h satisfies
         hdr_acks (h_ack h) (h_ackbits h) (wire i) = true  ->  i was accepted and is within 32 of the newest.
      Together with 1 (the sender reports success only for a pending datagram named by an authentic
      header of the peer) this is "a send callback reports success only after the peer endpoint has
      accepted the datagram(s) carrying the message". *)
Theorem C07_acks_name_accepted : forall e c x n g c' o,
  GI c g ->
  (forall d, dgram_of x = Some d -> h_seq (d_hdr d) = wire n /\ 1 <= n /\ near g n) ->
  step e c x = (c', o) ->
  exists g', GI c' g' /\ (g' = g \/ g' = ghost_add g n) /\ Forall (names_accepted g') (emits o).
Proof. exact step_ghost. Qed.
Print Assumptions C07_acks_name_accepted.

Theorem C07_ghost_fresh : forall b, GI (conn0 b) None.
Proof. intros b. reflexivity. Qed.
Print Assumptions C07_ghost_fresh.

(* ---- begin block: two-endpoint composition (Model/Net.v + Net2.v, Proofs/AckNetP.v) ---- *)
From Coq Require Import Lia.
From RecordUpdate Require Import RecordUpdate.
From Model Require Import Net Net2.
From Proofs Require Import AckNetP.
Import RecordSetNotations.

(* 5. "Success means accepted" as ONE theorem over joint histories of the two endpoints A (the
      sender whose callbacks are observed) and B (its peer).  1 and 4 above are its two halves;
      here they are composed.  A joint history is a list of labelled endpoint events (Net2.lev):
      events of A and of B in any interleaving; the network and the attacker are the choice of the
      datagram each receive event carries (loss, duplication, reordering, delay, replay, injection
      of anything the endpoint cannot open).  The ghost state G (Net2.gnet, a function of the
      history) numbers the datagrams: g_nA = how many sequence numbers A has consumed, g_AB = the
      datagrams A put on the wire with their indices (map snd = Net.wAB), g_B / g_accB = the
      indices / the datagrams B has accepted, g_BA = the datagrams B put on the wire, each with the
      value g_B had when it was built (map snd = Net.wBA).
      Schedule hypotheses, per event (Net2.wf2_ev):
       (auth)  whatever an endpoint opens (Net2.opens: under the session key it holds; while it holds
               none, a clear hello — the handshake is not interfered with) was put on the wire by the
               other endpoint; for B, as the index l the event is labelled with;
       (near)  that index is within HALF of the newest index B has accepted (C08's half-range
               hypothesis);
       (fresh) a B-datagram A opens was built when B's newest accepted index m satisfied
               g_nA - m <= FRESH = RING - 33 = 65502 (no ack header staler than that is replayed to
               A; 65502 is exact for this arithmetic: the header names indices m-32..m and pending
               indices are within RING - 2 of g_nA.  A header built before B accepted anything carries
               ack = 0, which _handle_ack_bits reads as sequence number 65535: then g_nA < RING);
       A's application keeps the connection open and does not reconfigure message time-out / send
       interval (ev_open2, as in 3).
      The joint invariant J S K G (Proofs/AckNetP.v; S = lower bound of A's send interval, message
      time-out < (RING-1) * S as in 3) holds of the initial pair — through the handshake — and is
      preserved by every event of every such history. *)
Theorem C07_joint_invariant_fresh : forall S, 0 < S -> S <= 256 -> TICKS < (RING - 1) * S -> J S 0 gnet0.
Proof. exact J_gnet0. Qed.
Print Assumptions C07_joint_invariant_fresh.

Theorem C07_joint_invariant : forall e S K vs G, J S K G -> wf2_run e G vs -> J S K (grun e G vs).
Proof. exact J_run. Qed.
Print Assumptions C07_joint_invariant.

(*    Every pending datagram that a step of A resolves as acknowledged (it is pending when the
      datagram d reaches _recv_datagram in state a0, A opens d, and d's (ack, ack_bits) name its
      sequence number s) is a datagram index i of A that B HAS ACCEPTED before that moment, and the
      datagram dA that A put on the wire as index i (h_seq = wire i = s) is one B has accepted. *)
Theorem C07_acked_means_accepted : forall e S K G vs x l a0 d,
  J S K G -> wf2_run e G (vs ++ [(NA x, l)]) ->
  let G' := grun e G vs in
  pre_recv (nA (g_net G')) x = Some (a0, d) -> opens a0 d = true ->
  forall s t, In (s, t) (c_packs a0) ->
    hdr_acks (h_ack (d_hdr d)) (h_ackbits (d_hdr d)) s = true ->
    exists i dA, s = wire i /\ 1 <= i <= g_nA G' /\ In i (idx_acc (g_B G')) /\
                 In (i, dA) (g_AB G') /\ h_seq (d_hdr dA) = s /\ In dA (g_accB G').
Proof. exact acked_means_accepted. Qed.
Print Assumptions C07_acked_means_accepted.

(*    Whenever a step of A reports success for callback id (OCallback id true among its outputs), it
      is processing a datagram d it opens; the callback object k that reports to id (cb_for: the
      user callback itself, plain or wrapped by a RetrySender, or the collector of a fragmented
      message) is registered in pending_callbacks for a pending datagram (s, t) that d's ack fields
      name; that datagram is index i of A, was put on the wire as dA (an element of Net.wAB), and B
      HAS ACCEPTED dA before this moment. *)
Theorem C07_success_means_accepted : forall e S K G vs x l a' o id,
  0 <= e_max_payload e -> J S K G -> Inc (nA (g_net G)) -> wf2_run e G (vs ++ [(NA x, l)]) ->
  let G' := grun e G vs in
  step e (nA (g_net G')) x = (a', o) -> In (OCallback id true) o ->
  exists a0 d s t ks k i dA,
    pre_recv (nA (g_net G')) x = Some (a0, d) /\ opens a0 d = true /\
    In (s, t) (c_packs a0) /\ hdr_acks (h_ack (d_hdr d)) (h_ackbits (d_hdr d)) s = true /\
    dget s (c_pcbs a0) = Some ks /\ In k ks /\ cb_for k id /\
    s = wire i /\ 1 <= i <= g_nA G' /\ In i (idx_acc (g_B G')) /\
    In (i, dA) (g_AB G') /\ In dA (wAB (g_net G')) /\ h_seq (d_hdr dA) = s /\ In dA (g_accB G').
Proof. exact success_registered_accepted. Qed.
Print Assumptions C07_success_means_accepted.

(*    The resolution counter: whenever a step of A counts a datagram as acknowledged (stats.acked
      goes up), A is processing a datagram it opens, every pending datagram that d names has been
      accepted by B (acked_accepted, the statement of C07_acked_means_accepted), and there is one. *)
Theorem C07_ack_counted_means_accepted : forall e S K G vs x l a' o,
  J S K G -> wf2_run e G (vs ++ [(NA x, l)]) ->
  let G' := grun e G vs in
  step e (nA (g_net G')) x = (a', o) -> c_acked (nA (g_net G')) < c_acked a' ->
  exists a0 d s t i dA,
    pre_recv (nA (g_net G')) x = Some (a0, d) /\ opens a0 d = true /\ acked_accepted G' a0 d /\
    In (s, t) (c_packs a0) /\ hdr_acks (h_ack (d_hdr d)) (h_ackbits (d_hdr d)) s = true /\
    s = wire i /\ In i (idx_acc (g_B G')) /\ In (i, dA) (g_AB G') /\ h_seq (d_hdr dA) = s /\ In dA (g_accB G').
Proof. exact ack_counted_means_accepted. Qed.
Print Assumptions C07_ack_counted_means_accepted.

(*    Short sessions: while A has consumed at most HALF + 1 = 32768 sequence numbers, (near) and
      (fresh) hold by themselves — (auth) alone (Net2.auth_ev) is enough. *)
Theorem C07_short_sessions : forall e S K vs G, J S K G -> auth_run e G vs -> wf2_run e G vs.
Proof. exact auth_run_wf2. Qed.
Print Assumptions C07_short_sessions.

(* non-vacuity, through the handshake from the initial pair: A says hello, B answers, A sends the
   challenge response and is connected, B is connected; A sends "AB" with callback 5 (datagram
   index 3); B accepts it and hands "AB" to its application; B's next keep-alive (ack = 3, both
   older bits set) reaches A -> callback 5 fires with True.  Every hypothesis of the theorems holds
   of this history. *)
Definition env_n : env := {| e_max_payload := 1434; e_max_frag := 1024; e_max_frags := 8192 |}.
Definition orc_n : hs_oracle :=
  {| o_parse := 0; o_version_ok := true; o_token := 99; o_key := 7; o_reply := [x0a; x0b]; o_temp_token := Some 99 |}.
Definition dg_none : dgram := {| d_hdr := Build_header true 0 0 0 APP 0 0 0; d_body := Bad |}.
Definition lastAB (G : gnet) : dgram := last (wAB (g_net G)) dg_none.
Definition lastBA (G : gnet) : dgram := last (wBA (g_net G)) dg_none.
Definition lastgB (G : gnet) : idxset := fst (last (g_BA G) (None, dg_none)).
Definition hn1 : list lev := [(NA (EClientHello 1000 [x01; x02]), 0); (NA (EClientTick 2000 RxNone), 0)].
Definition Gn1 := grun env_n gnet0 hn1.
Definition hn2 : list lev := [(NB (ERecv 3000 (lastAB Gn1) [orc_n]), 1); (NB (EServerTick 4000), 0)].
Definition Gn2 := grun env_n Gn1 hn2.
Definition hn3 : list lev := [(NA (EClientTick 5000 (RxDgram (lastBA Gn2) [orc_n])), 0)].
Definition Gn3 := grun env_n Gn2 hn3.
Definition hn4 : list lev :=
  [(NB (ERecv 6000 (lastAB Gn3) [orc_n]), 2); (NA (ESend [x41; x42] RNone (IUser 5)), 0); (NA (EClientTick 7000 RxNone), 0)].
Definition Gn4 := grun env_n Gn3 hn4.
Definition hn5 : list lev := [(NB (ERecv 8000 (lastAB Gn4) []), 3); (NB (EServerTick 9000), 0)].
Definition Gn5 := grun env_n Gn4 hn5.
Definition xn6 : ev := EClientTick 10000 (RxDgram (lastBA Gn5) []).
Definition hn : list lev := hn1 ++ hn2 ++ hn3 ++ hn4 ++ hn5.

Ltac ev_goal := let d := fresh "d" in let Hd := fresh "Hd" in intros d Hd;
  match type of Hd with
  | dgram_in (ERecv _ ?D _) = _ => intros _; cbn [dgram_in] in Hd; assert (d = D) as -> by congruence; clear Hd
  | dgram_in (EClientTick _ (RxDgram ?D _)) = _ => intros _; cbn [dgram_in] in Hd; assert (d = D) as -> by congruence; clear Hd
  | _ => cbn [dgram_in] in Hd; discriminate Hd
  end.
Ltac fin_goal := match goal with
  | |- exists g, In (g, _) (g_BA ?G) => exists (lastgB G); vm_compute; auto 10
  | |- In _ _ => vm_compute; auto 10
  end.

Example C07_success_means_accepted_example :
  J 256 0 gnet0 /\ Inc (nA (g_net gnet0)) /\
  auth_run env_n gnet0 (hn ++ [(NA xn6, 0)]) /\ wf2_run env_n gnet0 (hn ++ [(NA xn6, 0)]) /\
  grun env_n gnet0 hn = Gn5 /\
  c_status (nA (g_net Gn5)) = CONNECTED /\ c_status (nB (g_net Gn5)) = CONNECTED /\
  c_key (nA (g_net Gn5)) = Some 7 /\ c_key (nB (g_net Gn5)) = Some 7 /\
  c_packs (nA (g_net Gn5)) = [(2, 5000); (3, 7000)] /\
  filter (fun o => match o with OCallback _ _ => true | _ => false end) (snd (step env_n (nA (g_net Gn5)) xn6))
    = [OCallback 5 true] /\
  g_nA Gn5 = 3 /\ g_B Gn5 = Some (3, [3; 2; 1]) /\ In (3, lastAB Gn4) (g_AB Gn5) /\ In (lastAB Gn4) (g_accB Gn5) /\
  dlvB (g_net Gn5) = [[x41; x42]].
Proof.
  assert (HJ : J 256 0 gnet0) by (apply J_gnet0; [reflexivity|intro H; discriminate H|reflexivity]).
  assert (HA : auth_run env_n gnet0 (hn ++ [(NA xn6, 0)])).
  { unfold hn, hn1, hn2, hn3, hn4, hn5, xn6. cbn [app auth_run auth_ev ev_open2].
    repeat match goal with |- _ /\ _ => split end; try exact I;
      try (match goal with |- _ <= _ => vm_compute; discriminate end).
    all: ev_goal. all: fin_goal. }
  split; [exact HJ|]. split; [constructor|]. split; [exact HA|]. split; [exact (auth_run_wf2 _ _ _ _ _ HJ HA)|].
  split; [vm_compute; reflexivity|]. vm_compute. repeat split; auto 10.
Qed.

(* The (fresh) hypothesis cannot be dropped: with (auth) and (near) only — every datagram opened
   was genuinely emitted by the peer, so this is a STALE, not a forged, ack field — the clause is
   false in the faithful model.  Sequence numbers are 16 bit: an ack header built when B's newest
   accepted index was m names the wire numbers of m-32..m, which are also the wire numbers of
   m+65535-32..m+65535.  Witness: the joint state reached by the handshake example above, with A
   later in its session (65537 sequence numbers consumed, nothing pending — J holds of it: J_with_A);
   B has accepted A's indices 1,2,3 and nothing since (A -> B traffic lost).  A sends "C" with
   callback 9: datagram index 65538, wire number 3.  B's next keep-alive honestly says ack = 3;
   A opens it and reports callback 9 = True, although B never received index 65538 and "C" was
   never handed to B's application.  (The state is given directly rather than reached by a
   65 534-step history; on the real endpoints the situation needs A to emit 65 535 datagrams —
   18 minutes at the default 60 Hz — while its own datagrams are lost and it keeps hearing acks
   with the old ack field: from a peer whose liveness time-out does not fire, or from an attacker
   replaying one recorded datagram of B that is more than 32 behind A's receive window, which
   BitField.insert accepts every time, cf. known finding D16.) *)
Definition Gn6 := gstep env_n Gn5 (NA xn6, 0).
Definition a_late : conn := (nA (g_net Gn6)) <| c_seq_send := 2 |> <| c_packs := [] |> <| c_pcbs := [] |>.
Definition G_late : gnet := with_A Gn6 a_late 65537.
Definition hl1 : list lev :=
  [(NA (ESend [x43] RNone (IUser 9)), 0); (NA (EClientTick 11000 RxNone), 0); (NB (EServerTick 12000), 0)].
Definition Gl1 := grun env_n G_late hl1.
Definition xl2 : ev := EClientTick 13000 (RxDgram (lastBA Gl1) []).

Theorem C07_stale_ack_refuted : exists G vs x,
  J 256 (-1) G /\ Inc (nA (g_net G)) /\ nofresh_run env_n G (vs ++ [(NA x, 0)]) /\
  In (OCallback 9 true) (snd (step env_n (nA (g_net (grun env_n G vs))) x)) /\
  g_nA (grun env_n G vs) = 65538 /\ c_packs (nA (g_net (grun env_n G vs))) = [(3, 11000)] /\ wire 65538 = 3 /\
  idx_acc (g_B (grun env_n G vs)) = [3; 2; 1] /\
  sentA (g_net (grun env_n G vs)) = [[x43]; [x41; x42]] /\ dlvB (g_net (grun env_n G vs)) = [[x41; x42]].
Proof.
  exists G_late, hl1, xl2.
  destruct C07_success_means_accepted_example as (HJ0 & _ & _ & Hwf & _).
  assert (HJ6 : J 256 0 Gn6).
  { replace Gn6 with (grun env_n gnet0 (hn ++ [(NA xn6, 0)])) by (vm_compute; reflexivity). exact (J_run _ _ _ _ _ HJ0 Hwf). }
  assert (HAl : AInv 256 (-1) a_late 65537).
  { (assert (E1 : c_packs a_late = []) by (vm_compute; reflexivity)).
    split; [constructor|unfold purged; rewrite E1; constructor].
    - lia.
    - (vm_compute; reflexivity).
    - (replace (c_send_interval a_late) with 256 by (vm_compute; reflexivity)). clear; lia.
    - clear; lia.
    - (replace (c_out_timeout a_late) with 15360 by (vm_compute; reflexivity)). clear; unfold RING; lia.
    - rewrite E1. constructor.
    - rewrite E1. constructor.
    - (vm_compute; reflexivity). }
  split; [apply (J_with_A 256 0 (-1) Gn6 a_late 65537 HJ6 HAl); vm_compute; discriminate|].
  split; [(vm_compute; constructor)|].
  split.
  { unfold hl1, xl2. cbn [app nofresh_run nofresh_ev ev_open2].
    repeat match goal with |- _ /\ _ => split end; try exact I.
    all: ev_goal. all: fin_goal. }
  (vm_compute; repeat split; auto 10).
Qed.
Print Assumptions C07_stale_ack_refuted.
(* ---- end block: two-endpoint composition ---- *)

(* ---- begin block: message level (Model/Net3.v, Proofs/MsgSendP.v MsgRecvP.v MsgNetP.v) ---- *)
From Model Require Import RecvHist Net3.
From Proofs Require Import RecvHistP MsgRecvP MsgSendP MsgFragP MsgNetP.

(* 5m. "Success means the WHOLE MESSAGE was handed to the peer application", for unfragmented
      messages, as ONE theorem over joint histories of the two endpoints.  Net3 adds to Net2's ghost:
        m_sent  every (payload, id) the application of A passed to send() with a user callback id;
        m_st    B's message window over true message indices (C04's RecvHist.wstate, the specification
                of the 256-bit window c_bf_msg) and, for every index that got past it, the (type,
                payload) of the message processed under that index;
      and labels each event with a list js of message indices: when B accepts a datagram, js are the
      sender's true (unbounded) message indices of the messages dg_msgs d of that datagram.
      Schedule hypotheses per event (Net3.wf3_ev): Net2's (auth), (near), (fresh), and
       for A: the application passes a user callback or none to send() (payloads of ANY size and
              retry mode: fragmented sends may be interleaved);
       for B, when it accepts a datagram, message by message (Net3.mwf):
         (label)    the wire number of the message is wire j, j >= 1;
         (msg-near) j is within HALF of the newest message index B has processed (C08's half-range
                    hypothesis for the message window);
         (truthful) a message labelled j carries the (type, payload) processed under j before (labels
                    are the sender's message indices: a RetrySender copy is byte-identical — part of
                    the sender invariant below — and different messages have different indices);
         (no-raise) if the datagram carries a handshake-typed message (has_hs): processing it raises
                    no exception (recv_msgs stops at the first exception: a handshake message whose
                    verification fails hides the messages behind it in the same datagram — 5m.7 shows
                    this hypothesis cannot be dropped).  Datagrams of A without handshake messages never
                    raise: part of the invariant is that every fragment A emits carries its 6-byte header.
      The joint invariant J3 S K M = Net2's J + Inc +
        sender   every message A keeps (queue, re-send store) and every RetrySender it has registered
                 satisfies QmS: a user callback IUser id sits on an APP message whose payload p was
                 passed to send() with id ((p, id) in m_sent), plain or wrapped (the wrapper carries
                 the same message sequence number, type and payload: what it re-queues on time-out is
                 that message); every key of pending_callbacks is a pending datagram; and (CInv) for
                 every datagram (i, dA) on the wire with a recent index, the callbacks registered for
                 wire i belong to messages dA carries (5m.3);
        receiver the window ghost refines c_bf_msg (RecvHistP.W), every index let through has a record,
                 every APP payload recorded — and every APP message of every datagram B has accepted
                 (g_accB) — is in dlvB (handed to B's application).
      It holds initially — through the handshake — and is preserved by every event. *)
Theorem C07_msg_invariant_fresh : forall S, 0 < S -> S <= 256 -> TICKS < (RING - 1) * S -> J3 S 0 mnet0.
Proof. exact J3_mnet0. Qed.
Print Assumptions C07_msg_invariant_fresh.

Theorem C07_msg_invariant : forall e S K vs M, 0 <= e_max_payload e -> J3 S K M -> wf3_run e M vs -> J3 S K (mrun e M vs).
Proof. exact J3_run. Qed.
Print Assumptions C07_msg_invariant.

(* 5m.3 (a) the sender's custody link: a user callback (plain, or wrapped by a RetrySender) registered
      in pending_callbacks for the sequence number of a recent datagram dA on the wire travels with an
      APP message INSIDE dA whose payload is the one the application passed to send() with that id *)
Theorem C07_sender_custody : forall M i dA ks k id,
  SInv M -> In (i, dA) (g_AB (m_g M)) -> g_nA (m_g M) - i < RING - 1 ->
  dget (wire i) (c_pcbs (nA (g_net (m_g M)))) = Some ks -> In k ks -> cb_user k id ->
  exists w, In w (dg_msgs dA) /\ w_type w = APP /\ In (w_payload w, id) (m_sent M).
Proof. exact custody_meaning. Qed.
Print Assumptions C07_sender_custody.

(* 5m.4 (b) the receiver at message level (also C04/C05's receiver half): processing the messages ws
      of an accepted datagram, labelled js as above, without exception: the window ghost is
      maintained, and every APP message of the datagram is appended to incoming_messages in this very
      call — or its index had been let through before, recorded with this very (type, payload) *)
Theorem C07_receiver_delivers : forall ws js c now orcs st c' o,
  length js = length ws -> W 256 (c_bf_msg c) (fst st) -> recorded st -> mwf st (combine ws js) ->
  recv_msgs c now ws orcs = (c', o) -> raised o = false ->
  let st' := fold_left mrec (combine ws js) st in
  W 256 (c_bf_msg c') (fst st') /\ recorded st' /\
  exists extra, c_incoming c' = c_incoming c ++ extra /\
    (forall j c0, In (j, c0) (snd st') ->
       In (j, c0) (snd st) \/
       exists w, In w ws /\ content w = c0 /\ (w_type w = APP -> In (w_payload w) (map snd extra))) /\
    (forall w, In w ws -> w_type w = APP ->
       In (w_payload w) (map snd extra) \/ exists j, In (j, content w) (snd st)).
Proof. exact recv_msgs_deliver. Qed.
Print Assumptions C07_receiver_delivers.

(*      ... and a datagram without handshake-typed messages whose fragments carry their 6-byte header
      is processed without exception (so (no-raise) speaks about handshake-carrying datagrams only) *)
Theorem C07_no_handshake_no_exception : forall ws c now orcs c' o,
  has_hs ws = false -> Forall frag_ok ws -> recv_msgs c now ws orcs = (c', o) -> raised o = false.
Proof. exact recv_msgs_noraise. Qed.
Print Assumptions C07_no_handshake_no_exception.

(*      Fragmented sends: a fragment-sender context in pending_fragments holding user callback id only
      ever comes from a send() of an oversized payload with that id (PFInv: holds initially, preserved
      by EVERY event, no hypothesis). *)
Theorem C07_frag_contexts_from_big_sends : forall e vs M,
  PFInv e mnet0 /\ (PFInv e M -> PFInv e (mrun e M vs)).
Proof. intros e vs M. split; [apply PFInv_mnet0|apply PFInv_run]. Qed.
Print Assumptions C07_frag_contexts_from_big_sends.

(* 5m.5 (c) THE theorem: whenever a step of A reports success for callback id, then EITHER id was passed
      to send() with a payload that needs fragmenting (big_id: the report comes from the collector of a
      fragmented send — not covered here), OR (delivered_as) a payload p that A's application passed to
      send() together with id HAS BEEN HANDED to B's application before this moment (p in dlvB): it
      travelled as an APP message w of a datagram dA that A put on the wire as index i and that B has
      accepted. *)
Theorem C07_success_means_delivered : forall e S K M vs x l js a' o id,
  0 <= e_max_payload e -> J3 S K M -> PFInv e M -> wf3_run e M (vs ++ [((NA x, l), js)]) ->
  let M' := mrun e M vs in
  step e (nA (g_net (m_g M'))) x = (a', o) -> In (OCallback id true) o ->
  (exists p, In (p, id) (m_sent M') /\ len p > e_max_payload e) \/
  exists p i dA w,
    In (p, id) (m_sent M') /\ In p (dlvB (g_net (m_g M'))) /\
    In (i, dA) (g_AB (m_g M')) /\ In dA (wAB (g_net (m_g M'))) /\ In dA (g_accB (m_g M')) /\
    In w (dg_msgs dA) /\ w_type w = APP /\ w_payload w = p.
Proof. exact success_means_delivered. Qed.
Print Assumptions C07_success_means_delivered.

(* 5m.6 ... and if the application does not reuse callback ids: THE payload p passed with id in an
      UNFRAGMENTED send (len p <= e_max_payload) has been handed to B's application *)
Theorem C07_success_means_delivered_unique : forall e S K M vs x l js a' o id p,
  0 <= e_max_payload e -> J3 S K M -> PFInv e M -> wf3_run e M (vs ++ [((NA x, l), js)]) ->
  let M' := mrun e M vs in
  NoDup (map snd (m_sent M')) -> In (p, id) (m_sent M') -> len p <= e_max_payload e ->
  step e (nA (g_net (m_g M'))) x = (a', o) -> In (OCallback id true) o ->
  In p (dlvB (g_net (m_g M'))).
Proof. exact success_means_delivered_unique. Qed.
Print Assumptions C07_success_means_delivered_unique.

(* non-vacuity, from the initial pair through the handshake (the history of
   C07_success_means_accepted_example with message labels: B's accepted datagrams carry message 1
   (CLIENT_HELLO), 2 (CHALLENGE_RESP), 3 (APP "AB")): every hypothesis holds, callback 5 fires with
   True, and "AB" is in dlvB *)
Definition lab (js : list (list Z)) (vs : list lev) : list lev3 := combine vs js.
Definition hm1 := lab [[]; []] hn1.
Definition hm2 := lab [[1]; []] hn2.
Definition hm3 := lab [[]] hn3.
Definition hm4 := lab [[2]; []; []] hn4.
Definition hm5 := lab [[3]; []] hn5.
Definition hm := hm1 ++ hm2 ++ hm3 ++ hm4 ++ hm5.
Definition Mn5 := mrun env_n mnet0 hm.

Ltac mwf_goal :=
  repeat match goal with
  | |- _ /\ _ => split
  | |- True => exact I
  | |- _ = _ => reflexivity
  | |- _ <= _ => (vm_compute; discriminate)
  | |- _ = Gt -> False => let H := fresh in intro H; discriminate H
  | |- forall c, _ -> _ => let c := fresh "c" in let H := fresh "H" in intros c H; vm_compute in H;
        repeat (destruct H as [H|H]; [try discriminate H; try congruence|]); try destruct H
  end.

Ltac msg_goal :=
  match goal with
  | |- user_x _ => exact I
  | |- forall d, accepts ?C ?X = Some d -> _ =>
      let d := fresh "d" in let Hd := fresh "Hd" in intros d Hd;
      let r := eval vm_compute in (accepts C X) in
      match r with
      | None => exfalso; assert (Hn : accepts C X = None) by (vm_compute; reflexivity); congruence
      | Some ?D => assert (Hs : accepts C X = Some D) by (vm_compute; reflexivity);
                   assert (d = D) as -> by congruence; clear Hd Hs
      end
  end.


Example C07_success_means_delivered_example :
  J3 256 0 mnet0 /\ wf3_run env_n mnet0 (hm ++ [((NA xn6, 0), [])]) /\
  m_g Mn5 = Gn5 /\ m_sent Mn5 = [([x41; x42], 5)] /\
  m_st Mn5 = (Some (3, [3; 2; 1]), [(3, (APP, [x41; x42])); (2, (CHALLENGE_RESP, [x0a; x0b])); (1, (CLIENT_HELLO, [x01; x02]))]) /\
  dg_msgs (lastAB Gn4) = [{| w_seq := 3; w_type := APP; w_payload := [x41; x42] |}] /\
  In (OCallback 5 true) (snd (step env_n (nA (g_net (m_g Mn5))) xn6)) /\
  dlvB (g_net (m_g Mn5)) = [[x41; x42]].
Proof.
  split; [apply J3_mnet0; [reflexivity|intro H; discriminate H|reflexivity]|].
  split.
  { apply wf3x_run_split. split.
    - replace (map fst (hm ++ [(NA xn6, 0, [])])) with (hn ++ [(NA xn6, 0)]) by (vm_compute; reflexivity).
      destruct C07_success_means_accepted_example as (_ & _ & _ & Hwf & _); exact Hwf.
    - unfold hm, hm1, hm2, hm3, hm4, hm5, lab, hn1, hn2, hn3, hn4, hn5. cbn [combine app msg_run].
      repeat match goal with |- _ /\ _ => split | |- True => exact I end.
      all: unfold msg_ev; cbn [fst snd].
      all: msg_goal.
      all: try (split; [vm_compute; reflexivity|split; [|intros _ _; vm_compute; reflexivity]]).
      all: vm_compute; mwf_goal. }
  vm_compute. repeat split; auto 10.
Qed.


(* 5m.7 The (no-raise) hypothesis cannot be dropped from a state satisfying the invariant.  Witness: the
      state after B's SERVER_HELLO in the history above, with B's status CONNECTED (J3 does not look at
      it: J3_with_B).  The SERVER_HELLO reaches A less than a send interval after its hello, so the
      CHALLENGE_RESP stays queued; the application sends "AB" with callback 5; A's next datagram
      (index 2) carries [CHALLENGE_RESP; APP "AB"].  B accepts it, the challenge response does not
      verify (oracle answer: ValueError), _recv_datagram raises and "AB" is never looked at; B's
      keep-alive acknowledges datagram 2 and callback 5 reports True with dlvB = [].  (From the
      INITIAL pair such a B never becomes CONNECTED — only a verified challenge response makes it so —
      and then emits nothing that could acknowledge; not reachable on the real endpoints.) *)
Definition orc_bad : hs_oracle :=
  {| o_parse := 1; o_version_ok := true; o_token := 99; o_key := 7; o_reply := [x0a; x0b]; o_temp_token := Some 99 |}.
Definition Mn2 := mrun env_n mnet0 (hm1 ++ hm2).
Definition M_w : mnet := with_B Mn2 ((nB (g_net (m_g Mn2))) <| c_status := CONNECTED |>).
Definition lastABm (M : mnet) : dgram := lastAB (m_g M).
Definition lastBAm (M : mnet) : dgram := lastBA (m_g M).
Definition hw1 : list lev3 :=
  [((NA (EClientTick 2100 (RxDgram (lastBAm M_w) [orc_n])), 0), []);
   ((NA (ESend [x41; x42] RNone (IUser 5)), 0), []);
   ((NA (EClientTick 3000 RxNone), 0), [])].
Definition Mw1 := mrun env_n M_w hw1.
Definition hw2 : list lev3 := [((NB (ERecv 6000 (lastABm Mw1) [orc_bad]), 2), [2; 3]); ((NB (EServerTick 7000), 0), [])].
Definition Mw2 := mrun env_n Mw1 hw2.
Definition xw3 : ev := EClientTick 8000 (RxDgram (lastBAm Mw2) []).

Theorem C07_delivered_needs_noraise_refuted : exists M vs x,
  J3 256 0 M /\ noraise_free_run env_n M (vs ++ [((NA x, 0), [])]) /\
  In (OCallback 5 true) (snd (step env_n (nA (g_net (m_g (mrun env_n M vs)))) x)) /\
  m_sent (mrun env_n M vs) = [([x41; x42], 5)] /\ dlvB (g_net (m_g (mrun env_n M vs))) = [] /\
  snd (step env_n (nB (g_net (m_g Mw1))) (ERecv 6000 (lastABm Mw1) [orc_bad])) = [ORaise EValue].
Proof.
  exists M_w, (hw1 ++ hw2), xw3.
  destruct C07_success_means_delivered_example as (HJ0 & Hwf & _).
  assert (HJw : J3 256 0 M_w).
  { apply (J3_with_B_status 256 0 Mn2 CONNECTED).
    assert (W2 : wf3_run env_n mnet0 (hm1 ++ hm2)).
    { unfold hm in Hwf. rewrite <- !app_assoc in Hwf. rewrite (app_assoc hm1 hm2) in Hwf. apply wf3_run_app in Hwf as [W _]. exact W. }
    (apply (J3_run env_n 256 0 (hm1 ++ hm2) mnet0); [vm_compute; discriminate|exact HJ0|exact W2]). }
  split; [exact HJw|]. split.
  { apply wf3x_run_split. split.
    - (apply (auth_run_wf2 _ 256 0); [apply HJw|]).
      unfold hw1, hw2, xw3. cbn [map fst app auth_run auth_ev ev_open2].
      (repeat match goal with |- _ /\ _ => split end; try exact I;
        try (match goal with |- _ <= _ => vm_compute; discriminate end)).
      all: ev_goal. all: fin_goal.
    - unfold hw1, hw2. cbn [app msg_run].
      repeat match goal with |- _ /\ _ => split | |- True => exact I end.
      all: unfold msg_ev; cbn [fst snd].
      all: msg_goal.
      all: try (split; [vm_compute; reflexivity|split; [|intros H; discriminate H]]).
      all: vm_compute; mwf_goal. }
  vm_compute. repeat split; auto 10.
Qed.
Print Assumptions C07_delivered_needs_noraise_refuted.

(* 5m.8 Short sessions: the hypotheses on B's message labels hold by themselves.  The sender's half:
      A gives its j-th message the sequence number wire j and every copy of it — in the queue, in the
      re-send store, inside a RetrySender, in any datagram on the wire — carries the (type, payload)
      of the j-th message (ghost table T, MsgSeqP.TInv: it holds initially and is preserved together
      with J3).  So while A has created at most HALF messages (stats.sent <= HALF) and consumed at
      most HALF + 1 datagram numbers, with every message B processes labelled by its OWN wire number
      (js = map w_seq (dg_msgs d)), (label), (msg-near), (truthful) and — as in C07_short_sessions —
      (near), (fresh) are automatic: (auth), (no-raise) and user callbacks (short3_ev) suffice. *)
From Proofs Require Import MsgSeqP.

Theorem C07_msg_table_fresh : TInv mnet0.
Proof. exact TInv_mnet0. Qed.
Print Assumptions C07_msg_table_fresh.

Theorem C07_short_sessions_msg : forall e S K vs M,
  0 <= e_max_payload e -> J3 S K M -> TInv M -> short3_run e M vs ->
  wf3_run e M vs /\ J3 S K (mrun e M vs) /\ TInv (mrun e M vs).
Proof.
  intros e S K vs M He HJ HT Hs. split; [eapply short3_run_wf3; eassumption|eapply short3_run_inv; eassumption].
Qed.
Print Assumptions C07_short_sessions_msg.

Theorem C07_short_success_means_delivered : forall e S K M vs x l js a' o id,
  0 <= e_max_payload e -> J3 S K M -> PFInv e M -> TInv M -> short3_run e M (vs ++ [((NA x, l), js)]) ->
  let M' := mrun e M vs in
  step e (nA (g_net (m_g M'))) x = (a', o) -> In (OCallback id true) o ->
  (exists p, In (p, id) (m_sent M') /\ len p > e_max_payload e) \/
  exists p i dA w,
    In (p, id) (m_sent M') /\ In p (dlvB (g_net (m_g M'))) /\
    In (i, dA) (g_AB (m_g M')) /\ In dA (wAB (g_net (m_g M'))) /\ In dA (g_accB (m_g M')) /\
    In w (dg_msgs dA) /\ w_type w = APP /\ w_payload w = p.
Proof. exact short_success_means_delivered. Qed.
Print Assumptions C07_short_success_means_delivered.

(*    ... the sender half spelled out on the wire: two messages with the same message sequence number
      in datagrams A has emitted are the same message (a retransmitted copy carries the SAME number
      and the SAME payload; different messages carry different numbers) *)
Theorem C07_retransmission_same : forall M i d w i' d' w',
  TInv M -> c_sent (nA (g_net (m_g M))) <= HALF ->
  In (i, d) (g_AB (m_g M)) -> In w (dg_msgs d) -> In (i', d') (g_AB (m_g M)) -> In w' (dg_msgs d') ->
  w_seq w = w_seq w' -> w_type w = w_type w' /\ w_payload w = w_payload w'.
Proof. exact retransmission_same. Qed.
Print Assumptions C07_retransmission_same.

(* non-vacuity: the handshake history above, labelled with the wire numbers, is a short session *)
Example C07_short_sessions_msg_example :
  TInv mnet0 /\ short3_run env_n mnet0 (hm ++ [((NA xn6, 0), [])]).
Proof.
  split; [exact TInv_mnet0|].
  unfold hm, hm1, hm2, hm3, hm4, hm5, lab, hn1, hn2, hn3, hn4, hn5, xn6. cbn [combine app short3_run].
  unfold short3_ev. cbn [fst snd auth_ev ev_open2].
  repeat match goal with |- _ /\ _ => split | |- True => exact I end;
    try (match goal with |- _ <= _ => vm_compute; discriminate end).
  all: try (msg_goal; try (split; [vm_compute; reflexivity|intros _; vm_compute; reflexivity])).
  all: ev_goal. all: fin_goal.
Qed.

(* non-vacuity of the duplicate branch: a guaranteed send ("AB", callback 5, message number 3) goes out
   in datagram 3, which B accepts and delivers; B's acknowledgement is lost; a keep-alive interval
   later the re-send store puts a copy — SAME message number 3, same payload — into datagram 4; B
   accepts datagram 4, its message window flags number 3 and nothing is delivered twice (the ghost
   does not change); B's keep-alive acknowledges 4 and 3, both registered for the same RetrySender:
   callback 5 reports True exactly once, and "AB" is in dlvB exactly once.  A short session. *)
Definition Mr3 := mrun env_n mnet0 (hm1 ++ hm2 ++ hm3).
Definition hr4 : list lev3 :=
  [((NB (ERecv 6000 (lastABm Mr3) [orc_n]), 2), [2]); ((NA (ESend [x41; x42] RTimeout (IUser 5)), 0), []);
   ((NA (EClientTick 7000 RxNone), 0), [])].
Definition Mr4 := mrun env_n Mr3 hr4.
Definition hr5 : list lev3 := [((NB (ERecv 8000 (lastABm Mr4) []), 3), [3]); ((NA (EClientTick 9000 RxNone), 0), [])].
Definition Mr5 := mrun env_n Mr4 hr5.
Definition hr6 : list lev3 := [((NB (ERecv 10000 (lastABm Mr5) []), 4), [3]); ((NB (EServerTick 11000), 0), [])].
Definition Mr6 := mrun env_n Mr5 hr6.
Definition xr7 : ev := EClientTick 12000 (RxDgram (lastBAm Mr6) []).
Definition hr : list lev3 := hm1 ++ hm2 ++ hm3 ++ hr4 ++ hr5 ++ hr6.

Example C07_retransmitted_copy_delivered_once_example :
  short3_run env_n mnet0 (hr ++ [((NA xr7, 0), [])]) /\
  dg_msgs (lastABm Mr4) = [{| w_seq := 3; w_type := APP; w_payload := [x41; x42] |}] /\
  dg_msgs (lastABm Mr5) = [{| w_seq := 3; w_type := APP; w_payload := [x41; x42] |}] /\
  h_seq (d_hdr (lastABm Mr4)) = 3 /\ h_seq (d_hdr (lastABm Mr5)) = 4 /\
  fst (m_st Mr5) = Some (3, [3; 2; 1]) /\ m_st Mr6 = m_st Mr5 /\
  dlvB (g_net (m_g Mr6)) = [[x41; x42]] /\ mrun env_n mnet0 hr = Mr6 /\
  filter (fun o => match o with OCallback _ _ => true | _ => false end) (snd (step env_n (nA (g_net (m_g Mr6))) xr7))
    = [OCallback 5 true].
Proof.
  split.
  { unfold hr, hm1, hm2, hm3, hr4, hr5, hr6, lab, hn1, hn2, hn3, xr7. cbn [combine app short3_run].
    unfold short3_ev. cbn [fst snd auth_ev ev_open2].
    repeat match goal with |- _ /\ _ => split | |- True => exact I end;
      try (match goal with |- _ <= _ => vm_compute; discriminate end).
    all: try (msg_goal; try (split; [vm_compute; reflexivity|intros _; vm_compute; reflexivity])).
    all: ev_goal. all: fin_goal. }
  vm_compute. repeat split; auto 10.
Qed.
(* ---- end block: message level ---- *)

(* Invariant used by 1 (fragment sender contexts kept in pending_fragments are never complete):
   it holds initially and is preserved by the callback machinery and the receive path. *)
Theorem C07_inc_fresh : forall b, Inc (conn0 b).
Proof. intros b. constructor. Qed.
Print Assumptions C07_inc_fresh.

(* 5. No send callback is invoked twice (the at-most-once half of "fires exactly once", per
      callback, over every history).  Callback invocations are the outputs `OCallback id ok`;
      `fired os` lists the ids of the callback outputs in os in order; `sent_ids xs` lists the ids
      `IUser id` the application hands over in xs (ESend and EDisconnect events).  For every env, every
      start state c satisfying the invariant CbInv (it holds of a fresh connection, 5b, and of every
      state reached, 5c) and EVERY event list xs — sends of any size and retry mode, ticks at any
      times, received datagrams of any kind incl. forged or stale ack fields, disconnect,
      reconfiguration, hello — if the application never reuses a callback id (the ids in xs are
      pairwise distinct and none of them is mentioned by a callback stored in c) then no id occurs
      twice among ALL callback outputs of the run: not twice True, not twice False, not once each.
      Covers unretried (RNone) and guaranteed (RTimeout) sends, single-datagram and fragmented, and
      fragmented best-effort sends.  The one restriction `ev_ok`: a best-effort (RBest) send that fits
      a single datagram must not carry a user callback — its plain callback is copied into the
      re-send store and fires once per transmitted copy (5e: refuted for those, on the real code too;
      the property text speaks of unretried and guaranteed sends only). *)
Theorem C07_callback_at_most_once : forall e xs c c' oss,
  CbInv c -> Forall (ev_ok e) xs -> NoDup (sent_ids xs) ->
  (forall id, In id (sent_ids xs) -> ~ CbKnown c id) ->
  run e c xs = (c', oss) -> NoDup (fired (concat oss)).
Proof. exact callback_at_most_once. Qed.
Print Assumptions C07_callback_at_most_once.

(* 5a. ... from a fresh connection object (client or server side) there is nothing else to assume *)
Theorem C07_callback_at_most_once_fresh : forall e b xs c' oss,
  Forall (ev_ok e) xs -> NoDup (sent_ids xs) ->
  run e (conn0 b) xs = (c', oss) -> NoDup (fired (concat oss)).
Proof. exact callback_at_most_once_fresh. Qed.
Print Assumptions C07_callback_at_most_once_fresh.

(* 5b. the invariant holds of a fresh connection, which mentions no callback id *)
Theorem C07_cbinv_fresh : forall b, CbInv (conn0 b) /\ forall id, ~ CbKnown (conn0 b) id.
Proof. exact cbinv_fresh. Qed.
Print Assumptions C07_cbinv_fresh.

(* 5c. ... it is preserved by every such history, the ids mentioned afterwards are ids mentioned
       before or handed over in between, and so are the ids reported (nothing is made up) *)
Theorem C07_cbinv_preserved : forall e xs c c' oss,
  CbInv c -> Forall (ev_ok e) xs -> NoDup (sent_ids xs) ->
  (forall id, In id (sent_ids xs) -> ~ CbKnown c id) ->
  run e c xs = (c', oss) ->
  CbInv c' /\ (forall id, CbKnown c' id -> CbKnown c id \/ In id (sent_ids xs)) /\
  (forall id, In id (fired (concat oss)) -> CbKnown c id \/ In id (sent_ids xs)).
Proof. exact cbinv_preserved. Qed.
Print Assumptions C07_cbinv_preserved.

(* 5d. what CbInv says, spelled out on the connection's fields: plain user callbacks (queued
       messages, pending datagrams, fragment-sender contexts) are pairwise distinct; messages kept
       for re-sending carry no plain user callback; RetrySender ids are below the counter and
       determine, and are determined by, the user callback they wrap, which is no plain one *)
Theorem C07_cbinv_meaning : forall c, CbInv c <->
  NoDup (pids (pend c) ++ pids (mcbs (c_outgoing c)) ++ fids (c_pfrags c)) /\
  pids (mcbs (map snd (c_pretry_msg c))) = [] /\
  Forall mok (c_outgoing c) /\
  (forall rid id, In (rid, id) (rps (pend c ++ mcbs (c_outgoing c) ++ mcbs (map snd (c_pretry_msg c)))) ->
     rid < c_next_rid c /\ ~ In id (pids (pend c) ++ pids (mcbs (c_outgoing c)) ++ fids (c_pfrags c))) /\
  (forall rid id rid' id',
     In (rid, id) (rps (pend c ++ mcbs (c_outgoing c) ++ mcbs (map snd (c_pretry_msg c)))) ->
     In (rid', id') (rps (pend c ++ mcbs (c_outgoing c) ++ mcbs (map snd (c_pretry_msg c)))) ->
     (rid = rid' <-> id = id')).
Proof. exact cbinv_meaning. Qed.
Print Assumptions C07_cbinv_meaning.

(* 5e. the restriction ev_ok is needed: a best-effort send of one byte with callback 5 is
       transmitted twice (datagrams 1 and 2, the second after the resend interval); one authentic
       header acknowledging both makes callback 5 fire twice.  Replayed on connection.py through
       harness/connsim.py: same outputs, same state after every event. *)
Definition c_ex0 : conn :=
  let c := conn0 false in
  mkConn false (Some 7) CONNECTED [] [] [] [] [] [] [] [] 0 0 0 (c_bf_pkt c) (c_bf_msg c)
         (c_out_timeout c) (c_temp_timeout c) (c_send_interval c) (c_ka_interval c)
         1536000 (c_last_send c) (c_last_ka c) 0 0 0 0 0 0 [] 0 0 false 0.
Definition env_ex0 : env := {| e_max_payload := 1434; e_max_frag := 1024; e_max_frags := 8192 |}.
Definition ack_bits_of (seq ack bits : Z) : dgram :=
  let h := {| h_to_server := false; h_ctime := 100; h_seq := seq; h_ack := ack; h_type := KEEP_ALIVE;
              h_len := 0; h_count := 0; h_ackbits := bits |} in
  {| d_hdr := h; d_body := Sealed 7 h [] |}.

Theorem C07_callback_at_most_once_best_effort_refuted :
  exists xs c' oss, CbInv c_ex0 /\ NoDup (sent_ids xs) /\ (forall id, ~ CbKnown c_ex0 id) /\
    run env_ex0 c_ex0 xs = (c', oss) /\ fired (concat oss) = [5; 5].
Proof.
  exists [ESend [x01] RBest (IUser 5); EClientTick 1536300 RxNone; EClientTick 1538300 RxNone;
          EClientTick 1538600 (RxDgram (ack_bits_of 1 2 2147483648) [])].
  eexists. eexists. split; [|split; [|split; [|split]]].
  - constructor; cbn; [constructor|reflexivity|constructor|intros ? ? []|intros ? ? ? ? []].
  - repeat constructor. intros [].
  - intros id [[]|(rid & [])].
  - vm_compute. reflexivity.
  - vm_compute. reflexivity.
Qed.
Print Assumptions C07_callback_at_most_once_best_effort_refuted.

(* 6. The at-least-once half, for the stage "attached to a pending datagram -> reported" of a plain
      (unretried-send) user callback: `Pending c id s t` = callback id is in the callback list of
      the pending datagram s, assembled at time t.  Over every history that keeps the connection open
      (no disconnect; message time-out and send interval not reconfigured; AInv as in 3) such a
      callback is never dropped: it stays attached to that pending datagram or it has been
      reported ... *)
Theorem C07_pending_callback_kept : forall e S K xs c n c' oss,
  all_open xs -> AInv S K c n -> run e c xs = (c', oss) ->
  forall id s t, Pending c id s t -> In id (fired (concat oss)) \/ Pending c' id s t.
Proof. exact run_Keep. Qed.
Print Assumptions C07_pending_callback_kept.

(*    ... hence, with the resolution deadline (3), it HAS been reported at the latest by the first
      rate-gated tick later than the message time-out after the datagram was assembled; by 5 it is
      reported exactly once.  (The stage "queued -> attached to a datagram" and the callbacks of
      guaranteed and of fragmented sends are not covered by a theorem: harness oracle.) *)
Theorem C07_pending_callback_reported_by_deadline : forall e S K xs c n c1 oss now c2 o id s t,
  all_open xs -> AInv S K c n -> Pending c id s t ->
  run e c xs = (c1, oss) ->
  c_send_interval c1 < now - c_last_send c1 -> server_tick e c1 now = (c2, o) ->
  c_out_timeout c1 < now - t ->
  In id (fired (concat oss ++ o)).
Proof. exact pending_reported_by_deadline. Qed.
Print Assumptions C07_pending_callback_reported_by_deadline.

(* non-vacuity: a CONNECTED key holder sends one message with callback 5; the datagram is acked by
   an authentic keep-alive of the peer -> callback 5 fires once with True; a second message (6) is
   never acked -> callback 6 fires once with False at the first tick past the message time-out *)
Definition c_ex : conn :=
  let c := conn0 false in
  mkConn false (Some 7) CONNECTED [] [] [] [] [] [] [] [] 0 0 0 (c_bf_pkt c) (c_bf_msg c)
         (c_out_timeout c) (c_temp_timeout c) (c_send_interval c) (c_ka_interval c)
         1536000 (c_last_send c) (c_last_ka c) 0 0 0 0 0 0 [] 0 0 false 0.
Definition env_ex : env := {| e_max_payload := 1434; e_max_frag := 1024; e_max_frags := 8192 |}.
Definition ack_of (seq ack : Z) : dgram :=
  let h := {| h_to_server := false; h_ctime := 100; h_seq := seq; h_ack := ack; h_type := KEEP_ALIVE;
              h_len := 0; h_count := 0; h_ackbits := 0 |} in
  {| d_hdr := h; d_body := Sealed 7 h [] |}.

Example C07_callbacks_fire :
  let '(_, oss) := run env_ex c_ex
      [ESend [x01] RNone (IUser 5); EClientTick 1536300 RxNone;
       EClientTick 1536600 (RxDgram (ack_of 1 1) []);
       ESend [x02] RNone (IUser 6); EClientTick 1536900 RxNone;
       EClientTick (1536900 + TICKS) RxNone] in
  filter (fun o => match o with OCallback _ _ => true | _ => false end) (concat oss)
  = [OCallback 5 true; OCallback 6 false].
Proof. vm_compute. reflexivity. Qed.

(* non-vacuity of 5: distinct ids 5..8 — unretried and acked (5), unretried and never acked (6: False
   at the first tick past the message time-out), guaranteed, re-sent after the resend interval and
   then acked on the second copy while the first copy later times out (7: True once, the stale copy
   reports nothing), unretried and fragmented into two datagrams, both acked (8) — every hypothesis
   of C07_callback_at_most_once holds and each id is reported exactly once *)
Definition once_xs : list ev :=
  [ESend [x01] RNone (IUser 5); EClientTick 1536300 RxNone;
   EClientTick 1536600 (RxDgram (ack_bits_of 1 1 0) []);
   ESend [x02] RNone (IUser 6); EClientTick 1536900 RxNone;
   ESend [x03] RTimeout (IUser 7); EClientTick 1537200 RxNone;
   EClientTick 1539200 RxNone;
   EClientTick 1539500 (RxDgram (ack_bits_of 2 4 0) []);
   ESend (repeat x02 1500) RNone (IUser 8); EClientTick 1539800 RxNone; EClientTick 1540100 RxNone;
   EClientTick 1540400 (RxDgram (ack_bits_of 3 6 2147483648) []);
   EClientTick (1536900 + TICKS) RxNone; EClientTick (1537200 + TICKS) RxNone].

Example C07_each_callback_once :
  Forall (ev_ok env_ex0) once_xs /\ sent_ids once_xs = [5; 6; 7; 8] /\
  let '(_, oss) := run env_ex0 c_ex0 once_xs in
  filter (fun o => match o with OCallback _ _ => true | _ => false end) (concat oss)
  = [OCallback 5 true; OCallback 7 true; OCallback 8 true; OCallback 6 false].
Proof. split; [repeat constructor|]. split; [reflexivity|]. vm_compute. reflexivity. Qed.

(* non-vacuity of 6: after a send with callback 6 and one tick, callback 6 is attached to the pending
   datagram 1 assembled at 1536300 in a state satisfying AInv; the first tick past the message
   time-out reports it *)
Example C07_pending_reported :
  AInv 256 0 c_ex0 0 /\
  let c6 := fst (run env_ex0 c_ex0 [ESend [x02] RNone (IUser 6); EClientTick 1536300 RxNone]) in
  Pending c6 6 1 1536300 /\ fired (snd (server_tick env_ex0 c6 (1536300 + TICKS + 1))) = [6].
Proof.
  split; [|split].
  - split; [|constructor].
    constructor; [vm_compute; discriminate|reflexivity|vm_compute; discriminate|reflexivity
                 |split; [vm_compute; discriminate|reflexivity]|constructor|constructor|reflexivity].
  - exists [Plain (IUser 6)]. vm_compute. auto.
  - vm_compute. reflexivity.
Qed.
