(* C01 — only datagrams authenticated under the session key can affect a connection.
   Theorems only.  `recv` is Conn.recv (= ConnectionBase._recv_datagram with Packet.from_bytes,
   _handle_ack_bits, _recv_message and the subclasses' handshake handlers); a datagram is the
   symbolic form `{d_hdr; d_body := Sealed k hdr payload | Clear payload | Bad}` the harness
   computes from real bytes with the real AES-GCM.  All statements hold for EVERY connection
   state c (not just reachable ones), every clock value, every datagram, every oracle list. *)
From Coq Require Import Lia.
From RecordUpdate Require Import RecordUpdate.
From Model Require Import Base SeqNum Wire Conn RecvSpec.
From Proofs Require Import RecvP C01P.
Import RecordSetNotations.
Open Scope Z_scope.

(* 1. A key holder discards every datagram that is not authentic for its key: the post-state is
      the pre-state with stats.dropped + 1 — equality of the WHOLE state record (incoming queue,
      pending acks / callbacks / retries, key, status, liveness clock, both windows, fragment
      contexts, counters ...) — and the call returns False. *)
Theorem C01_drop : forall c now d orcs k,
  c_key c = Some k -> ~ authentic k d ->
  recv c now d orcs = (c <| c_dropped := c_dropped c + 1 |>, [ORet false]).
Proof. exact C01_drop_proof. Qed.
Print Assumptions C01_drop.

(* the same, read the other way: whatever has any other effect was sealed under the key, with
   the header it carries *)
Theorem C01_only_authentic_accepted : forall c now d orcs k,
  c_key c = Some k ->
  recv c now d orcs <> (c <| c_dropped := c_dropped c + 1 |>, [ORet false]) ->
  exists p, d_body d = Sealed k (d_hdr d) p.
Proof. exact recv_accept_authentic. Qed.
Print Assumptions C01_only_authentic_accepted.

(* 2. the forgery classes of the property are all "not authentic":
      forged plaintext of any type / count / inner types (valid CRC) and junk ... *)
Theorem C01_unsealed_not_authentic : forall k h p,
  ~ authentic k {| d_hdr := h; d_body := Clear p |} /\ ~ authentic k {| d_hdr := h; d_body := Bad |}.
Proof. intros. split; [apply clear_not_authentic | apply bad_not_authentic]. Qed.
Print Assumptions C01_unsealed_not_authentic.

(* ... ciphertext made under another key ... *)
Theorem C01_other_key_not_authentic : forall k k' h sh p, k' <> k ->
  ~ authentic k {| d_hdr := h; d_body := Sealed k' sh p |}.
Proof. exact other_key_not_authentic. Qed.
Print Assumptions C01_other_key_not_authentic.

(* ... every rewrite of any header field of a genuine datagram (re-typing as a hello, another
   seq / ack / ack bits / count / length / time / direction).  (Bit flips / truncations of the
   ciphertext or tag do not open under any key: symbolically their body is Bad.) *)
Theorem C01_tampered_header_not_authentic : forall k d h',
  authentic k d -> h' <> d_hdr d -> ~ authentic k {| d_hdr := h'; d_body := d_body d |}.
Proof. exact tamper_hdr_not_authentic. Qed.
Print Assumptions C01_tampered_header_not_authentic.

(* 3. Before a key exists: nothing is ever delivered to the application; anything but a
      single-message hello with a valid CRC has no effect at all; and a hello of the type this
      endpoint does not wait for makes no handshake progress (no key, same status and token,
      no reply queued, no connect event / connection callback / exception). *)
Theorem C01_prekey : forall c now d orcs c' o,
  c_key c = None -> recv c now d orcs = (c', o) ->
  c_incoming c' = c_incoming c
  /\ (~ single_clear_hello d -> c' = c <| c_dropped := c_dropped c + 1 |> /\ o = [ORet false])
  /\ (h_type (d_hdr d) <> expected_hello c ->
        c_key c' = None /\ c_status c' = c_status c /\ c_token c' = c_token c
        /\ c_seq_msg c' = c_seq_msg c /\ no_handshake_output o).
Proof. exact C01_prekey_proof. Qed.
Print Assumptions C01_prekey.

(* 4. ... at every point of every connection history: c is whatever state ANY list of events
      (sends, ticks, genuine and forged datagrams, disconnects, configuration changes) produced *)
Theorem C01_history : forall e c0 xs now d orcs,
  let c := fst (run e c0 xs) in
  (forall k, c_key c = Some k -> ~ authentic k d ->
     run e c0 (xs ++ [ERecv now d orcs])
       = (c <| c_dropped := c_dropped c + 1 |>, snd (run e c0 xs) ++ [[ORet false]]))
  /\ (c_key c = None ->
     c_incoming (fst (run e c0 (xs ++ [ERecv now d orcs]))) = c_incoming c).
Proof. exact C01_history_proof. Qed.
Print Assumptions C01_history.

(* ... and through UdpClient.update (the client's receive loop): an update() that reads a forged
   datagram from the socket is exactly an update() that reads nothing, run on the state with
   stats.dropped + 1 (client_send_part = the build / send / time-out part of update()) *)
Theorem C01_update_path : forall e c now d orcs k,
  c_key c = Some k -> ~ authentic k d ->
  client_tick e c now (RxDgram d orcs) =
    let '(c1, o0) := client_update c now in
    if status_eqb (c_status c1) DROPPED then (c1, o0)
    else let '(c2, o) := client_send_part e (c1 <| c_dropped := c_dropped c1 + 1 |>) now in (c2, o0 ++ o).
Proof. exact C01_update_path_proof. Qed.
Print Assumptions C01_update_path.

Theorem C01_update_without_datagram : forall e c now,
  client_tick e c now RxNone =
    let '(c1, o0) := client_update c now in
    if status_eqb (c_status c1) DROPPED then (c1, o0)
    else let '(c2, o) := client_send_part e c1 now in (c2, o0 ++ o).
Proof. exact client_tick_none. Qed.
Print Assumptions C01_update_without_datagram.

(* 5. The symbolic notion, at the byte level (Wire.from_bytes = Packet.from_bytes over abstract
      AES-GCM).  Premises: AEAD integrity and injectivity of seal (assumptions about the
      `cryptography` package, see the trusted base).  A key holder accepts a byte datagram only
      if the bytes behind the header are `seal k (first 12 bytes) (first 20 bytes) p`: sealed
      under ITS key for THE header bytes the datagram carries.  So a ciphertext produced for any
      (key, nonce, header) is accepted only under that key and behind exactly that header. *)
Theorem C01_bytes_binds : forall (crc : list byte -> Z)
    (seal : Z -> list byte -> list byte -> list byte -> list byte)
    (open : Z -> list byte -> list byte -> list byte -> option (list byte)),
  (forall k iv aad c p, open k iv aad c = Some p -> c = seal k iv aad p) ->
  (forall k iv aad p k' iv' aad' p',
     seal k iv aad p = seal k' iv' aad' p' -> k = k' /\ iv = iv' /\ aad = aad' /\ p = p') ->
  forall k h d ms,
  from_bytes crc open (Some k) h d = Ok ms ->
  (exists p, sub d 20 (Z.to_nat (h_len h) + 16) = seal k (firstn 12 d) (firstn 20 d) p
             /\ decode_msgs (h_type h) (h_count h) p = Ok ms)
  /\ forall k0 iv0 aad0 p0, sub d 20 (Z.to_nat (h_len h) + 16) = seal k0 iv0 aad0 p0 ->
       k0 = k /\ iv0 = firstn 12 d /\ aad0 = firstn 20 d.
Proof.
  intros crc seal open Hint Hinj k h d ms H. split.
  - exact (proj2 (from_bytes_key_sealed crc seal open Hint Hinj k h d ms H)).
  - intros k0 iv0 aad0 p0 Hs.
    destruct (from_bytes_binds_proof crc seal open Hint Hinj k h d ms k0 iv0 aad0 p0 H Hs) as (A & B & C & _).
    repeat split; assumption.
Qed.
Print Assumptions C01_bytes_binds.

(* wrong-key ciphertext is refused, whatever header is put in front *)
Theorem C01_bytes_wrong_key : forall (crc : list byte -> Z)
    (seal : Z -> list byte -> list byte -> list byte -> list byte)
    (open : Z -> list byte -> list byte -> list byte -> option (list byte)),
  (forall k iv aad c p, open k iv aad c = Some p -> c = seal k iv aad p) ->
  (forall k iv aad p k' iv' aad' p',
     seal k iv aad p = seal k' iv' aad' p' -> k = k' /\ iv = iv' /\ aad = aad' /\ p = p') ->
  forall k h d k0 iv0 aad0 p0,
  sub d 20 (Z.to_nat (h_len h) + 16) = seal k0 iv0 aad0 p0 -> k0 <> k ->
  exists e, from_bytes crc open (Some k) h d = Err e.
Proof. exact wrong_key_rejected_proof. Qed.
Print Assumptions C01_bytes_wrong_key.

(* a genuine ciphertext (sealed for header h0) behind the encoding of any other header h' is
   refused: no header field can be rewritten *)
Theorem C01_bytes_rewritten_header : forall (crc : list byte -> Z)
    (seal : Z -> list byte -> list byte -> list byte -> list byte)
    (open : Z -> list byte -> list byte -> list byte -> option (list byte)),
  (forall k iv aad c p, open k iv aad c = Some p -> c = seal k iv aad p) ->
  (forall k iv aad p k' iv' aad' p',
     seal k iv aad p = seal k' iv' aad' p' -> k = k' /\ iv = iv' /\ aad = aad' /\ p = p') ->
  forall k h0 h' hb0 hb' iv0 p0 rest hparsed,
  encode_header h0 = Ok hb0 -> encode_header h' = Ok hb' -> h' <> h0 ->
  let d := hb' ++ rest in
  sub d 20 (Z.to_nat (h_len hparsed) + 16) = seal k iv0 hb0 p0 ->
  exists e, from_bytes crc open (Some k) hparsed d = Err e.
Proof. exact rewritten_header_rejected_proof. Qed.
Print Assumptions C01_bytes_rewritten_header.

(* ---------- non-vacuity ---------- *)

Definition ex_hdr (t : ptype) (count ln : Z) : header :=
  {| h_to_server := true; h_ctime := 100; h_seq := 5; h_ack := 0; h_type := t;
     h_len := ln; h_count := count; h_ackbits := 0 |}.
Definition ex_conn : conn := (conn0 true) <| c_key := Some 7 |> <| c_status := CONNECTED |>.
Definition ex_payload : list byte := [x00; x09; x41; x42].      (* message seq 9, body "AB" *)

(* an authentic datagram IS accepted and its message delivered (recv does not always drop) ... *)
Example C01_authentic_is_delivered :
  let d := {| d_hdr := ex_hdr APP 1 4; d_body := Sealed 7 (ex_hdr APP 1 4) ex_payload |} in
  authentic 7 d /\ c_incoming (fst (recv ex_conn 0 d [])) = [(9, [x41; x42])]
  /\ snd (recv ex_conn 0 d []) = [ORet true].
Proof. split; [exists ex_payload; reflexivity | vm_compute; split; reflexivity]. Qed.

(* ... while the D1 witness (CRC-only plaintext typed CLIENT_HELLO, two inner messages
   CHALLENGE_RESP + APP) and the same ciphertext behind a re-typed header are dropped *)
Example C01_forgeries_dropped :
  let inner := [x00; x00; x00; x01; x03; x00; x02; x00; x02; x06; x41; x42] in
  let d1 := {| d_hdr := ex_hdr CLIENT_HELLO 2 12; d_body := Clear inner |} in
  let d2 := {| d_hdr := ex_hdr CLIENT_HELLO 1 4; d_body := Sealed 7 (ex_hdr APP 1 4) ex_payload |} in
  recv ex_conn 0 d1 [] = (bump ex_conn, [ORet false]) /\ recv ex_conn 0 d2 [] = (bump ex_conn, [ORet false])
  /\ (* and on a keyless server connection the D2 witness is dropped as well *)
  recv (conn0 true) 0 d1 [] = (bump (conn0 true), [ORet false]).
Proof. vm_compute. repeat split. Qed.

(* the AEAD hypotheses of part 5 are consistent: a toy scheme satisfies them (and opens what it
   seals, so the conclusions are not vacuous either) *)
Example C01_aead_hypotheses_satisfiable :
  (forall k iv aad c p, toy_open k iv aad c = Some p -> c = toy_seal k iv aad p)
  /\ (forall k iv aad p k' iv' aad' p',
        toy_seal k iv aad p = toy_seal k' iv' aad' p' -> k = k' /\ iv = iv' /\ aad = aad' /\ p = p')
  /\ (forall k iv aad p, toy_open k iv aad (toy_seal k iv aad p) = Some p).
Proof. split; [exact toy_integrity|]. split; [exact toy_injective|exact toy_open_seal]. Qed.
