(* C20 — dispatcher.  State of this file: the model follows dispatch.py AS FOUND (defect D15);
   the inverse law is refuted by computation, for class and for string annotations. *)
From Model Require Import Base Dispatch.
Open Scope Z_scope.

Definition ev0 : name := ["E"%byte; "v"%byte; "0"%byte].
Definition res_of (k : akind) : resource :=
  [ {| m_ann := {| a_kind := k; a_name := ev0 |}; m_h := {| h_id := 7; h_arity := 3 |} |} ].

(* full statement (false of the code as found):
   forall t r t', register t r = (t', Ok tt) -> unregister t' r = (t, Ok tt) *)
Theorem C20_unregister_inverse_refuted_class :
  exists t r t', register t r = (t', Ok tt) /\ unregister t' r = (t', Ok tt) /\ t' <> t
                 /\ fst (register t' r) = t' /\ snd (register t' r) = Err EOther.
Proof. exists [], (res_of AClass), [(ev0, {| h_id := 7; h_arity := 3 |})]. vm_compute. repeat split; discriminate. Qed.
Print Assumptions C20_unregister_inverse_refuted_class.

Theorem C20_unregister_inverse_refuted_string :
  exists t r t', register t r = (t', Ok tt) /\ unregister t' r = (t', Err EOther).
Proof. exists [], (res_of AStr), [(ev0, {| h_id := 7; h_arity := 3 |})]. vm_compute. split; reflexivity. Qed.
Print Assumptions C20_unregister_inverse_refuted_string.
