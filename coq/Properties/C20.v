(* C20 — the dispatcher routes by message class; register / unregister are inverses.
   Theorems only.  The model (Model/Dispatch.v) follows mpgameserver/dispatch.py after the
   repair of D15.  A table is reachable through ANY sequence of register / unregister /
   register_function / unregister_function / dispatch operations (table_of k ops), for both
   dispatcher kinds k, class and string annotations, any argument type A; no bound anywhere. *)
From Model Require Import Base Dispatch.
From Proofs Require Import DispatchP C20P.
Open Scope Z_scope.

(* 1. after any history: if class name n has handler h, then h is the ONLY handler of n, and
      dispatch invokes h exactly once with the arguments as given (TypeError, nothing run, if the
      callable does not take that many arguments); the table is not changed by dispatch *)
Theorem C20_dispatch_exact : forall A k (ops : list (op A)) n h (client seqnum msg : A),
  let t := table_of k ops in
  In (n, h) t ->
  (forall h', In (n, h') t -> h' = h) /\
  (h_arity h = nargs k ->
     dispatch_msg k t client seqnum n msg
     = Ok [(h_id h, match k with KServer => [client; seqnum; msg] | KClient => [seqnum; msg] end)]) /\
  (h_arity h <> nargs k -> dispatch_msg k t client seqnum n msg = Err EType) /\
  fst (step k t (ODispatch client seqnum n msg)) = t.
Proof. exact C20_dispatch_exact_proof. Qed.
Print Assumptions C20_dispatch_exact.

(* 2. no handler registered for the class: DispatchError, nothing is called, nothing changes *)
Theorem C20_dispatch_unknown : forall A k (t : table) n (client seqnum msg : A),
  (forall h, ~ In (n, h) t) ->
  dispatch_msg k t client seqnum n msg = Err EDispatch /\
  step k t (ODispatch client seqnum n msg) = (t, OCalls (Err EDispatch)).
Proof. exact C20_dispatch_unknown_proof. Qed.
Print Assumptions C20_dispatch_unknown.

(* 3. a second handler for a class that has one is refused (register_function, and register of
      a resource naming such a class); every earlier binding still resolves to its handler *)
Theorem C20_duplicate_refused : forall A k (ops : list (op A)),
  let t := table_of k ops in
  (forall a h h0, In (ev_name a, h0) t -> register_function t a h = (t, Err EOther)) /\
  (forall r, (exists m h0, In m r /\ In (ev_name (m_ann m), h0) t) ->
     exists t', register t r = (t', Err EOther) /\ forall n h, In (n, h) t -> lookup t' n = Some h).
Proof. exact C20_duplicate_refused_proof. Qed.
Print Assumptions C20_duplicate_refused.

(* 4. unregister is the exact inverse of a successful register (same table, same order) and the
      resource registers again afterwards — from every table, class or string annotations *)
Theorem C20_unregister_inverse : forall t r t',
  register t r = (t', Ok tt) ->
  unregister t' r = (t, Ok tt) /\ register (fst (unregister t' r)) r = (t', Ok tt).
Proof. exact C20_unregister_inverse_proof. Qed.
Print Assumptions C20_unregister_inverse.

(* 5. unregister(resource) from ANY table never raises; afterwards none of the resource's classes
      has a handler (dispatch raises DispatchError, so its handlers are no longer invoked), other
      classes keep theirs, and the resource can be registered provided its own methods name
      pairwise distinct classes *)
Theorem C20_unregister_effect : forall t r,
  exists t', unregister t r = (t', Ok tt) /\
    (forall m, In m r -> forall A k (c s msg : A),
        dispatch_msg k t' c s (ev_name (m_ann m)) msg = Err EDispatch) /\
    (forall n, ~ In n (map (fun m => ev_name (m_ann m)) r) -> lookup t' n = lookup t n) /\
    (NoDup (map (fun m => ev_name (m_ann m)) r) -> exists t'', register t' r = (t'', Ok tt)).
Proof. exact C20_unregister_effect_proof. Qed.
Print Assumptions C20_unregister_effect.

(* 6. refinement over arbitrary histories: the insertion-ordered table behaves exactly as the
      mathematical finite map class name -> handler (a_run): same outcome of every operation,
      same binding of every class; keys never repeat *)
Theorem C20_refines_map : forall A k (ops : list (op A)),
  snd (run k [] ops) = snd (a_run k a_empty ops) /\
  (forall n, lookup (fst (run k [] ops)) n = fst (a_run k a_empty ops) n) /\
  NoDup (map fst (fst (run k [] ops))).
Proof. exact C20_refines_map_proof. Qed.
Print Assumptions C20_refines_map.

(* non-vacuity: one history exercising every clause — r0 handles Ev0 (class annotation) and Ev1
   (string annotation), r1 handles Ev1: register r0; dispatch Ev0; register r1 (refused);
   dispatch Ev1 (still r0's handler); unregister r0; dispatch Ev0 (DispatchError); register r0 *)
Definition ev0 : name := ["E"; "v"; "0"]%byte.
Definition ev1 : name := ["E"; "v"; "1"]%byte.
Definition hd (i : Z) : handler := {| h_id := i; h_arity := 3 |}.
Definition r0 : resource :=
  [ {| m_ann := {| a_kind := AClass; a_name := ev0 |}; m_h := hd 1 |};
    {| m_ann := {| a_kind := AStr; a_name := ev1 |}; m_h := hd 2 |} ].
Definition r1 : resource := [ {| m_ann := {| a_kind := AClass; a_name := ev1 |}; m_h := hd 3 |} ].

Example C20_history :
  run KServer []
    [ORegister r0; ODispatch 10 11 ev0 12; ORegister r1; ODispatch 20 21 ev1 22;
     OUnregister r0; ODispatch 30 31 ev0 32; ORegister r0; ODispatch 40 41 ev1 42]
  = ([(ev0, hd 1); (ev1, hd 2)],
     [OUnit (Ok tt); OCalls (Ok [(1, [10; 11; 12])]); OUnit (Err EOther); OCalls (Ok [(2, [20; 21; 22])]);
      OUnit (Ok tt); OCalls (Err EDispatch); OUnit (Ok tt); OCalls (Ok [(2, [40; 41; 42])])]).
Proof. vm_compute. reflexivity. Qed.

Example C20_inverse_premise_satisfiable :
  register [(ev1, hd 3)] [ {| m_ann := {| a_kind := AClass; a_name := ev0 |}; m_h := hd 1 |} ]
  = ([(ev1, hd 3); (ev0, hd 1)], Ok tt).
Proof. vm_compute. reflexivity. Qed.
