(* C12 — keep-alives and time-outs: idle links stay up, dead peers are detected, settings take
   effect.  Theorems only.  Time is an integer number of ticks (Conn.TICKS per second).
   Model: Model/Conn.v (connection state machine: _build_packet, ClientServerConnection.update,
   timedout) and Model/Client.v (UdpClient setters/connect, ServerContext settings, the server
   sweep's drop test). *)
From RecordUpdate Require Import RecordUpdate.
From Model Require Import Base SeqNum Wire Conn Client Net Server TimedNet.
Import RecordSetNotations.
From Proofs Require Import ConnFrameP NonceP PackP TimingP IdleP IdleSrvP C12P.
Open Scope Z_scope.

(* 1. Keep-alive: an idle CONNECTED endpoint whose last packet is older than the keep-alive
      interval (and than the send interval) emits a KEEP_ALIVE under its key at its next tick —
      server side (ServerClientConnection.update) ... *)
Theorem C12_server_keepalive : forall e c now c' o,
  c_status c = CONNECTED -> c_outgoing c = [] -> c_pretry_msg c = [] ->
  c_send_interval c < now - c_last_send c -> c_ka_interval c < now - c_last_ka c ->
  server_tick e c now = (c', o) ->
  (exists h, In (OEmit h (c_key c) []) o /\ h_type h = KEEP_ALIVE) /\ c_last_ka c' = now /\ c_last_send c' = now.
Proof. exact server_tick_keepalive. Qed.
Print Assumptions C12_server_keepalive.

(*    ... and client side (UdpClient.update with nothing to read), as long as the client has heard
      from the server within 5 s *)
Theorem C12_client_keepalive : forall e c now c' o,
  c_status c = CONNECTED -> c_outgoing c = [] -> c_pretry_msg c = [] -> c_hello_sent c = 0 ->
  (c_last_recv c <= 0 \/ now <= c_last_recv c + 5 * TICKS) ->
  c_send_interval c < now - c_last_send c -> c_ka_interval c < now - c_last_ka c ->
  client_tick e c now RxNone = (c', o) ->
  (exists h, In (OEmit h (c_key c) []) o /\ h_type h = KEEP_ALIVE) /\ c_last_ka c' = now /\ c_last_send c' = now.
Proof. exact client_tick_keepalive. Qed.
Print Assumptions C12_client_keepalive.

(* 2. Cadence, whatever is queued: after every tick of a CONNECTED endpoint either a packet was
      assembled at this tick, or the last one is at most max(keep-alive interval, send interval) old.
      With ticks at most tau apart, consecutive packets are therefore at most
      max(keep-alive, send interval) + tau apart. *)
Theorem C12_cadence : forall e c now c' o,
  c_status c = CONNECTED -> no_unknown c -> c_last_send c = c_last_ka c ->
  server_tick e c now = (c', o) ->
  c_last_send c' = c_last_ka c' /\
  (c_last_ka c' = now \/
   (c_last_ka c' = c_last_ka c /\ now - c_last_ka c <= Z.max (c_ka_interval c) (c_send_interval c))).
Proof. exact server_tick_cadence. Qed.
Print Assumptions C12_cadence.

(* 3. The liveness clock: an accepted datagram sets last_recv to now, a refused one leaves it;
      the server's sweep drops a client exactly when it is DISCONNECTED or has been silent for
      the configured time (connection_timeout / temp_connection_timeout) — so a peer heard within
      the time-out is never dropped and a silent one is dropped at the first sweep after it. *)
Theorem C12_liveness_clock : forall c now d orcs c' o,
  recv c now d orcs = (c', o) ->
  (accepted o -> c_last_recv c' = now) /\ (~ accepted o -> ~ raised o = true -> c_last_recv c' = c_last_recv c).
Proof. exact recv_clock. Qed.
Print Assumptions C12_liveness_clock.

Theorem C12_server_drop : forall timeout c now,
  sweep_drops timeout c now = true <-> (c_status c = DISCONNECTED \/ timeout <= now - c_last_recv c).
Proof. exact sweep_drops_spec. Qed.
Print Assumptions C12_server_drop.

(* 4. The client: DROPPED exactly when the server has been silent for more than 5 s; an
      unanswered connect ends DISCONNECTED at the first update later than the configured
      time-out, the callback (if one was given) is called with False and the timer is cleared ... *)
Theorem C12_client_update : forall c now c' o,
  client_update c now = (c', o) ->
  let silent := (c_last_recv c >? 0) && (now >? c_last_recv c + 5 * TICKS) in
  let expired := negb (c_hello_sent c =? 0) && (now - c_hello_sent c >? c_temp_timeout c) in
  c_status c' = (if expired then DISCONNECTED else if silent then DROPPED else c_status c) /\
  c_hello_sent c' = (if expired then 0 else c_hello_sent c) /\
  o = (if expired && c_conn_cb c then [OConnCb false] else []) /\
  c_conn_cb c' = c_conn_cb c /\ c_key c' = c_key c /\ c_last_recv c' = c_last_recv c.
Proof. exact client_update_spec. Qed.
Print Assumptions C12_client_update.

(*    ... and once the timer is clear no later event of any kind (other than a new connect) makes
      the callback report failure again: at most one False per connect attempt. *)
Theorem C12_connect_failure_once : forall e xs c c' oss,
  c_hello_sent c = 0 -> forallb (fun x => negb (is_hello_ev x)) xs = true -> run e c xs = (c', oss) ->
  c_hello_sent c' = 0 /\ Forall (fun o => ~ In (OConnCb false) o) oss.
Proof. exact connect_failure_once. Qed.
Print Assumptions C12_connect_failure_once.

(* 5. Settings: for every sequence of UdpClient setter calls, connects and connection events, in
      any order, the connection's keep-alive interval / connect time-out / message time-out equal
      the values set last (or the defaults); nothing but a setter changes them. *)
Theorem C12_client_settings : forall e ops u u' os,
  ucfg_inv u -> Forall uop_ok ops -> urun e u ops = (u', os) ->
  ucfg_inv u' /\ u_ka u' = last_ka ops (u_ka u) /\ u_tt u' = last_tt ops (u_tt u) /\ u_ot u' = last_ot ops (u_ot u).
Proof. exact setters_effective. Qed.
Print Assumptions C12_client_settings.

(*    ServerContext: the four settings hold the last values set, and a connection created for a
      new client takes keep-alive interval and message time-out from them. *)
Theorem C12_server_settings : forall ops s,
  let s' := fold_left sstep ops s in
  s_ka s' = slast (fun op => match op with SSetKeepAlive v => Some v | _ => None end) ops (s_ka s) /\
  s_conn_timeout s' = slast (fun op => match op with SSetConnTimeout v => Some v | _ => None end) ops (s_conn_timeout s) /\
  s_temp_timeout s' = slast (fun op => match op with SSetTempTimeout v => Some v | _ => None end) ops (s_temp_timeout s) /\
  s_ot s' = slast (fun op => match op with SSetMsgTimeout v => Some v | _ => None end) ops (s_ot s) /\
  c_ka_interval (new_server_conn s') = s_ka s' /\ c_out_timeout (new_server_conn s') = s_ot s'.
Proof. exact server_settings_effective. Qed.
Print Assumptions C12_server_settings.

(* 6. The two endpoints together (Model/TimedNet.v): a client endpoint and the server-side connection
      of that client under one clock, the server loop's time-out rule (server_sweep) with
      connection_timeout T, the client's 5 s rule (inside client_tick), and a network that shows every
      datagram to the peer at most d after its emission (reordering, further copies up to `life` after
      the emission, and junk the receiver cannot open, allowed) while both sides call update() at least
      every tau (tvalid).
      For an established idle pair (established: both CONNECTED under the same key, nothing queued,
      each side has the other's newest datagram, liveness clocks no older than one keep-alive
      period), EVERY keep-alive interval / send interval of either side, EVERY T, tau, d with
          max(K_client, si_client) + tau + d <  T        (the server removes at now - last_recv >= T)
          max(K_server, si_server) + tau + d <= 5 s      (the client reports DROPPED at now > last_recv + 5 s)
          d <= life <= (HALF - 1) * (max(K, si) + 1) for both sides   (fewer than half the 16-bit ring alive)
      (params_ok) and EVERY admissible history of ANY length:
      (1) both sides are still CONNECTED under the key and the server has not removed the client; *)
Theorem C12_idle_pair_stays_up : forall e P k cli srv t0 hs,
  established k t0 cli srv -> params_ok P cli srv -> tvalid e P (tnet0 cli srv t0) hs ->
  pair_up k (trun e P (tnet0 cli srv t0) hs).
Proof. exact idle_pair_stays_up. Qed.
Print Assumptions C12_idle_pair_stays_up.

(*    (1') quantitatively: neither liveness clock is ever older than the peer's keep-alive period + one
      tick + the network delay (which is why neither time-out rule fires); *)
Theorem C12_idle_pair_clocks_fresh : forall e P k cli srv t0 hs,
  established k t0 cli srv -> params_ok P cli srv -> tvalid e P (tnet0 cli srv t0) hs ->
  let n := trun e P (tnet0 cli srv t0) hs in
  t_clk n - c_last_recv (t_srv n) <= kmax cli + tp_tau P + tp_d P /\
  t_clk n - c_last_recv (t_cli n) <= kmax srv + tp_tau P + tp_d P.
Proof. exact idle_pair_clocks_fresh. Qed.
Print Assumptions C12_idle_pair_clocks_fresh.

(*    (2) each side has emitted sealed KEEP_ALIVEs only, the first at most max(K, si) + tau after
      base_time (its last packet before the start, or one keep-alive period before the start if that
      is later), consecutive ones at most max(K, si) + tau apart, the newest at most that old. *)
Theorem C12_idle_pair_cadence : forall e P k cli srv t0 hs,
  established k t0 cli srv -> params_ok P cli srv -> tvalid e P (tnet0 cli srv t0) hs ->
  let n := trun e P (tnet0 cli srv t0) hs in
  (cadence_ok (kmax cli + tp_tau P) (base_time cli t0) (t_clk n) (t_cs n)
   /\ Forall (fun x => ka_dgram k (snd x)) (wd_log (t_cs n))) /\
  (cadence_ok (kmax srv + tp_tau P) (base_time srv t0) (t_clk n) (t_sc n)
   /\ Forall (fun x => ka_dgram k (snd x)) (wd_log (t_sc n))).
Proof. exact idle_pair_cadence. Qed.
Print Assumptions C12_idle_pair_cadence.

(*    Admissibility is checked event by event, so (1) and (2) hold at every moment of a history: *)
Theorem C12_idle_pair_prefix : forall e P vs1 n vs2, tvalid e P n (vs1 ++ vs2) -> tvalid e P n vs1.
Proof. exact tvalid_app. Qed.
Print Assumptions C12_idle_pair_prefix.

(*    server_sweep, the server-side step of the pair, is what the sweep of the full server-loop model
      (Model/Server.v, tied to server.py) does to a CONNECTED client it does not remove: *)
Theorem C12_server_sweep_is_the_server_loop : forall h e s now cid cl c' o,
  pfind cid (s_conns s) = Some cl -> c_status (cl_conn cl) = CONNECTED ->
  server_sweep e (g_conn_timeout (s_cfg s)) (cl_conn cl) now = (c', o, false) ->
  exists s' so pp, sweep_conn h e s now cid = (s', so, pp) /\ pfind cid (s_conns s') = Some (with_conn cl c').
Proof. exact sweep_conn_is_server_sweep. Qed.
Print Assumptions C12_server_sweep_is_the_server_loop.

(*    The quantifier "keep-alive < timeout" of the property text is not enough, even over a perfect
      network (d = 0): with the client's keep-alive interval 75000 ticks (4.88 s) < T = 76800 (5 s)
      and update() every 1800 ticks, so that max(K, si) + tau + d = T, an admissible history of an
      established idle pair ends with the server removing the client.  The strict inequality of
      params_ok is exact. *)
Theorem C12_idle_keepalive_lt_timeout_refuted :
  exists e P k cli srv t0 hs,
    established k t0 cli srv /\ c_ka_interval cli < tp_T P /\ tp_d P = 0
    /\ kmax cli + tp_tau P + tp_d P = tp_T P /\ kmax srv + tp_tau P + tp_d P <= 5 * TICKS
    /\ tvalid e P (tnet0 cli srv t0) hs
    /\ t_swept (trun e P (tnet0 cli srv t0) hs) = true.
Proof. exact idle_keepalive_lt_timeout_refuted_proof. Qed.
Print Assumptions C12_idle_keepalive_lt_timeout_refuted.

(*    ... and likewise the client's bound: server keep-alive interval 75001, tau 1800, d = 0, so that
      max(K, si) + tau + d = 5 s + 1 tick: the client reports DROPPED. *)
Theorem C12_idle_pair_client_bound_tight :
  exists e P k cli srv t0 hs,
    established k t0 cli srv /\ tp_d P = 0
    /\ kmax cli + tp_tau P + tp_d P < tp_T P /\ kmax srv + tp_tau P + tp_d P = 5 * TICKS + 1
    /\ tvalid e P (tnet0 cli srv t0) hs
    /\ c_status (t_cli (trun e P (tnet0 cli srv t0) hs)) = DROPPED.
Proof. exact idle_pair_client_bound_tight_proof. Qed.
Print Assumptions C12_idle_pair_client_bound_tight.

(* Modelled, not verified: real clocks and the threads that call update(); socket buffering (the
   history says when each datagram is shown to the receiver: the client reads one per update());
   replays of datagrams older than `life`, in particular of the handshake's CHALLENGE_RESP (sealed under
   the session key before the pair was established), are outside tvalid; bytes whose header does
   not parse make UdpClient.update raise and are outside tvalid. *)

(* non-vacuity *)
Example C12_settings_history :
  let '(u, _) := urun {| e_max_payload := 1434; e_max_frag := 1024; e_max_frags := 8192 |} uclient0
      [USetKeepAlive 3000; UConnect 1536000 [] true; USetMsgTimeout 7680; UConn (EClientTick 1536300 RxNone);
       USetKeepAlive 4500] in
  match u_conn u with Some c => (c_ka_interval c, c_temp_timeout c, c_out_timeout c, status_code (c_status c)) | None => (0,0,0,0) end
  = (4500, 2 * TICKS, 7680, 1).
Proof. vm_compute. reflexivity. Qed.

Example C12_connect_timeout_fires :
  let c := client_hello ((conn0 false) <| c_conn_cb := true |>) 1536000 [] in
  let '(c1, o1) := client_update c (1536000 + 2 * TICKS) in
  let '(c2, o2) := client_update c1 (1536000 + 2 * TICKS + 15) in
  let '(c3, o3) := client_update c2 (1536000 + 3 * TICKS) in
  (o1, status_code (c_status c1), o2, status_code (c_status c2), o3) = ([], 1, [OConnCb false], 4, []).
Proof. vm_compute. reflexivity. Qed.

(* the two-endpoint theorems are not vacuous: the state the MODEL's own handshake produces is an
   established pair, and a history with delays of 600 and 900 ticks, duplicates (also 1800 ticks late),
   junk and a simultaneous delivery satisfies tvalid for tau = 300, d = 900, life = 2700, T = 5 s
   (defaults K = 0.1 s) *)
Example C12_idle_pair_hypotheses_hold :
  established 7 (ex_t0 + 900) (nA ex_hs4) (nB ex_hs4) /\ params_ok ex_P (nA ex_hs4) (nB ex_hs4)
  /\ tvalid env1500 ex_P (tnet0 (nA ex_hs4) (nB ex_hs4) (ex_t0 + 900)) ex_hist.
Proof.
  split; [apply establishedb_ok; vm_compute; reflexivity|].
  split; [apply params_okb_ok; vm_compute; reflexivity|apply tvalidb_ok; vm_compute; reflexivity].
Qed.

(* ... and what the theorems say about it, computed: three keep-alives each way, 1800 ticks apart,
   all of them received (the liveness clocks stand at the latest deliveries), nothing in flight *)
Example C12_idle_pair_history_computed :
  let n := trun env1500 ex_P (tnet0 (nA ex_hs4) (nB ex_hs4) (ex_t0 + 900)) ex_hist in
  (status_code (c_status (t_cli n)), status_code (c_status (t_srv n)), t_swept n,
   map (fun t => t - ex_t0) (em_times (t_cs n)), map (fun t => t - ex_t0) (em_times (t_sc n)),
   c_last_recv (t_cli n) - ex_t0, c_last_recv (t_srv n) - ex_t0, wd_pend (t_cs n), wd_pend (t_sc n))
  = (2, 2, false, [2400; 4200; 6000], [2400; 4200; 6000], 6300, 6000, [], []).
Proof. vm_compute. reflexivity. Qed.
