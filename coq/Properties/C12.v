(* C12 — keep-alives and time-outs: idle links stay up, dead peers are detected, settings take
   effect.  Theorems only.  Time is an integer number of ticks (Conn.TICKS per second).
   Model: Model/Conn.v (connection state machine: _build_packet, ClientServerConnection.update,
   timedout) and Model/Client.v (UdpClient setters/connect, ServerContext settings, the server
   sweep's drop test). *)
From RecordUpdate Require Import RecordUpdate.
From Model Require Import Base SeqNum Wire Conn Client.
Import RecordSetNotations.
From Proofs Require Import ConnFrameP NonceP PackP TimingP.
Open Scope Z_scope.

(* 1. Keep-alive: an idle CONNECTED endpoint whose last packet is older than the keep-alive
      interval (and than the send interval) emits a KEEP_ALIVE under its key at its next tick —
      server side (ServerClientConnection.update) ... *)
Theorem C12_server_keepalive : forall e c now c' o,
  c_status c = CONNECTED -> c_outgoing c = [] -> c_pretry_msg c = [] ->
  c_send_interval c < now - c_last_send c -> c_ka_interval c < now - c_last_ka c ->
  server_tick e c now = (c', o) ->
  (exists h, In (OEmit h (c_key c) []) o /\ h_type h = KEEP_ALIVE) /\ c_last_ka c' = now /\ c_last_send c' = now.
Proof. exact server_tick_keepalive. Qed.
Print Assumptions C12_server_keepalive.

(*    ... and client side (UdpClient.update with nothing to read), as long as the client has heard
      from the server within 5 s *)
Theorem C12_client_keepalive : forall e c now c' o,
  c_status c = CONNECTED -> c_outgoing c = [] -> c_pretry_msg c = [] -> c_hello_sent c = 0 ->
  (c_last_recv c <= 0 \/ now <= c_last_recv c + 5 * TICKS) ->
  c_send_interval c < now - c_last_send c -> c_ka_interval c < now - c_last_ka c ->
  client_tick e c now RxNone = (c', o) ->
  (exists h, In (OEmit h (c_key c) []) o /\ h_type h = KEEP_ALIVE) /\ c_last_ka c' = now /\ c_last_send c' = now.
Proof. exact client_tick_keepalive. Qed.
Print Assumptions C12_client_keepalive.

(* 2. Cadence, whatever is queued: after every tick of a CONNECTED endpoint either a packet was
      assembled at this tick, or the last one is at most max(keep-alive interval, send interval) old.
      With ticks at most tau apart, consecutive packets are therefore at most
      max(keep-alive, send interval) + tau apart. *)
Theorem C12_cadence : forall e c now c' o,
  c_status c = CONNECTED -> no_unknown c -> c_last_send c = c_last_ka c ->
  server_tick e c now = (c', o) ->
  c_last_send c' = c_last_ka c' /\
  (c_last_ka c' = now \/
   (c_last_ka c' = c_last_ka c /\ now - c_last_ka c <= Z.max (c_ka_interval c) (c_send_interval c))).
Proof. exact server_tick_cadence. Qed.
Print Assumptions C12_cadence.

(* 3. The liveness clock: an accepted datagram sets last_recv to now, a refused one leaves it;
      the server's sweep drops a client exactly when it is DISCONNECTED or has been silent for
      the configured time (connection_timeout / temp_connection_timeout) — so a peer heard within
      the time-out is never dropped and a silent one is dropped at the first sweep after it. *)
Theorem C12_liveness_clock : forall c now d orcs c' o,
  recv c now d orcs = (c', o) ->
  (accepted o -> c_last_recv c' = now) /\ (~ accepted o -> ~ raised o = true -> c_last_recv c' = c_last_recv c).
Proof. exact recv_clock. Qed.
Print Assumptions C12_liveness_clock.

Theorem C12_server_drop : forall timeout c now,
  sweep_drops timeout c now = true <-> (c_status c = DISCONNECTED \/ timeout <= now - c_last_recv c).
Proof. exact sweep_drops_spec. Qed.
Print Assumptions C12_server_drop.

(* 4. The client: DROPPED exactly when the server has been silent for more than 5 s; an
      unanswered connect ends DISCONNECTED at the first update later than the configured
      time-out, the callback (if one was given) is called with False and the timer is cleared ... *)
Theorem C12_client_update : forall c now c' o,
  client_update c now = (c', o) ->
  let silent := (c_last_recv c >? 0) && (now >? c_last_recv c + 5 * TICKS) in
  let expired := negb (c_hello_sent c =? 0) && (now - c_hello_sent c >? c_temp_timeout c) in
  c_status c' = (if expired then DISCONNECTED else if silent then DROPPED else c_status c) /\
  c_hello_sent c' = (if expired then 0 else c_hello_sent c) /\
  o = (if expired && c_conn_cb c then [OConnCb false] else []) /\
  c_conn_cb c' = c_conn_cb c /\ c_key c' = c_key c /\ c_last_recv c' = c_last_recv c.
Proof. exact client_update_spec. Qed.
Print Assumptions C12_client_update.

(*    ... and once the timer is clear no later event of any kind (other than a new connect) makes
      the callback report failure again: at most one False per connect attempt. *)
Theorem C12_connect_failure_once : forall e xs c c' oss,
  c_hello_sent c = 0 -> forallb (fun x => negb (is_hello_ev x)) xs = true -> run e c xs = (c', oss) ->
  c_hello_sent c' = 0 /\ Forall (fun o => ~ In (OConnCb false) o) oss.
Proof. exact connect_failure_once. Qed.
Print Assumptions C12_connect_failure_once.

(* 5. Settings: for every sequence of UdpClient setter calls, connects and connection events, in
      any order, the connection's keep-alive interval / connect time-out / message time-out equal
      the values set last (or the defaults); nothing but a setter changes them. *)
Theorem C12_client_settings : forall e ops u u' os,
  ucfg_inv u -> Forall uop_ok ops -> urun e u ops = (u', os) ->
  ucfg_inv u' /\ u_ka u' = last_ka ops (u_ka u) /\ u_tt u' = last_tt ops (u_tt u) /\ u_ot u' = last_ot ops (u_ot u).
Proof. exact setters_effective. Qed.
Print Assumptions C12_client_settings.

(*    ServerContext: the four settings hold the last values set, and a connection created for a
      new client takes keep-alive interval and message time-out from them. *)
Theorem C12_server_settings : forall ops s,
  let s' := fold_left sstep ops s in
  s_ka s' = slast (fun op => match op with SSetKeepAlive v => Some v | _ => None end) ops (s_ka s) /\
  s_conn_timeout s' = slast (fun op => match op with SSetConnTimeout v => Some v | _ => None end) ops (s_conn_timeout s) /\
  s_temp_timeout s' = slast (fun op => match op with SSetTempTimeout v => Some v | _ => None end) ops (s_temp_timeout s) /\
  s_ot s' = slast (fun op => match op with SSetMsgTimeout v => Some v | _ => None end) ops (s_ot s) /\
  c_ka_interval (new_server_conn s') = s_ka s' /\ c_out_timeout (new_server_conn s') = s_ot s'.
Proof. exact server_settings_effective. Qed.
Print Assumptions C12_server_settings.

(* Modelled, not verified: real clocks, the thread that calls update(); the end-to-end statement
   "neither side of an idle pair ever times out" is the composition of 1-3 for two endpoints over
   a network that delivers each keep-alive within d with max(K,si)+tau+d < T; it is observed by
   harness/props/C12.py on a configuration grid. *)

(* non-vacuity *)
Example C12_settings_history :
  let '(u, _) := urun {| e_max_payload := 1434; e_max_frag := 1024; e_max_frags := 8192 |} uclient0
      [USetKeepAlive 3000; UConnect 1536000 [] true; USetMsgTimeout 7680; UConn (EClientTick 1536300 RxNone);
       USetKeepAlive 4500] in
  match u_conn u with Some c => (c_ka_interval c, c_temp_timeout c, c_out_timeout c, status_code (c_status c)) | None => (0,0,0,0) end
  = (4500, 2 * TICKS, 7680, 1).
Proof. vm_compute. reflexivity. Qed.

Example C12_connect_timeout_fires :
  let c := client_hello ((conn0 false) <| c_conn_cb := true |>) 1536000 [] in
  let '(c1, o1) := client_update c (1536000 + 2 * TICKS) in
  let '(c2, o2) := client_update c1 (1536000 + 2 * TICKS + 15) in
  let '(c3, o3) := client_update c2 (1536000 + 3 * TICKS) in
  (o1, status_code (c_status c1), o2, status_code (c_status c2), o3) = ([], 1, [OConnCb false], 4, []).
Proof. vm_compute. reflexivity. Qed.
