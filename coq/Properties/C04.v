(* C04 — at-most-once delivery: duplicates, replays and retransmissions are dropped.
   Theorems only.  Receiver side of Conn.v (`recv` = ConnectionBase._recv_datagram with
   BitField.insert on bitfield_pkt (32) / bitfield_msg (256), _recv_message, _recvAppFragment).

   Vocabulary.  True indices: the n-th datagram / j-th message a sender emits travels with the
   16-bit sequence number `wire n` = (n-1) mod 65535 + 1.
   R f m acc (SeqNumP, from C08): window f holds exactly "indices acc accepted, newest m".
   w_hist nb None h : duplicate flags the abstract window gives a history h of true indices
   (flagged = accepted before AND within nb of the newest); w_half = the half-range hypothesis
   (every arrival within 32767 of the newest so far); w_inwin = the in-window hypothesis (every
   repeated index arrives while at most nb behind the newest).
   An `arrival` is one _recv_datagram call annotated with the true index of the datagram and
   of each message it carries; `good k` = authentic for key k, decodable, data messages
   (APP / APP_FRAGMENT / KEEP_ALIVE / DISCONNECT) — the traffic of an established connection.
   run_recv = the plain model run; run_g = the same run also reporting accepted datagram
   indices and processed message indices; `presented` = the message indices of the datagrams
   the datagram window let through (what the message window gets to see). *)
From Coq Require Import Lia.
From RecordUpdate Require Import RecordUpdate.
From Model Require Import Base SeqNum Wire Conn RecvSpec RecvHist.
From Proofs Require Import SeqNumP RecvP RecvHistP C04P.
Import RecordSetNotations.
Open Scope Z_scope.

(* 1. A duplicate datagram is dropped whole: for EVERY connection state whose datagram window
      holds the history (acc, m): a datagram (authentic or not, any content) whose index was
      accepted before and is within 32 of the newest has exactly one effect, stats.dropped + 1
      (equality of the whole state record), and returns False. *)
Theorem C04_dup_datagram_dropped : forall c now d orcs m acc n,
  R (c_bf_pkt c) m acc -> bf_nbits (c_bf_pkt c) = 32 ->
  h_seq (d_hdr d) = wire n -> 1 <= n -> Z.abs (n - m) <= HALF ->
  In n acc -> m - n <= 32 ->
  recv c now d orcs = (c <| c_dropped := c_dropped c + 1 |>, [ORet false]).
Proof. exact C04_dup_datagram_dropped_proof. Qed.
Print Assumptions C04_dup_datagram_dropped.

(* 2. A message whose index was processed before and is within 256 of the newest message index
      is skipped without any effect, in whatever datagram it arrives (a retransmission travels
      in a fresh datagram under its old message sequence number). *)
Theorem C04_msg_at_most_once_in_window : forall c now m r orcs mm accm j,
  R (c_bf_msg c) mm accm -> bf_nbits (c_bf_msg c) = 256 ->
  w_seq m = wire j -> 1 <= j -> Z.abs (j - mm) <= HALF ->
  In j accm -> mm - j <= 256 ->
  recv_msgs c now (m :: r) orcs = recv_msgs c now r (if is_hs (w_type m) then tl orcs else orcs).
Proof. exact C04_msg_dup_skipped_proof. Qed.
Print Assumptions C04_msg_at_most_once_in_window.

(* 3. "processed" is "delivered": an APP message is appended to incoming_messages exactly when
      it gets past the message window ... *)
Theorem C04_app_delivered_iff_processed : forall c now m orcs, w_type m = APP ->
  match bf_insert (c_bf_msg c) (w_seq m) with
  | Ok _ => c_incoming (fst (recv_msgs c now [m] orcs)) = c_incoming c ++ [(w_seq m, w_payload m)]
  | Err _ => recv_msgs c now [m] orcs = (c, [])
  end.
Proof. exact C04_app_delivered_iff_processed_proof. Qed.
Print Assumptions C04_app_delivered_iff_processed.

(* ... and a processed fragment delivers at most one reassembled message, after which the
   context of that fragment id is closed (one reassembly per fragment id per context) *)
Theorem C04_fragment_once : forall c now mseq frag,
  let c' := fst (recv_fragment c now mseq frag) in
  c_incoming c' = c_incoming c
  \/ (exists s p, c_incoming c' = c_incoming c ++ [(s, p)])
     /\ dget (unbe (sub frag 0 2)) (c_rfrags c') = None.
Proof. exact C04_fragment_once_proof. Qed.
Print Assumptions C04_fragment_once.

(* 4. Arbitrary receive histories (any order, gaps, duplicates, replays, retransmitted message
      indices in fresh datagrams, any position relative to the ring wrap, unbounded length):
      under the half-range hypothesis the connection drops exactly the datagrams the abstract
      32-window flags, accepts the others, and processes exactly the messages the abstract
      256-window does not flag. *)
Theorem C04_exact : forall k c l,
  c_key c = Some k -> c_bf_pkt c = bf_new 32 -> c_bf_msg c = bf_new 256 ->
  Forall (good k) l ->
  let ns := map a_n l in
  let pf := w_hist 32 None ns in
  let js := presented pf l in
  w_half 32 None ns -> w_half 256 None js ->
  map dropped_out (snd (run_recv c l)) = pf
  /\ fst (run_recv c l) = fst (fst (run_g c l))
  /\ snd (fst (run_g c l)) = fresh_of pf ns
  /\ snd (run_g c l) = fresh_of (w_hist 256 None js) js.
Proof. exact C04_exact_proof. Qed.
Print Assumptions C04_exact.

(* 5. FULL STATEMENT (false, see C04_refuted):
        forall histories under the half-range hypothesis,
        NoDup (accepted datagram indices) /\ NoDup (processed message indices).
      PROVED: the same under the in-window hypothesis — every copy of a datagram arrives while
      the receiver's newest datagram is at most 32 ahead of it, every copy of a message while
      the newest message is at most 256 ahead. *)
Theorem C04_partial : forall k c l,
  c_key c = Some k -> c_bf_pkt c = bf_new 32 -> c_bf_msg c = bf_new 256 ->
  Forall (good k) l ->
  let ns := map a_n l in
  let pf := w_hist 32 None ns in
  let js := presented pf l in
  w_half 32 None ns -> w_half 256 None js ->
  w_inwin 32 None ns -> w_inwin 256 None js ->
  NoDup (snd (fst (run_g c l))) /\ NoDup (snd (run_g c l)).
Proof. exact C04_partial_proof. Qed.
Print Assumptions C04_partial.

(* 6. D16: without the in-window hypothesis the property is false.  Datagram 1 (message 1),
      then 33 newer datagrams carrying 264 newer messages, then datagram 1 again: it is accepted
      again (returns True) and message 1 reaches the application a second time. *)
Theorem C04_refuted :
  let c := wit_conn in
  let l := wit_history 33 8 in
  let ns := map a_n l in
  let js := presented (w_hist 32 None ns) l in
  c_key c = Some 7 /\ c_bf_pkt c = bf_new 32 /\ c_bf_msg c = bf_new 256
  /\ Forall (good 7) l /\ w_half 32 None ns /\ w_half 256 None js
  /\ count_occ Z.eq_dec (snd (fst (run_g c l))) 1 = 2%nat
  /\ count_occ Z.eq_dec (snd (run_g c l)) 1 = 2%nat
  /\ count_delivered 1 (fst (run_recv c l)) = 2
  /\ last (snd (run_recv c l)) [] = [ORet true].
Proof. exact C04_refuted_proof. Qed.
Print Assumptions C04_refuted.

(* the boundary is exactly 32 datagrams / 256 messages *)
Theorem C04_boundary :
  (let l := wit_history 32 8 in
   count_occ Z.eq_dec (snd (fst (run_g wit_conn l))) 1 = 1%nat
   /\ count_delivered 1 (fst (run_recv wit_conn l)) = 1
   /\ last (snd (run_recv wit_conn l)) [] = [ORet false])
  /\ (let l := wit_history 33 7 in
   count_occ Z.eq_dec (snd (fst (run_g wit_conn l))) 1 = 2%nat
   /\ count_occ Z.eq_dec (snd (run_g wit_conn l)) 1 = 1%nat
   /\ count_delivered 1 (fst (run_recv wit_conn l)) = 1).
Proof. exact C04_boundary_proof. Qed.
Print Assumptions C04_boundary.

(* ---------- non-vacuity ---------- *)

(* a history across the ring wrap with a gap, a reordering, a duplicate datagram inside the
   window and a retransmission (message 131071 again in the fresh datagram 65540) satisfies
   every hypothesis of C04_exact / C04_partial; the connection accepts each datagram once and
   delivers each message once *)
Definition ex_history : list arrival :=
  [ wit_arrival 65533 [131069; 131070];
    wit_arrival 65535 [131071];
    wit_arrival 65534 [];
    wit_arrival 65535 [131071];
    wit_arrival 65537 [131072; 131073];
    wit_arrival 65533 [131069; 131070];
    wit_arrival 65540 [131071; 131074] ].

Example C04_hypotheses_satisfiable :
  let l := ex_history in
  let ns := map a_n l in
  let js := presented (w_hist 32 None ns) l in
  Forall (good 7) l /\ w_half 32 None ns /\ w_half 256 None js
  /\ w_inwin 32 None ns /\ w_inwin 256 None js
  /\ w_hist 32 None ns = [false; false; false; true; false; true; false]
  /\ snd (fst (run_g wit_conn l)) = [65533; 65535; 65534; 65537; 65540]
  /\ snd (run_g wit_conn l) = [131069; 131070; 131071; 131072; 131073; 131074]
  /\ map (fun j => count_delivered j (fst (run_recv wit_conn l))) [131069; 131070; 131071; 131072; 131073; 131074]
     = [1; 1; 1; 1; 1; 1].
Proof.
  cbv zeta. split; [apply goodb_all; vm_compute; reflexivity|].
  split; [apply w_halfb_sound; vm_compute; reflexivity|].
  split; [apply w_halfb_sound; vm_compute; reflexivity|].
  split; [apply w_inwinb_sound; vm_compute; reflexivity|].
  split; [apply w_inwinb_sound; vm_compute; reflexivity|].
  vm_compute. repeat split.
Qed.

(* the abstract window is the specification C08 proved BitField against *)
Example C04_window_is_C08_spec : forall nb n0 h,
  w_hist nb None (n0 :: h) = false :: spec_hist nb n0 [n0] h.
Proof. exact w_hist_first. Qed.
