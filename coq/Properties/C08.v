(* C08 — sequence-number ring and receive-window bookkeeping are exact.
   Theorems only; every statement is about the kernels REGENERATED from connection.py
   (Gen/Kernels.v) and holds for all values / all histories, no bound. *)
From Coq Require Import Lia.
From Model Require Import Base SeqNum.
From Gen Require Import Kernels.
From Proofs Require Import KernelsP SeqNumP C08P.
Open Scope Z_scope.

(* 1. numbers advance 1..65535 and back to 1, never 0 *)
Theorem C08_succ_ring : forall a, 0 <= a <= 65535 ->
  exists r, gen_add a 1 = Ok r /\ 1 <= r <= 65535 /\ (a < 65535 -> r = a + 1) /\ (a = 65535 -> r = 1).
Proof. exact C08_succ_ring_proof. Qed.
Print Assumptions C08_succ_ring.

(* the n-th number handed out is (n-1) mod 65535 + 1, for every n *)
Theorem C08_succ_iter : forall n, 1 <= n -> gen_add (wire n) 1 = Ok (wire (n + 1)).
Proof. exact C08_succ_iter_proof. Qed.
Print Assumptions C08_succ_iter.

(* 2. newer/older comparisons are right for any two numbers less than half the ring apart *)
Theorem C08_diff_exact : forall a k, 1 <= a <= 65535 -> 1 <= k <= 32767 ->
  exists b, gen_add a k = Ok b /\ gen_diff b a = k /\ gen_diff a b = - k
    /\ gen_newer_than b a = Ok true /\ gen_newer_than a b = Ok false
    /\ gen_lt a b = Ok true /\ gen_gt b a = Ok true /\ gen_lt b a = Ok false /\ gen_gt a b = Ok false.
Proof. exact C08_diff_exact_proof. Qed.
Print Assumptions C08_diff_exact.

(* 3. a datagram / message is flagged duplicate exactly when it was already received inside
      the window: for every window width, every insertion history of true indices that
      respects the half-range hypothesis (all orders, gaps, repeats, any position relative to
      the wrap), the list of DuplicationError outcomes equals the abstract specification *)
Theorem C08_window_exact : forall nb n0 h, 1 <= nb -> 1 <= n0 -> half_range n0 h ->
  gen_hist nb 0 0 (n0 :: h) = false :: spec_hist nb n0 [n0] h.
Proof. exact C08_window_exact_proof. Qed.
Print Assumptions C08_window_exact.

(* 4. after any such history `contains` answers "received and within nb of the newest" *)
Theorem C08_contains_exact : forall nb n0 h n, 1 <= nb -> 1 <= n0 -> half_range n0 h ->
  let m := fold_left Z.max h n0 in
  1 <= n -> Z.abs (n - m) <= HALF ->
  let '(bits, cur) := gen_state nb 0 0 (n0 :: h) in
  gen_contains nb bits cur (wire n) = Ok (InB n (n0 :: h) && (n <=? m) && (m - n <=? nb)).
Proof. exact C08_contains_exact_proof. Qed.
Print Assumptions C08_contains_exact.

(* 5. the (ack, ack_bits) header fields built from the 32-bit window, decoded the way the
      peer decodes them, name exactly the datagrams received among the newest 32 (+ newest) *)
Theorem C08_ack_fields_exact : forall n0 h n, 1 <= n0 -> half_range n0 h ->
  let m := fold_left Z.max h n0 in
  1 <= n -> Z.abs (n - m) <= HALF ->
  let '(bits, cur) := gen_state 32 0 0 (n0 :: h) in
  hdr_acks cur bits (wire n) = InB n (n0 :: h) && (n <=? m) && (m - n <=? 32).
Proof. exact C08_ack_fields_exact_proof. Qed.
Print Assumptions C08_ack_fields_exact.

(* non-vacuity: a history crossing the wrap with a gap, a repeat inside and one outside the window *)
Example C08_hypotheses_satisfiable :
  half_range 65530 [65531; 65536; 65531; 65600; 65536; 65600; 65599] /\
  gen_hist 8 0 0 [65530; 65531; 65536; 65531; 65600; 65536; 65600; 65599]
    = [false; false; false; true; false; false; true; false].
Proof. split; [cbn; unfold HALF; lia | vm_compute; reflexivity]. Qed.
