(* C05 — guaranteed sends are eventually delivered, for every size, from both APIs.
   Theorems only.  Model: Model/Conn.v.  A guaranteed send (RetryMode.RETRY_ON_TIMEOUT) wraps the
   message in a RetrySender callback K = Retry rid mseq type payload inner; `Custody K c` says that K
   is done (its datagram was acknowledged), or attached to a message waiting in the outgoing queue,
   or registered for a datagram that is still pending. *)
From Model Require Import Base SeqNum Wire Conn.
From Proofs Require Import ConnFrameP NonceP PackP AckP CallbackP CustodyP DeliverP.
Open Scope Z_scope.

(* 1. Custody (safety, every schedule): from the moment send accepts a guaranteed message, through
      EVERY history that keeps the connection open — any loss, duplication, reordering or injection
      on the network shows up here as an arbitrary sequence of received datagrams and ticks — the
      sender never lets go of it before it is acknowledged. *)
Theorem C05_send_takes_custody : forall e c p k c' o,
  c_status c = CONNECTED -> len p <= e_max_payload e -> send e c p RTimeout k = (c', o) ->
  Custody (Retry (c_next_rid c) (seq_succ (c_seq_msg c)) APP p k) c' /\ c_next_rid c' = c_next_rid c + 1.
Proof. exact send_new_Custody. Qed.
Print Assumptions C05_send_takes_custody.

Theorem C05_custody_kept : forall e S Ka K xs c c' oss,
  rid_of K <> -1 -> all_open xs -> W S Ka c -> Custody K c -> run e c xs = (c', oss) ->
  W S Ka c' /\ Custody K c'.
Proof. exact run_Custody. Qed.
Print Assumptions C05_custody_kept.

Theorem C05_invariant_fresh : forall S b, 0 < S -> S <= 256 -> TICKS < (RING - 1) * S -> W S 0 (conn0 b).
Proof. exact W_conn0. Qed.
Print Assumptions C05_invariant_fresh.

(* 2. No size is left unsent: every message send appends to the queue — any payload length from 0
      to the fragmentation limit, fragments included — fits a datagram of its own ... *)
Theorem C05_every_size_fits : forall e c p r k c' o,
  env_ok e -> all_fit e c -> send e c p r k = (c', o) -> all_fit e c'.
Proof. exact send_all_fit. Qed.
Print Assumptions C05_every_size_fits.

(*    ... and the message at the head of the queue leaves with the next packet that is assembled
      (when no retry is due before it). *)
Theorem C05_queue_head_leaves : forall e c now m q c' r,
  NU c -> c_pretry_msg c = [] -> c_outgoing c = m :: q -> fits e (len (m_payload m)) 0 0 = true ->
  c_send_interval c <= now - c_last_send c ->
  build_packet e c now = (c', r) ->
  exists h ms, r = Some (h, stamp now m :: ms).
Proof. exact queue_head_leaves. Qed.
Print Assumptions C05_queue_head_leaves.

(* 3. Loss only delays: after every rate-gated tick a guaranteed message is done, or back in the
      queue, or in a pending datagram younger than the message time-out — a lost datagram gives its
      guaranteed messages back to the queue at the first such tick after the time-out. *)
Theorem C05_lost_datagram_requeues : forall e S Ka K c n now c' o,
  rid_of K <> -1 -> NU c -> AInv S Ka c n -> Custody K c ->
  c_send_interval c < now - c_last_send c -> server_tick e c now = (c', o) ->
  is_done K c' \/ queued K c' \/
  exists s ks t, dget s (c_pcbs c') = Some ks /\ In K ks /\ In (s, t) (c_packs c') /\ now - t <= c_out_timeout c.
Proof. exact custody_is_fresh. Qed.
Print Assumptions C05_lost_datagram_requeues.

(* Not proved as one theorem (stated so that it is visible): the liveness composition "under a
   healed schedule — both sides tick at least every tau, every emitted datagram is delivered before
   the next tick, the connection stays open — the message is handed to the peer application within a
   bounded number of rounds".  It is the composition of 1-3 with the receiver theorems of C04/C06
   (an authentic new datagram is accepted and its new messages are delivered; reassembly completes
   unless the receiver's fragment context expires first: known finding D17) and is exercised by
   harness/props/C05.py on every run, for every boundary length and MTU. *)

(* non-vacuity: a guaranteed send whose first datagram is lost is re-queued by the time-out sweep
   and emitted again with the same message sequence number *)
Definition c_ex : conn :=
  let c := conn0 false in
  mkConn false (Some 7) CONNECTED [] [] [] [] [] [] [] [] 0 0 0 (c_bf_pkt c) (c_bf_msg c)
         (c_out_timeout c) (c_temp_timeout c) (c_send_interval c) (c_ka_interval c)
         1536000 (c_last_send c) (c_last_ka c) 0 0 0 0 0 0 [] 0 0 false 0.
Definition env_ex : env := {| e_max_payload := 1434; e_max_frag := 1024; e_max_frags := 8192 |}.

Example C05_retransmission :
  let '(c, oss) := run env_ex c_ex
      [ESend [x2a] RTimeout (IUser 1); EClientTick 1536300 RxNone;
       EClientTick (1536300 + TICKS) RxNone; EClientTick (1536600 + TICKS) RxNone] in
  (map (fun o => match o with OEmit h _ p => (h_seq h, ptype_code (h_type h), p) | _ => (0, 0, []) end)
       (filter is_emit (concat oss)),
   c_done c)
  = ([(1, 6, [x00; x01; x2a]); (2, 6, [x00; x01; x2a]); (3, 6, [x00; x01; x2a])], []).
Proof. vm_compute. reflexivity. Qed.
