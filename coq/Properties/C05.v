(* C05 — guaranteed sends are eventually delivered, for every size, from both APIs.
   Theorems only.  Model: Model/Conn.v.  A guaranteed send (RetryMode.RETRY_ON_TIMEOUT) wraps the
   message in a RetrySender callback K = Retry rid mseq type payload inner; `Custody K c` says that K
   is done (its datagram was acknowledged), or attached to a message waiting in the outgoing queue,
   or registered for a datagram that is still pending. *)
From RecordUpdate Require Import RecordUpdate.
From Model Require Import Base SeqNum Wire Conn Client Net TimedNet LiveNet.
From Proofs Require Import ConnFrameP NonceP PackP AckP CallbackP CustodyP DeliverP LiveNetP.
Import RecordSetNotations.
Open Scope Z_scope.

(* 1. Custody (safety, every schedule): from the moment send accepts a guaranteed message, through
      EVERY history that keeps the connection open — any loss, duplication, reordering or injection
      on the network shows up here as an arbitrary sequence of received datagrams and ticks — the
      sender never lets go of it before it is acknowledged. *)
Theorem C05_send_takes_custody : forall e c p k c' o,
  c_status c = CONNECTED -> len p <= e_max_payload e -> send e c p RTimeout k = (c', o) ->
  Custody (Retry (c_next_rid c) (seq_succ (c_seq_msg c)) APP p k) c' /\ c_next_rid c' = c_next_rid c + 1.
Proof. exact send_new_Custody. Qed.
Print Assumptions C05_send_takes_custody.

Theorem C05_custody_kept : forall e S Ka K xs c c' oss,
  rid_of K <> -1 -> all_open xs -> W S Ka c -> Custody K c -> run e c xs = (c', oss) ->
  W S Ka c' /\ Custody K c'.
Proof. exact run_Custody. Qed.
Print Assumptions C05_custody_kept.

Theorem C05_invariant_fresh : forall S b, 0 < S -> S <= 256 -> TICKS < (RING - 1) * S -> W S 0 (conn0 b).
Proof. exact W_conn0. Qed.
Print Assumptions C05_invariant_fresh.

(* 2. No size is left unsent: every message send appends to the queue — any payload length from 0
      to the fragmentation limit, fragments included — fits a datagram of its own ... *)
Theorem C05_every_size_fits : forall e c p r k c' o,
  env_ok e -> all_fit e c -> send e c p r k = (c', o) -> all_fit e c'.
Proof. exact send_all_fit. Qed.
Print Assumptions C05_every_size_fits.

(*    ... and the message at the head of the queue leaves with the next packet that is assembled
      (when no retry is due before it). *)
Theorem C05_queue_head_leaves : forall e c now m q c' r,
  NU c -> c_pretry_msg c = [] -> c_outgoing c = m :: q -> fits e (len (m_payload m)) 0 0 = true ->
  c_send_interval c <= now - c_last_send c ->
  build_packet e c now = (c', r) ->
  exists h ms, r = Some (h, stamp now m :: ms).
Proof. exact queue_head_leaves. Qed.
Print Assumptions C05_queue_head_leaves.

(* 3. Loss only delays: after every rate-gated tick a guaranteed message is done, or back in the
      queue, or in a pending datagram younger than the message time-out — a lost datagram gives its
      guaranteed messages back to the queue at the first such tick after the time-out. *)
Theorem C05_lost_datagram_requeues : forall e S Ka K c n now c' o,
  rid_of K <> -1 -> NU c -> AInv S Ka c n -> Custody K c ->
  c_send_interval c < now - c_last_send c -> server_tick e c now = (c', o) ->
  is_done K c' \/ queued K c' \/
  exists s ks t, dget s (c_pcbs c') = Some ks /\ In K ks /\ In (s, t) (c_packs c') /\ now - t <= c_out_timeout c.
Proof. exact custody_is_fresh. Qed.
Print Assumptions C05_lost_datagram_requeues.

(* 4. Liveness, the two endpoints together (Model/LiveNet.v over the timed joint histories of
      Model/TimedNet.v: a client endpoint, the server-side connection of that client, one clock, the
      ghost log of every datagram each side has emitted and of those not yet shown to the peer).

      The pair (live_start): both CONNECTED under the same key, nothing queued or waiting for a retry
      on either side (the guaranteed message is the pair's only application traffic), the receiver's
      two windows behind the sender's counters, first half lap of the sequence rings.
      At t0 the sender's application calls send(p, retry=RETRY_ON_TIMEOUT, callback=ucb) — which is
      what UdpClient.send_guaranteed / ServerClientConnection.send_guaranteed do — with an
      UNFRAGMENTED payload (len p <= MAX_PAYLOAD_SIZE < 2^16): after_send.

      The history (hvalid), ANY length, event by event: the clock does not run backwards; the SENDER
      calls update() at least every tau; a receive opportunity of either side yields nothing, a copy
      of ANY datagram the peer has emitted so far (loss, duplication, reordering, arbitrary delay,
      before and after healing, in both directions), or bytes that do not open under the session key;
      every datagram the SENDER emits at or after th (the network is "healed" in the sender's
      direction; the acknowledgement direction need not heal) is shown to the peer within d;
      fewer than HALF datagrams in the sender's direction; the connection stays open (stays_open:
      this update() does not report DROPPED, this sweep does not remove the client).

      Then at every moment `now` later than  max(th, t0) + max(keep-alive interval, send interval)
      + tau + d  up to which these hypotheses hold (hnow), the receiver's incoming_messages is what
      it was at t0 plus exactly (message seq, p): the payload has been handed to the peer
      application, once, and nothing else has.  Neither the message time-out nor the ack direction
      enter the bound: an unacknowledged guaranteed message is re-packed from pending_retry_msg as
      soon as it is one keep-alive interval old. *)
Theorem C05_healed_network_delivers_client_to_server_partial : forall e P k t0 th cli srv p ucb,
  live_start k t0 cli srv -> lenv_ok e -> len p <= e_max_payload e -> forall hs now, 0 <= tp_d P ->
  hvalid e P SCli th (after_send e SCli cli srv p ucb t0) hs ->
  hnow P SCli th (trun e P (after_send e SCli cli srv p ucb t0) hs) now ->
  Z.max th t0 + live_bound P cli < now ->
  c_incoming (t_srv (trun e P (after_send e SCli cli srv p ucb t0) hs))
  = c_incoming srv ++ [(seq_succ (c_seq_msg cli), p)].
Proof. exact cli_to_srv_delivered. Qed.
Print Assumptions C05_healed_network_delivers_client_to_server_partial.

(*    ... and from the server-side client object (ServerClientConnection.send_guaranteed) to the client *)
Theorem C05_healed_network_delivers_server_to_client_partial : forall e P k t0 th cli srv p ucb,
  live_start k t0 srv cli -> lenv_ok e -> len p <= e_max_payload e -> forall hs now, 0 <= tp_d P ->
  hvalid e P SSrv th (after_send e SSrv cli srv p ucb t0) hs ->
  hnow P SSrv th (trun e P (after_send e SSrv cli srv p ucb t0) hs) now ->
  Z.max th t0 + live_bound P srv < now ->
  c_incoming (t_cli (trun e P (after_send e SSrv cli srv p ucb t0) hs))
  = c_incoming cli ++ [(seq_succ (c_seq_msg srv), p)].
Proof. exact srv_to_cli_delivered. Qed.
Print Assumptions C05_healed_network_delivers_server_to_client_partial.

(*    At EVERY moment of every such history (no lateness needed): the receiver has been handed
      nothing but that payload, and at most once ... *)
Theorem C05_delivered_at_most_once_client_to_server : forall e P k t0 th cli srv p ucb,
  live_start k t0 cli srv -> lenv_ok e -> len p <= e_max_payload e -> forall hs,
  hvalid e P SCli th (after_send e SCli cli srv p ucb t0) hs ->
  let n := trun e P (after_send e SCli cli srv p ucb t0) hs in
  c_incoming (t_srv n) = c_incoming srv \/ c_incoming (t_srv n) = c_incoming srv ++ [(seq_succ (c_seq_msg cli), p)].
Proof. exact cli_to_srv_at_most_once. Qed.
Print Assumptions C05_delivered_at_most_once_client_to_server.

Theorem C05_delivered_at_most_once_server_to_client : forall e P k t0 th cli srv p ucb,
  live_start k t0 srv cli -> lenv_ok e -> len p <= e_max_payload e -> forall hs,
  hvalid e P SSrv th (after_send e SSrv cli srv p ucb t0) hs ->
  let n := trun e P (after_send e SSrv cli srv p ucb t0) hs in
  c_incoming (t_cli n) = c_incoming cli \/ c_incoming (t_cli n) = c_incoming cli ++ [(seq_succ (c_seq_msg srv), p)].
Proof. exact srv_to_cli_at_most_once. Qed.
Print Assumptions C05_delivered_at_most_once_server_to_client.

(*    ... and the sender's RetrySender is marked done (it stops retransmitting and reports success to
      the application's callback) only after the payload has been handed to the peer application:
      the composition of "acks name accepted datagrams" (C07) with the receiver's message loop. *)
Theorem C05_done_means_delivered_client_to_server : forall e P k t0 th cli srv p ucb,
  live_start k t0 cli srv -> lenv_ok e -> len p <= e_max_payload e -> forall hs,
  hvalid e P SCli th (after_send e SCli cli srv p ucb t0) hs ->
  let n := trun e P (after_send e SCli cli srv p ucb t0) hs in
  zmem (c_next_rid cli) (c_done (t_cli n)) = true ->
  c_incoming (t_srv n) = c_incoming srv ++ [(seq_succ (c_seq_msg cli), p)].
Proof. exact cli_to_srv_done_means_delivered. Qed.
Print Assumptions C05_done_means_delivered_client_to_server.

Theorem C05_done_means_delivered_server_to_client : forall e P k t0 th cli srv p ucb,
  live_start k t0 srv cli -> lenv_ok e -> len p <= e_max_payload e -> forall hs,
  hvalid e P SSrv th (after_send e SSrv cli srv p ucb t0) hs ->
  let n := trun e P (after_send e SSrv cli srv p ucb t0) hs in
  zmem (c_next_rid srv) (c_done (t_srv n)) = true ->
  c_incoming (t_cli n) = c_incoming cli ++ [(seq_succ (c_seq_msg srv), p)].
Proof. exact srv_to_cli_done_means_delivered. Qed.
Print Assumptions C05_done_means_delivered_server_to_client.

(*    Custody in the joint model: as long as the payload has not been handed to the peer application,
      the sender's RetrySender is not done and the message is in the outgoing queue or scheduled for
      a retry (pending_retry_msg) with that RetrySender attached. *)
Theorem C05_sender_holds_until_delivered_client_to_server : forall e P k t0 th cli srv p ucb,
  live_start k t0 cli srv -> lenv_ok e -> len p <= e_max_payload e -> forall hs,
  hvalid e P SCli th (after_send e SCli cli srv p ucb t0) hs ->
  let n := trun e P (after_send e SCli cli srv p ucb t0) hs in
  let rs := Retry (c_next_rid cli) (seq_succ (c_seq_msg cli)) APP p ucb in
  c_incoming (t_srv n) = c_incoming srv ->
  zmem (c_next_rid cli) (c_done (t_cli n)) = false /\
  ((exists m, In m (c_outgoing (t_cli n)) /\ m_seq m = seq_succ (c_seq_msg cli) /\ m_payload m = p
              /\ m_retry m = RTimeout /\ m_cb m = Some rs)
   \/ (exists m, In (seq_succ (c_seq_msg cli), m) (c_pretry_msg (t_cli n)) /\ m_payload m = p /\ m_cb m = Some rs)).
Proof. exact cli_to_srv_custody. Qed.
Print Assumptions C05_sender_holds_until_delivered_client_to_server.

Theorem C05_sender_holds_until_delivered_server_to_client : forall e P k t0 th cli srv p ucb,
  live_start k t0 srv cli -> lenv_ok e -> len p <= e_max_payload e -> forall hs,
  hvalid e P SSrv th (after_send e SSrv cli srv p ucb t0) hs ->
  let n := trun e P (after_send e SSrv cli srv p ucb t0) hs in
  let rs := Retry (c_next_rid srv) (seq_succ (c_seq_msg srv)) APP p ucb in
  c_incoming (t_cli n) = c_incoming cli ->
  zmem (c_next_rid srv) (c_done (t_srv n)) = false /\
  ((exists m, In m (c_outgoing (t_srv n)) /\ m_seq m = seq_succ (c_seq_msg srv) /\ m_payload m = p
              /\ m_retry m = RTimeout /\ m_cb m = Some rs)
   \/ (exists m, In (seq_succ (c_seq_msg srv), m) (c_pretry_msg (t_srv n)) /\ m_payload m = p /\ m_cb m = Some rs)).
Proof. exact srv_to_cli_custody. Qed.
Print Assumptions C05_sender_holds_until_delivered_server_to_client.

(*    Every prefix of an admissible history is admissible, so these statements speak about every
      moment of a history; and the executable checks used by the examples and by the correspondence
      unit live_pair_run imply the stated hypotheses. *)
Theorem C05_executable_hypotheses : forall e P sd th n vs k t0 x y now,
  (hvalidb e P sd th n vs = true -> hvalid e P sd th n vs) /\
  (hnowb P sd th n now = true -> hnow P sd th n now) /\
  (live_startb k t0 x y = true -> live_start k t0 x y).
Proof. exact executable_hypotheses. Qed.
Print Assumptions C05_executable_hypotheses.

(*    The bound is within two ticks of exact: a history inside all the hypotheses in which, two ticks
      before the bound, nothing has been delivered yet (the first datagram leaves one tick before the
      network heals and is lost; an update() finds the retry one tick too young, the next one comes tau
      later, the network takes d). *)
Theorem C05_bound_within_two_ticks_of_exact :
  exists e P k t0 th cli srv p ucb hs now,
    live_start k t0 cli srv /\ lenv_ok e /\ len p <= e_max_payload e /\ 0 <= tp_d P
    /\ hvalid e P SCli th (after_send e SCli cli srv p ucb t0) hs
    /\ hnow P SCli th (trun e P (after_send e SCli cli srv p ucb t0) hs) now
    /\ now = Z.max th t0 + live_bound P cli - 2
    /\ c_incoming (t_srv (trun e P (after_send e SCli cli srv p ucb t0) hs)) = c_incoming srv.
Proof. exact bound_nearly_tight_proof. Qed.
Print Assumptions C05_bound_within_two_ticks_of_exact.

(* Why "_partial" (the full clause, kept visible): "for every payload length up to the fragmentation
   limit, every pattern of lost/duplicated/reordered datagrams in both directions followed by a healed
   network, and EVERY INTERLEAVING WITH OTHER TRAFFIC, the message is delivered".  Proved above: every
   unfragmented length, every fault pattern, both APIs, explicit bound — for a pair whose only
   application traffic is the message.  Missing: (i) other application traffic of either side
   interleaved with the message (first-fit packing then lets due retries and older queue entries go
   first; sender-side custody, theorems 1-3, covers that case, the timed bound does not);
   (ii) fragmented payloads: reassembly also needs the receiver's fragment context to survive the
   outage (known finding D17); (iii) sessions past the first half lap of the 16-bit rings (C07/C08
   state the half-range hypotheses for those).  Theorems 1-3 hold with all of these present. *)

(* non-vacuity: a guaranteed send whose first datagram is lost is re-queued by the time-out sweep
   and emitted again with the same message sequence number *)
Definition c_ex : conn :=
  let c := conn0 false in
  mkConn false (Some 7) CONNECTED [] [] [] [] [] [] [] [] 0 0 0 (c_bf_pkt c) (c_bf_msg c)
         (c_out_timeout c) (c_temp_timeout c) (c_send_interval c) (c_ka_interval c)
         1536000 (c_last_send c) (c_last_ka c) 0 0 0 0 0 0 [] 0 0 false 0.
Definition env_ex : env := {| e_max_payload := 1434; e_max_frag := 1024; e_max_frags := 8192 |}.

Example C05_retransmission :
  let '(c, oss) := run env_ex c_ex
      [ESend [x2a] RTimeout (IUser 1); EClientTick 1536300 RxNone;
       EClientTick (1536300 + TICKS) RxNone; EClientTick (1536600 + TICKS) RxNone] in
  (map (fun o => match o with OEmit h _ p => (h_seq h, ptype_code (h_type h), p) | _ => (0, 0, []) end)
       (filter is_emit (concat oss)),
   c_done c)
  = ([(1, 6, [x00; x01; x2a]); (2, 6, [x00; x01; x2a]); (3, 6, [x00; x01; x2a])], []).
Proof. vm_compute. reflexivity. Qed.

(* non-vacuity of 4, client to server: the first datagram (emitted at t0 + 300) is lost for ever, the
   network heals at t0 + 2000, the retransmission from pending_retry_msg (t0 + 2100, one keep-alive
   interval after the first) is shown to the server 50 ticks later, the server's next keep-alive
   acknowledges it and the client's RetrySender 0 is done; the hypotheses hold up to t0 + 3937, one
   tick later than the bound t0 + 2000 + (1536 + 300 + 100). *)
Definition lx_t0 : Z := 1536000.
Definition lx_cli : conn := (conn0 false) <| c_key := Some 7 |> <| c_status := CONNECTED |> <| c_last_recv := lx_t0 |>.
Definition lx_srv : conn := (conn0 true) <| c_key := Some 7 |> <| c_status := CONNECTED |> <| c_last_recv := lx_t0 |>.
Definition lx_P : tparams := {| tp_tau := 300; tp_d := 100; tp_life := 0; tp_T := 5 * TICKS |}.
Definition lx_th : Z := lx_t0 + 2000.
Definition lx_hs : list tev :=
  [TClient (lx_t0 + 300) SNone; TSrvSweep (lx_t0 + 300); TClient (lx_t0 + 600) SNone; TClient (lx_t0 + 900) SNone;
   TClient (lx_t0 + 1200) SNone; TClient (lx_t0 + 1500) SNone; TClient (lx_t0 + 1800) SNone; TClient (lx_t0 + 2100) SNone;
   TSrvRecv (lx_t0 + 2150) (SPeer 2); TSrvSweep (lx_t0 + 2200); TClient (lx_t0 + 2400) (SPeer 2);
   TClient (lx_t0 + 2700) SNone; TClient (lx_t0 + 3000) SNone; TClient (lx_t0 + 3300) SNone; TClient (lx_t0 + 3600) SNone;
   TClient (lx_t0 + 3900) SNone].
Definition lx_end : tnet := trun env_ex lx_P (after_send env_ex SCli lx_cli lx_srv [x2a] (IUser 1) lx_t0) lx_hs.

Example C05_lost_healed_delivered :
  live_startb 7 lx_t0 lx_cli lx_srv = true
  /\ hvalidb env_ex lx_P SCli lx_th (after_send env_ex SCli lx_cli lx_srv [x2a] (IUser 1) lx_t0) lx_hs = true
  /\ hnowb lx_P SCli lx_th lx_end (lx_t0 + 3937) = true
  /\ Z.max lx_th lx_t0 + live_bound lx_P lx_cli = lx_t0 + 3936
  /\ map (fun x => (fst (fst x), snd (fst x) - lx_t0, ptype_code (h_type (d_hdr (snd x))), h_count (d_hdr (snd x)))) (wd_log (t_cs lx_end))
     = [(1, 300, 6, 1); (2, 2100, 6, 1); (3, 3900, 4, 0)]
  /\ map fst (wd_pend (t_cs lx_end)) = [1; 3]
  /\ c_incoming (t_srv lx_end) = [(1, [x2a])] /\ c_done (t_cli lx_end) = [0].
Proof. vm_compute. repeat split; reflexivity. Qed.

(* ... the same conclusion through the theorem *)
Example C05_lost_healed_delivered_by_theorem : c_incoming (t_srv lx_end) = c_incoming lx_srv ++ [(seq_succ (c_seq_msg lx_cli), [x2a])].
Proof.
  apply (C05_healed_network_delivers_client_to_server_partial env_ex lx_P 7 lx_t0 lx_th lx_cli lx_srv [x2a] (IUser 1))
    with (now := lx_t0 + 3937).
  - apply live_startb_ok. vm_compute. reflexivity.
  - vm_compute. reflexivity.
  - vm_compute. discriminate.
  - vm_compute. discriminate.
  - apply hvalidb_ok. vm_compute. reflexivity.
  - apply hnowb_ok. vm_compute. reflexivity.
  - vm_compute. reflexivity.
Qed.

(* non-vacuity of 4, server to client, with reordering, duplication and junk: the first datagram
   (t0 + 300) arrives AFTER the retransmission (t0 + 2100), which is itself shown twice; bytes that do
   not open are offered to the client; the only datagram of the client that reaches the server was
   built before anything was accepted, so the server is never acknowledged and keeps retransmitting
   (datagram 3 still carries the message) — the client application gets the payload exactly once. *)
Definition lx_junk : dgram :=
  {| d_hdr := {| h_to_server := false; h_ctime := 100; h_seq := 9; h_ack := 0; h_type := APP; h_len := 3; h_count := 1; h_ackbits := 0 |};
     d_body := Bad |}.
Definition lx_hs2 : list tev :=
  [TSrvSweep (lx_t0 + 300); TClient (lx_t0 + 400) (SJunk lx_junk []); TSrvSweep (lx_t0 + 600); TSrvSweep (lx_t0 + 900);
   TSrvSweep (lx_t0 + 1200); TSrvSweep (lx_t0 + 1500); TSrvSweep (lx_t0 + 1800); TSrvSweep (lx_t0 + 2100);
   TClient (lx_t0 + 2150) (SPeer 2); TClient (lx_t0 + 2160) (SPeer 2); TClient (lx_t0 + 2170) (SPeer 1);
   TSrvRecv (lx_t0 + 2200) (SPeer 1);
   TSrvSweep (lx_t0 + 2400); TSrvSweep (lx_t0 + 2700); TSrvSweep (lx_t0 + 3000); TSrvSweep (lx_t0 + 3300); TSrvSweep (lx_t0 + 3600);
   TSrvSweep (lx_t0 + 3900)].
Definition lx_end2 : tnet := trun env_ex lx_P (after_send env_ex SSrv lx_cli lx_srv [x2a; x2b] (IUser 1) lx_t0) lx_hs2.

Example C05_reordered_duplicated_delivered_once :
  live_startb 7 lx_t0 lx_srv lx_cli = true
  /\ hvalidb env_ex lx_P SSrv lx_th (after_send env_ex SSrv lx_cli lx_srv [x2a; x2b] (IUser 1) lx_t0) lx_hs2 = true
  /\ hnowb lx_P SSrv lx_th lx_end2 (lx_t0 + 3937) = true
  /\ map (fun x => (fst (fst x), snd (fst x) - lx_t0, ptype_code (h_type (d_hdr (snd x))), h_count (d_hdr (snd x)))) (wd_log (t_sc lx_end2))
     = [(1, 300, 6, 1); (2, 2100, 6, 1); (3, 3900, 6, 1)]
  /\ c_incoming (t_cli lx_end2) = [(1, [x2a; x2b])] /\ c_done (t_srv lx_end2) = [].
Proof. vm_compute. repeat split; reflexivity. Qed.

Example C05_reordered_duplicated_delivered_by_theorem :
  c_incoming (t_cli lx_end2) = c_incoming lx_cli ++ [(seq_succ (c_seq_msg lx_srv), [x2a; x2b])].
Proof.
  apply (C05_healed_network_delivers_server_to_client_partial env_ex lx_P 7 lx_t0 lx_th lx_cli lx_srv [x2a; x2b] (IUser 1))
    with (now := lx_t0 + 3937).
  - apply live_startb_ok. vm_compute. reflexivity.
  - vm_compute. reflexivity.
  - vm_compute. discriminate.
  - vm_compute. discriminate.
  - apply hvalidb_ok. vm_compute. reflexivity.
  - apply hnowb_ok. vm_compute. reflexivity.
  - vm_compute. reflexivity.
Qed.
