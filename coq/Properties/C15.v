(* placeholder, replaced below *)
From Model Require Import Base Json.
