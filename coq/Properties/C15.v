(* C15 — typed JSON round trip of Serializable objects (mpgameserver/serializable.py: toJson / fromJson /
   dumps / loads).  Theorems only; proofs in Proofs/JsonP.v and Proofs/C15P.v.

   Vocabulary (Model/Json.v):
     ct                     the class table: `_fields` + annotations of every Serializable class, members of
                            every SerializableEnum class
     upper                  str.upper (external: universally quantified)
     wf_ctab ct upper       attribute names of a class are distinct; enum member names are distinct and
                            upper case (upper name = name) — the documented condition on enums
     ht_obj ct lim n x cid  x is an instance of class cid whose fields hold values of their annotated types:
                            int / float (not NaN) / bool / str, a nested Serializable instance, an enum member,
                            or None / a list / set (duplicate-free) / dict (int, str or enum keys) / tuple (of the
                            annotated arity) of those, one level of generic containers; n bounds the nesting of
                            objects.  bytes fields, bare or nested-generic containers and None for a nested
                            Serializable field are OUTSIDE this domain (ht_basic is false on them).
                            lim = true additionally restricts every int to CPython's 4300-digit int<->str limit.
     val_toJson ct n x      x.toJson()                 obj_fromJson ct upper n cid j     cid.fromJson(j)
     json_rt j              json.loads(json.dumps(j)): dict keys stringified, tuples to lists (trusted model of
                            the json module, sampled by the harness)
     plainb lim j           j is JSON data (None/bool/int/float/str/list/dict) with str or int dict keys
     strictb j              j is JSON data as json.loads returns it (str keys only) *)
From Model Require Import Base Json.
From Proofs Require Import JsonP C15P.
Open Scope Z_scope.

(* 1. fromJson(toJson(x)) = x : every object of the domain, any int size *)
Theorem C15_fromjson_tojson : forall ct upper n x cid,
  wf_ctab ct upper = true -> ht_obj ct false n x cid = true ->
  exists j, val_toJson ct n x = Ok j /\ obj_fromJson ct upper n cid j = Ok x.
Proof. exact C15_fromjson_tojson_proof. Qed.
Print Assumptions C15_fromjson_tojson.

(* 2. loads(dumps(x)) = x : json.dumps accepts toJson's result and the object is reproduced from the
      re-read text (keys stringified, tuples as lists) *)
Theorem C15_loads_dumps : forall ct upper n x cid,
  wf_ctab ct upper = true -> ht_obj ct true n x cid = true ->
  exists j j', val_toJson ct n x = Ok j /\ json_rt j = Ok j' /\ obj_fromJson ct upper n cid j' = Ok x.
Proof. exact C15_loads_dumps_proof. Qed.
Print Assumptions C15_loads_dumps.

(* 3. toJson produces plain data (needs only distinct names, not the upper-case condition) *)
Theorem C15_tojson_plain : forall ct lim n x cid,
  wf_ctab ct (fun s => s) = true -> ht_obj ct lim n x cid = true ->
  exists j, val_toJson ct n x = Ok j /\ plainb lim j = true.
Proof. exact C15_tojson_plain_proof. Qed.
Print Assumptions C15_tojson_plain.

(* 4. json.dumps accepts all plain data, and what json.loads returns is strict JSON data *)
Theorem C15_dumps_accepts_plain : forall j, plainb true j = true ->
  exists j', json_rt j = Ok j' /\ strictb j' = true.
Proof. exact C15_dumps_accepts_plain_proof. Qed.
Print Assumptions C15_dumps_accepts_plain.

(* 5. = 3 + 4: json.dumps accepts toJson's result *)
Theorem C15_dumps_accepts : forall ct n x cid,
  wf_ctab ct (fun s => s) = true -> ht_obj ct true n x cid = true ->
  exists j j', val_toJson ct n x = Ok j /\ json_rt j = Ok j' /\ strictb j' = true.
Proof. exact C15_dumps_accepts_proof. Qed.
Print Assumptions C15_dumps_accepts.

(* 6. the nesting bound n is no restriction: a larger bound accepts the same objects (so 1-5 hold at
      every sufficient fuel) *)
Theorem C15_fuel_monotone : forall ct lim n m x cid,
  ht_obj ct lim n x cid = true -> (n <= m)%nat -> ht_obj ct lim m x cid = true.
Proof. exact C15_fuel_monotone_proof. Qed.
Print Assumptions C15_fuel_monotone.

(* ------------------------------------------------------------------ non-vacuity *)

(* enum Color { BLUE = 3, GREEN = 2, RED = 1 } (dir() order);
   class Inner { v: int; s: str };
   class Outer { a: int; f: float; c: Color; o: Inner; l: List[Inner]; s: Set[int]; d: Dict[int, str];
                 e: Dict[Color, Inner]; t: Tuple[int, str, Color]; n: List[int]; g: Optional[...] } *)
Definition ex_ct : ctab :=
  mkCtab
    [ (1, [ mkField [118] (TBasic TInt) (PInt 0); mkField [115] (TBasic TStr) (PStr []) ]);
      (2, [ mkField [97] (TBasic TInt) (PInt 0); mkField [102] (TBasic TFloat) (PFloat 0);
            mkField [99] (TBasic (TEnum 1)) (PEnum 1 1); mkField [111] (TBasic (TObj 1)) PNone;
            mkField [108] (TList (TObj 1)) PNone; mkField [115] (TSet TInt) PNone;
            mkField [100] (TDict TInt TStr) PNone; mkField [101] (TDict (TEnum 1) (TObj 1)) PNone;
            mkField [116] (TTuple [TInt; TStr; TEnum 1]) PNone; mkField [110] (TList TInt) PNone;
            mkField [103] TGenOther PNone ]);
      (3, [ mkField [98] (TBasic TBytes) (PBytes []) ]);
      (4, [ mkField [116] (TTuple [TInt; TInt]) PNone ]);
      (5, [ mkField [99] (TBasic (TEnum 2)) (PEnum 2 1) ]) ]
    [ (1, [ ([66;76;85;69], 3); ([71;82;69;69;78], 2); ([82;69;68], 1) ]);
      (2, [ ([114;101;100], 1) ]) ].                                       (* member "red": not upper case *)

(* the part of the table that satisfies the documented conditions *)
Definition ex_ct_ok : ctab :=
  mkCtab (firstn 2 (c_objs ex_ct) ++ [nth 3 (c_objs ex_ct) (0, [])]) (firstn 1 (c_enums ex_ct)).

Definition ex_inner (v : Z) (s : str) : pv := PObj 1 [PInt v; PStr s].
Definition ex_x : pv :=
  PObj 2 [ PInt (-5); PFloat 4607182418800017408; PEnum 1 2; ex_inner 7 [233; 28450];
           PList [ex_inner 1 [97]; ex_inner (2 ^ 70) []]; PSet [PInt 3; PInt (-1)];
           PDict [(PInt 10, PStr [97]); (PInt (-2), PStr [])];
           PDict [(PEnum 1 1, ex_inner 0 []); (PEnum 1 3, ex_inner 9 [122])];
           PTuple [PInt 1; PStr [120]; PEnum 1 3]; PNone; PNone ].

Example C15_hypotheses_satisfiable :
  wf_ctab ex_ct_ok ascii_upper = true /\ ht_obj ex_ct_ok true 2 ex_x 2 = true.
Proof. vm_compute. split; reflexivity. Qed.

(* the conversions computed on that object: int and enum keys travel as text and come back *)
Example C15_roundtrip_computed :
  (do j <- val_toJson ex_ct_ok 2 ex_x; do j' <- json_rt j; obj_fromJson ex_ct_ok ascii_upper 2 2 j') = Ok ex_x /\
  (do j <- val_toJson ex_ct_ok 2 ex_x; do j' <- json_rt j;
   match j' with
   | PDict kv => Ok (dict_find kv (PStr [100]), dict_find kv (PStr [116]))
   | _ => Err EOther
   end)
  = Ok (Some (PDict [(PStr [49; 48], PStr [97]); (PStr [45; 50], PStr [])]),        (* {"10": "a", "-2": ""} *)
        Some (PList [PInt 1; PStr [120]; PStr [66;76;85;69]])).                    (* [1, "x", "BLUE"] *)
Proof. vm_compute. split; reflexivity. Qed.

(* each restriction of the domain is needed (the conversion really fails outside it): *)
(* a bytes field: toJson passes it through and json.dumps raises TypeError *)
Example C15_bytes_outside_domain :
  ht_obj ex_ct true 1 (PObj 3 [PBytes [1; 2]]) 3 = false /\
  (do j <- val_toJson ex_ct 1 (PObj 3 [PBytes [1; 2]]); json_rt j) = Err EType.
Proof. vm_compute. split; reflexivity. Qed.

(* a tuple shorter than its annotation is padded with None by toJson, and fromJson then raises
   TypeError on int(None) *)
Example C15_tuple_arity_outside_domain :
  ht_obj ex_ct true 1 (PObj 4 [PTuple [PInt 1]]) 4 = false /\
  (do j <- val_toJson ex_ct 1 (PObj 4 [PTuple [PInt 1]]); obj_fromJson ex_ct ascii_upper 1 4 j)
  = Err EType.
Proof. vm_compute. split; reflexivity. Qed.

(* an enum member whose name is not upper case: fromJson raises KeyError *)
Example C15_lowercase_enum_outside_domain :
  wf_ctab ex_ct ascii_upper = false /\
  (do j <- val_toJson ex_ct 1 (PObj 5 [PEnum 2 1]); obj_fromJson ex_ct ascii_upper 1 5 j) = Err EKey.
Proof. vm_compute. split; reflexivity. Qed.

(* None in a nested-Serializable field: toJson raises AttributeError *)
Example C15_none_object_outside_domain :
  val_toJson ex_ct_ok 2 (PObj 2 [PInt 0; PFloat 0; PEnum 1 1; PNone; PNone; PNone; PNone; PNone; PNone; PNone; PNone])
  = Err EAttr.
Proof. vm_compute. reflexivity. Qed.

(* a NaN float is not reproduced bit for bit by the text round trip (and NaN <> NaN in Python) *)
Example C15_nan_outside_domain :
  json_rt (PFloat 18444492273895866368) = Ok (PFloat NAN_BITS) /\ 18444492273895866368 <> NAN_BITS.
Proof. vm_compute. split; [reflexivity | discriminate]. Qed.

(* an int beyond 4300 digits: the direct round trip holds (theorem 1), json.dumps raises ValueError *)
Example C15_huge_int_needs_lim :
  ht_obj ex_ct_ok false 1 (ex_inner (10 ^ 4300) []) 1 = true /\
  (do j <- val_toJson ex_ct_ok 1 (ex_inner (10 ^ 4300) []); json_rt j) = Err EValue.
Proof. vm_compute. repeat split; reflexivity. Qed.
