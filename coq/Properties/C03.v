(* C03 — AES-GCM nonces never repeat; nothing but the hellos travels in clear.
   Theorems only.  Model: Model/Conn.v (the ConnectionBase state machine: every way the code
   builds a datagram goes through build_packet -> emit) and Model/Wire.v (bytes).  `run e c xs`
   is the connection after ANY event list xs (sends of any size / retry mode, ticks at any times,
   received datagrams of any kind, configuration changes, disconnects); `emits` are the headers
   of the datagrams handed to the socket, in order. *)
From Model Require Import Base SeqNum Wire Conn.
From Proofs Require Import ConnFrameP NonceP ClearP.
Open Scope Z_scope.

(* 1. No two datagrams built by one connection share (send-time seconds, seq) — hence never the
      12-byte nonce magic|ctime|seq|ack — for every history, including keep-alives, resends and
      any number of wrap-arounds of the 16-bit counter, provided the configured send interval
      never drops below S with 65535*S >= 1 s (default 1/60 s).  No assumption on the clock is
      needed: _build_packet refuses to build less than send_interval after the previous build,
      so 65535 builds take at least one second and change the ctime field. *)
Theorem C03_nonces_fresh : forall e S c xs c' oss,
  0 <= S -> TICKS <= RING * S -> S <= c_send_interval c -> 0 <= c_seq_send c <= RING -> all_ok S xs ->
  run e c xs = (c', oss) ->
  NoDup (map nonce2 (emits (concat oss))).
Proof. exact nonces_fresh. Qed.
Print Assumptions C03_nonces_fresh.

(* 2. The two directions never share a nonce: every header a side emits carries that side's
      direction magic (TO_SERVER from the client, TO_CLIENT from the server), for ever. *)
Theorem C03_directions : forall e S xs c c' oss,
  S <= c_send_interval c -> all_ok S xs -> run e c xs = (c', oss) ->
  c_server c' = c_server c /\ Forall (fun h => h_to_server h = negb (c_server c)) (emits (concat oss)).
Proof. exact server_flag_run. Qed.
Print Assumptions C03_directions.

(* 3. Byte level: the first 12 bytes of an encoded header (the AES-GCM nonce) determine
      (direction, ctime, seq, ack); equal nonces mean equal fields. *)
Theorem C03_nonce_bytes : forall h1 h2 b1 b2,
  encode_header h1 = Ok b1 -> encode_header h2 = Ok b2 -> firstn 12 b1 = firstn 12 b2 ->
  h_to_server h1 = h_to_server h2 /\ h_ctime h1 = h_ctime h2 /\ h_seq h1 = h_seq h2 /\ h_ack h1 = h_ack h2.
Proof. exact nonce_bytes_inj. Qed.
Print Assumptions C03_nonce_bytes.

(* 4. Whatever a connection emits while it holds a key is sealed under that key, except a packet
      typed SERVER_HELLO ... *)
Theorem C03_sealed : forall e c x c' o h kk p,
  step e c x = (c', o) -> In (OEmit h kk p) o ->
  kk = (if ptype_eqb (h_type h) SERVER_HELLO then None else c_key c').
Proof. exact step_emit_key. Qed.
Print Assumptions C03_sealed.

(*    ... and "sealed" means: Packet.to_bytes yields header || seal key (header[0:12]) (header[0:20])
      payload — the whole 20-byte header is the associated data (any crc, any seal function). *)
Theorem C03_sealed_bytes : forall crc seal c h0 ms h kk p,
  h_count h0 = len ms -> In (OEmit h kk p) (emit c (h0, ms)) ->
  to_bytes crc seal (c_key c) h0 (map wmsg_of ms) = denote crc seal h kk p.
Proof. exact emit_denotes. Qed.
Print Assumptions C03_sealed_bytes.

(* 5. Application bytes never leave in clear: for every history of a fresh connection (client or
      server side), every datagram emitted WITHOUT encryption is typed SERVER_HELLO or encodes only
      messages that are neither APP nor APP_FRAGMENT.  (Invariant behind it: while a connection has
      no key it is not CONNECTED, queues no application message and holds no retry; a key, once
      held, is never dropped.) *)
Theorem C03_no_app_in_clear : forall e b xs c' oss,
  run e (conn0 b) xs = (c', oss) ->
  Forall (fun o => forall h p, In (OEmit h None p) o ->
            h_type h = SERVER_HELLO \/
            exists ms, encode_msgs (map wmsg_of ms) = Ok p /\
                       Forall (fun m => m_type m <> APP /\ m_type m <> APP_FRAGMENT) ms) oss.
Proof. intros e b xs c' oss E. exact (proj2 (run_J e xs _ _ _ (Jinv_conn0 b) E)). Qed.
Print Assumptions C03_no_app_in_clear.

(* Not proved here (stated so that it is visible): that the clear SERVER_HELLO packet itself
   never carries an application message behind the hello.  On the single-endpoint model this
   needs two facts about the PEER (a peer holding the key never sends a second CLIENT_HELLO, and
   cannot answer the challenge before the server hello has left the queue — the second is a
   consequence of the key derivation, see C02); the correspondence run observes it on every
   history (harness/props/C03.py: no application bytes in any clear datagram). *)

(* non-vacuity: the default send interval satisfies the premise; a CONNECTED key holder emits
   a sealed APP datagram and later a sealed keep-alive with different nonces *)
Example C03_default_interval_ok : TICKS <= RING * c_send_interval (conn0 false) /\ 0 <= c_seq_send (conn0 false) <= RING.
Proof. vm_compute. repeat split; discriminate. Qed.

Definition c_ex : conn :=
  let c := conn0 false in
  mkConn false (Some 7) CONNECTED [] [] [] [] [] [] [] [] 0 0 0 (c_bf_pkt c) (c_bf_msg c)
         (c_out_timeout c) (c_temp_timeout c) (c_send_interval c) (c_ka_interval c)
         1536000 (c_last_send c) (c_last_ka c) 0 0 0 0 0 0 [] 0 0 false 0.
Definition env_ex : env := {| e_max_payload := 1434; e_max_frag := 1024; e_max_frags := 8192 |}.

Example C03_two_emissions :
  let '(_, oss) := run env_ex c_ex [ESend [x01] RNone INone; EClientTick 1536300 RxNone;
                                     EClientTick 1536600 RxNone; EClientTick 1539000 RxNone] in
  map (fun o => match o with OEmit h k _ => (h_ctime h, h_seq h, ptype_code (h_type h), k) | _ => (0, 0, 0, None) end)
      (filter is_emit (concat oss))
  = [(100, 1, 6, Some 7); (100, 2, 4, Some 7)].
Proof. vm_compute. reflexivity. Qed.

(* ---------- PacketHeader.to_bytes REGENERATED from mpgameserver/connection.py on every run (tools/py2v_bytes.py,
   Gen/HdrKernels.v; proved equal to Wire.encode_header in Proofs/HdrKernelsP.v) *)
From Gen Require HdrKernels.
From Proofs Require HdrKernelsP.

(* 3'. clause 3 stated on the translated source text: the first 12 bytes PacketHeader.to_bytes produces — the
       AES-GCM nonce — determine (direction, ctime, seq, ack) *)
Theorem C03_kernel_nonce_bytes : forall h1 h2 b1 b2,
  HdrKernels.gen_PacketHeader_to_bytes (if h_to_server h1 then 0 else 1) (h_ctime h1) (h_seq h1) (h_ack h1)
    (ptype_code (h_type h1)) (h_len h1) (h_count h1) (h_ackbits h1) = Ok b1 ->
  HdrKernels.gen_PacketHeader_to_bytes (if h_to_server h2 then 0 else 1) (h_ctime h2) (h_seq h2) (h_ack h2)
    (ptype_code (h_type h2)) (h_len h2) (h_count h2) (h_ackbits h2) = Ok b2 ->
  firstn 12 b1 = firstn 12 b2 ->
  h_to_server h1 = h_to_server h2 /\ h_ctime h1 = h_ctime h2 /\ h_seq h1 = h_seq h2 /\ h_ack h1 = h_ack h2.
Proof. intros h1 h2 b1 b2. rewrite !HdrKernelsP.gen_to_bytes_spec. exact (nonce_bytes_inj h1 h2 b1 b2). Qed.
Print Assumptions C03_kernel_nonce_bytes.
