(* C02 — the three-message handshake authenticates the server, agrees one key, promotes on proof
   of key.  Theorems only.  Cryptography is symbolic: sign/verify (ECDSA), pub/dh (ECDH), kdf (HKDF),
   seal/open (AES-GCM) are universally quantified functions and the perfect-cryptography hypotheses
   are explicit premises.  hs_step s ty m = Conn.recv_handshake (h_conn s) ty (oracle_of s ty m) is the
   full symbolic step for one handshake message; hrecv / hstep are Conn.recv / Conn.step with the
   oracle answers computed symbolically (theorems C02_hrecv_is_recv, C02_hstep_is_step). *)
From Coq Require Import Lia ZifyBool.
From Model Require Import Base SeqNum Wire Conn Handshake.
From Proofs Require Import HandshakeP.
From Extract Require Import U_Handshake.
Open Scope Z_scope.

(* (1) client_adopts_only_signed.  A client without a key that is not CONNECTED becomes CONNECTED / takes
   a key from a SERVER_HELLO message only if the message is a hello whose signature verifies under the key
   the client was configured with (check_key: the pinned key; with no pinned key, the one the hello
   carries), and then key = kdf (dh own_private signed_ephemeral) signed_salt, token = signed token.
   Otherwise (altered, re-signed, foreign, undecodable): not CONNECTED, no key, token unchanged, and
   DISCONNECTED whenever the message was a hello. *)
Theorem C02_client_adopts_only_signed :
  forall (SIG : Type) (pub : Z -> Z) (sign : Z -> sh_payload -> SIG) (verify : Z -> SIG -> sh_payload -> bool)
         (dh kdf : Z -> Z -> Z) (ser_shello : Z -> sh_payload -> SIG -> list byte) (ser_chal : Z -> list byte)
         (s : hstate SIG) (m : hmsg SIG) (c' : conn) (o : list out),
  c_server (h_conn s) = false -> c_key (h_conn s) = None -> c_status (h_conn s) <> CONNECTED ->
  hs_step SIG pub sign verify dh kdf ser_shello ser_chal s SERVER_HELLO m = (c', o) ->
  (c_status c' = CONNECTED \/ c_key c' <> None ->
     exists rp p sg, m = MServerHello rp p sg /\ verify (check_key s rp) sg p = true /\
       c_key c' = Some (kdf (dh (h_priv s) (sp_pub p)) (sp_salt p)) /\ c_token c' = sp_token p /\
       c_status c' = CONNECTED) /\
  ((forall rp p sg, m = MServerHello rp p sg -> verify (check_key s rp) sg p = false) ->
     c_status c' <> CONNECTED /\ c_key c' = None /\ c_token c' = c_token (h_conn s) /\
     (forall rp p sg, m = MServerHello rp p sg -> c_status c' = DISCONNECTED)).
Proof. exact client_adopts_only_signed_proof. Qed.
Print Assumptions C02_client_adopts_only_signed.

(* ... in ANY client state (also one that holds a key) a SERVER_HELLO message either leaves key and
   token alone or takes both from a hello that verifies under the configured key *)
Theorem C02_client_key_only_from_verified_hello :
  forall (SIG : Type) (pub : Z -> Z) (sign : Z -> sh_payload -> SIG) (verify : Z -> SIG -> sh_payload -> bool)
         (dh kdf : Z -> Z -> Z) (ser_shello : Z -> sh_payload -> SIG -> list byte) (ser_chal : Z -> list byte)
         (s : hstate SIG) (m : hmsg SIG) (c' : conn) (o : list out),
  c_server (h_conn s) = false ->
  hs_step SIG pub sign verify dh kdf ser_shello ser_chal s SERVER_HELLO m = (c', o) ->
  (c_key c' = c_key (h_conn s) /\ c_token c' = c_token (h_conn s) /\
   (c_status c' = c_status (h_conn s) \/ c_status c' = DISCONNECTED)) \/
  (exists rp p sg, m = MServerHello rp p sg /\ verify (check_key s rp) sg p = true /\
     c_key c' = Some (kdf (dh (h_priv s) (sp_pub p)) (sp_salt p)) /\ c_token c' = sp_token p /\
     c_status c' = CONNECTED).
Proof. exact client_key_only_from_verified_hello_proof. Qed.
Print Assumptions C02_client_key_only_from_verified_hello.

(* the active attacker (knows every message sent, holds its own keys `akeys`, not the root key): against
   a client pinned to pub root, whatever hello it builds is either a replay of a payload the honest
   server signed (same payload, same signature) or leaves the client DISCONNECTED without a key *)
Theorem C02_forged_hello_rejected :
  forall (SIG : Type) (pub : Z -> Z) (sign : Z -> sh_payload -> SIG) (verify : Z -> SIG -> sh_payload -> bool)
         (dh kdf : Z -> Z -> Z) (ser_shello : Z -> sh_payload -> SIG -> list byte) (ser_chal : Z -> list byte),
  (forall sk s m, verify (pub sk) s m = true <-> s = sign sk m) ->
  forall (s : hstate SIG) (root : Z) (akeys : list Z) (seen : list (hmsg SIG)) rp p sg c' o,
  c_server (h_conn s) = false -> c_key (h_conn s) = None -> c_status (h_conn s) <> CONNECTED ->
  h_pinned s = Some (pub root) -> ~ In root akeys ->
  attacker_hello SIG sign akeys seen (MServerHello rp p sg) ->
  hs_step SIG pub sign verify dh kdf ser_shello ser_chal s SERVER_HELLO (MServerHello rp p sg) = (c', o) ->
  (exists rp', In (MServerHello rp' p sg) seen) \/ (c_status c' = DISCONNECTED /\ c_key c' = None).
Proof. exact forged_hello_rejected_proof. Qed.
Print Assumptions C02_forged_hello_rejected.

(* (2) honest_agree.  ClientHello(pub a, version 1, padding) -> ServerHello((pub b, salt, token), signed by
   root) -> ChallengeResp(token): both ends hold kdf (dh a (pub b)) salt and the token, both CONNECTED,
   the server emits exactly handler.connect; the payloads queued are the serialised replies. *)
Theorem C02_honest_agree :
  forall (SIG : Type) (pub : Z -> Z) (sign : Z -> sh_payload -> SIG) (verify : Z -> SIG -> sh_payload -> bool)
         (dh kdf : Z -> Z -> Z) (ser_shello : Z -> sh_payload -> SIG -> list byte) (ser_chal : Z -> list byte),
  (forall sk s m, verify (pub sk) s m = true <-> s = sign sk m) ->
  (forall a b, dh a (pub b) = dh b (pub a)) ->
  forall a b root salt tok (rest : list (Z * Z)) (pinned : option Z),
  pinned = None \/ pinned = Some (pub root) ->
  let C0 := client0 SIG a pinned in
  let S0 := server0 SIG b root ((salt, tok) :: rest) in
  let '(sc1, _) := hs_step SIG pub sign verify dh kdf ser_shello ser_chal S0 CLIENT_HELLO (MClientHello (pub a) 1 true) in
  let S1 := mkH sc1 (h_priv S0) (h_pinned S0) (h_root S0) (h_version S0) (h_temp S0) (h_rand S0) (h_adopted S0) in
  let p := {| sp_pub := pub b; sp_salt := salt; sp_token := tok |} in
  let '(cc1, _) := hs_step SIG pub sign verify dh kdf ser_shello ser_chal C0 SERVER_HELLO (MServerHello (pub root) p (sign root p)) in
  let '(sc2, o3) := hs_step SIG pub sign verify dh kdf ser_shello ser_chal S1 CHALLENGE_RESP (MChallenge (c_token cc1)) in
  map m_payload (c_outgoing sc1) = [ser_shello (pub root) p (sign root p)] /\
  map m_payload (c_outgoing cc1) = [ser_chal tok] /\
  c_key cc1 = Some (kdf (dh a (pub b)) salt) /\ c_key sc2 = c_key cc1 /\
  c_token cc1 = tok /\ c_token sc2 = tok /\
  c_status cc1 = CONNECTED /\ c_status sc2 = CONNECTED /\ o3 = [OHandlerConnect].
Proof. exact honest_agree_proof. Qed.
Print Assumptions C02_honest_agree.

(* (3) connect_only_after_proof, datagram level (Conn.recv, ANY oracle answers): handler.connect is
   emitted only by a server-side connection that holds a key k, for a datagram that is authentic under k
   (sealed under k with exactly the header it travels with) and carries a CHALLENGE_RESP message; the key
   is still there afterwards. *)
Theorem C02_connect_needs_authentic_challenge : forall c now d orcs c' o,
  recv c now d orcs = (c', o) -> In OHandlerConnect o ->
  c_server c = true /\ c_key c' <> None /\
  exists k ms, c_key c = Some k /\ authentic k d /\ open_dgram (Some k) d = Ok ms /\
               Exists (fun m => w_type m = CHALLENGE_RESP) ms.
Proof. exact connect_needs_authentic_challenge_proof. Qed.
Print Assumptions C02_connect_needs_authentic_challenge.

(* ... message level, symbolic: the message is ChallengeResp(tok) with tok the token of the temp-pool
   entry of this address (_validateChallengeResponse); for the entry the server loop creates (TSelf)
   that is the token this connection issued in its server hello *)
Theorem C02_connect_only_with_issued_token :
  forall (SIG : Type) (pub : Z -> Z) (sign : Z -> sh_payload -> SIG) (verify : Z -> SIG -> sh_payload -> bool)
         (dh kdf : Z -> Z -> Z) (ser_shello : Z -> sh_payload -> SIG -> list byte) (ser_chal : Z -> list byte)
         (s : hstate SIG) (ty : ptype) (m : hmsg SIG) (c' : conn) (o : list out),
  hs_step SIG pub sign verify dh kdf ser_shello ser_chal s ty m = (c', o) -> In OHandlerConnect o ->
  c_server (h_conn s) = true /\ ty = CHALLENGE_RESP /\
  exists tok, m = MChallenge tok /\ temp_token s = Some tok /\
    (h_temp s = TSelf -> tok = c_token (h_conn s)) /\
    c_status c' = CONNECTED /\ c_key c' = c_key (h_conn s) /\ c_token c' = c_token (h_conn s).
Proof. exact connect_only_with_issued_token_proof. Qed.
Print Assumptions C02_connect_only_with_issued_token.

(* the AEAD view: a body obtained by `open`ing a ciphertext is accepted by a key holder only if the
   ciphertext is seal k header plaintext (integrity hypothesis of AES-GCM) *)
Theorem C02_authentic_means_sealed :
  forall (CT : Type) (seal : Z -> header -> list byte -> CT) (open : Z -> header -> CT -> option (list byte)),
  (forall k h c p, open k h c = Some p -> c = seal k h p) ->
  forall k h c ms,
  open_dgram (Some k) {| d_hdr := h; d_body := body_view CT open k h c |} = Ok ms ->
  exists p, c = seal k h p /\ decode_msgs (h_type h) (h_count h) p = Ok ms.
Proof. exact authentic_means_sealed_proof. Qed.
Print Assumptions C02_authentic_means_sealed.

(* (4) for EVERY list of events of an endpoint started fresh — any loss, duplication, reordering of the
   three datagrams, any injected datagram, any oracle answers, ticks, sends, disconnects —
   CONNECTED implies a session key (client and server-side connection) *)
Theorem C02_connected_has_key : forall e server xs,
  let c := fst (run e (conn0 server) xs) in c_status c = CONNECTED -> c_key c <> None.
Proof. exact connected_has_key_proof. Qed.
Print Assumptions C02_connected_has_key.

(* the symbolic endpoint is that endpoint: each symbolic event is the Conn.v event with the oracle
   answers computed from the symbolic messages, so (4) and (3) hold of symbolic runs *)
Theorem C02_hstep_is_step :
  forall (SIG : Type) (pub : Z -> Z) (sign : Z -> sh_payload -> SIG) (verify : Z -> SIG -> sh_payload -> bool)
         (dh kdf : Z -> Z -> Z) (parse : list byte -> hmsg SIG)
         (ser_shello : Z -> sh_payload -> SIG -> list byte) (ser_chal : Z -> list byte)
         (e : env) (s s' : hstate SIG) (x : hev) (o : list out),
  hstep SIG pub sign verify dh kdf parse ser_shello ser_chal e s x = (s', o) ->
  step e (h_conn s) (ev_of SIG pub sign verify dh kdf parse ser_shello ser_chal s x) = (h_conn s', o).
Proof. exact hstep_is_step_proof. Qed.
Print Assumptions C02_hstep_is_step.

Theorem C02_hrecv_is_recv :
  forall (SIG : Type) (pub : Z -> Z) (sign : Z -> sh_payload -> SIG) (verify : Z -> SIG -> sh_payload -> bool)
         (dh kdf : Z -> Z -> Z) (parse : list byte -> hmsg SIG)
         (ser_shello : Z -> sh_payload -> SIG -> list byte) (ser_chal : Z -> list byte)
         (s s' : hstate SIG) (now : Z) (d : dgram) (o : list out),
  hrecv SIG pub sign verify dh kdf parse ser_shello ser_chal s now d = (s', o) ->
  recv (h_conn s) now d (dgram_oracles SIG pub sign verify dh kdf parse ser_shello ser_chal s now d) = (h_conn s', o).
Proof. exact hrecv_is_recv_proof. Qed.
Print Assumptions C02_hrecv_is_recv.

Theorem C02_handshake_never_connected_without_key :
  forall (SIG : Type) (pub : Z -> Z) (sign : Z -> sh_payload -> SIG) (verify : Z -> SIG -> sh_payload -> bool)
         (dh kdf : Z -> Z -> Z) (parse : list byte -> hmsg SIG)
         (ser_shello : Z -> sh_payload -> SIG -> list byte) (ser_chal : Z -> list byte)
         (e : env) (a b root : Z) (pinned : option Z) (rand : list (Z * Z)) (xs : list hev),
  let c := h_conn (fst (hrun SIG pub sign verify dh kdf parse ser_shello ser_chal e (client0 SIG a pinned) xs)) in
  let sc := h_conn (fst (hrun SIG pub sign verify dh kdf parse ser_shello ser_chal e (server0 SIG b root rand) xs)) in
  (c_status c = CONNECTED -> c_key c <> None) /\ (c_status sc = CONNECTED -> c_key sc <> None).
Proof. exact handshake_never_connected_without_key_proof. Qed.
Print Assumptions C02_handshake_never_connected_without_key.

(* ---- the hypotheses are consistent: the ideal scheme of Extract/U_Handshake.v (a signature is the
   pair (signer, payload), pub = identity, dh a B = a*B) satisfies all of them, and with it the honest
   run and a forged run compute ---- *)
Example C02_crypto_hypotheses_consistent :
  (forall sk s m, t_verify (t_pub sk) s m = true <-> s = t_sign sk m) /\
  (forall a b, t_dh a (t_pub b) = t_dh b (t_pub a)) /\
  (forall k h p, (fun k' h' (c : Z * header * list byte) =>
                    if (k' =? fst (fst c)) && header_eqb h' (snd (fst c)) then Some (snd c) else None)
                 k h (k, h, p) = Some p).
Proof.
  split; [|split].
  - intros sk [sk' p'] m. unfold t_verify, t_pub, t_sign, payload_eqb. cbn. split.
    + intros H. repeat (apply Bool.andb_true_iff in H as [H ?]).
      destruct p', m; cbn in *. f_equal; [|f_equal]; lia.
    + intros H. inversion H; subst. rewrite !Z.eqb_refl. reflexivity.
  - intros a b. unfold t_dh, t_pub. lia.
  - intros k h p. cbn. rewrite Z.eqb_refl. cbn.
    assert (header_eqb h h = true) as ->; [|reflexivity].
    unfold header_eqb, ptype_eqb. destruct h; cbn. rewrite !Z.eqb_refl, Bool.eqb_reflx. reflexivity.
Qed.

(* non-vacuity: with the ideal scheme, a hello re-signed by an attacker key (7) for a client pinned to
   root 5 ends DISCONNECTED without a key; the genuine one is adopted *)
Example C02_forged_and_genuine :
  let s := client0 tsig 3 (Some (t_pub 5)) in
  let p := {| sp_pub := 11; sp_salt := 13; sp_token := 1073741825 |} in
  let step := hs_step tsig t_pub t_sign t_verify t_dh t_kdf (fun _ _ _ => []) (fun _ => []) s SERVER_HELLO in
  (let c := fst (step (MServerHello (t_pub 7) p (t_sign 7 p))) in (c_status c, c_key c)) = (DISCONNECTED, None) /\
  (let c := fst (step (MServerHello (t_pub 5) p (t_sign 5 p))) in (c_status c, c_key c, c_token c))
    = (CONNECTED, Some (t_kdf (t_dh 3 11) 13), 1073741825).
Proof. vm_compute. split; reflexivity. Qed.
