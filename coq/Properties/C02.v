(* C02 — the three-message handshake authenticates the server, agrees one key, promotes on proof
   of key.  Theorems only.  Cryptography is symbolic: sign/verify (ECDSA), pub/dh (ECDH), kdf (HKDF),
   seal/open (AES-GCM) are universally quantified functions and the perfect-cryptography hypotheses
   are explicit premises.  hs_step s ty m = Conn.recv_handshake (h_conn s) ty (oracle_of s ty m) is the
   full symbolic step for one handshake message; hrecv / hstep are Conn.recv / Conn.step with the
   oracle answers computed symbolically (theorems C02_hrecv_is_recv, C02_hstep_is_step). *)
From Coq Require Import Lia ZifyBool.
From RecordUpdate Require Import RecordUpdate.
From Model Require Import Base SeqNum Wire Conn Handshake Net HsNet.
From Proofs Require Import HandshakeP HsRunP.
From Extract Require Import U_Handshake.
Import RecordSetNotations.
Open Scope Z_scope.

(* (1) client_adopts_only_signed.  A client without a key that is not CONNECTED becomes CONNECTED / takes
   a key from a SERVER_HELLO message only if the message is a hello whose signature verifies under the key
   the client was configured with (check_key: the pinned key; with no pinned key, the one the hello
   carries), and then key = kdf (dh own_private signed_ephemeral) signed_salt, token = signed token.
   Otherwise (altered, re-signed, foreign, undecodable): not CONNECTED, no key, token unchanged, and
   DISCONNECTED whenever the message was a hello. *)
Theorem C02_client_adopts_only_signed :
  forall (SIG : Type) (pub : Z -> Z) (sign : Z -> sh_payload -> SIG) (verify : Z -> SIG -> sh_payload -> bool)
         (dh kdf : Z -> Z -> Z) (ser_shello : Z -> sh_payload -> SIG -> list byte) (ser_chal : Z -> list byte)
         (s : hstate SIG) (m : hmsg SIG) (c' : conn) (o : list out),
  c_server (h_conn s) = false -> c_key (h_conn s) = None -> c_status (h_conn s) <> CONNECTED ->
  hs_step SIG pub sign verify dh kdf ser_shello ser_chal s SERVER_HELLO m = (c', o) ->
  (c_status c' = CONNECTED \/ c_key c' <> None ->
     exists rp p sg, m = MServerHello rp p sg /\ verify (check_key s rp) sg p = true /\
       c_key c' = Some (kdf (dh (h_priv s) (sp_pub p)) (sp_salt p)) /\ c_token c' = sp_token p /\
       c_status c' = CONNECTED) /\
  ((forall rp p sg, m = MServerHello rp p sg -> verify (check_key s rp) sg p = false) ->
     c_status c' <> CONNECTED /\ c_key c' = None /\ c_token c' = c_token (h_conn s) /\
     (forall rp p sg, m = MServerHello rp p sg -> c_status c' = DISCONNECTED)).
Proof. exact client_adopts_only_signed_proof. Qed.
Print Assumptions C02_client_adopts_only_signed.

(* ... in ANY client state (also one that holds a key) a SERVER_HELLO message either leaves key and
   token alone or takes both from a hello that verifies under the configured key *)
Theorem C02_client_key_only_from_verified_hello :
  forall (SIG : Type) (pub : Z -> Z) (sign : Z -> sh_payload -> SIG) (verify : Z -> SIG -> sh_payload -> bool)
         (dh kdf : Z -> Z -> Z) (ser_shello : Z -> sh_payload -> SIG -> list byte) (ser_chal : Z -> list byte)
         (s : hstate SIG) (m : hmsg SIG) (c' : conn) (o : list out),
  c_server (h_conn s) = false ->
  hs_step SIG pub sign verify dh kdf ser_shello ser_chal s SERVER_HELLO m = (c', o) ->
  (c_key c' = c_key (h_conn s) /\ c_token c' = c_token (h_conn s) /\
   (c_status c' = c_status (h_conn s) \/ c_status c' = DISCONNECTED)) \/
  (exists rp p sg, m = MServerHello rp p sg /\ verify (check_key s rp) sg p = true /\
     c_key c' = Some (kdf (dh (h_priv s) (sp_pub p)) (sp_salt p)) /\ c_token c' = sp_token p /\
     c_status c' = CONNECTED).
Proof. exact client_key_only_from_verified_hello_proof. Qed.
Print Assumptions C02_client_key_only_from_verified_hello.

(* the active attacker (knows every message sent, holds its own keys `akeys`, not the root key): against
   a client pinned to pub root, whatever hello it builds is either a replay of a payload the honest
   server signed (same payload, same signature) or leaves the client DISCONNECTED without a key *)
Theorem C02_forged_hello_rejected :
  forall (SIG : Type) (pub : Z -> Z) (sign : Z -> sh_payload -> SIG) (verify : Z -> SIG -> sh_payload -> bool)
         (dh kdf : Z -> Z -> Z) (ser_shello : Z -> sh_payload -> SIG -> list byte) (ser_chal : Z -> list byte),
  (forall sk s m, verify (pub sk) s m = true <-> s = sign sk m) ->
  forall (s : hstate SIG) (root : Z) (akeys : list Z) (seen : list (hmsg SIG)) rp p sg c' o,
  c_server (h_conn s) = false -> c_key (h_conn s) = None -> c_status (h_conn s) <> CONNECTED ->
  h_pinned s = Some (pub root) -> ~ In root akeys ->
  attacker_hello SIG sign akeys seen (MServerHello rp p sg) ->
  hs_step SIG pub sign verify dh kdf ser_shello ser_chal s SERVER_HELLO (MServerHello rp p sg) = (c', o) ->
  (exists rp', In (MServerHello rp' p sg) seen) \/ (c_status c' = DISCONNECTED /\ c_key c' = None).
Proof. exact forged_hello_rejected_proof. Qed.
Print Assumptions C02_forged_hello_rejected.

(* (2) honest_agree.  ClientHello(pub a, version 1, padding) -> ServerHello((pub b, salt, token), signed by
   root) -> ChallengeResp(token): both ends hold kdf (dh a (pub b)) salt and the token, both CONNECTED,
   the server emits exactly handler.connect; the payloads queued are the serialised replies. *)
Theorem C02_honest_agree :
  forall (SIG : Type) (pub : Z -> Z) (sign : Z -> sh_payload -> SIG) (verify : Z -> SIG -> sh_payload -> bool)
         (dh kdf : Z -> Z -> Z) (ser_shello : Z -> sh_payload -> SIG -> list byte) (ser_chal : Z -> list byte),
  (forall sk s m, verify (pub sk) s m = true <-> s = sign sk m) ->
  (forall a b, dh a (pub b) = dh b (pub a)) ->
  forall a b root salt tok (rest : list (Z * Z)) (pinned : option Z),
  pinned = None \/ pinned = Some (pub root) ->
  let C0 := client0 SIG a pinned in
  let S0 := server0 SIG b root ((salt, tok) :: rest) in
  let '(sc1, _) := hs_step SIG pub sign verify dh kdf ser_shello ser_chal S0 CLIENT_HELLO (MClientHello (pub a) 1 true) in
  let S1 := mkH sc1 (h_priv S0) (h_pinned S0) (h_root S0) (h_version S0) (h_temp S0) (h_rand S0) (h_adopted S0) in
  let p := {| sp_pub := pub b; sp_salt := salt; sp_token := tok |} in
  let '(cc1, _) := hs_step SIG pub sign verify dh kdf ser_shello ser_chal C0 SERVER_HELLO (MServerHello (pub root) p (sign root p)) in
  let '(sc2, o3) := hs_step SIG pub sign verify dh kdf ser_shello ser_chal S1 CHALLENGE_RESP (MChallenge (c_token cc1)) in
  map m_payload (c_outgoing sc1) = [ser_shello (pub root) p (sign root p)] /\
  map m_payload (c_outgoing cc1) = [ser_chal tok] /\
  c_key cc1 = Some (kdf (dh a (pub b)) salt) /\ c_key sc2 = c_key cc1 /\
  c_token cc1 = tok /\ c_token sc2 = tok /\
  c_status cc1 = CONNECTED /\ c_status sc2 = CONNECTED /\ o3 = [OHandlerConnect].
Proof. exact honest_agree_proof. Qed.
Print Assumptions C02_honest_agree.

(* (3) connect_only_after_proof, datagram level (Conn.recv, ANY oracle answers): handler.connect is
   emitted only by a server-side connection that holds a key k, for a datagram that is authentic under k
   (sealed under k with exactly the header it travels with) and carries a CHALLENGE_RESP message; the key
   is still there afterwards. *)
Theorem C02_connect_needs_authentic_challenge : forall c now d orcs c' o,
  recv c now d orcs = (c', o) -> In OHandlerConnect o ->
  c_server c = true /\ c_key c' <> None /\
  exists k ms, c_key c = Some k /\ authentic k d /\ open_dgram (Some k) d = Ok ms /\
               Exists (fun m => w_type m = CHALLENGE_RESP) ms.
Proof. exact connect_needs_authentic_challenge_proof. Qed.
Print Assumptions C02_connect_needs_authentic_challenge.

(* ... message level, symbolic: the message is ChallengeResp(tok) with tok the token of the temp-pool
   entry of this address (_validateChallengeResponse); for the entry the server loop creates (TSelf)
   that is the token this connection issued in its server hello *)
Theorem C02_connect_only_with_issued_token :
  forall (SIG : Type) (pub : Z -> Z) (sign : Z -> sh_payload -> SIG) (verify : Z -> SIG -> sh_payload -> bool)
         (dh kdf : Z -> Z -> Z) (ser_shello : Z -> sh_payload -> SIG -> list byte) (ser_chal : Z -> list byte)
         (s : hstate SIG) (ty : ptype) (m : hmsg SIG) (c' : conn) (o : list out),
  hs_step SIG pub sign verify dh kdf ser_shello ser_chal s ty m = (c', o) -> In OHandlerConnect o ->
  c_server (h_conn s) = true /\ ty = CHALLENGE_RESP /\
  exists tok, m = MChallenge tok /\ temp_token s = Some tok /\
    (h_temp s = TSelf -> tok = c_token (h_conn s)) /\
    c_status c' = CONNECTED /\ c_key c' = c_key (h_conn s) /\ c_token c' = c_token (h_conn s).
Proof. exact connect_only_with_issued_token_proof. Qed.
Print Assumptions C02_connect_only_with_issued_token.

(* the AEAD view: a body obtained by `open`ing a ciphertext is accepted by a key holder only if the
   ciphertext is seal k header plaintext (integrity hypothesis of AES-GCM) *)
Theorem C02_authentic_means_sealed :
  forall (CT : Type) (seal : Z -> header -> list byte -> CT) (open : Z -> header -> CT -> option (list byte)),
  (forall k h c p, open k h c = Some p -> c = seal k h p) ->
  forall k h c ms,
  open_dgram (Some k) {| d_hdr := h; d_body := body_view CT open k h c |} = Ok ms ->
  exists p, c = seal k h p /\ decode_msgs (h_type h) (h_count h) p = Ok ms.
Proof. exact authentic_means_sealed_proof. Qed.
Print Assumptions C02_authentic_means_sealed.

(* (4) for EVERY list of events of an endpoint started fresh — any loss, duplication, reordering of the
   three datagrams, any injected datagram, any oracle answers, ticks, sends, disconnects —
   CONNECTED implies a session key (client and server-side connection) *)
Theorem C02_connected_has_key : forall e server xs,
  let c := fst (run e (conn0 server) xs) in c_status c = CONNECTED -> c_key c <> None.
Proof. exact connected_has_key_proof. Qed.
Print Assumptions C02_connected_has_key.

(* the symbolic endpoint is that endpoint: each symbolic event is the Conn.v event with the oracle
   answers computed from the symbolic messages, so (4) and (3) hold of symbolic runs *)
Theorem C02_hstep_is_step :
  forall (SIG : Type) (pub : Z -> Z) (sign : Z -> sh_payload -> SIG) (verify : Z -> SIG -> sh_payload -> bool)
         (dh kdf : Z -> Z -> Z) (parse : list byte -> hmsg SIG)
         (ser_shello : Z -> sh_payload -> SIG -> list byte) (ser_chal : Z -> list byte)
         (e : env) (s s' : hstate SIG) (x : hev) (o : list out),
  hstep SIG pub sign verify dh kdf parse ser_shello ser_chal e s x = (s', o) ->
  step e (h_conn s) (ev_of SIG pub sign verify dh kdf parse ser_shello ser_chal s x) = (h_conn s', o).
Proof. exact hstep_is_step_proof. Qed.
Print Assumptions C02_hstep_is_step.

Theorem C02_hrecv_is_recv :
  forall (SIG : Type) (pub : Z -> Z) (sign : Z -> sh_payload -> SIG) (verify : Z -> SIG -> sh_payload -> bool)
         (dh kdf : Z -> Z -> Z) (parse : list byte -> hmsg SIG)
         (ser_shello : Z -> sh_payload -> SIG -> list byte) (ser_chal : Z -> list byte)
         (s s' : hstate SIG) (now : Z) (d : dgram) (o : list out),
  hrecv SIG pub sign verify dh kdf parse ser_shello ser_chal s now d = (s', o) ->
  recv (h_conn s) now d (dgram_oracles SIG pub sign verify dh kdf parse ser_shello ser_chal s now d) = (h_conn s', o).
Proof. exact hrecv_is_recv_proof. Qed.
Print Assumptions C02_hrecv_is_recv.

Theorem C02_handshake_never_connected_without_key :
  forall (SIG : Type) (pub : Z -> Z) (sign : Z -> sh_payload -> SIG) (verify : Z -> SIG -> sh_payload -> bool)
         (dh kdf : Z -> Z -> Z) (parse : list byte -> hmsg SIG)
         (ser_shello : Z -> sh_payload -> SIG -> list byte) (ser_chal : Z -> list byte)
         (e : env) (a b root : Z) (pinned : option Z) (rand : list (Z * Z)) (xs : list hev),
  let c := h_conn (fst (hrun SIG pub sign verify dh kdf parse ser_shello ser_chal e (client0 SIG a pinned) xs)) in
  let sc := h_conn (fst (hrun SIG pub sign verify dh kdf parse ser_shello ser_chal e (server0 SIG b root rand) xs)) in
  (c_status c = CONNECTED -> c_key c <> None) /\ (c_status sc = CONNECTED -> c_key sc <> None).
Proof. exact handshake_never_connected_without_key_proof. Qed.
Print Assumptions C02_handshake_never_connected_without_key.

(* ---- the hypotheses are consistent: the ideal scheme of Extract/U_Handshake.v (a signature is the
   pair (signer, payload), pub = identity, dh a B = a*B) satisfies all of them, and with it the honest
   run and a forged run compute ---- *)
Example C02_crypto_hypotheses_consistent :
  (forall sk s m, t_verify (t_pub sk) s m = true <-> s = t_sign sk m) /\
  (forall a b, t_dh a (t_pub b) = t_dh b (t_pub a)) /\
  (forall k h p, (fun k' h' (c : Z * header * list byte) =>
                    if (k' =? fst (fst c)) && header_eqb h' (snd (fst c)) then Some (snd c) else None)
                 k h (k, h, p) = Some p).
Proof.
  split; [|split].
  - intros sk [sk' p'] m. unfold t_verify, t_pub, t_sign, payload_eqb. cbn. split.
    + intros H. repeat (apply Bool.andb_true_iff in H as [H ?]).
      destruct p', m; cbn in *. f_equal; [|f_equal]; lia.
    + intros H. inversion H; subst. rewrite !Z.eqb_refl. reflexivity.
  - intros a b. unfold t_dh, t_pub. lia.
  - intros k h p. cbn. rewrite Z.eqb_refl. cbn.
    assert (header_eqb h h = true) as ->; [|reflexivity].
    unfold header_eqb, ptype_eqb. destruct h; cbn. rewrite !Z.eqb_refl, Bool.eqb_reflx. reflexivity.
Qed.

(* non-vacuity: with the ideal scheme, a hello re-signed by an attacker key (7) for a client pinned to
   root 5 ends DISCONNECTED without a key; the genuine one is adopted *)
Example C02_forged_and_genuine :
  let s := client0 tsig 3 (Some (t_pub 5)) in
  let p := {| sp_pub := 11; sp_salt := 13; sp_token := 1073741825 |} in
  let step := hs_step tsig t_pub t_sign t_verify t_dh t_kdf (fun _ _ _ => []) (fun _ => []) s SERVER_HELLO in
  (let c := fst (step (MServerHello (t_pub 7) p (t_sign 7 p))) in (c_status c, c_key c)) = (DISCONNECTED, None) /\
  (let c := fst (step (MServerHello (t_pub 5) p (t_sign 5 p))) in (c_status c, c_key c, c_token c))
    = (CONNECTED, Some (t_kdf (t_dh 3 11) 13), 1073741825).
Proof. vm_compute. split; reflexivity. Qed.

(* ================= RUN LEVEL (Model/HsNet.v, Proofs/HsRunP.v) =================
   The client A (client0, pinned to pub root) and the server-side connection B (server0, root key
   `root`) in ONE joint history of any length: a list of endpoint events in which every receive event
   carries an arbitrary datagram (the network and the active attacker).  Each joint step is Net.nstep of
   the two Conn.v endpoints with the oracle answers computed symbolically (C02_run_is_net_history).
   Ghost: gA n / gB n log every handshake message an endpoint has processed (carrying datagram, key
   held at arrival, state, type, content); signed_log (gB n) lists, in order, the (client public key,
   payload) of every hello B has built and signed with the root key.
   Attacker hypothesis dy_run: a server hello inside a datagram presented to the client satisfies
   Handshake.attacker_hello with seen := the hellos the root key holder has signed SO FAR — by B in this
   history (the ghost) or by other sessions of the same server (`other`, arbitrary, replayable).  B's
   events are unconstrained.  sealed_run (only where stated) is Net.wf_ev: a datagram B can open under
   the key it holds was emitted by A. *)

(* (R0) the joint history is a Net.v history *)
Theorem C02_run_is_net_history :
  forall (SIG : Type) (pub : Z -> Z) (sign : Z -> sh_payload -> SIG) (verify : Z -> SIG -> sh_payload -> bool)
         (dh kdf : Z -> Z -> Z) (parse : list byte -> hmsg SIG)
         (ser_shello : Z -> sh_payload -> SIG -> list byte) (ser_chal : Z -> list byte)
         (e : env) (n : hnet SIG) (v : jev),
  let n1 := nstep e (net_of SIG n) (nev_of SIG pub sign verify dh kdf parse ser_shello ser_chal n v) in
  let n' := jstep SIG pub sign verify dh kdf parse ser_shello ser_chal e n v in
  nA n1 = h_conn (jA n') /\ nB n1 = h_conn (jB n') /\ wAB n1 = jAB n' /\ wBA n1 = jBA n'.
Proof. exact jstep_is_nstep_proof. Qed.
Print Assumptions C02_run_is_net_history.

(* (R1) authentication as an invariant of runs.  At EVERY reachable joint state: either the client has
   adopted nothing, holds no key and is not CONNECTED; or the hello it adopted last (ghost h_adopted)
   carries the root key holder's signature of its payload p, p was built and signed by the genuine
   server earlier in this history (it is in B's signed log) or by another of its sessions, the client's
   key is kdf (dh a (sp_pub p)) (sp_salt p), its token is sp_token p, and the adoption is a logged
   SERVER_HELLO message that travelled in a datagram the client could open. *)
Theorem C02_run_authentication :
  forall (SIG : Type) (pub : Z -> Z) (sign : Z -> sh_payload -> SIG) (verify : Z -> SIG -> sh_payload -> bool)
         (dh kdf : Z -> Z -> Z) (parse : list byte -> hmsg SIG)
         (ser_shello : Z -> sh_payload -> SIG -> list byte) (ser_chal : Z -> list byte),
  (forall sk s m, verify (pub sk) s m = true <-> s = sign sk m) ->
  forall (e : env) (a b root : Z) (rand : list (Z * Z)) (akeys : list Z) (other : list sh_payload) (vs : list jev),
  ~ In root akeys ->
  dy_run SIG pub sign verify dh kdf parse ser_shello ser_chal e root akeys other (hnet0 SIG a (Some (pub root)) b root rand) vs ->
  let n := jrun SIG pub sign verify dh kdf parse ser_shello ser_chal e (hnet0 SIG a (Some (pub root)) b root rand) vs in
  match h_adopted (jA n) with
  | None => c_key (h_conn (jA n)) = None /\ c_status (h_conn (jA n)) <> CONNECTED
  | Some (rp, p, sg) =>
      sg = sign root p /\ verify (pub root) sg p = true /\
      (In p other \/ exists cpub, In (cpub, p) (signed_log SIG pub (gB n))) /\
      c_key (h_conn (jA n)) = Some (client_key dh kdf a p) /\ c_token (h_conn (jA n)) = sp_token p /\
      exists d k0 sA, In (d, k0, (sA, SERVER_HELLO, MServerHello rp p sg)) (gA n) /\
                      carried SIG parse (d, k0, (sA, SERVER_HELLO, MServerHello rp p sg))
  end.
Proof. exact run_authentication_proof. Qed.
Print Assumptions C02_run_authentication.

(* ... "built by the genuine server earlier in this history": a payload in B's signed log belongs to a
   logged CLIENT_HELLO message in whose processing B queued exactly ser_shello (pub root) p (sign root p)
   and took the key kdf (dh b cpub) (sp_salt p) and the token sp_token p.  EVERY history. *)
Theorem C02_run_genuine_hello_was_built :
  forall (SIG : Type) (pub : Z -> Z) (sign : Z -> sh_payload -> SIG) (verify : Z -> SIG -> sh_payload -> bool)
         (dh kdf : Z -> Z -> Z) (parse : list byte -> hmsg SIG)
         (ser_shello : Z -> sh_payload -> SIG -> list byte) (ser_chal : Z -> list byte)
         (e : env) (a : Z) (pinned : option Z) (b root : Z) (rand : list (Z * Z)) (vs : list jev),
  let n := jrun SIG pub sign verify dh kdf parse ser_shello ser_chal e (hnet0 SIG a pinned b root rand) vs in
  forall cpub p, In (cpub, p) (signed_log SIG pub (gB n)) ->
  exists d k0 sB ver, In (d, k0, (sB, CLIENT_HELLO, MClientHello cpub ver true)) (gB n) /\
    sp_pub p = pub b /\
    fst (hs_step SIG pub sign verify dh kdf ser_shello ser_chal sB CLIENT_HELLO (MClientHello cpub ver true)) =
      send_type ((h_conn sB) <| c_token := sp_token p |> <| c_key := Some (server_key dh kdf b cpub p) |>
                   <| c_status := CONNECTING |>)
        SERVER_HELLO (ser_shello (pub root) p (sign root p)) RNone INone.
Proof. exact run_genuine_built_proof. Qed.
Print Assumptions C02_run_genuine_hello_was_built.

(* ... and every handshake message the client EVER processed (altered, re-signed, foreign, replayed,
   garbage, of any type) either was such a genuine hello, which it adopted, or left its key and token
   alone and its status as it was or DISCONNECTED *)
Theorem C02_run_client_messages :
  forall (SIG : Type) (pub : Z -> Z) (sign : Z -> sh_payload -> SIG) (verify : Z -> SIG -> sh_payload -> bool)
         (dh kdf : Z -> Z -> Z) (parse : list byte -> hmsg SIG)
         (ser_shello : Z -> sh_payload -> SIG -> list byte) (ser_chal : Z -> list byte),
  (forall sk s m, verify (pub sk) s m = true <-> s = sign sk m) ->
  forall (e : env) (a b root : Z) (rand : list (Z * Z)) (akeys : list Z) (other : list sh_payload) (vs : list jev),
  ~ In root akeys ->
  dy_run SIG pub sign verify dh kdf parse ser_shello ser_chal e root akeys other (hnet0 SIG a (Some (pub root)) b root rand) vs ->
  let n := jrun SIG pub sign verify dh kdf parse ser_shello ser_chal e (hnet0 SIG a (Some (pub root)) b root rand) vs in
  forall d k0 sA ty m, In (d, k0, (sA, ty, m)) (gA n) ->
  let c1 := fst (hs_step SIG pub sign verify dh kdf ser_shello ser_chal sA ty m) in
  (exists rp p sg, ty = SERVER_HELLO /\ m = MServerHello rp p sg /\ sg = sign root p /\
     (In p other \/ exists cpub, In (cpub, p) (signed_log SIG pub (gB n))) /\
     c_key c1 = Some (client_key dh kdf a p) /\ c_token c1 = sp_token p /\ c_status c1 = CONNECTED) \/
  (c_key c1 = c_key (h_conn sA) /\ c_token c1 = c_token (h_conn sA) /\
   (c_status c1 = c_status (h_conn sA) \/ c_status c1 = DISCONNECTED)).
Proof. exact run_client_messages_proof. Qed.
Print Assumptions C02_run_client_messages.

(* (R2a) promotion on proof of key, EVERY history, any client, no hypothesis: each handler.connect B has
   reported was caused by a CHALLENGE_RESP message that carries B's token, which is the token of a hello B
   had signed, processed while B held the key derived for that hello, in a datagram authentic under the
   key B held when it arrived; and B is CONNECTED only with the key and token of such a report. *)
Theorem C02_run_connect_only_after_proof_of_key :
  forall (SIG : Type) (pub : Z -> Z) (sign : Z -> sh_payload -> SIG) (verify : Z -> SIG -> sh_payload -> bool)
         (dh kdf : Z -> Z -> Z) (parse : list byte -> hmsg SIG)
         (ser_shello : Z -> sh_payload -> SIG -> list byte) (ser_chal : Z -> list byte)
         (e : env) (a : Z) (pinned : option Z) (b root : Z) (rand : list (Z * Z)) (vs : list jev),
  let n := jrun SIG pub sign verify dh kdf parse ser_shello ser_chal e (hnet0 SIG a pinned b root rand) vs in
  (forall d k0 sB ty m, In (d, k0, (sB, ty, m)) (gB n) ->
     connects SIG pub sign verify dh kdf ser_shello ser_chal (sB, ty, m) = true ->
     ty = CHALLENGE_RESP /\ m = MChallenge (c_token (h_conn sB)) /\
     carried SIG parse (d, k0, (sB, ty, m)) /\
     (exists k, k0 = Some k /\ authentic k d) /\
     exists cpub p, In (cpub, p) (signed_log SIG pub (gB n)) /\ sp_pub p = pub b /\
        c_key (h_conn sB) = Some (server_key dh kdf b cpub p) /\ c_token (h_conn sB) = sp_token p) /\
  (c_status (h_conn (jB n)) = CONNECTED ->
     exists d k0 sB m, In (d, k0, (sB, CHALLENGE_RESP, m)) (gB n) /\
        connects SIG pub sign verify dh kdf ser_shello ser_chal (sB, CHALLENGE_RESP, m) = true /\
        c_key (h_conn sB) = c_key (h_conn (jB n)) /\ c_token (h_conn sB) = c_token (h_conn (jB n))).
Proof. exact run_connect_proof. Qed.
Print Assumptions C02_run_connect_only_after_proof_of_key.

(* (R2b) agreement inside ANY history: when the hello the client holds is the one B signed last and B
   signed it for the client's public key pub a (the honest handshake, possibly surrounded by any amount of
   loss, duplication, replay and injection), both ends hold the same key kdf (dh a (pub b)) salt and
   the same token; if moreover B is CONNECTED, its connect report was caused by a challenge response with
   that token, processed while B held that key, in a datagram authentic under the key B held on arrival *)
Theorem C02_run_honest_complete_agree :
  forall (SIG : Type) (pub : Z -> Z) (sign : Z -> sh_payload -> SIG) (verify : Z -> SIG -> sh_payload -> bool)
         (dh kdf : Z -> Z -> Z) (parse : list byte -> hmsg SIG)
         (ser_shello : Z -> sh_payload -> SIG -> list byte) (ser_chal : Z -> list byte),
  (forall sk s m, verify (pub sk) s m = true <-> s = sign sk m) ->
  (forall x y, dh x (pub y) = dh y (pub x)) ->
  forall (e : env) (a b root : Z) (rand : list (Z * Z)) (akeys : list Z) (other : list sh_payload) (vs : list jev),
  ~ In root akeys ->
  dy_run SIG pub sign verify dh kdf parse ser_shello ser_chal e root akeys other (hnet0 SIG a (Some (pub root)) b root rand) vs ->
  let n := jrun SIG pub sign verify dh kdf parse ser_shello ser_chal e (hnet0 SIG a (Some (pub root)) b root rand) vs in
  forall rp p sg, h_adopted (jA n) = Some (rp, p, sg) ->
  last (map Some (signed_log SIG pub (gB n))) None = Some (pub a, p) ->
  (c_key (h_conn (jA n)) = Some (kdf (dh a (pub b)) (sp_salt p)) /\
   c_key (h_conn (jB n)) = c_key (h_conn (jA n)) /\
   c_token (h_conn (jA n)) = sp_token p /\ c_token (h_conn (jB n)) = sp_token p) /\
  (c_status (h_conn (jB n)) = CONNECTED ->
   exists d k0 sB, In (d, k0, (sB, CHALLENGE_RESP, MChallenge (sp_token p))) (gB n) /\
     connects SIG pub sign verify dh kdf ser_shello ser_chal (sB, CHALLENGE_RESP, MChallenge (sp_token p)) = true /\
     c_key (h_conn sB) = c_key (h_conn (jB n)) /\ c_token (h_conn sB) = sp_token p /\
     exists k, k0 = Some k /\ authentic k d).
Proof.
  intros SIG pub sign verify dh kdf parse ser_shello ser_chal VS DC e a b root rand akeys other vs NR DY n rp p sg Had Hl.
  split.
  - exact (run_agreement_proof SIG pub sign verify dh kdf parse ser_shello ser_chal VS DC e a b root rand akeys other vs NR DY rp p sg Had Hl).
  - intros St.
    destruct (run_honest_complete_proof SIG pub sign verify dh kdf parse ser_shello ser_chal VS DC e a b root rand akeys other vs NR DY rp p sg Had Hl St)
      as (_ & _ & _ & _ & X). exact X.
Qed.
Print Assumptions C02_run_honest_complete_agree.

(* (R2c) with the AES-GCM hypothesis for B (sealed_run = Net.wf_ev): whenever B reports connect, the
   datagram that caused it is one the client A itself emitted, sealed under a key A had derived from a
   hello signed by the root key holder (built by B in this history or by another session) *)
Theorem C02_run_connect_sealed_by_client :
  forall (SIG : Type) (pub : Z -> Z) (sign : Z -> sh_payload -> SIG) (verify : Z -> SIG -> sh_payload -> bool)
         (dh kdf : Z -> Z -> Z) (parse : list byte -> hmsg SIG)
         (ser_shello : Z -> sh_payload -> SIG -> list byte) (ser_chal : Z -> list byte),
  (forall sk s m, verify (pub sk) s m = true <-> s = sign sk m) ->
  forall (e : env) (a b root : Z) (rand : list (Z * Z)) (akeys : list Z) (other : list sh_payload) (vs : list jev),
  ~ In root akeys ->
  dy_run SIG pub sign verify dh kdf parse ser_shello ser_chal e root akeys other (hnet0 SIG a (Some (pub root)) b root rand) vs ->
  sealed_run SIG pub sign verify dh kdf parse ser_shello ser_chal e (hnet0 SIG a (Some (pub root)) b root rand) vs ->
  let n := jrun SIG pub sign verify dh kdf parse ser_shello ser_chal e (hnet0 SIG a (Some (pub root)) b root rand) vs in
  forall d k0 sB ty m, In (d, k0, (sB, ty, m)) (gB n) ->
  connects SIG pub sign verify dh kdf ser_shello ser_chal (sB, ty, m) = true ->
  exists k, k0 = Some k /\ authentic k d /\ In d (jAB n) /\
    exists dA kA sA rp pl sg, In (dA, kA, (sA, SERVER_HELLO, MServerHello rp pl sg)) (gA n) /\
      verify (pub root) sg pl = true /\ sg = sign root pl /\
      (In pl other \/ exists cpub, In (cpub, pl) (signed_log SIG pub (gB n))) /\
      k = client_key dh kdf a pl.
Proof. exact run_connect_sealed_by_client_proof. Qed.
Print Assumptions C02_run_connect_sealed_by_client.

(* (R3) the replayed hello.  A genuine hello of ANOTHER session of the same server (p in `other`) is
   signed by the pinned root key, so the client adopts it (R1 allows exactly this; example below) — the
   property text ("only from a server-hello whose key-exchange parameters are signed by the matching
   private key") is not contradicted.  What then happens: "the client's key is a key B held, or B never
   reports connect": if no key the client ever derived from a verified hello is a key B held when a
   datagram arrived, then in the whole history B reports no connect and is not CONNECTED. *)
Theorem C02_run_foreign_hello_never_completes :
  forall (SIG : Type) (pub : Z -> Z) (sign : Z -> sh_payload -> SIG) (verify : Z -> SIG -> sh_payload -> bool)
         (dh kdf : Z -> Z -> Z) (parse : list byte -> hmsg SIG)
         (ser_shello : Z -> sh_payload -> SIG -> list byte) (ser_chal : Z -> list byte),
  (forall sk s m, verify (pub sk) s m = true <-> s = sign sk m) ->
  forall (e : env) (a b root : Z) (rand : list (Z * Z)) (akeys : list Z) (other : list sh_payload) (vs : list jev),
  ~ In root akeys ->
  dy_run SIG pub sign verify dh kdf parse ser_shello ser_chal e root akeys other (hnet0 SIG a (Some (pub root)) b root rand) vs ->
  sealed_run SIG pub sign verify dh kdf parse ser_shello ser_chal e (hnet0 SIG a (Some (pub root)) b root rand) vs ->
  let n := jrun SIG pub sign verify dh kdf parse ser_shello ser_chal e (hnet0 SIG a (Some (pub root)) b root rand) vs in
  (forall dA kA sA rp pl sg, In (dA, kA, (sA, SERVER_HELLO, MServerHello rp pl sg)) (gA n) ->
     verify (pub root) sg pl = true ->
     forall d k0 en, In (d, k0, en) (gB n) -> k0 <> Some (client_key dh kdf a pl)) ->
  (forall j, In j (gB n) -> connects SIG pub sign verify dh kdf ser_shello ser_chal (snd j) = false) /\
  c_status (h_conn (jB n)) <> CONNECTED.
Proof. exact run_foreign_hello_never_completes_proof. Qed.
Print Assumptions C02_run_foreign_hello_never_completes.

(* ---- non-vacuity of the run-level theorems: complete symbolic histories over the ideal scheme of
   Extract/U_Handshake.v.  Loadb / dumpb are tables: [1] = ClientHello(pub 3, version 1),
   [2] = B's hello (root 5, (pub 11, salt 13, tok1)), [3] = ChallengeResp(tok1),
   [4] = the hello of ANOTHER session of the same server (root 5, (pub 17, salt 19, tok2)),
   [5] = ChallengeResp(tok2). ---- *)
Definition env_x : env := {| e_max_payload := 1434; e_max_frag := 1024; e_max_frags := 8192 |}.
Definition tok1 : Z := 1073741825.
Definition tok2 : Z := 1073741827.
Definition pB : sh_payload := {| sp_pub := 11; sp_salt := 13; sp_token := tok1 |}.
Definition pO : sh_payload := {| sp_pub := 17; sp_salt := 19; sp_token := tok2 |}.
Definition tbl : tables :=
  {| t_parse := [([x01], MClientHello 3 1 true); ([x02], MServerHello 5 pB (5, pB)); ([x03], MChallenge tok1);
                 ([x04], MServerHello 5 pO (5, pO)); ([x05], MChallenge tok2)];
     t_shello := [(13, [x02]); (19, [x04])];
     t_chal := [(tok1, [x03]); (tok2, [x05])] |}.
Notation xjrun := (jrun tsig t_pub t_sign t_verify t_dh t_kdf (T_parse tbl) (T_shello tbl) (T_chal tbl)).
Notation xdy_run := (dy_run tsig t_pub t_sign t_verify t_dh t_kdf (T_parse tbl) (T_shello tbl) (T_chal tbl)).
Notation xsealed_run := (sealed_run tsig t_pub t_sign t_verify t_dh t_kdf (T_parse tbl) (T_shello tbl) (T_chal tbl)).
Notation xconnects := (connects tsig t_pub t_sign t_verify t_dh t_kdf (T_shello tbl) (T_chal tbl)).
Definition dg_x : dgram := {| d_hdr := Build_header true 0 0 0 APP 0 0 0; d_body := Bad |}.
Definition lastAB (n : hnet tsig) : dgram := last (jAB n) dg_x.
Definition lastBA (n : hnet tsig) : dgram := last (jBA n) dg_x.
(* client: ephemeral 3, pinned to root 5; server-side connection: ephemeral 11, root 5 *)
Definition n0 : hnet tsig := hnet0 tsig 3 (Some (t_pub 5)) 11 5 [(13, tok1)].
Definition h1 : list jev := [JA (HConnect 1000 [x01]); JA (HTick 2000 HxNone)].
Definition N1 := xjrun env_x n0 h1.
Definition h2 : list jev := [JB (HRecv 3000 (lastAB N1)); JB (HOther (EServerTick 4000))].
Definition N2 := xjrun env_x N1 h2.
Definition h3 : list jev := [JA (HTick 5000 (HxDgram (lastBA N2)))].
Definition N3 := xjrun env_x N2 h3.
Definition h4 : list jev := [JB (HRecv 6000 (lastAB N3))].
Definition N4 := xjrun env_x N3 h4.
Definition hh : list jev := h1 ++ h2 ++ h3 ++ h4.

(* computations stay on the goal side (vm casts); big unevaluated terms are never handed to
   discriminate / injection (which would reduce them lazily) *)
Ltac eval_in t H := let v := eval vm_compute in t in let E := fresh "E" in
  assert (E : t = v) by (vm_compute; reflexivity); rewrite E in H; clear E.
Ltac dy_goal :=
  match goal with
  | |- True => exact I
  | |- forall d m, hev_dgram ?x = Some d -> _ =>
      let d := fresh "d" in let m := fresh "m" in let Hd := fresh "Hd" in let Hm := fresh "Hm" in
      intros d m Hd Hm; cbn [hev_dgram] in Hd;
      lazymatch type of Hd with
      | None = Some _ => discriminate Hd
      | Some ?D = Some _ =>
          let ko := fresh "ko" in let ms := fresh "ms" in let w := fresh "w" in
          let OD := fresh "OD" in let Iw := fresh "Iw" in
          destruct Hm as (ko & ms & w & OD & Iw & <-);
          assert (d = D) as -> by congruence; clear Hd; eval_in D OD;
          destruct ko as [k|]; cbn in OD; [discriminate OD|];
          injection OD as <-; destruct Iw as [<-|[]];
          vm_compute; intros sk _; right; exists 5; auto 10
      end
  end.
Ltac sealed_goal :=
  match goal with
  | |- True => exact I
  | |- forall d ms, hev_dgram ?x = Some d -> _ =>
      let d := fresh "d" in let ms := fresh "ms" in let Hd := fresh "Hd" in let K := fresh "K" in let OD := fresh "OD" in
      intros d ms Hd K OD; cbn [hev_dgram] in Hd;
      lazymatch type of Hd with
      | None = Some _ => discriminate Hd
      | Some ?D = Some _ =>
          first [ (exfalso; apply K; vm_compute; reflexivity)
                | (assert (d = D) as -> by congruence; clear Hd;
                   first [ vm_compute; auto 10
                         | match type of OD with ?t = _ => eval_in t OD end; discriminate OD ]) ]
      end
  end.

(* the honest complete handshake: every hypothesis of R1-R3 holds, both ends CONNECTED with the same key
   and token, the client holds the hello B signed last, B signed it for the client's key, one connect *)
Example C02_run_honest_example :
  ~ In 5 [7] /\
  xdy_run env_x 5 [7] [pO] n0 hh /\ xsealed_run env_x n0 hh /\ xjrun env_x n0 hh = N4 /\
  h_adopted (jA N4) = Some (5, pB, t_sign 5 pB) /\
  last (map Some (signed_log tsig t_pub (gB N4))) None = Some (t_pub 3, pB) /\
  c_status (h_conn (jA N4)) = CONNECTED /\ c_status (h_conn (jB N4)) = CONNECTED /\
  c_key (h_conn (jA N4)) = Some (t_kdf (t_dh 3 (t_pub 11)) 13) /\ c_key (h_conn (jB N4)) = c_key (h_conn (jA N4)) /\
  c_token (h_conn (jA N4)) = tok1 /\ c_token (h_conn (jB N4)) = tok1 /\
  map (fun j => xconnects (snd j)) (gB N4) = [false; true].
Proof.
  split; [intros [H|[]]; discriminate H|].
  split.
  { unfold hh, h1, h2, h3, h4. cbn [app dy_run dy_ev]. repeat match goal with |- _ /\ _ => split end. all: dy_goal. }
  split.
  { unfold hh, h1, h2, h3, h4. cbn [app sealed_run sealed_ev]. repeat match goal with |- _ /\ _ => split end. all: sealed_goal. }
  split; [vm_compute; reflexivity|]. vm_compute. repeat split; reflexivity.
Qed.

(* the replayed hello.  Another session of the same server (ephemeral 17, same root 5) answered the same
   client hello; the attacker withholds B's hello and hands the client that other session's genuine hello.
   The client verifies it (it IS signed by the pinned root key), adopts key kdf(dh 3 17, 19) and token
   tok2 and reports CONNECTED; B holds kdf(dh 11 3, 13), cannot open the client's challenge response,
   never reports connect and stays CONNECTING.  All hypotheses of R1-R3 hold, including R3's premise. *)
Definition m0 : hnet tsig := hnet0 tsig 3 (Some (t_pub 5)) 17 5 [(19, tok2)].
Definition M2 := xjrun env_x m0 (h1 ++ [JB (HRecv 3000 (lastAB N1)); JB (HOther (EServerTick 4000))]).
Definition d_other : dgram := lastBA M2.
Definition r3 : list jev := [JA (HTick 5000 (HxDgram d_other))].
Definition R3 := xjrun env_x N2 r3.
Definition r4 : list jev := [JB (HRecv 6000 (lastAB R3))].
Definition R4 := xjrun env_x R3 r4.
Definition hr : list jev := h1 ++ h2 ++ r3 ++ r4.

Example C02_run_replayed_hello_example :
  xdy_run env_x 5 [7] [pO] n0 hr /\ xsealed_run env_x n0 hr /\ xjrun env_x n0 hr = R4 /\
  h_adopted (jA R4) = Some (5, pO, t_sign 5 pO) /\
  c_status (h_conn (jA R4)) = CONNECTED /\
  c_key (h_conn (jA R4)) = Some (t_kdf (t_dh 3 (t_pub 17)) 19) /\ c_token (h_conn (jA R4)) = tok2 /\
  c_status (h_conn (jB R4)) = CONNECTING /\
  c_key (h_conn (jB R4)) = Some (t_kdf (t_dh 11 (t_pub 3)) 13) /\ c_token (h_conn (jB R4)) = tok1 /\
  c_key (h_conn (jB R4)) <> c_key (h_conn (jA R4)) /\
  c_dropped (h_conn (jB R4)) = 1 /\
  map (fun j => xconnects (snd j)) (gB R4) = [false] /\
  (forall dA kA sA rp pl sg, In (dA, kA, (sA, SERVER_HELLO, MServerHello rp pl sg)) (gA R4) ->
     t_verify (t_pub 5) sg pl = true ->
     forall d k0 en, In (d, k0, en) (gB R4) -> k0 <> Some (client_key t_dh t_kdf 3 pl)).
Proof.
  split.
  { unfold hr, h1, h2, r3, r4. cbn [app dy_run dy_ev]. repeat match goal with |- _ /\ _ => split end. all: dy_goal. }
  split.
  { unfold hr, h1, h2, r3, r4. cbn [app sealed_run sealed_ev]. repeat match goal with |- _ /\ _ => split end. all: sealed_goal. }
  split; [vm_compute; reflexivity|].
  repeat match goal with |- _ /\ _ => split end; try (vm_compute; reflexivity).
  - vm_compute. intros H. discriminate H.
  - intros dA kA sA rp pl sg _ _ d k0 en Hin.
    pose (f := fun j : jentry tsig => snd (fst j)).
    assert (E : map f (gB R4) = [None]) by (vm_compute; reflexivity).
    pose proof (in_map f _ _ Hin) as X. rewrite E in X. destruct X as [X|[]]. subst f. cbn in X. subst k0. discriminate.
Qed.
