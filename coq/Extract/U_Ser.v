(* U_Ser.v — correspondence units for the binary serializer (ids 1300-1499).
   Wire form of a model value (V):
     [0] None | [1; b] bool | [2; z] int | [3; bits] float (binary64 bit pattern) |
     [4; [cp...]] str as code points | [5; bytes] | [6; [v...]] list | [7; [v...]] tuple |
     [8; [[k; v]...]] dict (insertion order) | [9; [v...]] set (iteration order) |
     [10; tid; [field...]] Serializable | [11; tid; v] SerializableEnum | [12] unsupported type
   registry: [[tid; 0; [default...]] | [tid; 1; [member...]] | [tid; 2; base] | [tid; 3] ...]
   results : [0; payload] | [1; code]   (code = Ser.serr_code) *)
From Model Require Import Base Utf8 Ser Float32.
Open Scope Z_scope.

Fixpoint v2val (v : V) : value :=
  match v with
  | VL (VI tg :: args) =>
      match args with
      | [] => if tg =? 0 then VNone else VUnsup
      | [VI z] =>
          if tg =? 1 then VBool (negb (z =? 0)) else if tg =? 2 then VInt z
          else if tg =? 3 then VFloat z else VUnsup
      | [VB b] => if tg =? 5 then VBytes b else VUnsup
      | [VL l] =>
          if tg =? 4 then VStr (map as_int l)
          else if tg =? 6 then VList (map v2val l)
          else if tg =? 7 then VTuple (map v2val l)
          else if tg =? 9 then VSet (map v2val l)
          else if tg =? 8 then
            VDict (map (fun p => match p with
                                 | VL [k; x] => (v2val k, v2val x)
                                 | _ => (VUnsup, VUnsup)
                                 end) l)
          else VUnsup
      | [VI t; x] =>
          if tg =? 11 then VEnum t (v2val x)
          else if tg =? 10 then match x with VL l => VObj t (map v2val l) | _ => VUnsup end
          else VUnsup
      | _ => VUnsup
      end
  | _ => VUnsup
  end.

Fixpoint val2v (x : value) : V :=
  match x with
  | VNone => VL [VI 0]
  | VBool b => VL [VI 1; vbool b]
  | VInt z => VL [VI 2; VI z]
  | VFloat b => VL [VI 3; VI b]
  | VStr s => VL [VI 4; VL (map VI s)]
  | VBytes b => VL [VI 5; VB b]
  | VList l => VL [VI 6; VL (map val2v l)]
  | VTuple l => VL [VI 7; VL (map val2v l)]
  | VDict kv => VL [VI 8; VL (map (fun p => let '(k, y) := p in VL [val2v k; val2v y]) kv)]
  | VSet l => VL [VI 9; VL (map val2v l)]
  | VObj t fs => VL [VI 10; VI t; VL (map val2v fs)]
  | VEnum t y => VL [VI 11; VI t; val2v y]
  | VUnsup => VL [VI 12]
  end.

Definition v2cls (v : V) : Z * cls :=
  let t := as_int (vnth v 0) in
  let k := as_int (vnth v 1) in
  (t, if k =? 0 then CObj (map v2val (as_list (vnth v 2)))
      else if k =? 1 then CEnum (map v2val (as_list (vnth v 2)))
      else if k =? 2 then CClientHello (as_int (vnth v 2))
      else CServerHello).
Definition v2reg (v : V) : registry := map v2cls (as_list v).

Definition vsres {A} (f : A -> V) (r : sres A) : V :=
  match r with SOk a => VL [VI 0; f a] | SErr e => VL [VI 1; VI (serr_code e)] end.

(* outcome of EllipticCurvePublicKey.fromBytes as recorded on the implementation:
   table [[der; code]...], code 0 = parsed; not in the table / not bytes -> TypeError *)
Definition serr_of_code (c : Z) : serr :=
  if c =? 1 then SE EValue else if c =? 2 then SE EType else if c =? 3 then SE EStruct
  else if c =? 7 then SE EIndex else if c =? 10 then SE EKey else if c =? 12 then SE EUnicode
  else if c =? 13 then SE EOverflow else if c =? 14 then SE EAttr else if c =? 101 then SHeader
  else if c =? 102 then SSer else if c =? 103 then SName else SE EOther.
Fixpoint pk_lookup (tab : list V) (b : list byte) : option serr :=
  match tab with
  | [] => Some (SE EType)
  | e :: r =>
      if list_eqb byte_eqb (as_bytes (vnth e 0)) b then
        (if as_int (vnth e 1) =? 0 then None else Some (serr_of_code (as_int (vnth e 1))))
      else pk_lookup r b
  end.
Definition pk_of (tab : V) (x : value) : option serr :=
  match x with VBytes b => pk_lookup (as_list tab) b | _ => Some (SE EType) end.

(* UNIT 1301 ser_enc : [registry; value] -> result bytes   (serialize_value) *)
Definition u_ser_enc (v : V) : V :=
  vsres VB (enc flocq_fc (v2reg (vnth v 0)) (v2val (vnth v 1))).

(* UNIT 1302 ser_dec : [registry; pktable; frames; bytes] -> [result [value; bytes left]; reads; value decodes]
   (deserialize_value on a counting stream with `frames` Python frames available) *)
Definition u_ser_dec (v : V) : V :=
  let reg := v2reg (vnth v 0) in
  let '(r, s) := dec_value flocq_fc (pk_of (vnth v 1)) reg (Z.to_nat (as_int (vnth v 2)))
                           (st0 (as_bytes (vnth v 3))) in
  VL [vsres (fun x => VL [val2v x; VI (len (rem s))]) r; VI (nrd s); VI (nval s)].

(* UNIT 1303 ser_norm : [value] -> result value  (value expected back after one trip) *)
Definition u_ser_norm (v : V) : V := vsres val2v (norm flocq_fc (v2val (vnth v 0))).

(* UNIT 1304 ser_utf8 : [bytes; [cp...]] -> [decode result as code points; encode result as bytes] *)
Definition vopt {A} (f : A -> V) (o : option A) : V :=
  match o with Some a => VL [VI 0; f a] | None => VL [VI 1] end.
Definition u_ser_utf8 (v : V) : V :=
  VL [vopt (fun s => VL (map VI s)) (utf8_decode (as_bytes (vnth v 0)));
      vopt VB (utf8_encode (map as_int (as_list (vnth v 1))))].

(* UNIT 1305 ser_f32 : [bits64; bits32] -> [pack('>f') result; unpack('>f') as binary64 bits] *)
Definition u_ser_f32 (v : V) : V :=
  VL [vsres VI (flocq_to32 (as_int (vnth v 0))); VI (flocq_of32 (as_int (vnth v 1)))].

(* UNIT 1306 ser_int : [z] -> serialize_int result *)
Definition u_ser_int (v : V) : V := vsres VB (enc_int (as_int (vnth v 0))).

Definition dispatch_ser (u : Z) (v : V) : option V :=
  match u with
  | 1301 => Some (u_ser_enc v)
  | 1302 => Some (u_ser_dec v)
  | 1303 => Some (u_ser_norm v)
  | 1304 => Some (u_ser_utf8 v)
  | 1305 => Some (u_ser_f32 v)
  | 1306 => Some (u_ser_int v)
  | _ => None
  end.
