(* U_WsFact.v — correspondence units for the public constructors of WebSocketFrame and the send path of the
   handler (ids 1810-1819; Model/WsFactory.v).  A str travels as the list of its code points. *)
From Model Require Import Base WsFrame WsFactory.
From Extract Require Import U_Ws.
Open Scope Z_scope.

Definition ints (v : V) : list Z := map as_int (as_list v).

(* UNIT 1811 ws_factory : [kind; args] -> res [frame (as 1801); res bytes written by writeFrame]
   kind 0 Ping [bytes] | 1 Pong [bytes] | 2 Binary [bytes] | 3 Close [status; bytes] | 4 Text [code points] *)
Definition u_ws_factory (v : V) : V :=
  let k := as_int (vnth v 0) in
  let a := vnth v 1 in
  let r := if k =? 0 then Ok (ws_ping (as_bytes (vnth a 0)))
           else if k =? 1 then Ok (ws_pong (as_bytes (vnth a 0)))
           else if k =? 2 then Ok (ws_binary (as_bytes (vnth a 0)))
           else if k =? 3 then ws_close (as_int (vnth a 0)) (as_bytes (vnth a 1))
           else ws_text (ints (vnth a 0)) in
  vres (fun f => VL [V_of_frame f; vres VB (encode_frame f)]) r.

(* UNIT 1812 ws_out : [closed; ops] with op = [0; code points] (send) | [1] (close)
   -> [bytes written; closed; error code or 0] *)
Definition hop_of_V (v : V) : hop :=
  if as_int (vnth v 0) =? 0 then HSend (ints (vnth v 1)) else HClose.
Definition u_ws_out (v : V) : V :=
  let '(w, c, e) := ws_out (as_bool (vnth v 0)) (map hop_of_V (as_list (vnth v 1))) in
  VL [VB w; vbool c; VI (match e with Some e => err_code e | None => 0 end)].

(* UNIT 1813 ws_defaults : [] -> the frames of Ping() Pong() Close() Text() Binary() *)
Definition u_ws_defaults (v : V) : V :=
  VL [V_of_frame (ws_ping hello); V_of_frame (ws_pong hello); V_of_frame close_frame;
      vres V_of_frame (ws_text []); V_of_frame (ws_binary [])].

Definition dispatch_wsfact (u : Z) (v : V) : option V :=
  match u with
  | 1811 => Some (u_ws_factory v)
  | 1812 => Some (u_ws_out v)
  | 1813 => Some (u_ws_defaults v)
  | _ => None
  end.
