(* U_SerDec.v — correspondence units of property C14 (ids 1401-1499).
   Wire forms of values / registries / results: see U_Ser.v. *)
From Model Require Import Base Utf8 Ser SerCost SerHs Float32.
From Extract Require Import U_Ser.
Open Scope Z_scope.

(* UNIT 1401 ser_dec_log : [registry; pktable; frames; bytes] ->
     [result [value; bytes left]; value decodes; [[size argument; bytes returned] ... in call order]]
   (deserialize_value on a stream that logs every read call; `frames` Python frames available) *)
Definition u_ser_dec_log (v : V) : V :=
  let reg := v2reg (vnth v 0) in
  let '(r, s) := c_dec_value flocq_fc (pk_of (vnth v 1)) reg (Z.to_nat (as_int (vnth v 2)))
                             (cst0 (as_bytes (vnth v 3))) in
  VL [vsres (fun x => VL [val2v x; VI (len (c_rem s))]) r; VI (c_nval s);
      VL (map (fun p => VL [VI (fst p); VI (snd p)]) (rev_append (c_log s) []))].

Definition v2tok (v : V) (t : Z) : option nat :=
  (fix go (l : list V) : option nat :=
     match l with
     | [] => None
     | e :: r => if as_int (vnth e 0) =? t then Some (Z.to_nat (as_int (vnth e 1))) else go r
     end) (as_list v).

Definition vhs (o : hs_out) : V :=
  match o with
  | HsAccept x => VL [VI 0; val2v x]
  | HsIgnore => VL [VI 2]
  | HsRaise e => VL [VI 1; VI (serr_code e)]
  end.

(* UNIT 1402 hs_hello : [registry; pktable; frames; version; bytes] -> accept value | ignore | raise code
   (ServerClientConnection._recvClientHello up to the point where the handshake continues) *)
Definition u_hs_hello (v : V) : V :=
  vhs (recv_client_hello flocq_fc (pk_of (vnth v 1)) (v2reg (vnth v 0))
         (Z.to_nat (as_int (vnth v 2))) (as_int (vnth v 3)) (as_bytes (vnth v 4))).

(* UNIT 1403 hs_challenge : [registry; pktable; frames; [[tid; index of field `token`]...]; expected; bytes]
   (ServerClientConnection._recvChallengeResponse: accept = CONNECTED, ignore = DISCONNECTED) *)
Definition u_hs_challenge (v : V) : V :=
  vhs (recv_challenge flocq_fc (pk_of (vnth v 1)) (v2reg (vnth v 0)) (v2tok (vnth v 3))
         (Z.to_nat (as_int (vnth v 2))) (as_int (vnth v 4)) (as_bytes (vnth v 5))).

Definition dispatch_serdec (u : Z) (v : V) : option V :=
  match u with
  | 1401 => Some (u_ser_dec_log v)
  | 1402 => Some (u_hs_hello v)
  | 1403 => Some (u_hs_challenge v)
  | _ => None
  end.
