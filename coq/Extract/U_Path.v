(* U_Path.v — correspondence units for path_join_safe and the posixpath model (ids 1700-1799).
   Strings travel as lists of code points: VL [VI c; ...]. *)
From Model Require Import Base PathJoin.
Open Scope Z_scope.

Definition as_str (v : V) : str := map as_int (as_list v).
Definition vstr (s : str) : V := VL (map VI s).

(* UNIT 1701 path_join_safe : [cwd; root; name] -> res str *)
Definition u_path_join_safe (v : V) : V :=
  vres vstr (path_join_safe (as_str (vnth v 0)) (as_str (vnth v 1)) (as_str (vnth v 2))).

(* UNIT 1702 posix_join : [a; b] -> str   (posixpath.join) *)
Definition u_posix_join (v : V) : V := vstr (pjoin (as_str (vnth v 0)) (as_str (vnth v 1))).

(* UNIT 1703 posix_normpath : [p] -> str *)
Definition u_posix_normpath (v : V) : V := vstr (normpath (as_str (vnth v 0))).

(* UNIT 1704 posix_abspath : [cwd; p] -> str *)
Definition u_posix_abspath (v : V) : V := vstr (abspath (as_str (vnth v 0)) (as_str (vnth v 1))).

(* UNIT 1705 path_strops : [s; p] -> [split('/'); rstrip('/'); startswith(p); replace('\\','/')] *)
Definition u_path_strops (v : V) : V :=
  let s := as_str (vnth v 0) in let p := as_str (vnth v 1) in
  VL [VL (map vstr (split_sl s)); vstr (rstrip_sl s); vbool (starts_with p s); vstr (replace_bs s)].

Definition dispatch_path (u : Z) (v : V) : option V :=
  match u with
  | 1701 => Some (u_path_join_safe v)
  | 1702 => Some (u_posix_join v)
  | 1703 => Some (u_posix_normpath v)
  | 1704 => Some (u_posix_abspath v)
  | 1705 => Some (u_path_strops v)
  | _ => None
  end.
