(* U_Conn2.v — further correspondence units for the connection state machine (ids 220-229). *)
From RecordUpdate Require Import RecordUpdate.
From Model Require Import Base SeqNum Wire Conn.
From Extract Require Import U_Conn.
Import RecordSetNotations.
Open Scope Z_scope.

(* UNIT 220 conn_run_from : [env; [server; key(-1 none); status; now0; seq_send; seq_msg]; events; snapshot_every]
   -> per event [outputs; snapshot]   (as conn_run, but the datagram and message counters start
   at the given values, so that histories can begin just below the ring wrap) *)
Definition u_conn_run_from (v : V) : V :=
  let e := env_of_V (vnth v 0) in
  let i := vnth v 1 in
  let k := as_int (vnth i 1) in
  let c := (conn0 (as_bool (vnth i 0)))
             <| c_key := if k =? -1 then None else Some k |>
             <| c_status := status_of_Z (as_int (vnth i 2)) |>
             <| c_seq_send := as_int (vnth i 4) |> <| c_seq_msg := as_int (vnth i 5) |> in
  let c := if as_int (vnth i 3) =? -1 then c else c <| c_last_recv := as_int (vnth i 3) |> in
  VL (run_snap e c (as_list (vnth v 2)) (as_bool (vnth v 3))).

Definition dispatch_conn2 (u : Z) (v : V) : option V :=
  match u with
  | 220 => Some (u_conn_run_from v)
  | _ => None
  end.
