(* U_Handshake.v — correspondence units for the symbolic handshake layer (ids 301-302 of the block 301-399).

   The crypto Section of Model/Handshake.v is instantiated with the IDEAL scheme the harness's
   abstraction function targets: a private key is an integer id, pub = identity on ids, a
   signature is the pair (signer id, signed payload), dh a B = a*B, kdf s salt = s*2^200 + salt.
   The harness (props/C02.py) maps real DER keys / ECDSA signatures / HKDF outputs to these terms
   using the private keys it generated (signer found by real verification, session key found by
   real ECDH+HKDF), so every comparison below runs the real cryptography.  Serializable.loadb and
   dumpb are tables supplied with the request (what the real code parsed / produced). *)
From RecordUpdate Require Import RecordUpdate.
From Model Require Import Base SeqNum Wire Conn Handshake.
From Extract Require Import U_Conn.
Import RecordSetNotations.
Open Scope Z_scope.

Definition tsig : Type := Z * sh_payload.
Definition payload_eqb (a b : sh_payload) : bool :=
  (sp_pub a =? sp_pub b) && (sp_salt a =? sp_salt b) && (sp_token a =? sp_token b).
Definition t_pub (a : Z) : Z := a.
Definition t_sign (sk : Z) (p : sh_payload) : tsig := (sk, p).
Definition t_verify (pk : Z) (s : tsig) (p : sh_payload) : bool := (pk =? fst s) && payload_eqb (snd s) p.
Definition t_dh (a B : Z) : Z := a * B.
Definition t_kdf (s salt : Z) : Z := s * 2 ^ 200 + salt.

(* payload = [pub; salt; token] ; sig = [signer; payload] ;
   hmsg = [0; cpub; version; pad_ok] | [1; rootpub; payload; sig] | [2; token] | [3; code] *)
Definition payload_of_V (v : V) : sh_payload :=
  {| sp_pub := as_int (vnth v 0); sp_salt := as_int (vnth v 1); sp_token := as_int (vnth v 2) |}.
Definition V_of_payload (p : sh_payload) : V := VL [VI (sp_pub p); VI (sp_salt p); VI (sp_token p)].
Definition hmsg_of_V (v : V) : hmsg tsig :=
  match as_int (vnth v 0) with
  | 0 => MClientHello (as_int (vnth v 1)) (as_int (vnth v 2)) (as_bool (vnth v 3))
  | 1 => MServerHello (as_int (vnth v 1)) (payload_of_V (vnth v 2))
           (as_int (vnth (vnth v 3) 0), payload_of_V (vnth (vnth v 3) 1))
  | 2 => MChallenge (as_int (vnth v 1))
  | _ => MGarbage (as_int (vnth v 1))
  end.

Fixpoint blookup {A} (k : list byte) (t : list (list byte * A)) (d : A) : A :=
  match t with [] => d | (k', v) :: r => if bytes_eqb k k' then v else blookup k r d end.
Definition zlookup (k : Z) (t : list (Z * list byte)) : list byte :=
  match dget k t with Some b => b | None => [] end.

Record tables := { t_parse : list (list byte * hmsg tsig); t_shello : list (Z * list byte);
                   t_chal : list (Z * list byte) }.
Definition tables_of_V (v : V) : tables :=
  {| t_parse := map (fun x => (as_bytes (vnth x 0), hmsg_of_V (vnth x 1))) (as_list (vnth v 0));
     t_shello := map (fun x => (as_int (vnth x 0), as_bytes (vnth x 1))) (as_list (vnth v 1));
     t_chal := map (fun x => (as_int (vnth x 0), as_bytes (vnth x 1))) (as_list (vnth v 2)) |}.

Definition T_parse (t : tables) (b : list byte) : hmsg tsig := blookup b (t_parse t) (MGarbage 9).
Definition T_shello (t : tables) (rp : Z) (p : sh_payload) (s : tsig) : list byte := zlookup (sp_salt p) (t_shello t).
Definition T_chal (t : tables) (tok : Z) : list byte := zlookup tok (t_chal t).

Definition hst := hstate tsig.

(* init = [server; priv; pinned(-1 none); root; version; temp(-1 none, -2 self, t other); [[salt;tok]..]] *)
Definition tpool_of_Z (z : Z) : tpool := if z =? -1 then TNone else if z =? -2 then TSelf else TOther z.
Definition Z_of_tpool (t : tpool) : Z := match t with TNone => -1 | TSelf => -2 | TOther z => z end.
Definition hst_of_V (v : V) : hst :=
  {| h_conn := conn0 (as_bool (vnth v 0)); h_priv := as_int (vnth v 1);
     h_pinned := (let p := as_int (vnth v 2) in if p =? -1 then None else Some p);
     h_root := as_int (vnth v 3); h_version := as_int (vnth v 4);
     h_temp := tpool_of_Z (as_int (vnth v 5));
     h_rand := map (fun x => (as_int (vnth x 0), as_int (vnth x 1))) (as_list (vnth v 6));
     h_adopted := None |}.

(* events: [0; now; dgram] HRecv | [1; now; rx] HTick (rx = [0] | [1; code] | [2; dgram]) |
           [2; now; hello] HConnect | [3; ev] HOther (U_Conn event encoding) *)
Definition hev_of_V (v : V) : hev :=
  match as_int (vnth v 0) with
  | 0 => HRecv (as_int (vnth v 1)) (dgram_of_V (vnth v 2))
  | 1 => HTick (as_int (vnth v 1))
           (let r := vnth v 2 in
            match as_int (vnth r 0) with
            | 0 => HxNone
            | 1 => HxBad (err_of_code (as_int (vnth r 1)))
            | _ => HxDgram (dgram_of_V (vnth r 1))
            end)
  | 2 => HConnect (as_int (vnth v 1)) (as_bytes (vnth v 2))
  | _ => HOther (ev_of_V (vnth v 1))
  end.

Definition V_of_extras (s : hst) : V :=
  VL [VI (Z_of_tpool (h_temp s)); VI (len (h_rand s));
      match h_adopted s with
      | None => VL []
      | Some (rp, p, sg) => VL [VI rp; V_of_payload p; VL [VI (fst sg); V_of_payload (snd sg)]]
      end].

Section Run.
  Variable t : tables.
  Definition t_hstep := hstep tsig t_pub t_sign t_verify t_dh t_kdf (T_parse t) (T_shello t) (T_chal t).
  Fixpoint hrun_snap (e : env) (s : hst) (xs : list V) : list V :=
    match xs with
    | [] => []
    | x :: r => let '(s1, o) := t_hstep e s (hev_of_V x) in
                VL [VL (map V_of_out o); snapshot (h_conn s1); V_of_extras s1] :: hrun_snap e s1 r
    end.
End Run.

(* UNIT 301 hs_run : [env; init; tables; events] -> per event [outputs; snapshot; extras]
   (symbolic endpoint run: hstep over the ideal crypto instance) *)
Definition u_hs_run (v : V) : V :=
  VL (hrun_snap (tables_of_V (vnth v 2)) (env_of_V (vnth v 0)) (hst_of_V (vnth v 1)) (as_list (vnth v 3))).

(* UNIT 302 ctx_ops : [temp [[addr;tok]..]; conns; ops] -> replies, threading the context ;
   ops: [0; [r..]] get_token (reply [tok; draws used] | [-1]) ; [1; addr; tok] _validateChallengeResponse ;
        [2; addr; tok] _onConnect (reply [called; temp; conns]) *)
Definition pool_of_V (v : V) : list (Z * Z) := map (fun x => (as_int (vnth x 0), as_int (vnth x 1))) (as_list v).
Definition V_of_pool (p : list (Z * Z)) : V := VL (map (fun x => VL [VI (fst x); VI (snd x)]) p).
Fixpoint ctx_run (x : sctx) (ops : list V) : list V :=
  match ops with
  | [] => []
  | op :: r =>
      match as_int (vnth op 0) with
      | 0 => let rs := map as_int (as_list (vnth op 1)) in
             (match get_token x rs with
              | Some (t, rest) => VL [VI t; VI (len rs - len rest)]
              | None => VL [VI (-1)]
              end) :: ctx_run x r
      | 1 => vbool (validate_challenge x (as_int (vnth op 1)) (as_int (vnth op 2))) :: ctx_run x r
      | _ => let '(x', called) := on_connect x (as_int (vnth op 1)) (as_int (vnth op 2)) in
             VL [vbool called; V_of_pool (x_temp x'); V_of_pool (x_conns x')] :: ctx_run x' r
      end
  end.
Definition u_ctx_ops (v : V) : V :=
  VL (ctx_run {| x_temp := pool_of_V (vnth v 0); x_conns := pool_of_V (vnth v 1) |} (as_list (vnth v 2))).

Definition dispatch_handshake (u : Z) (v : V) : option V :=
  match u with
  | 301 => Some (u_hs_run v)
  | 302 => Some (u_ctx_ops v)
  | _ => None
  end.
