(* U_AuthCfg.v — correspondence units for Auth.hash_password under changed Auth.SALT_LENGTH / Auth.DIGEST_LENGTH
   and for histories of calls in one process (ids 1910-1919; Model/AuthCfg.v).  Oracle tables as in U_Auth.v. *)
From Model Require Import Base Base64 Auth AuthCfg.
From Extract Require Import U_Auth.
Open Scope Z_scope.

(* UNIT 1911 auth_hash_cfg : [SALT_LENGTH; DIGEST_LENGTH; password; salt; sha table; kdf table] -> result bytes *)
Definition u_auth_hash_cfg (v : V) : V :=
  vres VB (hash_password_cfg (o_plain (vnth v 4)) (o_kdf (vnth v 5))
             {| c_sl := as_int (vnth v 0); c_dl := as_int (vnth v 1) |}
             (d_pyarg (vnth v 2)) (as_bytes (vnth v 3))).

(* UNIT 1912 auth_history : [SALT_LENGTH; DIGEST_LENGTH at the start; ops; sha table; kdf table]
   op = [0; SALT_LENGTH; DIGEST_LENGTH] (the attributes are set) | [1; password; salt] (hash_password)
   -> the result of every hash call, in order *)
Definition aop_of_V (v : V) : aop :=
  if as_int (vnth v 0) =? 0 then ASet {| c_sl := as_int (vnth v 1); c_dl := as_int (vnth v 2) |}
  else AHash (d_pyarg (vnth v 1)) (as_bytes (vnth v 2)).
Definition u_auth_history (v : V) : V :=
  VL (map (fun t => vres VB (snd t))
          (trace (o_plain (vnth v 3)) (o_kdf (vnth v 4))
                 {| c_sl := as_int (vnth v 0); c_dl := as_int (vnth v 1) |}
                 (map aop_of_V (as_list (vnth v 2))))).

Definition dispatch_authcfg (u : Z) (v : V) : option V :=
  match u with
  | 1911 => Some (u_auth_hash_cfg v)
  | 1912 => Some (u_auth_history v)
  | _ => None
  end.
