(* VEq.v — structural equality on the universal value, used by the in-Coq cross-check of the
   extraction: a sample of the requests a run sent to the extracted model is re-evaluated by
   vm_compute inside Coq and compared with the replies the OCaml program gave. *)
From Model Require Import Base.
Open Scope Z_scope.

Fixpoint bytes_eq (a b : list byte) : bool :=
  match a, b with
  | [], [] => true
  | x :: a', y :: b' => Byte.eqb x y && bytes_eq a' b'
  | _, _ => false
  end.

Fixpoint v_eqb (a b : V) {struct a} : bool :=
  match a, b with
  | VI x, VI y => x =? y
  | VB x, VB y => bytes_eq x y
  | VL x, VL y =>
      (fix go (l : list V) (m : list V) {struct l} : bool :=
         match l, m with
         | [], [] => true
         | p :: l', q :: m' => v_eqb p q && go l' m'
         | _, _ => false
         end) x y
  | _, _ => false
  end.
