(* U_Conn.v — correspondence units for the wire codec and the connection state machine
   (ids 200-299).  Encodings are documented next to each unit. *)
From RecordUpdate Require Import RecordUpdate.
From Model Require Import Base SeqNum Wire Conn.
Import RecordSetNotations.
Open Scope Z_scope.

(* ---- header / message encodings ----
   header  = [to_server; ctime; seq; ack; type; len; count; ackbits]
   wmsg    = [seq; type; payload] *)
Definition ptype_of_Z (z : Z) : ptype := match ptype_of_code z with Some t => t | None => UNKNOWN end.

Definition header_of_V (v : V) : header :=
  {| h_to_server := as_bool (vnth v 0); h_ctime := as_int (vnth v 1); h_seq := as_int (vnth v 2);
     h_ack := as_int (vnth v 3); h_type := ptype_of_Z (as_int (vnth v 4)); h_len := as_int (vnth v 5);
     h_count := as_int (vnth v 6); h_ackbits := as_int (vnth v 7) |}.
Definition V_of_header (h : header) : V :=
  VL [vbool (h_to_server h); VI (h_ctime h); VI (h_seq h); VI (h_ack h); VI (ptype_code (h_type h));
      VI (h_len h); VI (h_count h); VI (h_ackbits h)].
Definition wmsg_of_V (v : V) : wmsg :=
  {| w_seq := as_int (vnth v 0); w_type := ptype_of_Z (as_int (vnth v 1)); w_payload := as_bytes (vnth v 2) |}.
Definition V_of_wmsg (m : wmsg) : V := VL [VI (w_seq m); VI (ptype_code (w_type m)); VB (w_payload m)].

(* UNIT 201 hdr_codec : [header] -> encode_header ; [1; is_server; bytes] -> decode_header *)
Definition u_hdr_enc (v : V) : V := vres VB (encode_header (header_of_V (vnth v 0))).
(* UNIT 202 hdr_dec : [is_server; bytes] -> header *)
Definition u_hdr_dec (v : V) : V := vres V_of_header (decode_header (as_bool (vnth v 0)) (as_bytes (vnth v 1))).
(* UNIT 203 msgs_enc : [[wmsg..]] -> payload bytes (Packet.create) *)
Definition u_msgs_enc (v : V) : V := vres VB (encode_msgs (map wmsg_of_V (as_list (vnth v 0)))).
(* UNIT 204 msgs_dec : [type; count; payload] -> [wmsg..] *)
Definition u_msgs_dec (v : V) : V :=
  vres (fun l => VL (map V_of_wmsg l))
       (decode_msgs (ptype_of_Z (as_int (vnth v 0))) (as_int (vnth v 1)) (as_bytes (vnth v 2))).
(* UNIT 205 clear_dgram : [header; [wmsg..]] -> to_bytes(None) with the real CRC-32 ;
   UNIT 206 clear_parse : [header(as parsed); datagram] -> from_bytes(None) *)
Definition no_seal (k : Z) (iv aad p : list byte) : list byte := [].
Definition no_open (k : Z) (iv aad c : list byte) : option (list byte) := None.
Definition u_clear_dgram (v : V) : V :=
  vres VB (to_bytes crc32 no_seal None (header_of_V (vnth v 0)) (map wmsg_of_V (as_list (vnth v 1)))).
Definition u_clear_parse (v : V) : V :=
  vres (fun l => VL (map V_of_wmsg l))
       (from_bytes crc32 no_open None (header_of_V (vnth v 0)) (as_bytes (vnth v 1))).
(* UNIT 207 crc32 : [bytes] -> int *)
Definition u_crc (v : V) : V := VI (crc32 (as_bytes (vnth v 0))).

(* ---- connection state machine ---- *)
Definition icb_of_Z (z : Z) : icb := if z =? -1 then INone else if z =? -2 then IDisc else IUser z.
Definition retry_of_Z (z : Z) : retry := if z =? 0 then RNone else if z =? 1 then RBest else RTimeout.

Definition body_of_V (v : V) : body :=
  match as_int (vnth v 0) with
  | 0 => Sealed (as_int (vnth v 1)) (header_of_V (vnth v 2)) (as_bytes (vnth v 3))
  | 1 => Clear (as_bytes (vnth v 1))
  | _ => Bad
  end.
Definition dgram_of_V (v : V) : dgram := {| d_hdr := header_of_V (vnth v 0); d_body := body_of_V (vnth v 1) |}.
Definition oracle_of_V (v : V) : hs_oracle :=
  {| o_parse := as_int (vnth v 0); o_version_ok := as_bool (vnth v 1); o_token := as_int (vnth v 2);
     o_key := as_int (vnth v 3); o_reply := as_bytes (vnth v 4);
     o_temp_token := let t := as_int (vnth v 5) in if t =? -1 then None else Some t |}.

Definition ev_of_V (v : V) : ev :=
  match as_int (vnth v 0) with
  | 0 => ESend (as_bytes (vnth v 1)) (retry_of_Z (as_int (vnth v 2))) (icb_of_Z (as_int (vnth v 3)))
  | 1 => EClientTick (as_int (vnth v 1))
           (let r := vnth v 2 in
            match as_int (vnth r 0) with
            | 0 => RxNone
            | 1 => RxBadHeader (err_of_code (as_int (vnth r 1)))
            | _ => RxDgram (dgram_of_V (vnth r 1)) (map oracle_of_V (as_list (vnth r 2)))
            end)
  | 2 => EServerTick (as_int (vnth v 1))
  | 3 => ERecv (as_int (vnth v 1)) (dgram_of_V (vnth v 2)) (map oracle_of_V (as_list (vnth v 3)))
  | 4 => EDisconnect (icb_of_Z (as_int (vnth v 1)))
  | 5 => ESetCfg (as_int (vnth v 1)) (as_int (vnth v 2))
  | 6 => EClientHello (as_int (vnth v 1)) (as_bytes (vnth v 2))
  | 7 => EGetMessages
  | _ => ESetConnCb (as_bool (vnth v 1))
  end.

Definition V_of_oz (o : option Z) : V := match o with Some z => VI z | None => VI (-1) end.

Definition V_of_out (o : out) : V :=
  match o with
  | OEmit h k p => VL [VI 0; V_of_header h; V_of_oz k; VB p]
  | OCallback id ok => VL [VI 1; VI id; vbool ok]
  | ORet b => VL [VI 2; vbool b]
  | ORaise e => VL [VI 3; VI (err_code e)]
  | OConnCb ok => VL [VI 4; vbool ok]
  | OLog c => VL [VI 5; VI c]
  | OHandlerConnect => VL [VI 6]
  end.

Definition V_of_icb (k : icb) : V :=
  match k with
  | INone => VL [] | IUser id => VL [VI 0; VI id] | IFrag f i => VL [VI 1; VI f; VI i]
  | IHello => VL [VI 2] | IChallenge => VL [VI 3] | IDisc => VL [VI 4]
  end.
Definition V_of_cb (done : list Z) (k : cb) : V :=
  match k with
  | Plain i => V_of_icb i
  | Retry rid ms _ _ i => VL [VI 5; VI ms; vbool (zmem rid done); V_of_icb i]
  end.
Definition V_of_ocb (done : list Z) (k : option cb) : V := match k with Some x => V_of_cb done x | None => VL [] end.
Definition V_of_pmsg (done : list Z) (m : pmsg) : V :=
  VL [VI (m_seq m); VI (ptype_code (m_type m)); VB (m_payload m); VI (retry_code (m_retry m));
      V_of_ocb done (m_cb m); VI (m_atime m)].
Definition V_of_ob (o : option bool) : V := match o with None => VI (-1) | Some b => vbool b end.
Definition V_of_obytes (o : option (list byte)) : V := match o with None => VL [] | Some b => VL [VB b] end.

Definition snapshot (c : conn) : V :=
  let d := c_done c in
  VL [ vbool (c_server c); V_of_oz (c_key c); VI (status_code (c_status c));
       VL (map (fun p => VL [VI (fst p); VB (snd p)]) (c_incoming c));
       VL (map (V_of_pmsg d) (c_outgoing c));
       VL (map (fun p => VL [VI (fst p); VI (snd p)]) (c_packs c));
       VL (map (fun p => VL [VI (fst p); VL (map (V_of_cb d) (snd p))]) (c_pcbs c));
       VL (map (fun p => VL [VI (fst p); VL (map VI (snd p))]) (c_pretry c));
       VL (map (fun p => VL [VI (fst p); VI (m_atime (snd p))]) (c_pretry_msg c));
       VL (map (fun p => VL [VI (fst p); V_of_icb (fs_ucb (snd p)); VL (map V_of_ob (fs_acks (snd p)))]) (c_pfrags c));
       VL (map (fun p => let fr := snd p in
                VL [VI (fst p); VI (fr_count fr); VI (fr_ctime fr); VI (fr_msgseq fr);
                    VL (map V_of_obytes (fr_frags fr))]) (c_rfrags c));
       VL [VI (c_seq_send c); VI (c_seq_msg c); VI (c_seq_frag c)];
       VL [VI (bf_bits (c_bf_pkt c)); VI (bf_cur (c_bf_pkt c)); VI (bf_bits (c_bf_msg c)); VI (bf_cur (c_bf_msg c))];
       VL [VI (c_out_timeout c); VI (c_temp_timeout c); VI (c_send_interval c); VI (c_ka_interval c)];
       VL [VI (c_last_recv c); VI (c_last_send c); VI (c_last_ka c)];
       VL [VI (c_sent c); VI (c_dropped c); VI (c_received c); VI (c_acked c); VI (c_timeouts c); VI (c_assembled c)];
       VI (c_hello_sent c); vbool (c_conn_cb c); VI (c_token c) ].

Definition env_of_V (v : V) : env :=
  {| e_max_payload := as_int (vnth v 0); e_max_frag := as_int (vnth v 1); e_max_frags := as_int (vnth v 2) |}.

Definition status_of_Z (z : Z) : status :=
  match z with 1 => CONNECTING | 2 => CONNECTED | 3 => DISCONNECTING | 5 => DROPPED | _ => DISCONNECTED end.

Fixpoint run_snap (e : env) (c : conn) (xs : list V) (every : bool) : list V :=
  match xs with
  | [] => []
  | x :: r =>
      let '(c1, o) := step e c (ev_of_V x) in
      VL [VL (map V_of_out o); if every then snapshot c1 else match r with [] => snapshot c1 | _ => VL [] end]
      :: run_snap e c1 r every
  end.

(* UNIT 210 conn_run : [env; [server; key(-1 none); status; now0]; events; snapshot_every]
   -> per event [outputs; snapshot]   (init: conn0 with key/status set; status CONNECTED marks an
   established connection whose last_recv clock was started at now0) *)
Definition u_conn_run (v : V) : V :=
  let e := env_of_V (vnth v 0) in
  let i := vnth v 1 in
  let k := as_int (vnth i 1) in
  let c := (conn0 (as_bool (vnth i 0)))
             <| c_key := if k =? -1 then None else Some k |>
             <| c_status := status_of_Z (as_int (vnth i 2)) |> in
  let c := if as_int (vnth i 3) =? -1 then c else c <| c_last_recv := as_int (vnth i 3) |> in
  VL (run_snap e c (as_list (vnth v 2)) (as_bool (vnth v 3))).

(* UNIT 211 split : [env; payload] -> fragments *)
Definition u_split (v : V) : V :=
  let p := as_bytes (vnth v 1) in
  VL (map VB (split_frags (S (length p)) (env_of_V (vnth v 0)) p)).

Definition dispatch_conn (u : Z) (v : V) : option V :=
  match u with
  | 201 => Some (u_hdr_enc v)
  | 202 => Some (u_hdr_dec v)
  | 203 => Some (u_msgs_enc v)
  | 204 => Some (u_msgs_dec v)
  | 205 => Some (u_clear_dgram v)
  | 206 => Some (u_clear_parse v)
  | 207 => Some (u_crc v)
  | 210 => Some (u_conn_run v)
  | 211 => Some (u_split v)
  | _ => None
  end.
