(* U_Auth.v — correspondence units for mpgameserver/auth.py (ids 1900-1999).
   The oracles (sha256, base64 DEcoding, scrypt) are instantiated by finite answer tables sent with the
   request: the harness asks the MODEL which queries it makes (auth_split, auth_prepare) and
   answers them with the real libraries.  A query missing from a table yields the marker
   bytes "MISS" / Err ERecursion, which no real library answer equals, so an answer that matters
   and is missing shows up as a disagreement, never as silent agreement.
   Wire shapes: pyarg = [0; bytes] bytes | [1; [0; utf8]] str | [1; [1; code]] str whose encode
   raises | [2] other;  result tables = list of [key; [0; bytes] | [1; code]];
   plain tables = list of [key; bytes];  kdf key = [salt; length; N; r; p; key_material]. *)
From Model Require Import Base Base64 Auth.
Open Scope Z_scope.

Definition err_of_code (c : Z) : err :=
  if c =? 1 then EValue else if c =? 2 then EType else if c =? 3 then EStruct else if c =? 4 then EDup
  else if c =? 5 then EPacket else if c =? 6 then ESig else if c =? 7 then EIndex else if c =? 8 then ERecursion
  else if c =? 10 then EKey else if c =? 11 then EDispatch else if c =? 12 then EUnicode
  else if c =? 13 then EOverflow else if c =? 14 then EAttr else EOther.

Definition d_res (v : V) : res (list byte) :=
  if as_int (vnth v 0) =? 0 then Ok (as_bytes (vnth v 1)) else Err (err_of_code (as_int (vnth v 1))).

Definition d_pyarg (v : V) : pyarg :=
  let tag := as_int (vnth v 0) in
  if tag =? 0 then PBytes (as_bytes (vnth v 1))
  else if tag =? 1 then PStr (d_res (vnth v 1))
  else POther.

Fixpoint v_eqb (a b : V) {struct a} : bool :=
  match a, b with
  | VI x, VI y => x =? y
  | VB x, VB y => bytes_eqb x y
  | VL x, VL y =>
      (fix go (l1 l2 : list V) : bool :=
         match l1, l2 with
         | [], [] => true
         | p :: l1', q :: l2' => v_eqb p q && go l1' l2'
         | _, _ => false
         end) x y
  | _, _ => false
  end.

Definition tab_find (tab : V) (key : V) : option V :=
  match find (fun e => v_eqb (vnth e 0) key) (as_list tab) with
  | Some e => Some (vnth e 1)
  | None => None
  end.

Definition miss : list byte := ["M"; "I"; "S"; "S"]%byte.

Definition o_plain (tab : V) (x : list byte) : list byte :=
  match tab_find tab (VB x) with Some r => as_bytes r | None => miss end.
Definition o_res (tab : V) (x : list byte) : res (list byte) :=
  match tab_find tab (VB x) with Some r => d_res r | None => Err ERecursion end.
Definition o_kdf (tab : V) (salt : list byte) (ln N r p : Z) (km : list byte) : res (list byte) :=
  match tab_find tab (VL [VB salt; VI ln; VI N; VI r; VI p; VB km]) with
  | Some r => d_res r
  | None => Err ERecursion
  end.

(* UNIT 1901 auth_split : [bytes] -> list of fields (bytes.split(b':')) *)
Definition u_auth_split (v : V) : V := VL (map VB (split_on colon (as_bytes (vnth v 0)))).

(* UNIT 1902 auth_prepare : [utf8 hash; b64decode table] -> result [salt; length; N; r; p; expected] *)
Definition e_prepared (q : prepared) : V :=
  VL [VB (q_salt q); VI (q_len q); VI (q_N q); VI (q_r q); VI (q_p q); VB (q_expected q)].
Definition u_auth_prepare (v : V) : V :=
  vres e_prepared (prepare (o_res (vnth v 1)) (as_bytes (vnth v 0))).

(* UNIT 1903 auth_verify : [password; hash; sha table; b64decode table; kdf table] -> result bool *)
Definition u_auth_verify (v : V) : V :=
  vres vbool (verify_password (o_plain (vnth v 2)) (o_res (vnth v 3)) (o_kdf (vnth v 4))
                (d_pyarg (vnth v 0)) (d_pyarg (vnth v 1))).

(* UNIT 1904 auth_hash : [password; salt (os.urandom answer); sha table; kdf table]
   -> result bytes (the hash string, ASCII; the base64 encoding is the model's own) *)
Definition u_auth_hash (v : V) : V :=
  vres VB (hash_password (o_plain (vnth v 2)) (o_kdf (vnth v 3))
             (d_pyarg (vnth v 0)) (as_bytes (vnth v 1))).

(* UNIT 1905 auth_consts : [] -> [N; r; p; SALT_LENGTH; DIGEST_LENGTH; packed parameter bytes] *)
Definition u_auth_consts (v : V) : V :=
  VL [VI (k_N std_params); VI (k_r std_params); VI (k_p std_params); VI SALT_LENGTH; VI DIGEST_LENGTH;
      VB (pack_params std_params)].

(* UNIT 1906 auth_unpack : [bytes] -> result [N; r; p; salt_length; length] (struct.unpack(">HBBBB")) *)
Definition u_auth_unpack (v : V) : V :=
  vres (fun k => VL [VI (k_N k); VI (k_r k); VI (k_p k); VI (k_sl k); VI (k_len k)])
       (unpack_params (as_bytes (vnth v 0))).

(* UNIT 1907 auth_b64encode : [bytes] -> bytes (base64.b64encode) *)
Definition u_auth_b64encode (v : V) : V := VB (b64e (as_bytes (vnth v 0))).

(* UNIT 1908 auth_b64strict : [bytes] -> result bytes (the reference decoder of Model/Base64.v, compared with
   base64.b64decode(validate=True) on canonical-length inputs; it is only a consistency witness) *)
Definition u_auth_b64strict (v : V) : V := vres VB (b64d_strict (as_bytes (vnth v 0))).

Definition dispatch_auth (u : Z) (v : V) : option V :=
  match u with
  | 1901 => Some (u_auth_split v)
  | 1902 => Some (u_auth_prepare v)
  | 1903 => Some (u_auth_verify v)
  | 1904 => Some (u_auth_hash v)
  | 1905 => Some (u_auth_consts v)
  | 1906 => Some (u_auth_unpack v)
  | 1907 => Some (u_auth_b64encode v)
  | 1908 => Some (u_auth_b64strict v)
  | _ => None
  end.
