(* U_Registry.v — correspondence unit for the class registry of serializable.py (id 1310). *)
From Model Require Import Base Registry.
Open Scope Z_scope.

Definition rop_of_V (v : V) : rop :=
  match as_int (vnth v 0) with
  | 0 => RSetRoot (as_int (vnth v 1)) (as_int (vnth v 2))
  | 1 => RDefSer (as_int (vnth v 1)) (as_int (vnth v 2))
  | _ => RDefEnum (as_int (vnth v 1)) (as_int (vnth v 2))
  end.

Definition vpairs (l : list (Z * Z)) : V := VL (map (fun p => VL [VI (fst p); VI (snd p)]) l).

(* UNIT 1310 reg_ops : [ops] -> [[(type id, code) per op]; registry items in dict order; names items; next_type_id; custom_id items]
   ops: [0;module;base] setRootId, [1;module;name] class name(Serializable), [2;module;name] class name(SerializableEnum);
   code 0 registered, 1 ValueError id in use, 2 ValueError name in use; classes are numbered by class statement *)
Definition u_reg_ops (v : V) : V :=
  let '(s, xs) := rrun reg0 (map rop_of_V (as_list (vnth v 0))) in
  VL [vpairs xs; vpairs (r_reg s); vpairs (r_names s); VI (r_next s); vpairs (r_custom s)].

Definition dispatch_registry (u : Z) (v : V) : option V :=
  match u with
  | 1310 => Some (u_reg_ops v)
  | _ => None
  end.
