(* U_Router.v — correspondence units for the HTTP router (ids 1601-1699).
   Strings travel as lists of code points: VL [VI c; ...].
   An optional string is VL [] (None) or VL [str]. *)
From Model Require Import Base PathJoin Router.
Open Scope Z_scope.

Definition as_str (v : V) : str := map as_int (as_list v).
Definition vstr (s : str) : V := VL (map VI s).
Definition vostr (o : option str) : V := match o with None => VL [] | Some s => VL [vstr s] end.
Definition vopt {A} (f : A -> V) (o : option A) : V := match o with None => VL [] | Some a => VL [f a] end.
Definition vgroups (g : list (option str)) : V := VL (map vostr g).
Definition vdict (d : dict) : V := VL (map (fun kv => VL [vstr (fst kv); vostr (snd kv)]) d).

(* UNIT 1601 router_compile : [pattern] -> res [re_str; [tokens]]   (Router.patternToRegex: re_ptn.pattern, tokens) *)
Definition u_router_compile (v : V) : V :=
  vres (fun rt => VL [vstr (fst rt); VL (map vstr (snd rt))]) (pattern_to_regex (as_str (vnth v 0))).

(* UNIT 1602 router_ast_text : [pattern] -> str   (the syntax tree of the pattern, printed) *)
Definition u_router_ast_text (v : V) : V :=
  vstr (pr_regex (ast_of_pieces (parse_pattern (as_str (vnth v 0))))).

(* UNIT 1603 router_match : [pattern; path] -> res (option [groups])   (re_ptn.match(path).groups()) *)
Definition u_router_match (v : V) : V :=
  vres (fun rt => vopt vgroups (re_groups (fst rt) (as_str (vnth v 1)))) (compile_route (as_str (vnth v 0))).

(* UNIT 1604 router_spec : [pattern; path] -> [wf; option [values]]   (the documented rule) *)
Definition u_router_spec (v : V) : V :=
  let ps := parse_pattern (as_str (vnth v 0)) in
  VL [vbool (wf_pieces ps); vopt vgroups (spec_path ps (as_str (vnth v 1)))].

Definition as_route (v : V) : route :=
  {| r_method := as_str (vnth v 0); r_pattern := as_str (vnth v 1); r_id := as_int (vnth v 2) |}.
Definition vroute_res (o : option (Z * dict)) : V :=
  vopt (fun p => VL [VI (fst p); vdict (snd p)]) o.
Definition vdres (d : dres) : V :=
  match d with
  | D429 => VL [VI 429]
  | D404 => VL [VI 404]
  | DRoute id b => VL [VI 200; VI id; vdict b]
  end.

(* UNIT 1605 router_table : [[[method; pattern; id] ...]; [[method; path; limited] ...]]
   -> [registerRoutes result; [[getRoute; dispatch; getRoute by the documented rule] per query]] *)
Definition u_router_table (v : V) : V :=
  let rs := map as_route (as_list (vnth v 0)) in
  let '(t, r) := register_routes empty_table rs in
  VL [vres (fun _ => VL []) r;
      VL (map (fun q =>
                 let m := as_str (vnth q 0) in
                 let p := as_str (vnth q 1) in
                 VL [vroute_res (get_route t m p);
                     vdres (router_dispatch t (as_bool (vnth q 2)) m p);
                     vroute_res (spec_get_route rs m p)])
              (as_list (vnth v 1)))].

(* all lists of exactly k / at most n segments over an alphabet, in itertools.product order *)
Fixpoint seg_exact (A : list str) (k : nat) : list (list str) :=
  match k with
  | O => [[]]
  | S k' => flat_map (fun a => map (cons a) (seg_exact A k')) A
  end.
Definition seg_upto (A : list str) (n : nat) : list (list str) :=
  flat_map (seg_exact A) (seq 0 (S n)).

(* UNIT 1606 router_sweep : [pattern; [segment alphabet]; n] -> res [number of paths; [[path; [groups]] for each
   matching path]] over the paths "/s1/../sk", k <= n, and the empty path *)
Definition u_router_sweep (v : V) : V :=
  let A := map as_str (as_list (vnth v 1)) in
  let paths := map render (seg_upto A (Z.to_nat (as_int (vnth v 2)))) in
  vres (fun rt =>
          VL [VI (len paths);
              VL (flat_map (fun p => match re_groups (fst rt) p with
                                     | Some g => [VL [vstr p; vgroups g]]
                                     | None => []
                                     end) paths)])
       (compile_route (as_str (vnth v 0))).

(* UNIT 1607 router_sweep_spec : same sweep by the documented rule -> [wf; [[path; [values]] ...]] *)
Definition u_router_sweep_spec (v : V) : V :=
  let A := map as_str (as_list (vnth v 1)) in
  let ps := parse_pattern (as_str (vnth v 0)) in
  let paths := map render (seg_upto A (Z.to_nat (as_int (vnth v 2)))) in
  VL [vbool (wf_pieces ps);
      VL (flat_map (fun p => match spec_path ps p with
                             | Some g => [VL [vstr p; vgroups g]]
                             | None => []
                             end) paths)].

Definition dispatch_router (u : Z) (v : V) : option V :=
  match u with
  | 1601 => Some (u_router_compile v)
  | 1602 => Some (u_router_ast_text v)
  | 1603 => Some (u_router_match v)
  | 1604 => Some (u_router_spec v)
  | 1605 => Some (u_router_table v)
  | 1606 => Some (u_router_sweep v)
  | 1607 => Some (u_router_sweep_spec v)
  | _ => None
  end.
