(* U_Ws.v — correspondence units for the WebSocket frame codec and the handler loop (ids 1800-1899). *)
From Model Require Import Base WsFrame.
Open Scope Z_scope.

Definition opcode_of_val (z : Z) : opcode :=
  match opcode_of_Z z with Ok o => o | Err _ => OpOpen end.

Definition frame_of_V (v : V) : frame :=
  {| f_fin := as_int (vnth v 0); f_rsv1 := as_int (vnth v 1); f_rsv2 := as_int (vnth v 2); f_rsv3 := as_int (vnth v 3);
     f_opcode := opcode_of_val (as_int (vnth v 4)); f_mask := as_int (vnth v 5); f_key := as_bytes (vnth v 6);
     f_plen := as_int (vnth v 7); f_payload := as_bytes (vnth v 8) |}.
Definition V_of_frame (f : frame) : V :=
  VL [VI (f_fin f); VI (f_rsv1 f); VI (f_rsv2 f); VI (f_rsv3 f); VI (opcode_val (f_opcode f)); VI (f_mask f);
      VB (f_key f); VI (f_plen f); VB (f_payload f)].

(* UNIT 1801 ws_encode : [fin; rsv1; rsv2; rsv3; opcode value (enum member); mask; key; payload_length; payload]
   -> res bytes   (writeFrame: concatenated sendall calls) *)
Definition u_ws_encode (v : V) : V := vres VB (encode_frame (frame_of_V v)).

(* UNIT 1802 ws_parse : [buf] -> [res frame; rest of buffer]   (readFrame over the ring buffer) *)
Definition u_ws_parse (v : V) : V :=
  let '(r, rest) := parse_frame (as_bytes (vnth v 0)) in VL [vres V_of_frame r; VB rest].

(* UNIT 1803 ws_feed : [closed; chunks] -> [delivered [[opcode; payload]...]; written; error code or 0; buffer; closed] *)
Definition u_ws_feed (v : V) : V :=
  let st := {| w_buf := []; w_closed := as_bool (vnth v 0) |} in
  let '(st', o) := ws_feed st (map as_bytes (as_list (vnth v 1))) in
  VL [VL (map (fun d => VL [VI (opcode_val (fst d)); VB (snd d)]) (o_delivered o)); VB (o_written o);
      VI (match o_error o with Some e => err_code e | None => 0 end); VB (w_buf st'); vbool (w_closed st')].

(* UNIT 1804 ws_available : [buf] -> bool   (_frameAvailable) *)
Definition u_ws_available (v : V) : V := vbool (frame_available (as_bytes (vnth v 0))).

(* UNIT 1805 ws_utf8 : [bytes] -> bool   (does bytes.decode("utf-8") succeed) *)
Definition u_ws_utf8 (v : V) : V := vbool (utf8_valid (as_bytes (vnth v 0))).

(* UNIT 1806 ws_rfc : frame (as 1801) -> bytes   (the independent RFC 6455 encoder of the spec side) *)
Definition u_ws_rfc (v : V) : V := VB (rfc_encode (frame_of_V v)).

Definition dispatch_ws (u : Z) (v : V) : option V :=
  match u with
  | 1801 => Some (u_ws_encode v)
  | 1802 => Some (u_ws_parse v)
  | 1803 => Some (u_ws_feed v)
  | 1804 => Some (u_ws_available v)
  | 1805 => Some (u_ws_utf8 v)
  | 1806 => Some (u_ws_rfc v)
  | _ => None
  end.
