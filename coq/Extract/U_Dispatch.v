(* U_Dispatch.v — correspondence units for mpgameserver/dispatch.py (ids 2000-2099).
   Wire shapes: name = VB utf-8 bytes; ann = [kind; name] kind 0 = class object, 1 = string;
   handler = [id; arity]; method = [ann; handler]; resource = list of methods in dir() order;
   op = [0; resource] register | [1; resource] unregister | [2; ann; handler] register_function
      | [3; ann] unregister_function | [4; client; seqnum; cname; msg] dispatch (tokens are ints);
   dispatcher kind 0 = ServerMessageDispatcher, 1 = ClientMessageDispatcher. *)
From Model Require Import Base Dispatch.
Open Scope Z_scope.

Definition d_kind (v : V) : dkind := if as_int v =? 0 then KServer else KClient.
Definition d_ann (v : V) : ann :=
  {| a_kind := if as_int (vnth v 0) =? 0 then AClass else AStr; a_name := as_bytes (vnth v 1) |}.
Definition d_handler (v : V) : handler := {| h_id := as_int (vnth v 0); h_arity := as_int (vnth v 1) |}.
Definition d_method (v : V) : method := {| m_ann := d_ann (vnth v 0); m_h := d_handler (vnth v 1) |}.
Definition d_resource (v : V) : resource := map d_method (as_list v).
Definition d_op (v : V) : op Z :=
  let tag := as_int (vnth v 0) in
  if tag =? 0 then ORegister (d_resource (vnth v 1))
  else if tag =? 1 then OUnregister (d_resource (vnth v 1))
  else if tag =? 2 then ORegFn (d_ann (vnth v 1)) (d_handler (vnth v 2))
  else if tag =? 3 then OUnregFn (d_ann (vnth v 1))
  else ODispatch (as_int (vnth v 1)) (as_int (vnth v 2)) (as_bytes (vnth v 3)) (as_int (vnth v 4)).

Definition e_ann (a : ann) : V := VL [VI (match a_kind a with AClass => 0 | AStr => 1 end); VB (a_name a)].
Definition e_table (t : table) : V :=
  VL (map (fun e => VL [VB (fst e); VI (h_id (snd e)); VI (h_arity (snd e))]) t).
Definition e_calls (c : list (Z * list Z)) : V :=
  VL (map (fun x => VL [VI (fst x); VL (map VI (snd x))]) c).
Definition e_out (o : out Z) : V :=
  match o with
  | OUnit r => vres (fun _ => VI 0) r
  | OCalls r => vres e_calls r
  end.

(* UNIT 2001 disp_run : [kind; ops] -> [table after the sequence; one outcome per op]
   (names as utf-8 bytes; outcome = [0; 0] / [0; calls] / [1; error code]) *)
Definition u_disp_run (v : V) : V :=
  let '(t, outs) := run (d_kind (vnth v 0)) [] (map d_op (as_list (vnth v 1))) in
  VL [e_table t; VL (map e_out outs)].

(* UNIT 2002 disp_decorate : [kind; nparams; [] | [ann]] -> result ann (value stored in method._event) *)
Definition u_disp_decorate (v : V) : V :=
  let a := match as_list (vnth v 2) with [] => None | x :: _ => Some (d_ann x) end in
  vres e_ann (decorate (d_kind (vnth v 0)) (as_int (vnth v 1)) a).

Definition dispatch_dispatch (u : Z) (v : V) : option V :=
  match u with
  | 2001 => Some (u_disp_run v)
  | 2002 => Some (u_disp_decorate v)
  | _ => None
  end.
