(* U_Persist.v — correspondence units for the persistent format of serializable.py (ids 1311-1319).
   Wire forms of values / registries / results: see U_Ser.v.
   names: [[[cp...]; tid]...]  SerializableType.names in dict order: class name (code points) and the type id
   the class carries in this process. *)
From Model Require Import Base Utf8 Ser Float32 Persist.
From Extract Require Import U_Ser.
Open Scope Z_scope.

Definition v2names (v : V) : ntable :=
  map (fun e => (map as_int (as_list (vnth e 0)), as_int (vnth e 1))) (as_list v).

(* UNIT 1311 persist_load : [registry; names; pktable; frames; bytes] ->
     [result [value; bytes left]; stream reads; registry after [[key; type id of the class]...]; names after]
   (Serializable.load_persistant on a counting stream, then the process-wide tables as the call left them;
    the value carries the ids of THIS process: a decoded instance is an instance of the class found by name) *)
Definition u_persist_load (v : V) : V :=
  let reg := v2reg (vnth v 0) in
  let names := v2names (vnth v 1) in
  let '(r, s) := load_persistant flocq_fc (pk_of (vnth v 2)) reg names (Z.to_nat (as_int (vnth v 3)))
                                 (st0 (as_bytes (vnth v 4))) in
  let '(reg', names') := tables_after_load reg names in
  VL [vsres (fun x => VL [val2v x; VI (len (rem s))]) r; VI (nrd s);
      VL (map (fun p => VL [VI (fst p); VI (fst p)]) reg');
      VL (map (fun p => VL [VL (map VI (fst p)); VI (snd p)]) names')].

(* UNIT 1312 persist_store : [registry; [[tid; [cp...]]...] class names; value] -> result bytes
   (Serializable.store_persistant / serialize_registry + serialize_value in a process with that registry) *)
Definition u_persist_store (v : V) : V :=
  let reg := v2reg (vnth v 0) in
  let cn := as_list (vnth v 1) in
  let cname := fun t => (fix go (l : list V) : list Z :=
                           match l with
                           | [] => []
                           | e :: r => if as_int (vnth e 0) =? t then map as_int (as_list (vnth e 1)) else go r
                           end) cn in
  vsres VB (store_persistant flocq_fc reg cname (v2val (vnth v 2))).

Definition dispatch_persist (u : Z) (v : V) : option V :=
  match u with
  | 1311 => Some (u_persist_load v)
  | 1312 => Some (u_persist_store v)
  | _ => None
  end.
