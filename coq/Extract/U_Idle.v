(* U_Idle.v — correspondence unit for the two-endpoint timed model of C12 (ids 1210-1219). *)
From RecordUpdate Require Import RecordUpdate.
From Model Require Import Base SeqNum Wire Conn Client Net TimedNet.
From Extract Require Import U_Conn.
Import RecordSetNotations.
Open Scope Z_scope.

Definition tsrc_of_V (v : V) : tsrc :=
  match as_int (vnth v 0) with
  | 0 => SNone
  | 1 => SPeer (as_int (vnth v 1))
  | _ => SJunk (dgram_of_V (vnth v 1)) (map oracle_of_V (as_list (vnth v 2)))
  end.

Definition tev_of_V (v : V) : tev :=
  match as_int (vnth v 0) with
  | 0 => TClient (as_int (vnth v 1)) (tsrc_of_V (vnth v 2))
  | 1 => TSrvRecv (as_int (vnth v 1)) (tsrc_of_V (vnth v 2))
  | _ => TSrvSweep (as_int (vnth v 1))
  end.

Definition tobs (n : tnet) : V :=
  VL [VI (status_code (c_status (t_cli n))); VI (status_code (c_status (t_srv n))); vbool (t_swept n);
      VI (c_last_recv (t_cli n)); VI (c_last_recv (t_srv n));
      VI (len (wd_log (t_cs n))); VI (len (wd_log (t_sc n)));
      VI (c_seq_send (t_cli n)); VI (c_seq_send (t_srv n));
      VI (bf_cur (c_bf_pkt (t_cli n))); VI (bf_cur (c_bf_pkt (t_srv n)))].

Fixpoint trun_obs (e : env) (P : tparams) (n : tnet) (vs : list tev) : list V :=
  match vs with
  | [] => []
  | v :: r => let n' := tstep e P n v in tobs n' :: trun_obs e P n' r
  end.

(* the endpoints as harness/connsim.py establishes them: CONNECTED under `key`, nothing sent or
   received, liveness clock started at t0, keep-alive interval K *)
Definition idle_init (srv : bool) (key t0 K : Z) : conn :=
  (conn0 srv) <| c_key := Some key |> <| c_status := CONNECTED |> <| c_last_recv := t0 |> <| c_ka_interval := K |>.

(* UNIT 1210 idle_pair_run : [env; [tau; d; T; life]; [key; t0; K_client; K_server]; events]
   -> [established?; params_ok?; tvalid?; per event [status client; status server; swept; last_recv client;
       last_recv server; #emitted client; #emitted server; seq client; seq server; window head client; window head server]]
   events: [0; now; src] UdpClient.update, [1; now; src] server-side _recv_datagram, [2; now] server sweep;
   src: [0] nothing, [1; n] the peer's n-th datagram, [2; dgram; oracles] bytes that do not open *)
Definition u_idle_pair_run (v : V) : V :=
  let e := env_of_V (vnth v 0) in
  let p := vnth v 1 in
  let P := {| tp_tau := as_int (vnth p 0); tp_d := as_int (vnth p 1); tp_life := as_int (vnth p 3); tp_T := as_int (vnth p 2) |} in
  let i := vnth v 2 in
  let key := as_int (vnth i 0) in
  let t0 := as_int (vnth i 1) in
  let cli := idle_init false key t0 (as_int (vnth i 2)) in
  let srv := idle_init true key t0 (as_int (vnth i 3)) in
  let vs := map tev_of_V (as_list (vnth v 3)) in
  let n0 := tnet0 cli srv t0 in
  VL [vbool (establishedb key t0 cli srv); vbool (params_okb P cli srv); vbool (tvalidb e P n0 vs);
      VL (trun_obs e P n0 vs)].

Definition dispatch_idle (u : Z) (v : V) : option V :=
  match u with
  | 1210 => Some (u_idle_pair_run v)
  | _ => None
  end.
