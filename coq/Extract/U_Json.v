(* U_Json.v — correspondence units for the typed-JSON model (ids 1501-1599).
   Wire encoding of a Python value (pv):
     [0] None | [1;b] bool | [2;z] int | [3;bits] float (binary64 bit pattern) | [4;[cp..]] str (code points)
     [5;[b..]] bytes | [6;[..]] list | [7;[..]] tuple | [8;[..]] set (iteration order) | [9;[[k;v]..]] dict
     [10;eid;raw] enum instance | [11;cid;[..]] Serializable instance (values in _fields order)
   ety : [0] int [1] float [2] bool [3] str [4] bytes [5;cid] [6;eid] [7;k] bare container (k: 0 list 1 tuple 2 set 3 dict)
   ty  : [0;ety] basic | [1;ety] List | [2;ety] Set | [3;k;v] Dict | [4;[ety..]] Tuple | [5] other generic
   class table : [ [[cid; [[name; ty; default]..]]..] ; [[eid; [[name; raw]..]]..] ]
   str.upper is instantiated by ascii_upper (the harness only sends enum-position strings on which the
   two coincide). *)
From Model Require Import Base Json.
Open Scope Z_scope.

Definition ints_of (v : V) : list Z := map as_int (as_list v).

Fixpoint pv_of_V (v : V) : pv :=
  match v with
  | VL [VI 0] => PNone
  | VL [VI 1; VI b] => PBool (negb (b =? 0))
  | VL [VI 2; VI z] => PInt z
  | VL [VI 3; VI t] => PFloat t
  | VL [VI 4; s] => PStr (ints_of s)
  | VL [VI 5; s] => PBytes (ints_of s)
  | VL [VI 6; VL l] => PList (map pv_of_V l)
  | VL [VI 7; VL l] => PTuple (map pv_of_V l)
  | VL [VI 8; VL l] => PSet (map pv_of_V l)
  | VL [VI 9; VL l] => PDict (map (fun p => match p with
                                            | VL [k; x] => (pv_of_V k, pv_of_V x)
                                            | _ => (PNone, PNone)
                                            end) l)
  | VL [VI 10; VI e; VI r] => PEnum e r
  | VL [VI 11; VI c; VL l] => PObj c (map pv_of_V l)
  | _ => PNone
  end.

Definition V_of_str (s : str) : V := VL (map VI s).

Fixpoint V_of_pv (p : pv) : V :=
  match p with
  | PNone => VL [VI 0]
  | PBool b => VL [VI 1; vbool b]
  | PInt z => VL [VI 2; VI z]
  | PFloat t => VL [VI 3; VI t]
  | PStr s => VL [VI 4; V_of_str s]
  | PBytes s => VL [VI 5; V_of_str s]
  | PList l => VL [VI 6; VL (map V_of_pv l)]
  | PTuple l => VL [VI 7; VL (map V_of_pv l)]
  | PSet l => VL [VI 8; VL (map V_of_pv l)]
  | PDict kv => VL [VI 9; VL (map (fun p => match p with (k, x) => VL [V_of_pv k; V_of_pv x] end) kv)]
  | PEnum e r => VL [VI 10; VI e; VI r]
  | PObj c l => VL [VI 11; VI c; VL (map V_of_pv l)]
  end.

Definition ckind_of (z : Z) : ckind :=
  if z =? 0 then KList else if z =? 1 then KTuple else if z =? 2 then KSet else KDict.

Definition ety_of_V (v : V) : ety :=
  let t := as_int (vnth v 0) in
  if t =? 0 then TInt else if t =? 1 then TFloat else if t =? 2 then TBool else if t =? 3 then TStr
  else if t =? 4 then TBytes else if t =? 5 then TObj (as_int (vnth v 1))
  else if t =? 6 then TEnum (as_int (vnth v 1)) else TBare (ckind_of (as_int (vnth v 1))).

Definition ty_of_V (v : V) : ty :=
  let t := as_int (vnth v 0) in
  if t =? 0 then TBasic (ety_of_V (vnth v 1))
  else if t =? 1 then TList (ety_of_V (vnth v 1))
  else if t =? 2 then TSet (ety_of_V (vnth v 1))
  else if t =? 3 then TDict (ety_of_V (vnth v 1)) (ety_of_V (vnth v 2))
  else if t =? 4 then TTuple (map ety_of_V (as_list (vnth v 1)))
  else TGenOther.

Definition field_of_V (v : V) : field :=
  mkField (ints_of (vnth v 0)) (ty_of_V (vnth v 1)) (pv_of_V (vnth v 2)).

Definition ctab_of_V (v : V) : ctab :=
  mkCtab (map (fun c => (as_int (vnth c 0), map field_of_V (as_list (vnth c 1)))) (as_list (vnth v 0)))
         (map (fun c => (as_int (vnth c 0),
                         map (fun m => (ints_of (vnth m 0), as_int (vnth m 1))) (as_list (vnth c 1))))
              (as_list (vnth v 1))).

Definition fuel_of (v : V) : nat := Z.to_nat (as_int v).

(* UNIT 1501 json_tojson : [ctab; fuel; obj] -> res pv      (obj.toJson()) *)
Definition u_json_tojson (v : V) : V :=
  vres V_of_pv (val_toJson (ctab_of_V (vnth v 0)) (fuel_of (vnth v 1)) (pv_of_V (vnth v 2))).

(* UNIT 1502 json_fromjson : [ctab; fuel; cid; record] -> res pv      (cid.fromJson(record)) *)
Definition u_json_fromjson (v : V) : V :=
  vres V_of_pv (obj_fromJson (ctab_of_V (vnth v 0)) ascii_upper (fuel_of (vnth v 1))
                             (as_int (vnth v 2)) (pv_of_V (vnth v 3))).

(* UNIT 1503 json_rt : [value] -> res pv      (json.loads(json.dumps(value))) *)
Definition u_json_rt (v : V) : V := vres V_of_pv (json_rt (pv_of_V (vnth v 0))).

(* UNIT 1504 json_domain : [ctab; fuel; cid; obj] -> [wf_ctab; ht_obj lim=false; ht_obj lim=true] *)
Definition u_json_domain (v : V) : V :=
  let ct := ctab_of_V (vnth v 0) in
  let n := fuel_of (vnth v 1) in
  let cid := as_int (vnth v 2) in
  let x := pv_of_V (vnth v 3) in
  VL [vbool (wf_ctab ct ascii_upper); vbool (ht_obj ct false n x cid); vbool (ht_obj ct true n x cid)].

(* UNIT 1505 json_intstr : [z; str] -> [str(z) ; int(str)]   (str as code points) *)
Definition u_json_intstr (v : V) : V :=
  let z := as_int (vnth v 0) in
  VL [ vres V_of_str (if lim_ok z then Ok (dec z) else Err EValue);
       vres VI (parse_int (ints_of (vnth v 1))) ].

(* UNIT 1506 json_loads_dumps : [ctab; fuel; cid; obj] -> res pv    (cid.loads(obj.dumps())) *)
Definition u_json_loads_dumps (v : V) : V :=
  let ct := ctab_of_V (vnth v 0) in
  let n := fuel_of (vnth v 1) in
  vres V_of_pv (do j <- val_toJson ct n (pv_of_V (vnth v 3));
                do j' <- json_rt j;
                obj_fromJson ct ascii_upper n (as_int (vnth v 2)) j').

(* UNIT 1507 json_plain : [value] -> [plainb false; plainb true; strictb]   (the predicates of theorems 3-5) *)
Definition u_json_plain (v : V) : V :=
  let x := pv_of_V (vnth v 0) in
  VL [vbool (plainb false x); vbool (plainb true x); vbool (strictb x)].

Definition dispatch_json (u : Z) (v : V) : option V :=
  match u with
  | 1501 => Some (u_json_tojson v)
  | 1502 => Some (u_json_fromjson v)
  | 1503 => Some (u_json_rt v)
  | 1504 => Some (u_json_domain v)
  | 1505 => Some (u_json_intstr v)
  | 1506 => Some (u_json_loads_dumps v)
  | 1507 => Some (u_json_plain v)
  | _ => None
  end.
