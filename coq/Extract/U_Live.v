(* U_Live.v — correspondence unit for the liveness model of C05 (Model/LiveNet.v; ids 510-519). *)
From RecordUpdate Require Import RecordUpdate.
From Model Require Import Base SeqNum Wire Conn Client Net TimedNet LiveNet.
From Extract Require Import U_Conn U_Idle.
Import RecordSetNotations.
Open Scope Z_scope.

(* after every event: the joint observation of U_Idle.tobs and the FULL private state of both
   endpoints (U_Conn.snapshot: queues, pending tables, RetrySender done flags, windows, counters,
   incoming_messages) *)
Definition lobs (n : tnet) : V := VL [tobs n; snapshot (t_cli n); snapshot (t_srv n)].

Fixpoint lrun_obs (e : env) (P : tparams) (n : tnet) (vs : list tev) : list V :=
  match vs with
  | [] => []
  | v :: r => let n' := tstep e P n v in lobs n' :: lrun_obs e P n' r
  end.

(* UNIT 510 live_pair_run : [env; [tau; d; T; th]; [key; t0; K_client; K_server]; side; payload; cbid; events; now_end]
   -> [live_start?; hvalid?; hnow at now_end?; max(th, t0) + live_bound; state after send [client; server];
       per event [tobs; snapshot client; snapshot server]]
   side: 0 the client's application calls send_guaranteed(payload, callback cbid), 1 the server-side client object's;
   the endpoints are U_Idle.idle_init (as harness/connsim.py establishes them); events as for unit 1210 *)
Definition u_live_pair_run (v : V) : V :=
  let e := env_of_V (vnth v 0) in
  let q := vnth v 1 in
  let P := {| tp_tau := as_int (vnth q 0); tp_d := as_int (vnth q 1); tp_life := 0; tp_T := as_int (vnth q 2) |} in
  let th := as_int (vnth q 3) in
  let i := vnth v 2 in
  let key := as_int (vnth i 0) in
  let t0 := as_int (vnth i 1) in
  let cli := idle_init false key t0 (as_int (vnth i 2)) in
  let srv := idle_init true key t0 (as_int (vnth i 3)) in
  let sd := if as_int (vnth v 3) =? 0 then SCli else SSrv in
  let p := as_bytes (vnth v 4) in
  let ucb := icb_of_Z (as_int (vnth v 5)) in
  let vs := map tev_of_V (as_list (vnth v 6)) in
  let now_end := as_int (vnth v 7) in
  let n0 := after_send e sd cli srv p ucb t0 in
  let x := match sd with SCli => cli | SSrv => srv end in
  let y := match sd with SCli => srv | SSrv => cli end in
  VL [vbool (live_startb key t0 x y); vbool (hvalidb e P sd th n0 vs);
      vbool (hnowb P sd th (trun e P n0 vs) now_end); VI (Z.max th t0 + live_bound P x);
      VL [snapshot (t_cli n0); snapshot (t_srv n0)];
      VL (lrun_obs e P n0 vs)].

Definition dispatch_live (u : Z) (v : V) : option V :=
  match u with
  | 510 => Some (u_live_pair_run v)
  | _ => None
  end.
