(* U_Seq.v — correspondence units for the sequence ring / window kernels (ids 100-199).
   The units run the REGENERATED kernels (validating the translator against the
   implementation) and, side by side, the hand-written spec functions. *)
From Model Require Import Base SeqNum.
From Gen Require Import Kernels.
Open Scope Z_scope.

Definition vpair (a b : V) : V := VL [a; b].

(* UNIT 101 seq_arith : [a; k] -> [add; sub; diff; newer; lt; gt] from gen and from spec *)
Definition u_seq_arith (v : V) : V :=
  let a := as_int (vnth v 0) in let k := as_int (vnth v 1) in
  VL [ vres VI (gen_add a k); vres VI (gen_sub a k); VI (gen_diff a k);
       vres vbool (gen_newer_than a k); vres vbool (gen_lt a k); vres vbool (gen_gt a k);
       vres VI (seq_add a k); vres VI (seq_sub a k); VI (seq_diff a k);
       vbool (seq_newer a k); vbool (seq_lt a k); vbool (seq_gt a k) ].

(* UNIT 102 bf_ops : [nb; ops]  op = [0; s] insert | [1; s] contains
   -> [results; bits; cur]  (gen kernels), and the same again for the spec functions *)
Fixpoint bf_ops_gen (nb bits cur : Z) (ops : list V) : list V * Z * Z :=
  match ops with
  | [] => ([], bits, cur)
  | o :: ops' =>
      let s := as_int (vnth o 1) in
      if as_int (vnth o 0) =? 0 then
        match gen_insert nb bits cur s with
        | Ok (b, c) => let '(r, b', c') := bf_ops_gen nb b c ops' in (VI 0 :: r, b', c')
        | Err e => let '(r, b', c') := bf_ops_gen nb bits cur ops' in (VI (err_code e) :: r, b', c')
        end
      else
        let '(r, b', c') := bf_ops_gen nb bits cur ops' in
        (vres vbool (gen_contains nb bits cur s) :: r, b', c')
  end.

Fixpoint bf_ops_spec (f : bitfield) (ops : list V) : list V * bitfield :=
  match ops with
  | [] => ([], f)
  | o :: ops' =>
      let s := as_int (vnth o 1) in
      if as_int (vnth o 0) =? 0 then
        match bf_insert f s with
        | Ok f' => let '(r, g) := bf_ops_spec f' ops' in (VI 0 :: r, g)
        | Err e => let '(r, g) := bf_ops_spec f ops' in (VI (err_code e) :: r, g)
        end
      else
        let '(r, g) := bf_ops_spec f ops' in (vres vbool (Ok (bf_contains f s)) :: r, g)
  end.

Definition u_bf_ops (v : V) : V :=
  let nb := as_int (vnth v 0) in let ops := as_list (vnth v 1) in
  let '(r, b, c) := bf_ops_gen nb 0 0 ops in
  let '(r2, g) := bf_ops_spec (bf_new nb) ops in
  VL [VL r; VI b; VI c; VL r2; VI (bf_bits g); VI (bf_cur g)].

(* UNIT 103 hdr_acks : [ack; bits; s] -> bool *)
Definition u_hdr_acks (v : V) : V :=
  vbool (hdr_acks (as_int (vnth v 0)) (as_int (vnth v 1)) (as_int (vnth v 2))).

(* UNIT 104 consts : [] -> kernel constants; [mtu] -> setMTU result; overhead n *)
Definition v6 (t : Z * Z * Z * Z * Z * Z) : V :=
  let '(a, b, c, d, e, f) := t in VL [VI a; VI b; VI c; VI d; VI e; VI f].
Definition u_consts (v : V) : V :=
  VL [ v6 gen_defaults; vres v6 (gen_setMTU (as_int (vnth v 0))); vres VI (gen_overhead (as_int (vnth v 1)));
       VI gen_PacketHeader_SIZE; VI gen_PacketHeader_TAG_SIZE; VI gen_PacketHeader_CRC_SIZE;
       VI gen_Packet_MAX_FRAGMENTS; VI gen_Packet_UDP_HEADER_SIZE ].

Definition dispatch_seq (u : Z) (v : V) : option V :=
  match u with
  | 101 => Some (u_seq_arith v)
  | 102 => Some (u_bf_ops v)
  | 103 => Some (u_hdr_acks v)
  | 104 => Some (u_consts v)
  | _ => None
  end.
