(* U_Pack.v — correspondence units for C09 / C06 that are not in U_Conn.v (ids 901-999). *)
From Model Require Import Base SeqNum Wire Conn PackEnv Frag.
From RecordUpdate Require Import RecordUpdate.
From Extract Require Import U_Conn.
Open Scope Z_scope.

Definition V_of_env (e : env) : V := VL [VI (e_max_payload e); VI (e_max_frag e); VI (e_max_frags e)].

(* UNIT 901 env_of_mtu : [mtu] -> [MAX_PAYLOAD_SIZE; MAX_FRAGMENT_SIZE; MAX_FRAGMENTS] after Packet.setMTU(mtu),
   followed by [max_dgram mtu] = Packet.MAX_SIZE *)
Definition u_env_of_mtu (v : V) : V :=
  VL [vres V_of_env (env_of_mtu (as_int (vnth v 0))); VI (max_dgram (as_int (vnth v 0)))].

(* UNIT 902 sealed_dgram : [key; header; [wmsg..]] -> Packet.create + to_bytes(key) with the toy AEAD
   (datagram = header ++ plaintext ++ toy_tag key header[:12] header); the harness replaces
   plaintext ++ tag by AES-GCM(key, iv = header[:12], aad = header) and compares the bytes *)
Definition u_sealed_dgram (v : V) : V :=
  vres VB (to_bytes crc32 toy_seal (Some (as_int (vnth v 0))) (header_of_V (vnth v 1))
                    (map wmsg_of_V (as_list (vnth v 2)))).

(* UNIT 903 pack_sealed_parse : [key; header(as parsed); datagram in the toy form] -> Packet.from_bytes(hdr, key, d) *)
Definition u_sealed_parse (v : V) : V :=
  vres (fun l => VL (map V_of_wmsg l))
       (from_bytes crc32 toy_open (Some (as_int (vnth v 0))) (header_of_V (vnth v 1)) (as_bytes (vnth v 2))).

(* UNIT 904 toy_tag : [key; iv; aad] -> 16 bytes *)
Definition u_toy_tag (v : V) : V := VB (toy_tag (as_int (vnth v 0)) (as_bytes (vnth v 1)) (as_bytes (vnth v 2))).

(* UNIT 905 crc_parse : [header(as parsed); datagram] -> Packet.from_bytes(hdr, None, d) with the real CRC-32
   (same function as U_Conn's clear_parse, whose announcement the unit table does not pick up) *)
Definition u_crc_parse (v : V) : V := u_clear_parse v.

(* UNIT 906 frag_feed : [fid; [fragment..]; [ev..]] with ev = [0; i; mseq; now] (the i-th fragment message of
   the payload, 0-based) | [1; bytes; mseq; now] (any other fragment-typed message)
   -> [per step: messages appended to incoming_messages; final incoming; per step: abstract receiver's
       delivery (-1 none, else seq); final received_fragments as in the connection snapshot] from conn0 *)
Definition fev_of_V (v : V) : fev :=
  if as_int (vnth v 0) =? 0 then FMine (Z.to_nat (as_int (vnth v 1))) (as_int (vnth v 2)) (as_int (vnth v 3))
  else FOther (as_bytes (vnth v 1)) (as_int (vnth v 2)) (as_int (vnth v 3)).
Definition V_of_inc (l : list (Z * list byte)) : V := VL (map (fun p => VL [VI (fst p); VB (snd p)]) l).
Definition u_frag_feed (v : V) : V :=
  let fid := as_int (vnth v 0) in
  let frags := map as_bytes (as_list (vnth v 1)) in
  let xs := map fev_of_V (as_list (vnth v 2)) in
  let '(c, ds) := feed fid frags (conn0 false) xs in
  let '(_, sp) := spec_run (rstate0 (length frags)) xs in
  VL [VL (map V_of_inc ds); V_of_inc (c_incoming c); VL (map V_of_oz sp);
      VL (map (fun p => let fr := snd p in
                VL [VI (fst p); VI (fr_count fr); VI (fr_ctime fr); VI (fr_msgseq fr);
                    VL (map V_of_obytes (fr_frags fr))]) (c_rfrags c))].

(* UNIT 907 send_one : [env; payload; retry] -> outputs of send on a connected conn0 and the queued
   (type, payload) list *)
Definition u_send_one (v : V) : V :=
  let e := env_of_V (vnth v 0) in
  let c0 := RecordSet.set c_status (fun _ => CONNECTED) (conn0 false) in
  let '(c, o) := send e c0 (as_bytes (vnth v 1)) (retry_of_Z (as_int (vnth v 2))) INone in
  VL [VL (map V_of_out o); VL (map (fun m => VL [VI (ptype_code (m_type m)); VB (m_payload m)]) (c_outgoing c));
      VI (c_seq_frag c)].

Definition dispatch_pack (u : Z) (v : V) : option V :=
  match u with
  | 901 => Some (u_env_of_mtu v)
  | 902 => Some (u_sealed_dgram v)
  | 903 => Some (u_sealed_parse v)
  | 904 => Some (u_toy_tag v)
  | 905 => Some (u_crc_parse v)
  | 906 => Some (u_frag_feed v)
  | 907 => Some (u_send_one v)
  | _ => None
  end.
