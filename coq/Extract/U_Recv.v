(* U_Recv.v — correspondence units for the receive path (ids 401-499): the symbolic notion of
   an authentic datagram against the real AES-GCM, and the byte-level Wire.from_bytes for a key
   holder (the decryption itself is answered by the harness with the real library). *)
From RecordUpdate Require Import RecordUpdate.
From Model Require Import Base SeqNum Wire Conn RecvSpec RecvHist.
From Extract Require Import U_Conn.
Import RecordSetNotations.
Open Scope Z_scope.

(* UNIT 401 recv_auth : [key; dgram] -> [authentic?; open_dgram (Some key): [0; n msgs] | [1; err]] *)
Definition u_recv_auth (v : V) : V :=
  let k := as_int (vnth v 0) in
  let d := dgram_of_V (vnth v 1) in
  VL [vbool (authenticb k d); vres (fun ms => VI (len ms)) (open_dgram (Some k) d)].

(* UNIT 403 sealed_slices : [hdr; datagram] -> [long_enough; iv; aad; ciphertext||tag] — the
   arguments Wire.from_bytes hands to `open` *)
Definition u_sealed_slices (v : V) : V :=
  let h := header_of_V (vnth v 0) in
  let d := as_bytes (vnth v 1) in
  VL [vbool (negb (20 + h_len h >? len d)); VB (firstn 12 d); VB (firstn 20 d);
      VB (sub d 20 (Z.to_nat (h_len h) + 16))].

(* UNIT 404 sealed_parse : [hdr; datagram; answer]  answer = [] (InvalidTag) | [plaintext]
   -> Wire.from_bytes (Some key) with `open` answering as the real library did *)
Definition u_sealed_parse (v : V) : V :=
  let h := header_of_V (vnth v 0) in
  let d := as_bytes (vnth v 1) in
  let ans := match as_list (vnth v 2) with [] => None | x :: _ => Some (as_bytes x) end in
  vres (fun l => VL (map V_of_wmsg l))
       (from_bytes crc32 (fun _ _ _ _ => ans) (Some 0) h d).

(* UNIT 405 prekey_gate : [server; dgram] -> [keyless_refuses on a fresh keyless connection;
   expected hello type code] *)
Definition u_prekey_gate (v : V) : V :=
  let c := conn0 (as_bool (vnth v 0)) in
  let d := dgram_of_V (vnth v 1) in
  VL [vbool (keyless_refuses c (d_hdr d)); VI (ptype_code (expected_hello c))].

(* UNIT 410 w_flags : [nb; history of true indices] -> duplicate flags of the abstract window
   started empty, and the indices it accepts *)
Definition u_w_flags (v : V) : V :=
  let nb := as_int (vnth v 0) in
  let h := map as_int (as_list (vnth v 1)) in
  let f := w_hist nb None h in
  VL [VL (map vbool f); VL (map VI (fresh_of f h))].

(* UNIT 412 conn_run_seq : conn_run with the sender's counters preset:
   [env; [server; key; status; now0; seq_sending; seq_message]; events; snapshot_every] *)
Definition u_conn_run_seq (v : V) : V :=
  let e := env_of_V (vnth v 0) in
  let i := vnth v 1 in
  let k := as_int (vnth i 1) in
  let c := (conn0 (as_bool (vnth i 0)))
             <| c_key := if k =? -1 then None else Some k |>
             <| c_status := status_of_Z (as_int (vnth i 2)) |>
             <| c_seq_send := as_int (vnth i 4) |> <| c_seq_msg := as_int (vnth i 5) |> in
  let c := if as_int (vnth i 3) =? -1 then c else c <| c_last_recv := as_int (vnth i 3) |> in
  VL (run_snap e c (as_list (vnth v 2)) (as_bool (vnth v 3))).

Definition dispatch_recv (u : Z) (v : V) : option V :=
  match u with
  | 401 => Some (u_recv_auth v)
  | 403 => Some (u_sealed_slices v)
  | 404 => Some (u_sealed_parse v)
  | 405 => Some (u_prekey_gate v)
  | 410 => Some (u_w_flags v)
  | 412 => Some (u_conn_run_seq v)
  | _ => None
  end.
