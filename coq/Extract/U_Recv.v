(* U_Recv.v — correspondence units for the receive path (ids 401-499): the symbolic notion of
   an authentic datagram against the real AES-GCM, and the byte-level Wire.from_bytes for a key
   holder (the decryption itself is answered by the harness with the real library). *)
From RecordUpdate Require Import RecordUpdate.
From Model Require Import Base SeqNum Wire Conn RecvSpec.
From Extract Require Import U_Conn.
Import RecordSetNotations.
Open Scope Z_scope.

(* UNIT 401 recv_auth : [key; dgram] -> [authentic?; open_dgram (Some key): [0; n msgs] | [1; err]] *)
Definition u_recv_auth (v : V) : V :=
  let k := as_int (vnth v 0) in
  let d := dgram_of_V (vnth v 1) in
  VL [vbool (authenticb k d); vres (fun ms => VI (len ms)) (open_dgram (Some k) d)].

(* UNIT 403 sealed_slices : [hdr; datagram] -> [long_enough; iv; aad; ciphertext||tag] — the
   arguments Wire.from_bytes hands to `open` *)
Definition u_sealed_slices (v : V) : V :=
  let h := header_of_V (vnth v 0) in
  let d := as_bytes (vnth v 1) in
  VL [vbool (negb (20 + h_len h >? len d)); VB (firstn 12 d); VB (firstn 20 d);
      VB (sub d 20 (Z.to_nat (h_len h) + 16))].

(* UNIT 404 sealed_parse : [hdr; datagram; answer]  answer = [] (InvalidTag) | [plaintext]
   -> Wire.from_bytes (Some key) with `open` answering as the real library did *)
Definition u_sealed_parse (v : V) : V :=
  let h := header_of_V (vnth v 0) in
  let d := as_bytes (vnth v 1) in
  let ans := match as_list (vnth v 2) with [] => None | x :: _ => Some (as_bytes x) end in
  vres (fun l => VL (map V_of_wmsg l))
       (from_bytes crc32 (fun _ _ _ _ => ans) (Some 0) h d).

(* UNIT 405 prekey_gate : [server; dgram] -> [keyless_refuses on a fresh keyless connection;
   expected hello type code] *)
Definition u_prekey_gate (v : V) : V :=
  let c := conn0 (as_bool (vnth v 0)) in
  let d := dgram_of_V (vnth v 1) in
  VL [vbool (keyless_refuses c (d_hdr d)); VI (ptype_code (expected_hello c))].

Definition dispatch_recv (u : Z) (v : V) : option V :=
  match u with
  | 401 => Some (u_recv_auth v)
  | 403 => Some (u_sealed_slices v)
  | 404 => Some (u_sealed_parse v)
  | 405 => Some (u_prekey_gate v)
  | _ => None
  end.
