(* U_ConnMtu.v — correspondence unit for Packet.setMTU called while a connection exists
   (ids 2210-2219).  The Conn.v step function takes the Packet class attributes as its
   environment `env`; Packet.setMTU rewrites those class attributes for every connection of
   the process, whenever they were created.  A history may therefore contain an event
   [9; env'] = "Packet.setMTU was called": it leaves the connection state untouched and every
   later step runs under env'. *)
From RecordUpdate Require Import RecordUpdate.
From Model Require Import Base SeqNum Wire Conn.
From Extract Require Import U_Conn.
Import RecordSetNotations.
Open Scope Z_scope.

Fixpoint run_snap_mtu (e : env) (c : conn) (xs : list V) (every : bool) : list V :=
  match xs with
  | [] => []
  | x :: r =>
      if as_int (vnth x 0) =? 9 then
        VL [VL []; if every then snapshot c else match r with [] => snapshot c | _ => VL [] end]
        :: run_snap_mtu (env_of_V (vnth x 1)) c r every
      else
        let '(c1, o) := step e c (ev_of_V x) in
        VL [VL (map V_of_out o); if every then snapshot c1 else match r with [] => snapshot c1 | _ => VL [] end]
        :: run_snap_mtu e c1 r every
  end.

(* UNIT 2210 conn_run_mtu : [env; [server; key(-1 none); status; now0; seq_send; seq_msg]; events; snapshot_every]
   -> per event [outputs; snapshot]   (conn_run_from plus the event [9; [max_payload; max_frag; max_frags]]) *)
Definition u_conn_run_mtu (v : V) : V :=
  let e := env_of_V (vnth v 0) in
  let i := vnth v 1 in
  let k := as_int (vnth i 1) in
  let c := (conn0 (as_bool (vnth i 0)))
             <| c_key := if k =? -1 then None else Some k |>
             <| c_status := status_of_Z (as_int (vnth i 2)) |>
             <| c_seq_send := as_int (vnth i 4) |> <| c_seq_msg := as_int (vnth i 5) |> in
  let c := if as_int (vnth i 3) =? -1 then c else c <| c_last_recv := as_int (vnth i 3) |> in
  VL (run_snap_mtu e c (as_list (vnth v 2)) (as_bool (vnth v 3))).

Definition dispatch_connmtu (u : Z) (v : V) : option V :=
  match u with
  | 2210 => Some (u_conn_run_mtu v)
  | _ => None
  end.
