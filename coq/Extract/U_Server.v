(* U_Server.v — correspondence units for the server loop (ids 1001-1199).
   Encodings (V):
     addr    = [ip; port]                    hsx = [parse; version_ok; token; key; reply; ecdh]
     witem   = [addr; raw bytes; body; [hsx..]]        (body as in U_Conn.body_of_V)
     action  = [0; addr] (client.disconnect())  |  [1; addr; payload; retry; cbid] (client.send)
     resp    = [raises; [action..]]          the handler's behaviour at its n-th call = n-th resp
     step    = [td; ts; [witem..]; [rand..]; stop]
     hevent  = [0] starting | [1] shutdown | [2] update | [3; cid; addr; token] connect
             | [4; cid; seq; payload] message | [5; cid] disconnect
     sout    = [0; hevent] call | [1; hevent] call raised | [2; addr; header; sealed; payload] sendto
             | [3; cid; id; ok] callback | [4; addr] datagram error | [5; cid] update error
             | [6; cid; addr; token; key] hello accepted | [7; cid; token; key] challenge valid | [8; cause] died | [9; addr] send error *)
From RecordUpdate Require Import RecordUpdate.
From Model Require Import Base SeqNum Wire Conn Server.
From Extract Require Import U_Conn.
Import RecordSetNotations.
Open Scope Z_scope.

Definition addr_of_V (v : V) : addr := (as_int (vnth v 0), as_int (vnth v 1)).
Definition V_of_addr (a : addr) : V := VL [VI (fst a); VI (snd a)].

Definition hsx_of_V (v : V) : hsx :=
  {| x_parse := as_int (vnth v 0); x_version_ok := as_bool (vnth v 1); x_token := as_int (vnth v 2);
     x_key := as_int (vnth v 3); x_reply := as_bytes (vnth v 4); x_ecdh := as_int (vnth v 5) |}.

Definition witem_of_V (v : V) : witem :=
  {| w_addr := addr_of_V (vnth v 0); w_raw := as_bytes (vnth v 1); w_body := body_of_V (vnth v 2);
     w_hs := map hsx_of_V (as_list (vnth v 3)) |}.

Definition action_of_V (v : V) : haction :=
  match as_int (vnth v 0) with
  | 0 => ADisconnect (addr_of_V (vnth v 1))
  | _ => ASend (addr_of_V (vnth v 1)) (as_bytes (vnth v 2)) (retry_of_Z (as_int (vnth v 3))) (as_int (vnth v 4))
  end.
Definition resp_of_V (v : V) : hresp :=
  {| r_raises := as_bool (vnth v 0); r_acts := map action_of_V (as_list (vnth v 1)) |}.
Definition no_resp : hresp := {| r_acts := []; r_raises := false |}.
Definition oracle_of_script (l : list hresp) : horacle := fun n _ => nth (Z.to_nat n) l no_resp.

Definition sin_of_V (v : V) : sin :=
  {| i_td := as_int (vnth v 0); i_ts := as_int (vnth v 1); i_batch := map witem_of_V (as_list (vnth v 2));
     i_rand := map as_int (as_list (vnth v 3)); i_stop := as_bool (vnth v 4) |}.

Definition cfg_of_V (v : V) : cfg :=
  {| g_conn_timeout := as_int (vnth v 0); g_temp_timeout := as_int (vnth v 1);
     g_ka_interval := as_int (vnth v 2); g_out_timeout := as_int (vnth v 3) |}.

Definition V_of_hevent (e : hevent) : V :=
  match e with
  | HStarting => VL [VI 0] | HShutdown => VL [VI 1] | HUpdate => VL [VI 2]
  | HConnect cid a t => VL [VI 3; VI cid; V_of_addr a; VI t]
  | HMessage cid ms p => VL [VI 4; VI cid; VI ms; VB p]
  | HDisconnect cid => VL [VI 5; VI cid]
  end.

Definition V_of_sout (o : sout) : V :=
  match o with
  | SEv e => VL [VI 0; V_of_hevent e]
  | SExc e => VL [VI 1; V_of_hevent e]
  | SSend a h k p => VL [VI 2; V_of_addr a; V_of_header h; V_of_oz k; VB p]
  | SCb cid id ok => VL [VI 3; VI cid; VI id; vbool ok]
  | SDgramErr a => VL [VI 4; V_of_addr a]
  | SUpdErr cid => VL [VI 5; VI cid]
  | SHello cid a t k => VL [VI 6; VI cid; V_of_addr a; VI t; VI k]
  | SChalOk cid t k => VL [VI 7; VI cid; VI t; V_of_oz k]
  | SDied c => VL [VI 8; VI c]
  | SSendErr a => VL [VI 9; V_of_addr a]
  end.

Definition V_of_client (full : bool) (cl : client) : V :=
  VL [VI (cl_id cl); V_of_addr (cl_addr cl); VI (status_code (c_status (cl_conn cl)));
      VI (c_token (cl_conn cl)); V_of_oz (c_key (cl_conn cl));
      if full then snapshot (cl_conn cl) else VL []].
Definition V_of_srv (full : bool) (s : srv) : V :=
  VL [vbool (s_active s); vbool (s_dead s); VL (map (V_of_client full) (s_temp s));
      VL (map (V_of_client full) (s_conns s))].

(* per step: [outputs of D+U; state after D+U; outputs of S/send/X; state after the step] *)
Fixpoint run_steps (h : horacle) (e : env) (s : srv) (full : bool) (is : list V) : list V :=
  match is with
  | [] => []
  | i :: r =>
      let i' := sin_of_V i in
      if negb (s_active s) || s_dead s then VL [VL []; V_of_srv full s; VL []; V_of_srv full s] :: run_steps h e s full r
      else
        let '(s2, o2) := srv_du h e s i' in
        let '(s6, o6) := if s_dead s2 then (s2, []) else srv_sx h e s2 i' in
        VL [VL (map V_of_sout o2); V_of_srv full s2; VL (map V_of_sout o6); V_of_srv full s6]
        :: run_steps h e s6 full r
  end.

(* UNIT 1001 srv_run : [env; cfg; [blocked ip..]; [resp..]; [step..]; full] ->
   [[outputs of handler.starting(); state]; per step [outputs D+U; state; outputs S+send+X; state]] *)
Definition u_srv_run (v : V) : V :=
  let e := env_of_V (vnth v 0) in
  let h := oracle_of_script (map resp_of_V (as_list (vnth v 3))) in
  let full := as_bool (vnth v 5) in
  let s0 := srv0 (cfg_of_V (vnth v 1)) (map as_int (as_list (vnth v 2))) in
  let '(s1, o) := srv_start h e s0 in
  VL (VL [VL (map V_of_sout o); V_of_srv full s1] :: run_steps h e s1 full (as_list (vnth v 4))).

(* UNIT 1002 srv_gate : [[blocked ip..]; addr; raw] -> [0] dropped | [1; header] queued *)
Definition u_srv_gate (v : V) : V :=
  match gate (map as_int (as_list (vnth v 0)))
             {| w_addr := addr_of_V (vnth v 1); w_raw := as_bytes (vnth v 2); w_body := Bad; w_hs := [] |} with
  | None => VL [VI 0]
  | Some (_, d, _) => VL [VI 1; V_of_header (d_hdr d)]
  end.

(* UNIT 1003 srv_get_token : [[used..]; [rand..]] -> [0] never returns | [1; token; draws consumed] *)
Definition u_srv_get_token (v : V) : V :=
  let rand := map as_int (as_list (vnth v 1)) in
  match get_token (map as_int (as_list (vnth v 0))) rand with
  | None => VL [VI 0]
  | Some (t, rest) => VL [VI 1; VI t; VI (len rand - len rest)]
  end.

Definition dispatch_server (u : Z) (v : V) : option V :=
  match u with
  | 1001 => Some (u_srv_run v)
  | 1002 => Some (u_srv_gate v)
  | 1003 => Some (u_srv_get_token v)
  | _ => None
  end.
